import RsMatterVerif.Generated.Consts
/-!
# Model of the rs-matter TLV codec (`rs-matter/src/tlv.rs`, `tlv/read.rs`, `tlv/write.rs`)

Bytes are `List UInt8`; a Rust slice `&[u8]` is a list, `get(n..)`/`get(..n)` are `drop`/`take`
guarded by the bounds check that the Rust performs.  `usize` is `Nat` with the explicit
arithmetic of the code: an unchecked `+`/`-` is `addUsize`/`subUsize` (panic on overflow, as the
debug / overflow-checks build does), a `checked_add(..).ok_or(TLVTypeMismatch)` is `checkedAdd`.
Every `unwrap!`, `unreachable!`, slice index is a `Res.panic` in the model, every `loop`/`while`
runs on fuel and reports `Res.panic .fuel` when the fuel is exhausted, so that
"never panics / always terminates" is a theorem about the model (Props/C16), not an assumption.

The one integer that is **not** a `usize`: the nesting counter `level` of `container_next` /
`container_value_len` is an `i32` (literal fallback) and is modelled as a checked `i32` (`addI32`, `subI32`,
`I32LIM = 2^31`); this is why the no-panic theorems carry `len < 2^31`.

The model follows the tree *after* the `fix:` commits of C16 (checked length arithmetic, fused iterators,
`container_len` within the slice, `tlv_iter` nesting, `bytes_iter` 64-bit strings, `TLVWrite::tlv` refusing
strings that do not fit their length field, `Display` / `Debug` capped at `MAX_FMT_DEPTH` nested containers);
`Old.elemLen` and `Old.fmtOf` keep the previous arithmetic / recursion so that the failing witnesses stay
theorems, and `encode` is the truncating writer (`write` the fixed, fallible one).
Import-free (apart from the generated constants) so that the driver links as an executable.
-/
namespace Tlv

abbrev Bytes := List UInt8

/-- `usize::MAX + 1` on the 64-bit targets the harness runs on -/
def USIZE : Nat := 2 ^ 64

/-- `ErrorCode`s produced by the TLV reader (`depth` is the harness' own recursion cap). -/
inductive Err
  | mismatch     -- TLVTypeMismatch
  | invalidData  -- InvalidData
  | invalid      -- Invalid
  | notFound     -- NotFound
  | depth
deriving DecidableEq, Repr, Inhabited

inductive PanicKind
  | overflow | unwrap | unreachable | index | fuel
  | explicit  -- a literal `panic!(..)` in the code
deriving DecidableEq, Repr, Inhabited

/-- Outcome of a call into the code: value, `Err(code)`, or a panic / non-termination. -/
inductive Res (α : Type)
  | ok : α → Res α
  | err : Err → Res α
  | panic : PanicKind → Res α
deriving Repr, Inhabited, DecidableEq

namespace Res
def bind {α β : Type} (r : Res α) (f : α → Res β) : Res β :=
  match r with
  | ok a => f a
  | err e => err e
  | panic p => panic p
instance : Monad Res where
  pure := ok
  bind := bind
def isPanic {α : Type} : Res α → Bool
  | panic _ => true
  | _ => false
def isOk {α : Type} : Res α → Bool
  | ok _ => true
  | _ => false
end Res

def okOr {α : Type} (o : Option α) (e : Err) : Res α :=
  match o with
  | some a => .ok a
  | none => .err e

/-- unchecked `a + b` on `usize` (overflow-checks build: panic) -/
def addUsize (a b : Nat) : Res Nat := if a + b < USIZE then .ok (a + b) else .panic .overflow
/-- unchecked `a - b` on `usize` -/
def subUsize (a b : Nat) : Res Nat := if b ≤ a then .ok (a - b) else .panic .overflow
/-- `a.checked_add(b).ok_or(ErrorCode::TLVTypeMismatch)` -/
def checkedAdd (a b : Nat) : Res Nat := if a + b < USIZE then .ok (a + b) else .err .mismatch

/-- `i32::MAX + 1`.  The nesting counter `level` of `container_next` / `container_value_len`
(`let mut level = 1;` with no other constraint on its type) is an `i32` by integer-literal fallback. -/
def I32LIM : Nat := 2 ^ 31
/-- unchecked `a + b` on a non-negative `i32` (overflow-checks build: panic past `i32::MAX`) -/
def addI32 (a b : Nat) : Res Nat := if a + b < I32LIM then .ok (a + b) else .panic .overflow
/-- unchecked `a - b` on a non-negative `i32` whose result stays non-negative.  (With `b > a` the Rust
`i32` would become negative without a panic; the only caller runs under the loop guard `level > 0`
and subtracts 1, so that branch is unreachable — the model reports it as a panic, which only makes
the no-panic theorems stronger.) -/
def subI32 (a b : Nat) : Res Nat := if b ≤ a then .ok (a - b) else .panic .overflow

/-- `slice.get(n..)` -/
def getFrom (bs : Bytes) (n : Nat) : Option Bytes := if n ≤ bs.length then some (bs.drop n) else none
/-- `slice.get(..n)` -/
def getTo (bs : Bytes) (n : Nat) : Option Bytes := if n ≤ bs.length then some (bs.take n) else none

/-- little-endian value of a byte slice (`uN::from_le_bytes`) -/
def leVal : Bytes → Nat
  | [] => 0
  | b :: r => b.toNat + 256 * leVal r

/-- `n.to_le_bytes()` for a `k`-byte integer (truncating like `as uN`) -/
def leBytes : Nat → Nat → Bytes
  | 0, _ => []
  | k + 1, n => UInt8.ofNat (n % 256) :: leBytes k (n / 256)

/-- two's complement reading of a `k`-byte value (`iN::from_le_bytes`) -/
def toSigned (k : Nat) (n : Nat) : Int :=
  if n < 2 ^ (8 * k - 1) then (n : Int) else (n : Int) - (2 ^ (8 * k) : Nat)
/-- `iN as uN` bit pattern -/
def ofSigned (k : Nat) (i : Int) : Nat := (i % ((2 ^ (8 * k) : Nat) : Int)).toNat

/-! ## Control byte -/

/-- length-field / integer widths -/
inductive Width | w1 | w2 | w4 | w8
deriving DecidableEq, Repr, Inhabited

def Width.bytes : Width → Nat
  | .w1 => 1 | .w2 => 2 | .w4 => 4 | .w8 => 8
def Width.idx : Width → Nat
  | .w1 => 0 | .w2 => 1 | .w4 => 2 | .w8 => 3
def Width.ofIdx : Nat → Width
  | 0 => .w1 | 1 => .w2 | 2 => .w4 | _ => .w8

inductive Kind | struct | array | list
deriving DecidableEq, Repr, Inhabited
def Kind.idx : Kind → Nat
  | .struct => 0 | .array => 1 | .list => 2

/-- `TLVValueType` (25 values, grouped by width: `S8..S64` = `sint w`, `Utf8l..Utf64l` = `utf8 w`, …) -/
inductive ValueType
  | sint (w : Width) | uint (w : Width) | bfalse | btrue | f32 | f64
  | utf8 (w : Width) | str (w : Width) | null | cont (k : Kind) | endCnt
deriving DecidableEq, Repr, Inhabited

def ValueType.code : ValueType → Nat
  | .sint w => w.idx | .uint w => 4 + w.idx | .bfalse => 8 | .btrue => 9 | .f32 => 10 | .f64 => 11
  | .utf8 w => 12 + w.idx | .str w => 16 + w.idx | .null => 20 | .cont k => 21 + k.idx | .endCnt => 24

/-- `FromPrimitive::from_u8` on `TLVValueType` -/
def ValueType.ofCode (n : Nat) : Option ValueType :=
  if n < 4 then some (.sint (Width.ofIdx n))
  else if n < 8 then some (.uint (Width.ofIdx (n - 4)))
  else if n = 8 then some .bfalse
  else if n = 9 then some .btrue
  else if n = 10 then some .f32
  else if n = 11 then some .f64
  else if n < 16 then some (.utf8 (Width.ofIdx (n - 12)))
  else if n < 20 then some (.str (Width.ofIdx (n - 16)))
  else if n = 20 then some .null
  else if n = 21 then some (.cont .struct)
  else if n = 22 then some (.cont .array)
  else if n = 23 then some (.cont .list)
  else if n = 24 then some .endCnt
  else none

/-- `TLVValueType::fixed_size` -/
def ValueType.fixedSize : ValueType → Option Nat
  | .sint w => some w.bytes | .uint w => some w.bytes
  | .f32 => some 4 | .f64 => some 8
  | .utf8 _ => none | .str _ => none
  | _ => some 0
/-- `TLVValueType::variable_size_len` -/
def ValueType.varSizeLen : ValueType → Nat
  | .utf8 w => w.bytes | .str w => w.bytes | _ => 0
def ValueType.isContainerStart : ValueType → Bool
  | .cont _ => true | _ => false
def ValueType.isContainerEnd : ValueType → Bool
  | .endCnt => true | _ => false
/-- `TLVValueType::is_container`: start **or end** -/
def ValueType.isContainer (v : ValueType) : Bool := v.isContainerStart || v.isContainerEnd
def ValueType.isStr : ValueType → Bool
  | .str _ => true | _ => false
def ValueType.isUtf8 : ValueType → Bool
  | .utf8 _ => true | _ => false

/-- `TLVTagType` -/
inductive TagType
  | anon | ctx | commonPrf16 | commonPrf32 | implPrf16 | implPrf32 | fullQual48 | fullQual64
deriving DecidableEq, Repr, Inhabited

def TagType.code : TagType → Nat
  | .anon => 0 | .ctx => 1 | .commonPrf16 => 2 | .commonPrf32 => 3
  | .implPrf16 => 4 | .implPrf32 => 5 | .fullQual48 => 6 | .fullQual64 => 7
def TagType.ofCode : Nat → Option TagType
  | 0 => some .anon | 1 => some .ctx | 2 => some .commonPrf16 | 3 => some .commonPrf32
  | 4 => some .implPrf16 | 5 => some .implPrf32 | 6 => some .fullQual48 | 7 => some .fullQual64
  | _ => none
/-- `TLVTagType::size` -/
def TagType.size : TagType → Nat
  | .anon => 0 | .ctx => 1 | .commonPrf16 => 2 | .commonPrf32 => 4
  | .implPrf16 => 2 | .implPrf32 => 4 | .fullQual48 => 6 | .fullQual64 => 8

structure Control where
  tag : TagType
  vt : ValueType
deriving DecidableEq, Repr, Inhabited

/-- `TLVControl::parse`: `(control & 0xe0) >> 5`, `control & 0x1f` -/
def Control.parse (b : UInt8) : Res Control := do
  let tt ← okOr (TagType.ofCode (b.toNat / 32)) .mismatch
  let vt ← okOr (ValueType.ofCode (b.toNat % 32)) .mismatch
  pure ⟨tt, vt⟩
/-- `TLVControl::as_raw` -/
def Control.raw (c : Control) : UInt8 := UInt8.ofNat (c.tag.code * 32 + c.vt.code)
/-- `TLVControl::is_container_end`: anonymous **and** `EndCnt` -/
def Control.isContainerEnd (c : Control) : Bool := c.tag == .anon && c.vt.isContainerEnd
def Control.confirmContainerEnd (c : Control) : Res Unit :=
  if c.isContainerEnd then .ok () else .err .invalidData

/-! ## `TLVSequence` private helpers (read.rs 964–1142) -/

/-- `TLVSequence::control` -/
def control (bs : Bytes) : Res Control :=
  match bs with
  | [] => .err .mismatch
  | b :: _ => Control.parse b

/-- `tag_start`: `self.0.get(1..)` -/
def tagStart (bs : Bytes) : Res Bytes := okOr (getFrom bs 1) .mismatch

/-- `tag(tag_type)` -/
def tagSlice (bs : Bytes) (tt : TagType) : Res Bytes := do
  let s ← tagStart bs
  okOr (getTo s tt.size) .mismatch

/-- `value_len_start`: `unwrap!(self.tag_start()).get(size..)` — the `unwrap!` panics on an empty slice -/
def valueLenStart (bs : Bytes) (tt : TagType) : Res Bytes :=
  match tagStart bs with
  | .ok s => okOr (getFrom s tt.size) .mismatch
  | .err _ => .panic .unwrap
  | .panic p => .panic p

/-- `value_start` -/
def valueStart (bs : Bytes) (c : Control) : Res Bytes := do
  let s ← valueLenStart bs c.tag
  okOr (getFrom s c.vt.varSizeLen) .mismatch

/-- `value_len` (the `u64 as usize` cast is the identity on 64-bit) -/
def valueLen (bs : Bytes) (c : Control) : Res Nat :=
  match c.vt.fixedSize with
  | some n => .ok n
  | none => do
    let sizeLen := c.vt.varSizeLen
    let s ← valueLenStart bs c.tag
    let sl ← okOr (getTo s sizeLen) .mismatch
    if sizeLen = 1 ∨ sizeLen = 2 ∨ sizeLen = 4 ∨ sizeLen = 8 then
      if sl.length = sizeLen then .ok (leVal sl) else .panic .unwrap
    else .panic .unreachable

/-- `value`: exact value slice of a non-container -/
def value (bs : Bytes) (c : Control) : Res Bytes := do
  let n ← valueLen bs c
  let s ← valueStart bs c
  okOr (getTo s n) .mismatch

/-- `next_start` -/
def nextStart (bs : Bytes) (c : Control) : Res Bytes := do
  let n ← valueLen bs c
  let s ← valueStart bs c
  okOr (getFrom s n) .mismatch

/-- `next_enter` -/
def nextEnter (bs : Bytes) : Res Bytes :=
  if bs.isEmpty then .ok [] else do
    let c ← control bs
    nextStart bs c

/-- header length `1 + tag_size + variable_size_len` (small constants: cannot overflow) -/
def hdrLen (c : Control) : Nat := 1 + c.tag.size + c.vt.varSizeLen

/-- `TLVSequence::len` after the fix: `hdr.checked_add(value_len).ok_or(TLVTypeMismatch)` -/
def elemLen (bs : Bytes) : Res Nat := do
  let c ← control bs
  let n ← valueLen bs c
  checkedAdd (hdrLen c) n

namespace Old
/-- `TLVSequence::len` before the fix: unchecked `1 + tag + lenlen + value_len` -/
def elemLen (bs : Bytes) : Res Nat := do
  let c ← control bs
  let n ← valueLen bs c
  addUsize (hdrLen c) n
end Old

/-- the level bookkeeping shared by `container_next` and `container_value_len`:
`if end { confirm; level -= 1 } else if is_container { level += 1 }`.
`level` is an **`i32`** in the Rust (read.rs: `let mut level = 1; while level > 0 { … }`), so the
increment is a checked `i32` addition: the overflow-checks build panics when `level` would pass
`i32::MAX = 2^31 − 1` (`Tlv.levelStep_overflow`; whole run: `C16.level_overflow_reachable` in Props/C16), the release build wraps to a
negative value and leaves the loop.  The no-panic theorems therefore carry the hypothesis
`len < 2^31`: every container start costs at least one byte, so the counter stays below `2^31`. -/
def levelStep (c : Control) (level : Nat) : Res Nat :=
  if c.vt.isContainerEnd then do
    c.confirmContainerEnd
    subI32 level 1
  else if c.vt.isContainer then addI32 level 1
  else .ok level

/-- the `while level > 0` loop of `container_next` -/
def skipLoop : Nat → Bytes → Nat → Res Bytes
  | _, next, 0 => .ok next
  | 0, _, _ + 1 => .panic .fuel
  | f + 1, next, level + 1 => do
    let c ← control next
    let level' ← levelStep c (level + 1)
    let next' ← nextEnter next
    skipLoop f next' level'

/-- `container_next` -/
def containerNext (bs : Bytes) : Res Bytes :=
  if bs.isEmpty then .ok [] else do
    let c ← control bs
    if c.vt.isContainerEnd then do
      c.confirmContainerEnd
      pure bs
    else do
      let next ← nextEnter bs
      if c.vt.isContainer then skipLoop bs.length next 1 else pure next

/-- `current`: the element at the head of a sequence, the empty element at the end -/
def current (bs : Bytes) : Res Bytes :=
  if bs.isEmpty then .ok [] else do
    let c ← control bs
    if c.vt.isContainerEnd then do
      c.confirmContainerEnd
      pure []
    else pure bs

/-- the `while level > 0` loop of `container_value_len` (fixed: `len.checked_add(next.len()?)`) -/
def cvlLoop : Nat → Bytes → Nat → Nat → Res Nat
  | _, _, len, 0 => .ok len
  | 0, _, _, _ + 1 => .panic .fuel
  | f + 1, next, len, level + 1 => do
    let next' ← nextEnter next
    let l ← elemLen next'
    let len' ← checkedAdd len l
    let c ← control next'
    let level' ← levelStep c (level + 1)
    cvlLoop f next' len' level'

/-- `container_value_len` -/
def containerValueLen (bs : Bytes) (c : Control) : Res Nat :=
  if c.vt.isContainer then cvlLoop (bs.length + 1) bs 0 1 else valueLen bs c

/-- `container_value` -/
def containerValue (bs : Bytes) (c : Control) : Res Bytes := do
  let n ← containerValueLen bs c
  let s ← valueStart bs c
  okOr (getTo s n) .mismatch

/-- `container_len` after the fixes: checked sum, and an error when it exceeds the slice -/
def containerLen (bs : Bytes) : Res Nat := do
  let c ← control bs
  let n ← containerValueLen bs c
  let len ← checkedAdd (hdrLen c) n
  if len ≤ bs.length then pure len else .err .mismatch

/-- `TLVSequence::raw_value` / `TLVElement::raw_value` -/
def rawValue (bs : Bytes) : Res Bytes := do
  let c ← control bs
  containerValue bs c

/-! ## Tags and values -/

/-- `TLVTag` -/
inductive Tag
  | anon | ctx (n : Nat) | commonPrf16 (n : Nat) | commonPrf32 (n : Nat)
  | implPrf16 (n : Nat) | implPrf32 (n : Nat)
  | fullQual48 (vendor profile tag : Nat) | fullQual64 (vendor profile tag : Nat)
deriving DecidableEq, Repr, Inhabited

def Tag.type : Tag → TagType
  | .anon => .anon | .ctx _ => .ctx | .commonPrf16 _ => .commonPrf16 | .commonPrf32 _ => .commonPrf32
  | .implPrf16 _ => .implPrf16 | .implPrf32 _ => .implPrf32
  | .fullQual48 .. => .fullQual48 | .fullQual64 .. => .fullQual64

/-- tag payload as `TLVWrite::raw_value` emits it -/
def Tag.bytes : Tag → Bytes
  | .anon => []
  | .ctx n => leBytes 1 n
  | .commonPrf16 n => leBytes 2 n
  | .commonPrf32 n => leBytes 4 n
  | .implPrf16 n => leBytes 2 n
  | .implPrf32 n => leBytes 4 n
  | .fullQual48 v p t => leBytes 2 v ++ leBytes 2 p ++ leBytes 2 t
  | .fullQual64 v p t => leBytes 2 v ++ leBytes 2 p ++ leBytes 4 t

def Tag.wf : Tag → Prop
  | .anon => True
  | .ctx n => n < 2 ^ 8
  | .commonPrf16 n => n < 2 ^ 16
  | .commonPrf32 n => n < 2 ^ 32
  | .implPrf16 n => n < 2 ^ 16
  | .implPrf32 n => n < 2 ^ 32
  | .fullQual48 v p t => v < 2 ^ 16 ∧ p < 2 ^ 16 ∧ t < 2 ^ 16
  | .fullQual64 v p t => v < 2 ^ 16 ∧ p < 2 ^ 16 ∧ t < 2 ^ 32

/-- `slice.try_into::<[u8; n]>()` under `unwrap!` -/
def arr (s : Bytes) (n : Nat) : Res Bytes := if s.length = n then .ok s else .panic .unwrap

/-- `TLVElement::tag` -/
def tagOf (bs : Bytes) : Res Tag := do
  let c ← control bs
  let ts ← tagStart bs
  let s ← okOr (getTo ts c.tag.size) .mismatch
  match c.tag with
  | .anon => pure .anon
  | .ctx => match s with
    | b :: _ => pure (.ctx b.toNat)
    | [] => .panic .index
  | .commonPrf16 => do let a ← arr s 2; pure (.commonPrf16 (leVal a))
  | .commonPrf32 => do let a ← arr s 4; pure (.commonPrf32 (leVal a))
  | .implPrf16 => do let a ← arr s 2; pure (.implPrf16 (leVal a))
  | .implPrf32 => do let a ← arr s 4; pure (.implPrf32 (leVal a))
  | .fullQual48 =>
    if 6 ≤ s.length then pure (.fullQual48 (leVal (s.take 2)) (leVal ((s.drop 2).take 2)) (leVal ((s.drop 4).take 2)))
    else .panic .index
  | .fullQual64 =>
    if 8 ≤ s.length then pure (.fullQual64 (leVal (s.take 2)) (leVal ((s.drop 2).take 2)) (leVal ((s.drop 4).take 4)))
    else .panic .index

/-- the non-container part of `TLVValue`, with the width the writer API is called with;
floats are carried by bit pattern -/
inductive Prim
  | sint (w : Width) (i : Int) | uint (w : Width) (n : Nat) | bool (b : Bool)
  | f32 (bits : Nat) | f64 (bits : Nat)
  | utf8 (w : Width) (b : Bytes) | str (w : Width) (b : Bytes) | null
deriving DecidableEq, Repr, Inhabited

/-- `TLVValue` as returned by `TLVElement::value` -/
inductive TVal
  | prim (p : Prim) | cont (k : Kind) | endCnt
deriving DecidableEq, Repr, Inhabited

def Prim.vt : Prim → ValueType
  | .sint w _ => .sint w | .uint w _ => .uint w
  | .bool false => .bfalse | .bool true => .btrue
  | .f32 _ => .f32 | .f64 _ => .f64
  | .utf8 w _ => .utf8 w | .str w _ => .str w | .null => .null

/-- `core::str::from_utf8(..).is_ok()` (Unicode table 3-7: no overlongs, no surrogates, ≤ U+10FFFF) -/
def validUtf8 : Bytes → Bool
  | [] => true
  | b0 :: r =>
    let x := b0.toNat
    let tail (n : Nat) : Bool := 0x80 ≤ n && n ≤ 0xBF
    if x < 0x80 then validUtf8 r
    else if 0xC2 ≤ x && x ≤ 0xDF then
      match r with
      | b1 :: r1 => tail b1.toNat && validUtf8 r1
      | _ => false
    else if 0xE0 ≤ x && x ≤ 0xEF then
      match r with
      | b1 :: b2 :: r2 =>
        let y := b1.toNat
        (if x = 0xE0 then 0xA0 ≤ y && y ≤ 0xBF else if x = 0xED then 0x80 ≤ y && y ≤ 0x9F else tail y)
          && tail b2.toNat && validUtf8 r2
      | _ => false
    else if 0xF0 ≤ x && x ≤ 0xF4 then
      match r with
      | b1 :: b2 :: b3 :: r3 =>
        let y := b1.toNat
        (if x = 0xF0 then 0x90 ≤ y && y ≤ 0xBF else if x = 0xF4 then 0x80 ≤ y && y ≤ 0x8F else tail y)
          && tail b2.toNat && tail b3.toNat && validUtf8 r3
      | _ => false
    else false

/-- `TLVElement::value` -/
def valueOf (bs : Bytes) : Res TVal := do
  let c ← control bs
  let s ← containerValue bs c
  match c.vt with
  | .sint w => do let a ← arr s w.bytes; pure (.prim (.sint w (toSigned w.bytes (leVal a))))
  | .uint w => do let a ← arr s w.bytes; pure (.prim (.uint w (leVal a)))
  | .bfalse => pure (.prim (.bool false))
  | .btrue => pure (.prim (.bool true))
  | .f32 => do let a ← arr s 4; pure (.prim (.f32 (leVal a)))
  | .f64 => do let a ← arr s 8; pure (.prim (.f64 (leVal a)))
  | .utf8 w => if validUtf8 s then pure (.prim (.utf8 w s)) else .err .mismatch
  | .str w => pure (.prim (.str w s))
  | .null => pure (.prim .null)
  | .cont k => pure (.cont k)
  | .endCnt => pure .endCnt

/-- `self.0.value(control)?.try_into().map_err(|_| InvalidData)` -/
def fixedVal (bs : Bytes) (c : Control) (n : Nat) : Res Nat := do
  let s ← value bs c
  if s.length = n then pure (leVal s) else .err .invalidData

def i8 (bs : Bytes) : Res Int := do
  let c ← control bs
  if c.vt = .sint .w1 then do let v ← fixedVal bs c 1; pure (toSigned 1 v) else .err .mismatch
def u8 (bs : Bytes) : Res Nat := do
  let c ← control bs
  if c.vt = .uint .w1 then fixedVal bs c 1 else .err .mismatch
def i16 (bs : Bytes) : Res Int := do
  let c ← control bs
  if c.vt = .sint .w2 then do let v ← fixedVal bs c 2; pure (toSigned 2 v) else i8 bs
def u16 (bs : Bytes) : Res Nat := do
  let c ← control bs
  if c.vt = .uint .w2 then fixedVal bs c 2 else u8 bs
def i32 (bs : Bytes) : Res Int := do
  let c ← control bs
  if c.vt = .sint .w4 then do let v ← fixedVal bs c 4; pure (toSigned 4 v) else i16 bs
def u32 (bs : Bytes) : Res Nat := do
  let c ← control bs
  if c.vt = .uint .w4 then fixedVal bs c 4 else u16 bs
def i64 (bs : Bytes) : Res Int := do
  let c ← control bs
  if c.vt = .sint .w8 then do let v ← fixedVal bs c 8; pure (toSigned 8 v) else i32 bs
def u64 (bs : Bytes) : Res Nat := do
  let c ← control bs
  if c.vt = .uint .w8 then fixedVal bs c 8 else u32 bs
def f32 (bs : Bytes) : Res Nat := do
  let c ← control bs
  if c.vt = .f32 then fixedVal bs c 4 else .err .mismatch
def f64 (bs : Bytes) : Res Nat := do
  let c ← control bs
  if c.vt = .f64 then fixedVal bs c 8 else .err .mismatch

/-- `TLVElement::str` -/
def strOf (bs : Bytes) : Res Bytes := do
  let c ← control bs
  if !c.vt.isStr then .err .invalid else value bs c
/-- `TLVElement::utf8` -/
def utf8Of (bs : Bytes) : Res Bytes := do
  let c ← control bs
  if !c.vt.isUtf8 then .err .invalid else do
    let s ← value bs c
    if validUtf8 s then pure s else .err .invalidData
/-- `TLVElement::octets` -/
def octetsOf (bs : Bytes) : Res Bytes := do
  let c ← control bs
  if c.vt.varSizeLen = 0 then .err .invalid else value bs c
def boolOf (bs : Bytes) : Res Bool := do
  let c ← control bs
  match c.vt with
  | .bfalse => pure false
  | .btrue => pure true
  | _ => .err .mismatch
def isContainerOf (bs : Bytes) : Res Bool := do
  let c ← control bs
  pure c.vt.isContainer
def nullOf (bs : Bytes) : Res Unit := do
  let c ← control bs
  if c.vt = .null then pure () else .err .invalidData
/-- `structure` / `r#struct` -/
def structOf (bs : Bytes) : Res Bytes := do
  let c ← control bs
  if c.vt = .cont .struct then nextEnter bs else .err .mismatch
def arrayOf (bs : Bytes) : Res Bytes := do
  let c ← control bs
  if c.vt = .cont .array then nextEnter bs else .err .invalidData
def listOf (bs : Bytes) : Res Bytes := do
  let c ← control bs
  if c.vt = .cont .list then nextEnter bs else .err .mismatch
def containerOf (bs : Bytes) : Res Bytes := do
  let c ← control bs
  if c.vt.isContainerStart then nextEnter bs else .err .mismatch
def confirmAnon (bs : Bytes) : Res Unit := do
  let c ← control bs
  if c.tag = .anon then pure () else .err .mismatch
/-- `try_ctx` -/
def tryCtx (bs : Bytes) : Res (Option Nat) := do
  let c ← control bs
  if c.tag = .ctx then do
    let s ← tagSlice bs c.tag
    match s with
    | b :: _ => pure (some b.toNat)
    | [] => .err .mismatch
  else pure none
def ctxOf (bs : Bytes) : Res Nat := do
  let o ← tryCtx bs
  okOr o .mismatch

/-! ## Iteration (`TLVSequenceIter`, fused after the fix) -/

/-- one call of `TLVSequenceIter::next` on state `seq`: the item (if any) and the new state.
`current().and_then(|c| advance().map(|_| c))`, `None` for the empty element; after the fix an
error empties the iterator. -/
def iterNext (seq : Bytes) : Option (Res Bytes) × Bytes :=
  match current seq with
  | .ok cur =>
    match containerNext seq with
    | .ok seq' => if cur.isEmpty then (none, seq') else (some (.ok cur), seq')
    | .err e => (some (.err e), [])
    | .panic p => (some (.panic p), [])
  | .err e => (some (.err e), [])
  | .panic p => (some (.panic p), [])

/-- the whole iteration as a list; `fuel` bounds the number of `next` calls -/
def elementsF : Nat → Bytes → List (Res Bytes)
  | 0, _ => [.panic .fuel]
  | f + 1, seq =>
    match iterNext seq with
    | (none, _) => []
    | (some r, seq') => r :: elementsF f seq'

/-- `seq.iter()` consumed to the end -/
def elements (seq : Bytes) : List (Res Bytes) := elementsF (seq.length + 1) seq

/-- `find_ctx`: `for elem in self.iter() { let elem = elem?; if elem.try_ctx()? == Some(ctx) { return Ok(elem) } }` -/
def findCtxGo (ctx : Nat) : List (Res Bytes) → Res Bytes
  | [] => .ok []
  | r :: rest => do
    let e ← r
    let o ← tryCtx e
    if o = some ctx then pure e else findCtxGo ctx rest
def findCtx (seq : Bytes) (ctx : Nat) : Res Bytes := findCtxGo ctx (elements seq)
/-- `TLVSequence::ctx` -/
def seqCtx (seq : Bytes) (ctx : Nat) : Res Bytes := do
  let e ← findCtx seq ctx
  if e.isEmpty then .err .notFound else pure e

/-- `scan_ctx` through `scan_map`: result element and the advanced sequence -/
def scanCtxF : Nat → Bytes → Nat → Res (Bytes × Bytes)
  | 0, _, _ => .panic .fuel
  | f + 1, seq, ctx => do
    let e ← current seq
    if e.isEmpty then pure (e, seq) else do
      let o ← tryCtx e
      let stop : Option Bytes :=
        match o with
        | some x => if x = ctx then some e else if x > ctx then some [] else none
        | none => none
      match stop with
      | some r => pure (r, seq)
      | none => do
        let seq' ← containerNext seq
        scanCtxF f seq' ctx
def scanCtx (seq : Bytes) (ctx : Nat) : Res (Bytes × Bytes) := scanCtxF (seq.length + 1) seq ctx

/-! ## Writer (`TLVWrite`) -/

/-- control byte + tag payload, as `TLVWrite::raw_value` starts every element -/
def header (t : Tag) (vt : ValueType) : Bytes := Control.raw ⟨t.type, vt⟩ :: t.bytes

/-- length field and payload of a primitive as `TLVWrite::tlv` emits them -/
def Prim.payload : Prim → Bytes
  | .sint w i => leBytes w.bytes (ofSigned w.bytes i)
  | .uint w n => leBytes w.bytes n
  | .bool _ => []
  | .f32 b => leBytes 4 b
  | .f64 b => leBytes 8 b
  | .utf8 w b => leBytes w.bytes b.length ++ b
  | .str w b => leBytes w.bytes b.length ++ b
  | .null => []

def Prim.wf : Prim → Prop
  | .sint w i => -(2 ^ (8 * w.bytes - 1) : Nat) ≤ i ∧ i < (2 ^ (8 * w.bytes - 1) : Nat)
  | .uint w n => n < 2 ^ (8 * w.bytes)
  | .bool _ => True
  | .f32 b => b < 2 ^ 32
  | .f64 b => b < 2 ^ 64
  | .utf8 w b => b.length < 2 ^ (8 * w.bytes) ∧ validUtf8 b = true
  | .str w b => b.length < 2 ^ (8 * w.bytes)
  | .null => True

/-- what the Rust types of `TLVValue` enforce by themselves: integers in the range of their width
(`S8(i8)` …), float bit patterns of their size, `Utf*l(&str)` valid UTF-8 -/
def Prim.typed : Prim → Prop
  | .sint w i => -(2 ^ (8 * w.bytes - 1) : Nat) ≤ i ∧ i < (2 ^ (8 * w.bytes - 1) : Nat)
  | .uint w n => n < 2 ^ (8 * w.bytes)
  | .f32 b => b < 2 ^ 32
  | .f64 b => b < 2 ^ 64
  | .utf8 _ b => validUtf8 b = true
  | _ => True

/-- the one thing the types do **not** enforce: the length of a string fits the length field of the
element type it is written with (`Str8l(&[u8])` can hold a 300-byte slice).  This is the check
`TLVWrite::tlv` performs since the fix `C16-writer-length-truncation` (`uN::try_from(a.len())`). -/
def Prim.lenFits : Prim → Bool
  | .utf8 w b => decide (b.length < 2 ^ (8 * w.bytes))
  | .str w b => decide (b.length < 2 ^ (8 * w.bytes))
  | _ => true

/-- `TLVWrite::u16/u32/u64`: the smallest width that holds the value -/
def Prim.mkUint (n : Nat) : Prim :=
  if n ≤ 0xff then .uint .w1 n else if n ≤ 0xffff then .uint .w2 n
  else if n ≤ 0xffffffff then .uint .w4 n else .uint .w8 n
/-- `TLVWrite::i16/i32/i64` -/
def Prim.mkSint (i : Int) : Prim :=
  if -128 ≤ i ∧ i ≤ 127 then .sint .w1 i else if -32768 ≤ i ∧ i ≤ 32767 then .sint .w2 i
  else if -2147483648 ≤ i ∧ i ≤ 2147483647 then .sint .w4 i else .sint .w8 i
def lenWidth (n : Nat) : Width :=
  if n ≤ 0xff then .w1 else if n ≤ 0xffff then .w2 else if n ≤ 0xffffffff then .w4 else .w8
/-- `TLVWrite::str` / `stri` -/
def Prim.mkStr (b : Bytes) : Prim := .str (lenWidth b.length) b
/-- `TLVWrite::utf8` / `utf8i` -/
def Prim.mkUtf8 (b : Bytes) : Prim := .utf8 (lenWidth b.length) b

mutual
/-- a tree of TLV elements as the writer API takes it -/
inductive Value
  | leaf (t : Tag) (p : Prim)
  | cont (t : Tag) (k : Kind) (cs : Values)
deriving DecidableEq
inductive Values
  | nil
  | cons (v : Value) (vs : Values)
deriving DecidableEq
end

mutual
def Value.beq : Value → Value → Bool
  | .leaf t p, .leaf t' p' => t == t' && p == p'
  | .cont t k cs, .cont t' k' cs' => t == t' && k == k' && Values.beq cs cs'
  | _, _ => false
def Values.beq : Values → Values → Bool
  | .nil, .nil => true
  | .cons v vs, .cons v' vs' => Value.beq v v' && Values.beq vs vs'
  | _, _ => false
end

def endByte : UInt8 := 0x18

mutual
/-- the bytes the writer produces for a tree: `tlv`/`start_*` … `end_container` -/
def encode : Value → Bytes
  | .leaf t p => header t p.vt ++ p.payload
  | .cont t k cs => header t (.cont k) ++ (encodes cs ++ [endByte])
def encodes : Values → Bytes
  | .nil => []
  | .cons v vs => encode v ++ encodes vs
end

/-- `TLVWrite::tlv(tag, value)` **after the fix**: a string whose length does not fit the length field
of its element type is refused with `InvalidData` before any byte of that element is written (the model has no buffer
state: bytes written earlier — enclosing `start_*` headers, siblings — stay in the buffer); everything else is
written as `header ++ payload`.  (Before the fix — and still in the infallible iterator writer
`TLV::bytes_iter` / `TLVValueIter` — the length is cast with `as u8/u16/u32`: that is `encode`, whose
`leBytes w.bytes b.length` truncates the same way.) -/
def writeLeaf (t : Tag) (p : Prim) : Res Bytes :=
  if p.lenFits then .ok (header t p.vt ++ p.payload) else .err .invalidData

mutual
/-- a whole tree through the fallible writer: `tlv` for the leaves, `start_*` … `end_container`
around the children; the first refused leaf aborts (`?`) -/
def write : Value → Res Bytes
  | .leaf t p => writeLeaf t p
  | .cont t k cs => do
    let inner ← writes cs
    pure (header t (.cont k) ++ (inner ++ [endByte]))
def writes : Values → Res Bytes
  | .nil => pure []
  | .cons v vs => do
    let a ← write v
    let b ← writes vs
    pure (a ++ b)
end

/-! ### writer entry points that take a caller-side length (not expressible as a `Value`) -/

/-- `TLVWrite::stri(tag, len, data)` (`isUtf8 = false`) / `utf8i` (`true`): the element type is chosen from
the **caller-supplied** `len`, `len` is written as the length field, then whatever bytes the iterator yields
are appended.  The code never compares the two (its doc: "the length … must match the number of bytes returned
by the provided iterator, or else the generated TLV stream will be invalid") and `utf8i` never validates UTF-8.
`str(tag, data)` / `utf8(tag, s)` are `stri(tag, data.len(), data)` / `utf8i(tag, s.len(), s.bytes())`. -/
def writeStri (isUtf8 : Bool) (t : Tag) (len : Nat) (data : Bytes) : Bytes :=
  header t (if isUtf8 then .utf8 (lenWidth len) else .str (lenWidth len)) ++
    (leBytes (lenWidth len).bytes len ++ data)

/-- `WriteBuf::str_cb` (`isUtf8 = false`) / `utf8_cb` (`true`): a `Str16l` / `Utf16l` header is reserved, the
callback fills the free space and returns how many bytes it wrote (`data` = those bytes); `finalize_len_header`
rewrites the header to the 1-byte form for `≤ 255`, patches the 2-byte length for `≤ 65535` and otherwise runs
into a literal **`panic!("Callback wrote more data than the reserved header can encode")`**.  UTF-8 is never
validated.  (`NoSpace` and a callback error are not modelled.) -/
def writeStrCb (isUtf8 : Bool) (t : Tag) (data : Bytes) : Res Bytes :=
  if data.length ≤ 255 then
    .ok (header t (if isUtf8 then .utf8 .w1 else .str .w1) ++ (leBytes 1 data.length ++ data))
  else if data.length ≤ 65535 then
    .ok (header t (if isUtf8 then .utf8 .w2 else .str .w2) ++ (leBytes 2 data.length ++ data))
  else .panic .explicit

mutual
def Value.typed : Value → Prop
  | .leaf t p => t.wf ∧ p.typed
  | .cont t _ cs => t.wf ∧ cs.typed
def Values.typed : Values → Prop
  | .nil => True
  | .cons v vs => v.typed ∧ vs.typed
end

mutual
def Value.lenFits : Value → Bool
  | .leaf _ p => p.lenFits
  | .cont _ _ cs => cs.lenFits
def Values.lenFits : Values → Bool
  | .nil => true
  | .cons v vs => v.lenFits && vs.lenFits
end

mutual
def Value.depth : Value → Nat
  | .leaf _ _ => 1
  | .cont _ _ cs => cs.depth + 1
def Values.depth : Values → Nat
  | .nil => 0
  | .cons v vs => max v.depth vs.depth
end

mutual
def Value.wf : Value → Prop
  | .leaf t p => t.wf ∧ p.wf
  | .cont t _ cs => t.wf ∧ cs.wf
def Values.wf : Values → Prop
  | .nil => True
  | .cons v vs => v.wf ∧ vs.wf
end

def Values.ofList : List Value → Values
  | [] => .nil
  | v :: r => .cons v (Values.ofList r)
def Values.toList : Values → List Value
  | .nil => []
  | .cons v vs => v :: vs.toList

/-! ## Tree decoding with the public accessors (what the harness does with the real code) -/

/-- decode every item of an element iteration with `f`, stopping at the first error -/
def decodeSeq (f : Bytes → Res Value) : List (Res Bytes) → Res Values
  | [] => pure .nil
  | r :: rest => do
    let e ← r
    let c ← f e
    let cs ← decodeSeq f rest
    pure (.cons c cs)

/-- decode one element into a tree: `tag()`, `value()`, and for containers `container()?.iter()`
recursively; `d` caps the recursion depth (`Err.depth`). -/
def decodeTree : Nat → Bytes → Res Value
  | 0, _ => .err .depth
  | d + 1, bs => do
    let t ← tagOf bs
    let v ← valueOf bs
    match v with
    | .prim p => pure (.leaf t p)
    | .endCnt => .err .invalidData
    | .cont k => do
      let seq ← containerOf bs
      let kids ← decodeSeq (decodeTree d) (elements seq)
      pure (.cont t k kids)

/-! ## `TLVSequenceTLVIter` (`TLVSequence::tlv_iter`, after the fix) -/

/-- one call of `TLVSequenceTLVIter::next` on `(seq, nesting)`.  Container starts raise `nesting`,
the end markers of *nested* containers are yielded as `EndCnt` and lower it; the end marker seen at
`nesting = 0` (the end of the container this sequence is the content of) ends the iteration.
An error empties the iterator. -/
def tlvIterNext (seq : Bytes) (nesting : Nat) : Option (Res (Tag × TVal)) × Bytes × Nat :=
  if seq.isEmpty then (none, seq, nesting) else
  let r : Res (Option (Tag × TVal) × Bytes × Nat) := do
    let c ← control seq
    if c.vt.isContainerEnd then do
      c.confirmContainerEnd
      if nesting = 0 then pure (none, seq, nesting) else do
        let n ← subUsize nesting 1
        let seq' ← nextEnter seq
        pure (some (.anon, .endCnt), seq', n)
    else do
      let t ← tagOf seq
      let v ← valueOf seq
      let seq' ← nextEnter seq
      let n ← if c.vt.isContainerStart then addUsize nesting 1 else pure nesting
      pure (some (t, v), seq', n)
  match r with
  | .ok (none, s, n) => (none, s, n)
  | .ok (some x, s, n) => (some (.ok x), s, n)
  | .err e => (some (.err e), [], 0)
  | .panic p => (some (.panic p), [], 0)

def tlvElementsF : Nat → Bytes → Nat → List (Res (Tag × TVal))
  | 0, _, _ => [.panic .fuel]
  | f + 1, seq, nesting =>
    match tlvIterNext seq nesting with
    | (none, _, _) => []
    | (some r, seq', n') => r :: tlvElementsF f seq' n'

/-- `seq.tlv_iter()` consumed to the end -/
def tlvElements (seq : Bytes) : List (Res (Tag × TVal)) := tlvElementsF (seq.length + 1) seq 0

def TVal.vt : TVal → ValueType
  | .prim p => p.vt | .cont k => .cont k | .endCnt => .endCnt
def TVal.payload : TVal → Bytes
  | .prim p => p.payload | _ => []

/-- `TLV::bytes_iter`: control byte, tag bytes, value bytes (`TLVValueIter`, after the fix that
also emits the 8-byte-length strings) -/
def tlvBytes (x : Tag × TVal) : Bytes := header x.1 x.2.vt ++ x.2.payload

/-- bytes of a TLV iteration, stopping at the first error -/
def tlvConcat : List (Res (Tag × TVal)) → Res Bytes
  | [] => pure []
  | r :: rest => do
    let x ← r
    let tl ← tlvConcat rest
    pure (tlvBytes x ++ tl)

/-- `elem.tlv_iter(elem.tag()?)` flattened through `TLV::bytes_iter`, stopping at the first error
(`TLVElementTLVIter`: the element's own TLV, then `container()?.tlv_iter()`, then `EndCnt`) -/
def reencodeIter (bs : Bytes) : Res Bytes :=
  if bs.isEmpty then .ok [] else do
    let t ← tagOf bs
    let v ← valueOf bs
    match containerOf bs with
    | .ok seq => do
      let inner ← tlvConcat (tlvElements seq)
      pure (tlvBytes (t, v) ++ inner ++ [endByte])
    | _ => pure (tlvBytes (t, v))

/-! ## The remaining public accessors of `TLVElement` -/

/-- `TLVElement::tlv`: `tag()` then `value()` -/
def tlvOf (bs : Bytes) : Res (Tag × TVal) := do
  let t ← tagOf bs
  let v ← valueOf bs
  pure (t, v)

/-- `TLVElement::total_len`: the public wrapper of `container_len` -/
def totalLen (bs : Bytes) : Res Nat := containerLen bs

/-- `TLVElement::is_empty` (`non_empty` and `raw_data` are equally total functions of the slice) -/
def isEmptyOf (bs : Bytes) : Bool := bs.isEmpty

/-- the children loop of `TLVElement::fmt`: `for elem in container.iter() { elem.map_err(fmt::Error)?.fmt(..)? }` -/
def fmtSeq (f : Bytes → Res Unit) : List (Res Bytes) → Res Unit
  | [] => pure ()
  | r :: rest => do
    let e ← r
    f e
    fmtSeq f rest

namespace Old
/-- control flow of `TLVElement::fmt` **before** the fix `C16-fmt-recursion-stack`: `tag()`, `value()`, and for
`value_type().is_container()` — start **or end** — `container()?` and the **recursive** formatting of every
child with no depth cap; the model runs it on fuel (`.panic .fuel` = a recursion deeper than the fuel). -/
def fmtOf : Nat → Bytes → Res Unit
  | 0, _ => .panic .fuel
  | d + 1, bs => do
    let _ ← tagOf bs
    let v ← valueOf bs
    if v.vt.isContainer then do
      let seq ← containerOf bs
      fmtSeq (fmtOf d) (elements seq)
      match v.vt with
      | .cont _ => pure ()
      | _ => .panic .unreachable
    else pure ()
end Old

/-- what `TLVElement::fmt` does with the children of a container it does **not** descend into (depth cap
reached): `if let Some(elem) = elems.next() { elem.map_err(fmt::Error)?; write!(f, " ... ") }` -/
def fmtFirst : List (Res Bytes) → Res Unit
  | [] => pure ()
  | r :: _ => do
    let _ ← r
    pure ()

/-- one call of `TLVElement::fmt` (the body of `Display` and `Debug`; the `core::fmt::Write` sink is assumed
not to fail, every error of the reader becomes `fmt::Error`): `tag()`, `value()`, and for
`value_type().is_container()` — start **or end** — `container()?`, then `kids` on the children, then
`match value_type { Struct | Array | List => …, _ => unreachable!() }` -/
def fmtBody (kids : List (Res Bytes) → Res Unit) (bs : Bytes) : Res Unit := do
  let _ ← tagOf bs
  let v ← valueOf bs
  if v.vt.isContainer then do
    let seq ← containerOf bs
    kids (elements seq)
    match v.vt with
    | .cont _ => pure ()
    | _ => .panic .unreachable
  else pure ()

/-- `TLVElement::fmt(depth, f)` after the fix, indexed by the **remaining** depth budget
`rem = MAX_FMT_DEPTH − depth`: with budget left the children are formatted recursively with one less, at
`depth ≥ MAX_FMT_DEPTH` (`rem = 0`) the container is not entered (`fmtFirst`).  Structural recursion on the
budget: no fuel, and at most `rem + 1` nested calls whatever the input. -/
def fmtAt : Nat → Bytes → Res Unit
  | 0 => fmtBody fmtFirst
  | rem + 1 => fmtBody (fmtSeq (fmtAt rem))

/-- `Display` / `Debug` of a `TLVElement`: `self.fmt(0, f)` -/
def fmtOf (bs : Bytes) : Res Unit := fmtAt Consts.tlvMaxFmtDepth bs

/-- `TLVSequence::fmt(0, f)` (the body of `Display` / `Debug` of `TLVSequence` and of `TLVSequenceIter`):
`for elem in self.iter() { elem.map_err(fmt::Error)?.fmt(depth, f)? }` -/
def seqFmtOf (seq : Bytes) : Res Unit := fmtSeq (fmtAt Consts.tlvMaxFmtDepth) (elements seq)

/-! ## Re-encoding a decoded element (`ToTLV for TLVElement`) -/

/-- `elem.to_tlv(&elem.tag()?, tw)`: control + tag + (length field) + `raw_value()` -/
def reencode (bs : Bytes) : Res Bytes :=
  if bs.isEmpty then .ok [] else do
    let t ← tagOf bs
    let c ← control bs
    let payload ← rawValue bs
    let sizeLen := c.vt.varSizeLen
    if sizeLen > 0 then
      pure (header t c.vt ++ (leBytes 8 payload.length).take sizeLen ++ payload)
    else
      pure (header t c.vt ++ payload)

end Tlv
