/-!
# Shared model of `utils/storage/parsebuf.rs` (`ReadBuf`) and `writebuf.rs` (`WriteBuf`)

Bytes are `Nat` (a byte string is a `List Nat`; the harness only ever supplies values `< 256`;
encoders reduce explicitly with `% 256` exactly where Rust's `to_le_bytes` does).

Two levels:

* **Level 0** (`RBuf`, `WBuf`): the cursor arithmetic of the Rust structures, field by field
  (`read_off`/`left`, `buf_size`/`start`/`end`). Every slice / index expression of the Rust code is a
  *checked* operation here: out of bounds yields `Err.panic` (what Rust would do).
* **Level 1** (`Rd.*`, plain list functions): the view "remaining bytes" used by the codec models.

`Lemmas/CodecBuf.lean` proves that under the structure invariant (`off + left ≤ data.length`,
`start ≤ end ≤ buf_size ≤ buf.length`) each level-0 primitive equals the level-1 primitive on the
remaining bytes, preserves the invariant and never answers `Err.panic`.
-/
namespace Codec

/-- `ErrorCode`s that the modelled codecs can return, plus `panic` for "the Rust would panic". -/
inductive Err
  | truncated      -- ErrorCode::TruncatedPacket
  | invalid        -- ErrorCode::Invalid
  | invalidData    -- ErrorCode::InvalidData
  | invalidOpcode  -- ErrorCode::InvalidOpcode
  | noSpace        -- ErrorCode::NoSpace
  | bufferTooSmall -- ErrorCode::BufferTooSmall
  | crypto         -- ErrorCode::Crypto (AEAD tag mismatch)
  | panic          -- not an ErrorCode: the Rust code would panic here
deriving DecidableEq, Repr, Inhabited

def Err.name : Err → String
  | .truncated => "TruncatedPacket"
  | .invalid => "Invalid"
  | .invalidData => "InvalidData"
  | .invalidOpcode => "InvalidOpcode"
  | .noSpace => "NoSpace"
  | .bufferTooSmall => "BufferTooSmall"
  | .crypto => "Crypto"
  | .panic => "panic"

/-! ## little-endian helpers (what `to_le_bytes` / `from_le_bytes` do) -/

def le16 (x : Nat) : List Nat := [x % 256, x / 256 % 256]
def le32 (x : Nat) : List Nat := [x % 256, x / 256 % 256, x / 65536 % 256, x / 16777216 % 256]
def le64 (x : Nat) : List Nat := le32 (x % 4294967296) ++ le32 (x / 4294967296 % 4294967296)

def fromLe : List Nat → Nat
  | [] => 0
  | b :: r => b + 256 * fromLe r

/-! ## Level 1: list view of a `ReadBuf` (the bytes of `as_slice()`) -/
namespace Rd

def u8 : List Nat → Except Err (Nat × List Nat)
  | b :: r => .ok (b, r)
  | [] => .error .truncated

/-- `parse_as_array::<N>` -/
def arr (n : Nat) (l : List Nat) : Except Err (List Nat × List Nat) :=
  if n ≤ l.length then .ok (l.take n, l.drop n) else .error .truncated

def u16 (l : List Nat) : Except Err (Nat × List Nat) := do
  let (a, r) ← arr 2 l; pure (fromLe a, r)
def u32 (l : List Nat) : Except Err (Nat × List Nat) := do
  let (a, r) ← arr 4 l; pure (fromLe a, r)
def u64 (l : List Nat) : Except Err (Nat × List Nat) := do
  let (a, r) ← arr 8 l; pure (fromLe a, r)

/-- `tail(size)`: the last `size` bytes are cut off and returned. Result: (tail, rest). -/
def tail (n : Nat) (l : List Nat) : Except Err (List Nat × List Nat) :=
  if n ≤ l.length then .ok (l.drop (l.length - n), l.take (l.length - n)) else .error .truncated

end Rd

/-! ## Level 0: `ReadBuf { buf, read_off, left }` -/

structure RBuf where
  data : List Nat
  off : Nat
  left : Nat
deriving Repr, DecidableEq

namespace RBuf

def new (d : List Nat) : RBuf := { data := d, off := 0, left := d.length }

/-- checked `&buf[a..b]` -/
def slice (d : List Nat) (a b : Nat) : Except Err (List Nat) :=
  if a ≤ b ∧ b ≤ d.length then .ok ((d.drop a).take (b - a)) else .error .panic

/-- checked `buf[i]` -/
def index (d : List Nat) (i : Nat) : Except Err Nat :=
  match d[i]? with
  | some x => .ok x
  | none => .error .panic

/-- checked `usize` subtraction (debug builds panic on underflow; the harness builds with overflow checks) -/
def csub (a b : Nat) : Except Err Nat := if b ≤ a then .ok (a - b) else .error .panic

/-- `as_slice()` -/
def asSlice (b : RBuf) : Except Err (List Nat) := slice b.data b.off (b.off + b.left)

/-- `advance(len)` -/
def advance (b : RBuf) (n : Nat) : Except Err RBuf := do
  let l ← csub b.left n
  pure { b with off := b.off + n, left := l }

/-- `le_u8()` = `parse_head_with(1, |x| x.buf[x.read_off])` -/
def leU8 (b : RBuf) : Except Err (Nat × RBuf) :=
  if b.left ≥ 1 then do
    let x ← index b.data b.off
    let b' ← b.advance 1
    pure (x, b')
  else .error .truncated

/-- `parse_as_array::<N>(f)`. The `usize` addition `self.read_off + N` is *not* a checked operation of the model (no
wrap-around is represented): under the invariant `off + left ≤ data.length` and the guard `left ≥ N` it is bounded by the
length of a real slice (`≤ isize::MAX`), so it cannot overflow. -/
def parseArr (b : RBuf) (n : Nat) : Except Err (List Nat × RBuf) :=
  if b.left ≥ n then do
    let a ← slice b.data b.off (b.off + n)
    let b' ← b.advance n
    pure (a, b')
  else .error .truncated

def leU16 (b : RBuf) : Except Err (Nat × RBuf) := do let (a, b') ← b.parseArr 2; pure (fromLe a, b')
def leU32 (b : RBuf) : Except Err (Nat × RBuf) := do let (a, b') ← b.parseArr 4; pure (fromLe a, b')
def leU64 (b : RBuf) : Except Err (Nat × RBuf) := do let (a, b') ← b.parseArr 8; pure (fromLe a, b')

/-- `tail(size)` -/
def tail (b : RBuf) (n : Nat) : Except Err (List Nat × RBuf) :=
  if n ≤ b.left then do
    let e := b.off + b.left
    let s ← csub e n
    let t ← slice b.data s e
    let l ← csub b.left n
    pure (t, { b with left := l })
  else .error .truncated

def Inv (b : RBuf) : Prop := b.off + b.left ≤ b.data.length
instance (b : RBuf) : Decidable b.Inv := inferInstanceAs (Decidable (_ ≤ _))

/-- the bytes still to be read (abstraction function to level 1) -/
def rem (b : RBuf) : List Nat := (b.data.drop b.off).take b.left

end RBuf

/-! ## Level 0: `WriteBuf { buf, buf_size, start, end }` -/

structure WBuf where
  buf : List Nat
  bufSize : Nat
  start : Nat
  stop : Nat
deriving Repr, DecidableEq

namespace WBuf

/-- `WriteBuf::new(&mut [0; n])` -/
def new (n : Nat) : WBuf := { buf := List.replicate n 0, bufSize := n, start := 0, stop := 0 }

def Inv (w : WBuf) : Prop := w.start ≤ w.stop ∧ w.stop ≤ w.bufSize ∧ w.bufSize ≤ w.buf.length
instance (w : WBuf) : Decidable w.Inv := inferInstanceAs (Decidable (_ ∧ _))

/-- `as_slice()` -/
def asSlice (w : WBuf) : Except Err (List Nat) := RBuf.slice w.buf w.start w.stop

/-- written bytes (total version used as abstraction function) -/
def written (w : WBuf) : List Nat := (w.buf.drop w.start).take (w.stop - w.start)

/-- checked `buf[a..a+src.len()].copy_from_slice(src)` -/
def blit (d : List Nat) (a : Nat) (src : List Nat) : Except Err (List Nat) :=
  if a + src.length ≤ d.length then .ok (d.take a ++ src ++ d.drop (a + src.length)) else .error .panic

/-- `reserve(n)` -/
def reserve (w : WBuf) (n : Nat) : Except Err WBuf :=
  if w.stop ≠ 0 ∨ w.start ≠ 0 ∨ w.bufSize ≠ w.buf.length then .error .invalid
  else if n > w.bufSize then .error .noSpace
  else .ok { w with start := n, stop := n }

/-- `append(src)` = `copy_from_slice(src)` = `append_with(src.len(), …)` -/
def append (w : WBuf) (src : List Nat) : Except Err WBuf :=
  if w.stop + src.length ≤ w.bufSize then do
    let d ← blit w.buf w.stop src
    pure { w with buf := d, stop := w.stop + src.length }
  else .error .noSpace

def leU8 (w : WBuf) (x : Nat) : Except Err WBuf := w.append [x % 256]
def leU16 (w : WBuf) (x : Nat) : Except Err WBuf := w.append (le16 x)
def leU32 (w : WBuf) (x : Nat) : Except Err WBuf := w.append (le32 x)
def leU64 (w : WBuf) (x : Nat) : Except Err WBuf := w.append (le64 x)

/-- `prepend(src)` -/
def prepend (w : WBuf) (src : List Nat) : Except Err WBuf :=
  if src.length ≤ w.start then do
    let s ← RBuf.csub w.start src.length
    let d ← blit w.buf s src
    pure { w with buf := d, start := s }
  else .error .noSpace

end WBuf

/-! ## Level 1 view of a writer: a byte list plus a capacity.
`Wr.put cap acc bytes` = `NoSpace` if the result would exceed the capacity. -/
namespace Wr
def put (cap : Nat) (acc bytes : List Nat) : Except Err (List Nat) :=
  if acc.length + bytes.length ≤ cap then .ok (acc ++ bytes) else .error .noSpace
end Wr

/-! ## hex (driver side) -/
def hexDigit (c : Char) : Option Nat :=
  if '0' ≤ c ∧ c ≤ '9' then some (c.toNat - 48)
  else if 'a' ≤ c ∧ c ≤ 'f' then some (c.toNat - 87)
  else none

def unhexAux : List Char → List Nat → Option (List Nat)
  | [], acc => some acc.reverse
  | [_], _ => none
  | a :: b :: r, acc =>
    match hexDigit a, hexDigit b with
    | some x, some y => unhexAux r ((16 * x + y) :: acc)
    | _, _ => none

/-- `proto::hex` format: lowercase hex, `-` for the empty string -/
def unhex (s : String) : Option (List Nat) :=
  if s = "-" then some [] else unhexAux s.toList []

def hexNib (n : Nat) : Char := if n < 10 then Char.ofNat (48 + n) else Char.ofNat (87 + n)
def hex (l : List Nat) : String :=
  if l.isEmpty then "-" else String.ofList (l.flatMap fun b => [hexNib (b / 16 % 16), hexNib (b % 16)])

end Codec
