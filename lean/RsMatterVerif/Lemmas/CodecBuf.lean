import RsMatterVerif.Model.Codec.Buf
/-!
# Lemmas about the shared buffer model (`Model/Codec/Buf.lean`)

* `NoPanic` and the `no_panic` proof search used for every decoder's totality theorem;
* little-endian round trips (`fromLe (le16 x) = x` …);
* refinement of the level-0 cursor model (`RBuf`, `WBuf`) by the level-1 list view: under the
  structure invariant every primitive equals its list counterpart and never answers `Err.panic`.
-/
namespace Codec

/-- "the Rust code does not panic here": the model's answer is a value or a proper `ErrorCode`
(stated by cases so that tactics do not unfold it into an implication) -/
def NoPanic {α : Type} (r : Except Err α) : Prop :=
  match r with
  | .error .panic => False
  | _ => True

theorem noPanic_iff {α : Type} (r : Except Err α) : NoPanic r ↔ r ≠ .error .panic := by
  unfold NoPanic
  split <;> simp_all

namespace NoPanic
variable {α β : Type}
theorem ok (a : α) : NoPanic (.ok a : Except Err α) := by simp [NoPanic]
theorem pure (a : α) : NoPanic (Pure.pure a : Except Err α) := by simp [NoPanic, Pure.pure, Except.pure]
theorem err {e : Err} (h : e ≠ .panic) : NoPanic (.error e : Except Err α) := by
  rw [noPanic_iff]; simp [h]
theorem bind {x : Except Err α} {f : α → Except Err β} (hx : NoPanic x) (hf : ∀ a, NoPanic (f a)) :
    NoPanic (x >>= f) := by
  cases x with
  | error e => rw [noPanic_iff] at hx ⊢; simp [Bind.bind, Except.bind] at hx ⊢; exact hx
  | ok a => exact hf a
theorem ite {c : Prop} [Decidable c] {a b : Except Err α} (ha : NoPanic a) (hb : NoPanic b) :
    NoPanic (if c then a else b) := by split <;> assumption
end NoPanic

/-- structural proof search for `NoPanic` goals over do-blocks; facts about the primitives used by
the block are taken from the local context (`have := prim_np`) -/
macro "no_panic" : tactic => `(tactic| repeat' (first
  | assumption
  | apply NoPanic.ok
  | apply NoPanic.pure
  | exact NoPanic.err (by decide)
  | apply NoPanic.bind
  | apply NoPanic.ite
  | apply_assumption
  | intro _
  | split))

/-! ## little endian -/

theorem fromLe_le16 (x : Nat) (h : x < 65536) : fromLe (le16 x) = x := by
  simp [fromLe, le16]; omega
theorem fromLe_le32 (x : Nat) (h : x < 4294967296) : fromLe (le32 x) = x := by
  simp [fromLe, le32]; omega
theorem fromLe_le64 (x : Nat) (h : x < 18446744073709551616) : fromLe (le64 x) = x := by
  simp [fromLe, le64, le32]; omega

@[simp] theorem le16_length (x : Nat) : (le16 x).length = 2 := rfl
@[simp] theorem le32_length (x : Nat) : (le32 x).length = 4 := rfl
@[simp] theorem le64_length (x : Nat) : (le64 x).length = 8 := rfl

/-! ## level 1 readers on `bytes ++ rest` -/
namespace Rd

theorem u8_cons (b : Nat) (r : List Nat) : u8 (b :: r) = .ok (b, r) := rfl

theorem arr_append (a r : List Nat) : arr a.length (a ++ r) = .ok (a, r) := by
  simp [arr]

theorem u16_le (x : Nat) (r : List Nat) (h : x < 65536) : u16 (le16 x ++ r) = .ok (x, r) := by
  have := arr_append (le16 x) r
  simp only [le16_length] at this
  simp [u16, this, bind, Except.bind, pure, Except.pure, fromLe_le16 x h]
theorem u32_le (x : Nat) (r : List Nat) (h : x < 4294967296) : u32 (le32 x ++ r) = .ok (x, r) := by
  have := arr_append (le32 x) r
  simp only [le32_length] at this
  simp [u32, this, bind, Except.bind, pure, Except.pure, fromLe_le32 x h]
theorem u64_le (x : Nat) (r : List Nat) (h : x < 18446744073709551616) : u64 (le64 x ++ r) = .ok (x, r) := by
  have := arr_append (le64 x) r
  simp only [le64_length] at this
  simp [u64, this, bind, Except.bind, pure, Except.pure, fromLe_le64 x h]

theorem u8_np (l : List Nat) : NoPanic (u8 l) := by cases l <;> simp [u8, NoPanic]
theorem arr_np (n : Nat) (l : List Nat) : NoPanic (arr n l) := by unfold arr; no_panic
theorem u16_np (l : List Nat) : NoPanic (u16 l) := by unfold u16; have := arr_np 2 l; no_panic
theorem u32_np (l : List Nat) : NoPanic (u32 l) := by unfold u32; have := arr_np 4 l; no_panic
theorem u64_np (l : List Nat) : NoPanic (u64 l) := by unfold u64; have := arr_np 8 l; no_panic
theorem tail_np (n : Nat) (l : List Nat) : NoPanic (tail n l) := by unfold tail; no_panic

end Rd

/-- proof search for decoder totality: `no_panic` with the reader primitives as facts -/
macro "decoder_no_panic" : tactic => `(tactic| (
  have := Rd.u8_np; have := Rd.u16_np; have := Rd.u32_np; have := Rd.u64_np
  repeat' (first
    | assumption
    | apply NoPanic.ok
    | apply NoPanic.pure
    | exact NoPanic.err (by decide)
    | apply Rd.u8_np | apply Rd.u16_np | apply Rd.u32_np | apply Rd.u64_np
    | apply NoPanic.bind
    | apply NoPanic.ite
    | intro _
    | split)))

end Codec

/-! ## level 0 (cursor arithmetic of `ReadBuf` / `WriteBuf`) refines level 1 -/

namespace Codec
open Codec

namespace RBuf

theorem rem_length (b : RBuf) (h : b.Inv) : b.rem.length = b.left := by
  unfold rem Inv at *
  simp [List.length_take, List.length_drop]; omega

theorem new_inv (d : List Nat) : (new d).Inv := by simp [new, Inv]
theorem new_rem (d : List Nat) : (new d).rem = d := by simp [new, rem]

/-- `as_slice()` never panics under the invariant and is the remaining bytes -/
theorem asSlice_eq (b : RBuf) (h : b.Inv) : b.asSlice = .ok b.rem := by
  unfold asSlice slice rem Inv at *
  have : b.off ≤ b.off + b.left ∧ b.off + b.left ≤ b.data.length := by omega
  simp [this]

/-- **`le_u8` refines the list reader**, preserves the invariant, cannot panic -/
theorem leU8_refines (b : RBuf) (h : b.Inv) :
    match b.leU8 with
    | .ok (x, b') => Rd.u8 b.rem = .ok (x, b'.rem) ∧ b'.Inv
    | .error e => Rd.u8 b.rem = .error e := by
  unfold leU8
  by_cases hl : b.left ≥ 1
  · have hoff : b.off < b.data.length := by unfold Inv at h; omega
    have hsub : ¬ (b.left < 1) := by omega
    simp only [hl, if_true, index, List.getElem?_eq_getElem hoff, advance, csub, bind, Except.bind, pure, Except.pure]
    refine ⟨?_, ?_⟩
    · unfold rem
      simp only
      have hd : b.data.drop b.off = b.data[b.off] :: b.data.drop (b.off + 1) := List.drop_eq_getElem_cons hoff
      obtain ⟨k, hk⟩ : ∃ k, b.left = k + 1 := ⟨b.left - 1, by omega⟩
      rw [hd, hk, List.take_succ_cons]
      simp [Rd.u8]
    · unfold Inv at *; simp only; omega
  · have hlen := rem_length b h
    have : b.rem = [] := by
      apply List.eq_nil_of_length_eq_zero; omega
    simp [hl, this, Rd.u8]

/-- **`parse_as_array::<N>` refines the list reader** -/
theorem parseArr_refines (b : RBuf) (n : Nat) (h : b.Inv) :
    match b.parseArr n with
    | .ok (a, b') => Rd.arr n b.rem = .ok (a, b'.rem) ∧ b'.Inv
    | .error e => Rd.arr n b.rem = .error e := by
  unfold parseArr
  have hlen := rem_length b h
  by_cases hl : b.left ≥ n
  · have h1 : b.off ≤ b.off + n ∧ b.off + n ≤ b.data.length := by unfold Inv at h; omega
    have h2 : n ≤ b.left := hl
    simp only [hl, if_true, slice, h1, and_self, advance, csub, h2, bind, Except.bind, pure, Except.pure]
    refine ⟨?_, ?_⟩
    · have hn : n ≤ b.rem.length := by omega
      simp only [Rd.arr, hn, if_true]
      unfold rem
      simp only
      have m1 : min n b.left = n := by omega
      have m2 : b.off + n - b.off = n := by omega
      rw [List.take_take, List.drop_take, List.drop_drop, m1, m2]
    · unfold Inv at *; simp only; omega
  · have hn : ¬ (n ≤ b.rem.length) := by omega
    simp [hl, Rd.arr, hn]

/-- **`tail(n)` refines the list operation** -/
theorem tail_refines (b : RBuf) (n : Nat) (h : b.Inv) :
    match b.tail n with
    | .ok (t, b') => Rd.tail n b.rem = .ok (t, b'.rem) ∧ b'.Inv
    | .error e => Rd.tail n b.rem = .error e := by
  unfold tail
  have hlen := rem_length b h
  by_cases hl : n ≤ b.left
  · have h1 : n ≤ b.off + b.left := by omega
    have h2 : b.off + b.left - n ≤ b.off + b.left ∧ b.off + b.left ≤ b.data.length := by unfold Inv at h; omega
    simp only [hl, if_true, csub, h1, slice, h2, and_self, bind, Except.bind, pure, Except.pure]
    refine ⟨?_, ?_⟩
    · have hn : n ≤ b.rem.length := by omega
      simp only [Rd.tail, hn, if_true, hlen]
      unfold rem
      simp only
      have e1 : b.off + b.left - (b.off + b.left - n) = n := by omega
      have e2 : b.off + (b.left - n) = b.off + b.left - n := by omega
      have e3 : b.left - (b.left - n) = n := by omega
      have m1 : min (b.left - n) b.left = b.left - n := by omega
      rw [List.drop_take, List.drop_drop, List.take_take, e1, e2, e3, m1]
      simp [hl]
    · unfold Inv at *; simp only; omega
  · have hn : ¬ (n ≤ b.rem.length) := by omega
    simp [hl, Rd.tail, hn]

/-- no primitive of `ReadBuf` can panic on a buffer built by `new` and advanced by these primitives -/
theorem primitives_np (b : RBuf) (h : b.Inv) (n : Nat) :
    NoPanic b.leU8 ∧ NoPanic (b.parseArr n) ∧ NoPanic (b.tail n) ∧ NoPanic b.asSlice := by
  refine ⟨?_, ?_, ?_, ?_⟩
  · have := leU8_refines b h
    cases hr : b.leU8 with
    | ok p => exact NoPanic.ok _
    | error e =>
      rw [hr] at this; simp only at this
      have hn := Rd.u8_np b.rem
      rw [this, noPanic_iff] at hn
      exact NoPanic.err (by simpa using hn)
  · have := parseArr_refines b n h
    cases hr : b.parseArr n with
    | ok p => exact NoPanic.ok _
    | error e =>
      rw [hr] at this; simp only at this
      have hn := Rd.arr_np n b.rem
      rw [this, noPanic_iff] at hn
      exact NoPanic.err (by simpa using hn)
  · have := tail_refines b n h
    cases hr : b.tail n with
    | ok p => exact NoPanic.ok _
    | error e =>
      rw [hr] at this; simp only at this
      have hn := Rd.tail_np n b.rem
      rw [this, noPanic_iff] at hn
      exact NoPanic.err (by simpa using hn)
  · rw [asSlice_eq b h]; exact NoPanic.ok _

end RBuf

namespace WBuf

theorem new_inv (n : Nat) : (new n).Inv := by simp [new, Inv]

theorem written_length (w : WBuf) (h : w.Inv) : w.written.length = w.stop - w.start := by
  unfold written Inv at *
  simp [List.length_take, List.length_drop]; omega

theorem asSlice_eq (w : WBuf) (h : w.Inv) : w.asSlice = .ok w.written := by
  unfold asSlice RBuf.slice written Inv at *
  have : w.start ≤ w.stop ∧ w.stop ≤ w.buf.length := by omega
  simp [this]

/-- **`append` (and every `le_*` writer) either appends exactly the bytes or answers `NoSpace`; it
preserves the invariant and cannot panic** -/
theorem append_spec (w : WBuf) (src : List Nat) (h : w.Inv) :
    if w.stop + src.length ≤ w.bufSize then
      ∃ w', w.append src = .ok w' ∧ w'.written = w.written ++ src ∧ w'.Inv ∧ w'.start = w.start ∧ w'.bufSize = w.bufSize
    else w.append src = .error .noSpace := by
  unfold append
  by_cases hs : w.stop + src.length ≤ w.bufSize
  · obtain ⟨h1, h2, h3⟩ := h
    have hb : w.stop + src.length ≤ w.buf.length := by omega
    simp only [hs, if_true, blit, hb, bind, Except.bind, pure, Except.pure]
    refine ⟨_, rfl, ?_, ?_, rfl, rfl⟩
    · unfold written
      simp only
      have hst : w.start ≤ w.stop := h1
      have e1 : w.stop + src.length - w.start = (w.stop - w.start) + src.length := by omega
      rw [e1]
      have hlen : (w.buf.take w.stop).length = w.stop := by simp; omega
      -- drop start of (take stop ++ src ++ rest)
      rw [List.append_assoc, List.drop_append_of_le_length (by rw [hlen]; exact hst)]
      rw [List.take_append]
      have hl2 : ((w.buf.take w.stop).drop w.start).length = w.stop - w.start := by simp; omega
      rw [hl2]
      have e2 : w.stop - w.start + src.length - (w.stop - w.start) = src.length := by omega
      rw [e2, List.take_of_length_le (by rw [hl2]; omega)]
      congr 1
      · rw [List.drop_take]
      · simp
    · refine ⟨by simp only; omega, by simp only; omega, ?_⟩
      simp [List.length_append, List.length_take, List.length_drop]; omega
  · simp [hs]

theorem append_np (w : WBuf) (src : List Nat) (h : w.Inv) : NoPanic (w.append src) := by
  have := append_spec w src h
  split at this
  · obtain ⟨w', hw, _⟩ := this; rw [hw]; exact NoPanic.ok _
  · rw [this]; exact NoPanic.err (by decide)

end WBuf
end Codec
