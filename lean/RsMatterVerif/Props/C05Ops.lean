import RsMatterVerif.Lemmas.AclOps
/-!
# C05, second part — the hypotheses of `C05.allow_iff_granted` hold in every reachable configuration

`C05.allow_iff_granted` needs `WF fabrics` and `CanonicalPrivs fabrics`. Here: **every** history of
the production mutators modelled in `Model/AclOps.lean` (`Acl.CfgOp`: the ACL cluster handler's
`set_acl`, `acl_add(_init)`, `acl_update(_init)`, `acl_remove(_all)`, fabrics added — with the
Administer entry of AddNOC — and removed, the group table's `add` / `remove` / `groupcast_join` /
`groupcast_remove` / `set_has_aux_acl`, `FabricPersist::store` / `remove`, `Fabrics::load_persist`
and the fail-safe's reload), started from the empty table and the empty store, ends in a
configuration that is `WF` (`reachable_wf`, no hypothesis) and `CanonicalPrivs` (`reachable_canonical`;
the only hypothesis: entries handed over as Rust values — not through the wire — carry one of the
five privileges). Hence `allow_iff_granted_reachable`.

Also: `Accessor::for_session` (`forSession_*`), the reachability statement on the un-narrowed group
id (`group_reaches_iff_reachesId`) and the strict reading of the subject clause
(`subjectMatch_iff_strict`).
-/
namespace C05
open Acl

/-! ## one operation -/

def InitCanonical : EntryInit → Prop
  | .raw e => ∃ p : Priv, e.privilege = p.bits
  | _ => True

/-- entries that reach the table as Rust values (not decoded from the wire) carry one of the five
privileges of the cluster; operations that carry no such entry satisfy this trivially -/
def OpCanonical : CfgOp → Prop
  | .aclAdd _ e => ∃ p : Priv, e.privilege = p.bits
  | .aclAddInit _ ini => InitCanonical ini
  | .aclUpdate _ _ e => ∃ p : Priv, e.privilege = p.bits
  | .aclUpdateInit _ _ ini => InitCanonical ini
  | _ => True

/-- the operations a peer can cause over the wire / the node performs itself: everything except
the four Rust-API entry points that take a ready-made `AclEntry` -/
def OpFromWire : CfgOp → Prop
  | .aclAdd _ _ => False
  | .aclAddInit _ (.raw _) => False
  | .aclUpdate _ _ _ => False
  | .aclUpdateInit _ _ (.raw _) => False
  | _ => True

theorem opFromWire_canonical {o : CfgOp} (h : OpFromWire o) : OpCanonical o := by
  cases o with
  | aclAdd i e => exact absurd h id
  | aclUpdate i idx e => exact absurd h id
  | aclAddInit i ini => cases ini <;> first | exact absurd h id | trivial
  | aclUpdateInit i idx ini => cases ini <;> first | exact absurd h id | trivial
  | _ => trivial

theorem initRun_canonical {ini : EntryInit} (hc : InitCanonical ini) {e : Entry} (h : ini.run = .ok e) :
    ∃ p : Priv, e.privilege = p.bits := by
  cases ini with
  | raw e0 => simp only [EntryInit.run] at h; injection h with h; subst h; exact hc
  | fails err => cases h
  | wire fab s => exact (initWith_ok h).1

theorem fromWire_canonical {fab : Nat} {e : Entry} (h : FromWire fab e) : ∃ p : Priv, e.privilege = p.bits := by
  obtain ⟨s, hs⟩ := h; exact (initWith_ok hs).1

/-- **Every modelled mutator preserves the configuration invariant** (whatever its arguments,
whether it succeeds or fails). -/
theorem inv_apply (c : Cfg) (o : CfgOp) (h : CfgInv c) : CfgInv (o.apply c).1 := by
  cases o with
  | fabAdd admin => exact inv_fabAdd admin h
  | fabRemove i => exact inv_fabRemove i h
  | aclAdd i e =>
    refine inv_onFabric h ?_
    intro f f' r hf ho
    obtain ⟨a, ha, hr⟩ := except_map_ok ho
    injection hr with h1 h2; subst h1
    have st := aclAdd_step (n := a.2) (f' := a.1) (by rw [ha])
    exact ⟨st.1, st.ok hf⟩
  | aclAddInit i ini =>
    refine inv_onFabric h ?_
    intro f f' r hf ho
    obtain ⟨a, ha, hr⟩ := except_map_ok ho
    injection hr with h1 h2; subst h1
    have st := aclAddInit_step (n := a.2) (f' := a.1) (by rw [ha])
    exact ⟨st.1, st.ok hf⟩
  | aclUpdate i idx e =>
    refine inv_onFabric h ?_
    intro f f' r hf ho
    obtain ⟨a, ha, hr⟩ := except_map_ok ho
    injection hr with h1 h2; subst h1
    have st := aclUpdate_step ha
    exact ⟨st.1, st.ok hf⟩
  | aclUpdateInit i idx ini =>
    refine inv_onFabric h ?_
    intro f f' r hf ho
    obtain ⟨a, ha, hr⟩ := except_map_ok ho
    injection hr with h1 h2; subst h1
    have st := aclUpdateInit_step ha
    exact ⟨st.1, st.ok hf⟩
  | aclRemove i idx =>
    refine inv_onFabric h ?_
    intro f f' r hf ho
    obtain ⟨a, ha, hr⟩ := except_map_ok ho
    injection hr with h1 h2; subst h1
    have st := aclRemove_step ha (fun _ => False)
    exact ⟨st.1, st.ok hf⟩
  | aclRemoveAll i =>
    refine inv_onFabric h ?_
    intro f f' r hf ho
    injection ho with ho; injection ho with h1 h2; subst h1
    have st := aclRemoveAll_step f (fun _ => False)
    exact ⟨st.1, st.ok hf⟩
  | handlerWrite i w =>
    simp only [CfgOp.apply]
    cases hg : xGet c.fabrics i with
    | none => exact h
    | some f =>
      obtain ⟨hf, hi⟩ := xGet_some hg
      dsimp only
      cases hw : handlerSetAcl f w with
      | none => exact h
      | some r =>
        cases r with
        | error e => exact h
        | ok f' =>
          have st := handlerSetAcl_step hw
          exact h.setFabric (st.1.trans hi) (st.ok (h.fabOk f hf))
  | grpAdd i ep gid => exact inv_onGroups h (fun gs hd => xGroupsAdd_ids ep gid hd)
  | grpRemove i ep gid => exact inv_onGroups h (fun gs hd => xGroupsRemove_ids ep gid hd)
  | grpJoin i gid eps replace => exact inv_onGroups h (fun gs hd => xGroupsJoin_ids gid eps replace hd)
  | grpCastRemove i gid => exact inv_onGroups h (fun gs hd => xGroupsCastRemove_ids gid hd)
  | grpSetAux i gid v => exact inv_onGroups h (fun gs hd => xGroupsSetHasAux_ids gid v hd)
  | persistStore i => exact inv_persistStore i h
  | persistRemove i => exact inv_persistRemove i h
  | loadPersist => exact inv_loadPersist h
  | reload i => exact inv_reload i h
  | resetPersist => exact ⟨by simp [CfgOp.apply, Cfg.resetPersist], by simp [CfgOp.apply, Cfg.resetPersist],
      by simp [CfgOp.apply, Cfg.resetPersist], by simp [CfgOp.apply, Cfg.resetPersist]⟩

/-- … and the canonical privileges, given that the operation's own Rust-value entries are. -/
theorem canon_apply (c : Cfg) (o : CfgOp) (ho : OpCanonical o) (h : CfgCanon c) : CfgCanon (o.apply c).1 := by
  cases o with
  | fabAdd admin => exact canon_fabAdd admin h
  | fabRemove i => exact canon_fabRemove i h
  | aclAdd i e =>
    refine canon_onFabric h ?_
    intro f f' r hf hop
    obtain ⟨a, ha, hr⟩ := except_map_ok hop
    injection hr with h1 h2; subst h1
    have st := aclAdd_step (n := a.2) (f' := a.1) (by rw [ha])
    exact st.canon (fun x hx => by rw [hx]; exact ho) hf
  | aclAddInit i ini =>
    refine canon_onFabric h ?_
    intro f f' r hf hop
    obtain ⟨a, ha, hr⟩ := except_map_ok hop
    injection hr with h1 h2; subst h1
    have st := aclAddInit_step (n := a.2) (f' := a.1) (by rw [ha])
    exact st.canon (fun x hx => initRun_canonical ho hx) hf
  | aclUpdate i idx e =>
    refine canon_onFabric h ?_
    intro f f' r hf hop
    obtain ⟨a, ha, hr⟩ := except_map_ok hop
    injection hr with h1 h2; subst h1
    exact (aclUpdate_step ha).canon (fun x hx => by rw [hx]; exact ho) hf
  | aclUpdateInit i idx ini =>
    refine canon_onFabric h ?_
    intro f f' r hf hop
    obtain ⟨a, ha, hr⟩ := except_map_ok hop
    injection hr with h1 h2; subst h1
    exact (aclUpdateInit_step ha).canon (fun x hx => initRun_canonical ho hx) hf
  | aclRemove i idx =>
    refine canon_onFabric h ?_
    intro f f' r hf hop
    obtain ⟨a, ha, hr⟩ := except_map_ok hop
    injection hr with h1 h2; subst h1
    exact (aclRemove_step ha (fun _ => False)).canon (fun x hx => absurd hx id) hf
  | aclRemoveAll i =>
    refine canon_onFabric h ?_
    intro f f' r hf hop
    injection hop with hop; injection hop with h1 h2; subst h1
    exact (aclRemoveAll_step f (fun _ => False)).canon (fun x hx => absurd hx id) hf
  | handlerWrite i w =>
    simp only [CfgOp.apply]
    cases hg : xGet c.fabrics i with
    | none => exact h
    | some f =>
      obtain ⟨hf, hi⟩ := xGet_some hg
      dsimp only
      cases hw : handlerSetAcl f w with
      | none => exact h
      | some r =>
        cases r with
        | error e => exact h
        | ok f' =>
          exact h.setFabric ((handlerSetAcl_step hw).canon (fun x hx => fromWire_canonical hx) (h.fabrics f hf))
  | grpAdd i ep gid => exact canon_onGroups h
  | grpRemove i ep gid => exact canon_onGroups h
  | grpJoin i gid eps replace => exact canon_onGroups h
  | grpCastRemove i gid => exact canon_onGroups h
  | grpSetAux i gid v => exact canon_onGroups h
  | persistStore i => exact canon_persistStore i h
  | persistRemove i => exact canon_persistRemove i h
  | loadPersist => exact canon_loadPersist h
  | reload i => exact canon_reload i h
  | resetPersist => exact ⟨by simp [CfgOp.apply, Cfg.resetPersist], by simp [CfgOp.apply, Cfg.resetPersist]⟩

/-! ## histories -/

theorem inv_empty : CfgInv {} := ⟨by simp, by simp, by simp, by simp⟩
theorem canon_empty : CfgCanon {} := ⟨by simp, by simp⟩

theorem inv_foldl (ops : List CfgOp) (c : Cfg) (h : CfgInv c) :
    CfgInv (ops.foldl (fun c o => (o.apply c).1) c) := by
  induction ops generalizing c with
  | nil => exact h
  | cons o rest ih => exact ih _ (inv_apply c o h)

theorem canon_foldl (ops : List CfgOp) (c : Cfg) (ho : ∀ o ∈ ops, OpCanonical o) (h : CfgCanon c) :
    CfgCanon (ops.foldl (fun c o => (o.apply c).1) c) := by
  induction ops generalizing c with
  | nil => exact h
  | cons o rest ih =>
    exact ih _ (fun x hx => ho x (List.mem_cons_of_mem _ hx)) (canon_apply c o (ho o (by simp)) h)

/-- the invariant of the configuration gives the hypothesis `WF` of the main theorem -/
theorem wf_of_inv {c : Cfg} (h : CfgInv c) : WF c.fabrics :=
  ⟨h.distinct, fun f hf => (h.fabOk f hf).1, fun f hf => (h.fabOk f hf).2⟩

theorem canonical_of_canon {c : Cfg} (h : CfgCanon c) : CanonicalPrivs c.fabrics :=
  fun f hf => h.fabrics f hf

/-- **Every reachable configuration is well-formed**: whatever sequence of the modelled mutators
(with whatever arguments, succeeding or failing) has run since the empty table. -/
theorem reachable_wf (ops : List CfgOp) : WF (runOps ops).fabrics :=
  wf_of_inv (inv_foldl ops {} inv_empty)

/-- **Every reachable configuration stores only the five privileges**, provided the entries handed
over as Rust values did. -/
theorem reachable_canonical (ops : List CfgOp) (ho : ∀ o ∈ ops, OpCanonical o) :
    CanonicalPrivs (runOps ops).fabrics :=
  canonical_of_canon (canon_foldl ops {} ho canon_empty)

/-- **C05 over histories.** In every configuration reachable through the modelled mutators, for
every read / write request, the decision of the code is exactly the specification. -/
theorem allow_iff_granted_reachable (ops : List CfgOp) (ho : ∀ o ∈ ops, OpCanonical o)
    (req : AccessReq) (hop : ReadOrWrite req) :
    allow (runOps ops).fabrics req = true ↔ Granted (runOps ops).fabrics req :=
  allow_iff_granted _ req (reachable_wf ops) (reachable_canonical ops ho) hop

/-- … without any hypothesis on the operations when they are those a peer can cause over the wire
or the node performs itself (ACL cluster writes, AddNOC's entry, group commands, persistence,
fail-safe roll-back, fabric removal). -/
theorem allow_iff_granted_production (ops : List CfgOp) (hw : ∀ o ∈ ops, OpFromWire o)
    (req : AccessReq) (hop : ReadOrWrite req) :
    allow (runOps ops).fabrics req = true ↔ Granted (runOps ops).fabrics req :=
  allow_iff_granted_reachable ops (fun o h => opFromWire_canonical (hw o h)) req hop

/-- group accessors reach exactly the member endpoints of their group, in every reachable configuration -/
theorem group_reaches_reachable (ops : List CfgOp) (a : Accessor) (ep : Nat) :
    isEndpointAccessible (runOps ops).fabrics a ep = true ↔ Reaches (runOps ops).fabrics a ep :=
  group_reaches_only_member_endpoints _ a ep (reachable_wf ops)

/-- what the handler stores is never a PASE entry and never a Group entry with Administer -/
theorem handler_entries {f f' : Fabric} {w : AclWrite} (h : handlerSetAcl f w = some (.ok f'))
    (hold : ∀ e ∈ f.acl, e.authMode ≠ AuthMode.pase) : ∀ e ∈ f'.acl, e.authMode ≠ AuthMode.pase := by
  intro x hx
  rcases (handlerSetAcl_step h).2.2 x hx with hx | ⟨e, ⟨s, hs⟩, rfl⟩
  · exact hold x hx
  · exact (initWith_ok hs).2.1

/-- A PASE-mode entry — `acl_add_init` accepts one, its check is commented out — never changes a
decision: it can only match a PASE accessor, which is granted anyway. -/
theorem pase_entry_irrelevant (e : Entry) (req : AccessReq) (aux : Bool) (he : e.authMode = AuthMode.pase)
    (hp : req.accessor.authMode ≠ some AuthMode.pase) : entryAllow e req aux = false := by
  unfold entryAllow matchAccessor
  have : (some e.authMode != req.accessor.authMode) = true := by
    rw [he]; simp only [bne_iff_ne, ne_eq]; exact fun h => hp h.symm
  simp [this]

/-! ### non-vacuity: a production history with both answers -/

/-- AddNOC for admin node 112233; the admin writes two more entries through the ACL cluster; a
group is joined with auxiliary access; everything is persisted and reloaded; a second fabric. -/
def hist : List CfgOp :=
  [ .fabAdd (some 112233),
    .handlerWrite 1 (.add { privilege := some 3, authMode := some 2, subjects := some (some [tag1 2]),
                            targets := some (some [{ endpoint := some 1, cluster := none, deviceType := none }]),
                            auxiliaryType := none }),
    .handlerWrite 1 (.add { privilege := some 5, authMode := some 1, subjects := some none, targets := some none,
                            auxiliaryType := none }),
    .grpJoin 1 7 [1, 2] false,
    .grpSetAux 1 7 true,
    .persistStore 1,
    .fabAdd none,
    .aclAddInit 2 (.wire 9 { privilege := some 1, authMode := some 2, subjects := some (some [5]),
                             targets := some none, auxiliaryType := none }),
    .loadPersist,
    .reload 1 ]

theorem hist_fromWire : ∀ o ∈ hist, OpFromWire o := by
  intro o ho
  simp only [hist, List.mem_cons, List.not_mem_nil, or_false] at ho
  rcases ho with rfl | rfl | rfl | rfl | rfl | rfl | rfl | rfl | rfl | rfl <;> trivial

/-- the PASE entry was refused; fabric 2 (never stored) is gone after the load; fabric 1 has its
three entries and its group -/
example : (runOps hist).fabrics.map (fun f => (f.fabIdx, f.acl.length, f.groups.length)) = [(1, 2, 1)] := by decide
/-- a holder of tag 1 version 3 on fabric 1 may write an Operate attribute on endpoint 1 … -/
example : allow (runOps hist).fabrics (mkReq 1 (some .case) [9, tag1 3, 0, 0] 1 6 WRITE 46) = true := by decide
/-- … which the theorem turns into the specification's statement … -/
example : Granted (runOps hist).fabrics (mkReq 1 (some .case) [9, tag1 3, 0, 0] 1 6 WRITE 46) :=
  (allow_iff_granted_production hist hist_fromWire _ ⟨.write, rfl⟩).mp (by decide)
/-- … but not on endpoint 2, and the admin node may -/
example : allow (runOps hist).fabrics (mkReq 1 (some .case) [9, tag1 3, 0, 0] 2 6 WRITE 46) = false := by decide
example : allow (runOps hist).fabrics (mkReq 1 (some .case) [112233, 0, 0, 0] 2 6 WRITE 46) = true := by decide

/-- `OpCanonical` matters: the Rust API stores an entry with the bare `A` bit (none of the five
privileges) — code and specification then differ, as in `C05.odd` -/
def histOdd : List CfgOp :=
  [ .fabAdd none,
    .aclAdd 1 { privilege := Consts.privA, authMode := .case, subjects := none, targets := none, fabIdx := none } ]
example : allow (runOps histOdd).fabrics (mkReq 1 (some .case) [5, 0, 0, 0] 0 6 READ 57) = true ∧
    grantedB (runOps histOdd).fabrics (mkReq 1 (some .case) [5, 0, 0, 0] 0 6 READ 57) = false := by decide
/-- … and persisting + reloading such an entry turns it into Administer (the enumeration round trip) -/
example : ((runOps (histOdd ++ [.persistStore 1, .loadPersist])).fabrics.map (fun f => f.acl.map (·.privilege))) = [[PRIV_ADMIN]] := by
  decide
/-- foreign stamps are overwritten: `acl_add_init` with an initializer stamped for fabric 9 -/
example : ((runOps [.fabAdd none,
    .aclAddInit 1 (.raw { privilege := PRIV_VIEW, authMode := .pase, subjects := none, targets := none, fabIdx := some 9 })]).fabrics.map
      (fun f => f.acl.map (·.fabIdx))) = [[some 1]] := by decide

/-! ## `Accessor::for_session` -/

/-- **An unauthenticated session is never granted anything**: whatever the configuration, the
path, the operation. -/
theorem forSession_plaintext_denied (fabrics : List Fabric) (peer : Option Nat) (aux : Bool) (o : AccessDesc) :
    allow fabrics { accessor := accessorForSession .plainText peer aux, object := o } = false := by
  unfold allow fabricsAllow allowGroupcastAuxiliary accessorForSession
  simp

/-- **The accessor acts for the fabric of its session** (`SessionMode::fab_idx()`), in its
session's authentication mode. -/
theorem forSession_fabIdx (mode : SessMode) (peer : Option Nat) (aux : Bool) :
    (accessorForSession mode peer aux).fabIdx = mode.fabIdx := by
  cases mode <;> rfl

theorem forSession_authMode (mode : SessMode) (peer : Option Nat) (aux : Bool) :
    (accessorForSession mode peer aux).authMode =
      match mode with
      | .case _ _ => some .case | .pase _ => some .pase | .group _ _ => some .group | .plainText => none := by
  cases mode <;> rfl

/-- hence a secure session is only ever granted by entries of its own fabric (or, PASE, by the
implicit commissioning grant): the specification's fabric clause, for the session's fabric -/
theorem forSession_granted_own_fabric (fabrics : List Fabric) (mode : SessMode) (peer : Option Nat)
    (aux : Bool) (o : AccessDesc) (hwf : WF fabrics) (hc : CanonicalPrivs fabrics)
    (hop : ReadOrWrite { accessor := accessorForSession mode peer aux, object := o })
    (h : allow fabrics { accessor := accessorForSession mode peer aux, object := o } = true) :
    (∃ f, mode = .pase f) ∨ ∃ f ∈ fabrics, f.fabIdx = mode.fabIdx ∧ mode.fabIdx ≠ 0 := by
  rcases (allow_iff_granted fabrics _ hwf hc hop).mp h with hp | ⟨f, hf, hi, h0, _⟩
  · left
    cases mode with
    | pase f => exact ⟨f, rfl⟩
    | case f c => simp [accessorForSession] at hp
    | group f g => simp [accessorForSession] at hp
    | plainText => simp [accessorForSession] at hp
  · right
    simp only [forSession_fabIdx] at hi h0
    exact ⟨f, hf, hi, h0⟩

/-! ### the subjects of a CASE session: the peer's node id and exactly its tags -/

theorem addCatid_mem {l : List Nat} {s x : Nat} (h : x ∈ addCatid l s) :
    x ∈ l ∨ x = Consts.nocCatSubjectPrefix ||| s := by
  induction l with
  | nil => simp [addCatid] at h
  | cons v rest ih =>
    unfold addCatid at h
    split at h
    · rcases List.mem_cons.mp h with rfl | h
      · exact Or.inr rfl
      · exact Or.inl (List.mem_cons_of_mem _ h)
    · rcases List.mem_cons.mp h with rfl | h
      · exact Or.inl (by simp)
      · rcases ih h with h | h
        · exact Or.inl (List.mem_cons_of_mem _ h)
        · exact Or.inr h

/-- nothing but the peer's node id and the session's (non-zero) tags becomes a subject -/
theorem addCats_sound (l cats : List Nat) {x : Nat} (h : x ∈ addCats l cats) :
    x ∈ l ∨ ∃ c ∈ cats, c ≠ 0 ∧ x = Consts.nocCatSubjectPrefix ||| c := by
  unfold addCats at h
  induction cats generalizing l with
  | nil => exact Or.inl h
  | cons c rest ih =>
    simp only [List.foldl_cons] at h
    rcases ih _ h with h | ⟨c', hc', h0, hx⟩
    · by_cases hc : c = 0
      · simp only [hc, bne_self_eq_false, Bool.false_eq_true, if_false] at h
        exact Or.inl h
      · have : (c != 0) = true := by simp [hc]
        simp only [this, if_true] at h
        rcases addCatid_mem h with h | h
        · exact Or.inl h
        · exact Or.inr ⟨c, by simp, hc, h⟩
    · exact Or.inr ⟨c', List.mem_cons_of_mem _ hc', h0, hx⟩

/-- free slots of the subject array -/
def freeSlots (l : List Nat) : Nat := (l.filter (fun v => v == 0)).length

theorem prefix_or_ne_zero (s : Nat) : Consts.nocCatSubjectPrefix ||| s ≠ 0 := by
  intro h
  have := Nat.or_eq_zero_iff.mp h
  exact absurd this.1 (by decide)

theorem addCatid_free {l : List Nat} (s : Nat) (h : 0 < freeSlots l) :
    Consts.nocCatSubjectPrefix ||| s ∈ addCatid l s ∧ freeSlots (addCatid l s) = freeSlots l - 1 ∧
      ∀ x ∈ l, x ≠ 0 → x ∈ addCatid l s := by
  induction l with
  | nil => simp [freeSlots] at h
  | cons v rest ih =>
    unfold addCatid
    by_cases hv : v = 0
    · have : (v == 0) = true := by simp [hv]
      simp only [this, if_true]
      refine ⟨by simp, ?_, ?_⟩
      · have hne : ((Consts.nocCatSubjectPrefix ||| s) == 0) = false := by
          simp [prefix_or_ne_zero s]
        simp [freeSlots, hne, hv]
      · intro x hx hx0
        rcases List.mem_cons.mp hx with rfl | hx
        · exact absurd hv hx0
        · exact List.mem_cons_of_mem _ hx
    · have : (v == 0) = false := by simp [hv]
      simp only [this, Bool.false_eq_true, if_false]
      have hfree : freeSlots (v :: rest) = freeSlots rest := by simp [freeSlots, this]
      rw [hfree] at h
      obtain ⟨a, b, c⟩ := ih h
      refine ⟨List.mem_cons_of_mem _ a, ?_, ?_⟩
      · simp only [freeSlots, List.filter_cons, this, Bool.false_eq_true, if_false] at b ⊢
        exact b
      · intro x hx hx0
        rcases List.mem_cons.mp hx with rfl | hx
        · simp
        · exact List.mem_cons_of_mem _ (c x hx hx0)

/-- as long as there are at least as many free slots as tags, every non-zero tag of the session
becomes a subject (no `add_catid` error is swallowed) and nothing is lost -/
theorem addCats_complete (l cats : List Nat) (hfree : cats.length ≤ freeSlots l) :
    (∀ c ∈ cats, c ≠ 0 → Consts.nocCatSubjectPrefix ||| c ∈ addCats l cats) ∧
      ∀ x ∈ l, x ≠ 0 → x ∈ addCats l cats := by
  unfold addCats
  induction cats generalizing l with
  | nil => exact ⟨by simp, fun x hx _ => hx⟩
  | cons c rest ih =>
    simp only [List.foldl_cons, List.length_cons] at hfree ⊢
    by_cases hc : c = 0
    · simp only [hc, bne_self_eq_false, Bool.false_eq_true, if_false]
      obtain ⟨a, b⟩ := ih l (by omega)
      refine ⟨?_, b⟩
      intro c' hc' h0
      rcases List.mem_cons.mp hc' with rfl | hc'
      · exact absurd rfl h0
      · exact a c' hc' h0
    · have hcb : (c != 0) = true := by simp [hc]
      simp only [hcb, if_true]
      obtain ⟨m, fr, keep⟩ := addCatid_free (l := l) c (by omega)
      obtain ⟨a, b⟩ := ih (addCatid l c) (by omega)
      refine ⟨?_, fun x hx h0 => b x (keep x hx h0) h0⟩
      intro c' hc' h0
      rcases List.mem_cons.mp hc' with rfl | hc'
      · exact b _ m (prefix_or_ne_zero _)
      · exact a c' hc' h0

theorem freeSlots_subjectsNew (id : Nat) (h : id ≠ 0) : freeSlots (subjectsNew id) = Consts.maxCatIdsPerNoc := by
  have : (id == 0) = false := by simp [h]
  simp [freeSlots, subjectsNew, MAX_ACCESSOR_SUBJECTS, this]

/-- **The subjects of a CASE session** with a (non-zero) peer node id and at most
`MAX_CAT_IDS_PER_NOC` tags are exactly: the peer node id and `PREFIX | tag` for every non-zero tag. -/
theorem forSession_case_subjects (fabIdx peer : Nat) (cats : List Nat) (aux : Bool)
    (hp : peer ≠ 0) (hlen : cats.length ≤ Consts.maxCatIdsPerNoc) (x : Nat) (hx : x ≠ 0) :
    x ∈ (accessorForSession (.case fabIdx cats) (some peer) aux).subjects ↔
      x = peer ∨ ∃ c ∈ cats, c ≠ 0 ∧ x = Consts.nocCatSubjectPrefix ||| c := by
  simp only [accessorForSession, Option.getD_some]
  constructor
  · intro h
    rcases addCats_sound _ _ h with h | h
    · left
      simp only [subjectsNew, List.mem_cons, List.mem_replicate] at h
      rcases h with h | ⟨_, h⟩
      · exact h
      · exact absurd h hx
    · exact Or.inr h
  · have hc := addCats_complete (subjectsNew peer) cats (by rw [freeSlots_subjectsNew peer hp]; exact hlen)
    rintro (rfl | ⟨c, hcm, hc0, rfl⟩)
    · exact hc.2 x (by simp [subjectsNew]) hx
    · exact hc.1 c hcm hc0

/-! ## group reachability on the group id as it is -/

theorem reachesIdB_iff (fabrics : List Fabric) (a : Accessor) (ep : Nat) :
    reachesIdB fabrics a ep = true ↔ ReachesId fabrics a ep := by
  unfold reachesIdB ReachesId
  simp only [Bool.or_eq_true, Bool.and_eq_true, decide_eq_true_iff, List.any_eq_true,
    List.contains_eq_mem, and_assoc]

/-- for an accessor whose group id is a group id (16 bits), the narrowing of the code is the identity -/
theorem reaches_iff_reachesId (fabrics : List Fabric) (a : Accessor) (ep : Nat)
    (h : a.subjects.headD 0 < 65536) : Reaches fabrics a ep ↔ ReachesId fabrics a ep := by
  unfold Reaches ReachesId
  rw [Nat.mod_eq_of_lt h]

/-- **"Group accessors reach only endpoints that are members of their group"**, stated on the
group id itself: for every well-formed configuration and every accessor carrying a 16-bit group id. -/
theorem group_reaches_iff_reachesId (fabrics : List Fabric) (a : Accessor) (ep : Nat) (hwf : WF fabrics)
    (h : a.subjects.headD 0 < 65536) : isEndpointAccessible fabrics a ep = true ↔ ReachesId fabrics a ep :=
  (group_reaches_only_member_endpoints fabrics a ep hwf).trans (reaches_iff_reachesId fabrics a ep h)

/-- the accessor of a group session carries the session's group id (`u16`) -/
theorem forSession_group_id (fabIdx gid : Nat) (peer : Option Nat) (aux : Bool) :
    (accessorForSession (.group fabIdx gid) peer aux).subjects.headD 0 = gid := rfl

/-- … so for group sessions, in every reachable configuration, the code's reachability test is the
statement of the property -/
theorem group_session_reaches (ops : List CfgOp) (fabIdx gid : Nat) (peer : Option Nat) (aux : Bool) (ep : Nat)
    (hg : gid < 65536) :
    isEndpointAccessible (runOps ops).fabrics (accessorForSession (.group fabIdx gid) peer aux) ep = true ↔
      ReachesId (runOps ops).fabrics (accessorForSession (.group fabIdx gid) peer aux) ep :=
  group_reaches_iff_reachesId _ _ ep (reachable_wf ops) (by rw [forSession_group_id]; exact hg)

example : (accessorForSession (.group 1 7) none false).subjects.headD 0 < 65536 := by decide
/-- the hypothesis matters: `Accessor::new` with a wider "group id" is narrowed by the code -/
example : isEndpointAccessible cfg { fabIdx := 1, auxAclEnabled := false, subjects := [65536 + 7, 0, 0, 0], authMode := some .group } 1 = true ∧
    reachesIdB cfg { fabIdx := 1, auxAclEnabled := false, subjects := [65536 + 7, 0, 0, 0], authMode := some .group } 1 = false := by decide

/-! ## the subject clause read strictly -/

/-- an operational node id, a group id and 0 are not tag-shaped -/
theorem operational_not_cat {v : Nat} (h : IsOperationalNodeId v) : ¬ IsCat v := by
  rintro ⟨h1, _⟩
  obtain ⟨_, h3⟩ := h
  omega

theorem small_not_cat {v : Nat} (h : v < 2 ^ 32) : ¬ IsCat v := by
  rintro ⟨h1, _⟩
  rw [Nat.div_eq_of_lt h] at h1
  exact absurd h1 (by decide)

/-- **The code's uniform treatment of the slots equals the strict reading** (node id by equality,
tags by the tag rule) whenever slot 0 is not tag-shaped. -/
theorem subjectMatch_iff_strict (a : Accessor) (s : Nat) (h0 : ¬ IsCat (a.subjects.headD 0)) :
    SubjectMatch a s ↔ SubjectMatchStrict a s := by
  unfold SubjectMatch SubjectMatchStrict
  cases hs : a.subjects with
  | nil => simp
  | cons v rest =>
    rw [hs] at h0
    simp only [List.headD_cons, List.tail_cons, List.mem_cons] at h0 ⊢
    constructor
    · rintro ⟨x, rfl | hx, hx0, hm⟩
      · rcases hm with hm | ⟨hc, _⟩
        · exact Or.inl ⟨hx0, hm⟩
        · exact absurd hc h0
      · exact Or.inr ⟨x, hx, hx0, hm⟩
    · rintro (⟨hv0, hv⟩ | ⟨x, hx, hx0, hm⟩)
      · exact ⟨v, Or.inl rfl, hv0, Or.inl hv⟩
      · exact ⟨x, Or.inr hx, hx0, hm⟩

/-- slot 0 of a session's accessor: the peer node id (CASE), 1 (PASE, unauthenticated) or the group
id; with an operational peer node id it is never tag-shaped -/
theorem forSession_slot0_not_cat (mode : SessMode) (peer : Option Nat) (aux : Bool)
    (hpeer : ∀ p, peer = some p → IsOperationalNodeId p)
    (hgid : ∀ f g, mode = .group f g → g < 65536) (hpres : ∀ f c, mode = .case f c → peer ≠ none) :
    ¬ IsCat ((accessorForSession mode peer aux).subjects.headD 0) := by
  cases mode with
  | pase f =>
    have : (accessorForSession (.pase f) peer aux).subjects.headD 0 = 1 := rfl
    rw [this]; exact small_not_cat (by decide)
  | plainText =>
    have : (accessorForSession .plainText peer aux).subjects.headD 0 = 1 := rfl
    rw [this]; exact small_not_cat (by decide)
  | group f g =>
    rw [forSession_group_id]
    exact small_not_cat (by have := hgid f g rfl; omega)
  | case f c =>
    cases peer with
    | none => exact absurd rfl (hpres f c rfl)
    | some p =>
      have hop := hpeer p rfl
      have hp0 : p ≠ 0 := by obtain ⟨h1, _⟩ := hop; omega
      -- slot 0 stays the node id: `add_catid` only fills slots holding 0
      have h0 : (accessorForSession (.case f c) (some p) aux).subjects.headD 0 = p := by
        simp only [accessorForSession, Option.getD_some, addCats]
        have key : ∀ (cats : List Nat) (l : List Nat), l.headD 0 = p →
            (cats.foldl (fun s c => if c != 0 then addCatid s c else s) l).headD 0 = p := by
          intro cats
          induction cats with
          | nil => intro l hl; exact hl
          | cons c' rest ih =>
            intro l hl
            simp only [List.foldl_cons]
            apply ih
            split
            · cases l with
              | nil => simp at hl; exact absurd hl.symm hp0
              | cons v vs =>
                simp only [List.headD_cons] at hl
                subst hl
                simp [addCatid, hp0]
            · exact hl
        exact key c _ rfl
      rw [h0]; exact operational_not_cat hop

end C05
