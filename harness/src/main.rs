//! `vh <Cxx> gen --seed N --tier quick|thorough --out FILE`
//! `vh <Cxx> replay --in FILE --out FILE`
//!
//! Runs the *real* rs-matter code (path dependency on the current working tree, feature `verif`)
//! on generated or replayed operation sequences and writes the line protocol read by the Lean driver.
#![allow(dead_code)]
mod proto;
mod rng;
mod sim;
mod simnet;

mod c01;
mod c02;
mod c03;
mod c04;
mod c05;
mod c06;
mod c07;
mod c08;
mod c09;
mod c10;
mod c11;
mod c12;
mod c13;
mod c14;
mod c15;
mod c16;
mod c17;
mod c18;
mod c19;
mod c20;

use std::collections::HashMap;

pub struct Args {
    pub seed: u64,
    pub thorough: bool,
    pub input: Option<String>,
    pub out: String,
    pub extra: HashMap<String, String>,
}

fn main() {
    let argv: Vec<String> = std::env::args().collect();
    if argv.len() < 3 {
        eprintln!("usage: vh <Cxx> gen|replay [--seed N] [--tier T] [--in F] --out F");
        std::process::exit(2);
    }
    let prop = argv[1].as_str();
    let mode = argv[2].as_str();
    let mut a = Args { seed: 1, thorough: false, input: None, out: "/dev/stdout".into(), extra: HashMap::new() };
    let mut i = 3;
    while i + 1 < argv.len() {
        match argv[i].as_str() {
            "--seed" => a.seed = argv[i + 1].parse().unwrap_or(1),
            "--tier" => a.thorough = argv[i + 1] == "thorough",
            "--in" => a.input = Some(argv[i + 1].clone()),
            "--out" => a.out = argv[i + 1].clone(),
            k => {
                a.extra.insert(k.trim_start_matches("--").to_string(), argv[i + 1].clone());
            }
        }
        i += 2;
    }
    // Panics inside the code under test are caught per case by the property modules; keep the
    // default hook quiet so that expected panics do not flood stderr.
    std::panic::set_hook(Box::new(|_| {}));
    let text = match (prop, mode) {
        ("SIM", _) => sim::gen(&a),
        ("C01", "gen") => c01::gen(&a),
        ("C01", "replay") => c01::replay(&a),
        ("C02", "gen") => c02::gen(&a),
        ("C02", "replay") => c02::replay(&a),
        ("C03", "gen") => c03::gen(&a),
        ("C03", "replay") => c03::replay(&a),
        ("C04", "gen") => c04::gen(&a),
        ("C04", "replay") => c04::replay(&a),
        ("C05", "gen") => c05::gen(&a),
        ("C05", "replay") => c05::replay(&a),
        ("C06", "gen") => c06::gen(&a),
        ("C06", "replay") => c06::replay(&a),
        ("C07", "gen") => c07::gen(&a),
        ("C07", "replay") => c07::replay(&a),
        ("C08", "gen") => c08::gen(&a),
        ("C08", "replay") => c08::replay(&a),
        ("C09", "gen") => c09::gen(&a),
        ("C09", "replay") => c09::replay(&a),
        ("C10", "gen") => c10::gen(&a),
        ("C10", "replay") => c10::replay(&a),
        ("C11", "gen") => c11::gen(&a),
        ("C11", "replay") => c11::replay(&a),
        ("C12", "gen") => c12::gen(&a),
        ("C12", "replay") => c12::replay(&a),
        ("C13", "gen") => c13::gen(&a),
        ("C13", "replay") => c13::replay(&a),
        ("C14", "gen") => c14::gen(&a),
        ("C14", "replay") => c14::replay(&a),
        ("C15", "gen") => c15::gen(&a),
        ("C15", "replay") => c15::replay(&a),
        ("C16", "gen") => c16::gen(&a),
        ("C16", "replay") => c16::replay(&a),
        ("C17", "gen") => c17::gen(&a),
        ("C17", "replay") => c17::replay(&a),
        ("C18", "gen") => c18::gen(&a),
        ("C18", "replay") => c18::replay(&a),
        ("C19", "gen") => c19::gen(&a),
        ("C19", "replay") => c19::replay(&a),
        ("C20", "gen") => c20::gen(&a),
        ("C20", "replay") => c20::replay(&a),
        _ => {
            eprintln!("unknown property/mode {} {}", prop, mode);
            std::process::exit(2);
        }
    };
    std::fs::write(&a.out, text).expect("write output");
}
