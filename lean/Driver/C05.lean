import RsMatterVerif.Model.Acl
import Driver.Util
/-! Driver for C05: replays configuration + query lines on `Model/Acl` (DIS = the model answers
differently from the real `AccessReq::allow`) and evaluates the declarative specification
`Acl.grantedB` / `Acl.reachesB` on the same inputs against the implementation's decision (ORA). -/
namespace Driver.C05
open Acl

structure St where
  fabrics : List Fabric := []

def modeOf (s : String) : Option (Option AuthMode) :=
  if s = "p" then some (some .pase) else if s = "c" then some (some .case)
  else if s = "g" then some (some .group) else if s = "n" then some none else none

def optNum (s : String) : Option (Option Nat) :=
  if s = "*" ∨ s = "-" then some none else s.toNat?.map some

def natList (s : String) : Option (List Nat) :=
  if s = "-" then some [] else (s.splitOn ",").mapM (·.toNat?)

def parseTarget (s : String) : Option Target :=
  match s.splitOn "/" with
  | [e, c, d] =>
    match optNum e, optNum c, optNum d with
    | some e, some c, some d => some { endpoint := e, cluster := c, deviceType := d }
    | _, _, _ => none
  | _ => none

/-- `build_entry` of the harness: `AclEntry::new` + `add_subject`* + `add_target`*;
outer `none` = unparsable, inner `none` = the API refused (capacity). -/
def buildEntry (pb : Nat) (mode : AuthMode) (subjects targets : String) : Option (Option Entry) := do
  let e0 : Entry := { privilege := pb, authMode := mode, subjects := none, targets := none, fabIdx := none }
  let e1 : Option Entry ←
    if subjects = "null" then pure (some e0)
    else if subjects = "e" then pure (some { e0 with subjects := some [] })
    else do
      let ss ← (subjects.splitOn ",").mapM (·.toNat?)
      pure (ss.foldl (fun (acc : Option Entry) s => acc.bind (·.addSubject s)) (some e0))
  match e1 with
  | none => pure none
  | some e1 =>
    if targets = "null" then pure (some e1)
    else if targets = "e" then pure (some { e1 with targets := some [] })
    else do
      let ts ← (targets.splitOn ";").mapM parseTarget
      pure (ts.foldl (fun (acc : Option Entry) t => acc.bind (·.addTarget t)) (some e1))

def bits (l : List Bool) : String :=
  if l.isEmpty then "-" else String.ofList (l.map (fun b => if b then '1' else '0'))

def canonicalPriv (b : Nat) : Bool := (privOfBits b).isSome

def step (st : St) (line : String) : St × String :=
  let (op, out) := splitArrow line
  match words op with
  | "case" :: _ => ({}, "case")
  | ["caps", f, a, s, t, g, e, c] =>
    let mine := [Consts.maxFabrics, Consts.maxAclEntriesPerFabric, Consts.maxSubjectsPerAclEntry,
      Consts.maxTargetsPerAclEntry, Consts.maxGroupsPerFabric, Consts.groupEndpointsPerFabric,
      Consts.maxCatIdsPerNoc]
    let theirs := [f, a, s, t, g, e, c].map (fun x => x.toNat?.getD 0)
    if out ≠ "ok" then (st, s!"BAD harness built with other capacities: {out}")
    else if mine = theirs then (st, "ok") else (st, s!"DIS caps {mine}")
  | ["fab"] =>
    match fabricsAdd st.fabrics with
    | some (fs, i) => if out = toString i then ({ fabrics := fs }, "ok") else ({ fabrics := fs }, s!"DIS {i}")
    | none => if out = "err" then (st, "ok") else (st, "DIS err")
  | ["rmfab", i] =>
    match i.toNat? with
    | none => (st, "BAD num")
    | some i =>
      match (if i = 0 ∨ i > 255 then none else fabricsRemove st.fabrics i) with
      | some fs => if out = "ok" then ({ fabrics := fs }, "ok") else ({ fabrics := fs }, "DIS ok")
      | none => if out = "err" then (st, "ok") else (st, "DIS err")
  | ["acl", fab, pb, mode, subjects, targets] =>
    match fab.toNat?, pb.toNat?, modeOf mode with
    | some fab, some pb, some (some mode) =>
      match buildEntry pb mode subjects targets with
      | none => (st, "BAD entry")
      | some none => if out = "err" then (st, "ok") else (st, "DIS err")
      | some (some e) =>
        let r : Option (List Fabric × Nat) :=
          if fab = 0 ∨ fab > 255 then none else fabricsAclAdd st.fabrics fab e
        match r with
        | some (fs, i) => if out = toString i then ({ fabrics := fs }, "ok") else ({ fabrics := fs }, s!"DIS {i}")
        | none => if out = "err" then (st, "ok") else (st, "DIS err")
    | _, _, _ => (st, "BAD acl")
  | ["grp", fab, gid, ep] =>
    match fab.toNat?, gid.toNat?, ep.toNat? with
    | some fab, some gid, some ep =>
      let r : Option (List Fabric) :=
        if fab = 0 ∨ fab > 255 ∨ gid > 65535 ∨ ep > 65535 then none
        else fabricsGroupAdd st.fabrics fab ep gid
      match r with
      | some fs => if out = "ok" then ({ fabrics := fs }, "ok") else ({ fabrics := fs }, "DIS ok")
      | none => if out = "err" then (st, "ok") else (st, "DIS err")
    | _, _, _ => (st, "BAD grp")
  | ["gaux", fab, gid, v] =>
    match fab.toNat?, gid.toNat? with
    | some fab, some gid =>
      let r : Option (List Fabric × Bool) :=
        if fab = 0 ∨ fab > 255 ∨ gid > 65535 then none else fabricsSetHasAux st.fabrics fab gid (v = "1")
      match r with
      | some (fs, ch) =>
        let m := if ch then "changed" else "same"
        if out = m then ({ fabrics := fs }, "ok") else ({ fabrics := fs }, s!"DIS {m}")
      | none => if out = "err" then (st, "ok") else (st, "DIS err")
    | _, _ => (st, "BAD gaux")
  | ["acli", fab, pb, mode, subjects, targets] =>
    match fab.toNat?, pb.toNat?, modeOf mode with
    | some fab, some pb, some (some mode) =>
      match buildEntry pb mode subjects targets with
      | none => (st, "BAD entry")
      | some none => if out = "err" then (st, "ok") else (st, "DIS err")
      | some (some e) =>
        let r : Option (List Fabric × Nat) :=
          if fab = 0 ∨ fab > 255 then none else fabricsAclAddInit st.fabrics fab e
        match r with
        | some (fs, i) => if out = toString i then ({ fabrics := fs }, "ok") else ({ fabrics := fs }, s!"DIS {i}")
        | none => if out = "err" then (st, "ok") else (st, "DIS err")
    | _, _, _ => (st, "BAD acli")
  | [which, fab, idx, pb, mode, subjects, targets] =>
    if which ≠ "aclupd" ∧ which ≠ "aclupi" then (st, "BAD op") else
    match fab.toNat?, idx.toNat?, pb.toNat?, modeOf mode with
    | some fab, some idx, some pb, some (some mode) =>
      match buildEntry pb mode subjects targets with
      | none => (st, "BAD entry")
      | some none => if out = "err" then (st, "ok") else (st, "DIS err")
      | some (some e) =>
        let r : Option (List Fabric) :=
          if fab = 0 ∨ fab > 255 then none else fabricsAclUpdate st.fabrics fab idx e
        match r with
        | some fs => if out = "ok" then ({ fabrics := fs }, "ok") else ({ fabrics := fs }, "DIS ok")
        | none => if out = "err" then (st, "ok") else (st, "DIS err")
    | _, _, _, _ => (st, "BAD aclupd")
  | ["aclrm", fab, idx] =>
    match fab.toNat?, idx.toNat? with
    | some fab, some idx =>
      let r : Option (List Fabric) := if fab = 0 ∨ fab > 255 then none else fabricsAclRemove st.fabrics fab idx
      match r with
      | some fs => if out = "ok" then ({ fabrics := fs }, "ok") else ({ fabrics := fs }, "DIS ok")
      | none => if out = "err" then (st, "ok") else (st, "DIS err")
    | _, _ => (st, "BAD aclrm")
  | ["aclclr", fab] =>
    match fab.toNat? with
    | some fab =>
      let r : Option (List Fabric) := if fab = 0 ∨ fab > 255 then none else fabricsAclRemoveAll st.fabrics fab
      match r with
      | some fs => if out = "ok" then ({ fabrics := fs }, "ok") else ({ fabrics := fs }, "DIS ok")
      | none => if out = "err" then (st, "ok") else (st, "DIS err")
    | none => (st, "BAD aclclr")
  | ["grprm", fab, ep, gid] =>
    let gidO : Option (Option Nat) := if gid = "*" then some none else gid.toNat?.map some
    match fab.toNat?, ep.toNat?, gidO with
    | some fab, some ep, some gidO =>
      let gbad : Bool := match gidO with | some g => decide (g > 65535) | none => false
      let ok : Bool := !(decide (fab = 0) || decide (fab > 255) || decide (ep > 65535) || gbad)
      match (if ok then fabricsGet st.fabrics fab else none) with
      | none => if out = "err" then (st, "ok") else (st, "DIS err")
      | some f =>
        let r := groupsRemove f.groups ep gidO
        let fs := (fabricsGroupsMutate st.fabrics fab (fun gs => (groupsRemove gs ep gidO).1)).getD st.fabrics
        let m := if r.2 then "yes" else "no"
        if out = m then ({ fabrics := fs }, "ok") else ({ fabrics := fs }, s!"DIS {m}")
    | _, _, _ => (st, "BAD grprm")
  | ["gjoin", fab, gid, eps, replace] =>
    let epsO : Option (List Nat) :=
      if eps = "-" then some [] else (eps.splitOn ",").foldr (fun x acc => match x.toNat?, acc with
        | some v, some l => some (v :: l) | _, _ => none) (some [])
    match fab.toNat?, gid.toNat?, epsO with
    | some fab, some gid, some epsL =>
      let ok : Bool := !(decide (fab = 0) || decide (fab > 255) || decide (gid > 65535) || epsL.any (fun x => decide (x > 65535)))
      match (if ok then fabricsGet st.fabrics fab else none) with
      | none => if out = "err" then (st, "ok") else (st, "DIS err")
      | some f =>
        let r := groupsGroupcastJoin f.groups gid epsL (replace = "1")
        let fs := (fabricsGroupsMutate st.fabrics fab (fun gs => (groupsGroupcastJoin gs gid epsL (replace = "1")).1)).getD st.fabrics
        let m := if r.2 then "ok" else "fail"
        if out = m then ({ fabrics := fs }, "ok") else ({ fabrics := fs }, s!"DIS {m}")
    | _, _, _ => (st, "BAD gjoin")
  | ["gleave", fab, gid] =>
    match fab.toNat?, gid.toNat? with
    | some fab, some gid =>
      let ok : Bool := !(decide (fab = 0) || decide (fab > 255) || decide (gid > 65535))
      match (if ok then fabricsGet st.fabrics fab else none) with
      | none => if out = "err" then (st, "ok") else (st, "DIS err")
      | some f =>
        let fs := (fabricsGroupsMutate st.fabrics fab (fun gs => groupsGroupcastRemove gs gid)).getD st.fabrics
        let m := if f.groups.any (fun e => e.groupId == gid) then "yes" else "no"
        if out = m then ({ fabrics := fs }, "ok") else ({ fabrics := fs }, s!"DIS {m}")
    | _, _ => (st, "BAD gleave")
  | ["reload"] =>
    -- only meaningful for tables with the five privileges the Interaction Model can produce (the TLV
    -- encoding of a raw bit pattern is lossy / panics on the empty one): not a production state
    if st.fabrics.all (fun f => f.acl.all (fun e => canonicalPriv e.privilege)) then
      ({ fabrics := fabricsReload st.fabrics }, if out = "ok" then "ok" else "DIS ok")
    else (st, "BAD reload of a table with non-canonical privileges")
  | ["q", fab, mode, aux, id, cats, ep, cl, leaf, opb, perms, dts] =>
    match fab.toNat?, modeOf mode, id.toNat?, natList cats, optNum ep, optNum cl, optNum leaf,
        opb.toNat?, (if perms = "none" then some none else perms.toNat?.map some), natList dts with
    | some fab, some mode, some id, some cats, some ep, some cl, some leaf, some opb, some perms, some dts =>
      let subj := cats.foldl addCatid (subjectsNew id)
      let acc : Accessor := { fabIdx := fab, auxAclEnabled := aux = "1", subjects := subj, authMode := mode }
      let req : AccessReq := { accessor := acc, object := {
        path := { endpoint := ep, cluster := cl, leaf := leaf }, targetPerms := perms,
        operation := opb, deviceTypes := dts } }
      let m := allow st.fabrics req
      let own := if fab = 0 then none else fabricsGet st.fabrics fab
      let (ma, md) := match own with
        | none => ("-", "-")
        | some f => (bits (f.acl.map (fun e => matchAccessor e acc)),
                     bits (f.acl.map (fun e => matchAccessDesc e req.object acc.auxAclEnabled)))
      let mout := s!"{if m then "allow" else "deny"} {ma} {md}"
      let implAllow := out.startsWith "allow"
      -- oracle: the declarative specification on the same inputs; it speaks about the five
      -- privileges and the operations read / write only
      let inScope := (opOfBits opb).isSome &&
        (match own with | none => true | some f => f.acl.all (fun e => canonicalPriv e.privilege))
      if out = "panic" then (st, "ORA panic in allow()")
      else if inScope && grantedB st.fabrics req != implAllow then
        (st, s!"ORA spec={if grantedB st.fabrics req then "allow" else "deny"} impl={out}")
      else if mout = out then (st, "ok") else (st, s!"DIS {mout}")
    | _, _, _, _, _, _, _, _, _, _ => (st, "BAD q")
  | ["ep", fab, mode, id, endpoint] =>
    match fab.toNat?, modeOf mode, id.toNat?, endpoint.toNat? with
    | some fab, some mode, some id, some endpoint =>
      let acc : Accessor := { fabIdx := fab, auxAclEnabled := false, subjects := subjectsNew id, authMode := mode }
      let m := isEndpointAccessible st.fabrics acc endpoint
      let impl := out = "yes"
      if out = "panic" then (st, "ORA panic in is_endpoint_accessible()")
      else if reachesB st.fabrics acc endpoint != impl then
        (st, s!"ORA spec={if reachesB st.fabrics acc endpoint then "yes" else "no"} impl={out}")
      else if m = impl then (st, "ok") else (st, s!"DIS {if m then "yes" else "no"}")
    | _, _, _, _ => (st, "BAD ep")
  | _ => (st, "BAD op")

def run : IO UInt32 := Driver.runLoop ({} : St) step

end Driver.C05
