import RsMatterVerif.Lemmas.AdminGen
/-!
# Lemmas for C11: every element of the store history is the store at an operation boundary

`Node.hist` keeps the store after each effective mutation ("stop at any instant" = restart from an
element of `hist`).  On the committed projections - the fabric records and the networks - every
operation changes the store at most once (`One`), most not at all (`Quiet`); the one exception is
CommissioningComplete, which writes the fabric and then the networks.
-/
namespace Admin

/-- equal on the committed projections: fabric records and networks -/
def KV.Same (a b : KV) : Prop := (∀ i, kvF a i = kvF b i) ∧ a.nets = b.nets

theorem KV.Same.refl (a : KV) : KV.Same a a := ⟨fun _ => rfl, rfl⟩
theorem KV.Same.symm {a b : KV} (h : KV.Same a b) : KV.Same b a := ⟨fun i => (h.1 i).symm, h.2.symm⟩
theorem KV.Same.trans {a b c : KV} (h1 : KV.Same a b) (h2 : KV.Same b c) : KV.Same a c :=
  ⟨fun i => (h1.1 i).trans (h2.1 i), h1.2.trans h2.2⟩

theorem same_of_fabs_nets {a b : KV} (h1 : a.fabs = b.fabs) (h2 : a.nets = b.nets) : KV.Same a b :=
  ⟨fun i => by simp [kvF, h1], h2⟩

theorem same_putFabric {a b : KV} (f : Fabric) (h : KV.Same a b) : KV.Same (a.putFabric f) (b.putFabric f) :=
  ⟨fun i => by rw [kvF_putFabric, kvF_putFabric, h.1 i], by simp [KV.putFabric, h.2]⟩

/-- the projection does not change; new history elements equal the old store on it -/
def Quiet (n n' : Node) : Prop :=
  KV.Same n'.kv n.kv ∧ ∀ kv ∈ n'.hist, kv ∈ n.hist ∨ KV.Same kv n.kv

/-- new history elements equal the store before or after -/
def One (n n' : Node) : Prop :=
  ∀ kv ∈ n'.hist, kv ∈ n.hist ∨ KV.Same kv n.kv ∨ KV.Same kv n'.kv

theorem quiet_refl (n : Node) : Quiet n n := ⟨KV.Same.refl _, fun kv h => Or.inl h⟩

theorem quiet_of_eq {n n' : Node} (h1 : n'.kv = n.kv) (h2 : n'.hist = n.hist) : Quiet n n' :=
  ⟨by rw [h1]; exact KV.Same.refl _, fun kv h => Or.inl (by rw [← h2]; exact h)⟩

theorem quiet_trans {a b c : Node} (h1 : Quiet a b) (h2 : Quiet b c) : Quiet a c := by
  refine ⟨h2.1.trans h1.1, fun kv hk => ?_⟩
  rcases h2.2 kv hk with h | h
  · exact h1.2 kv h
  · exact Or.inr (h.trans h1.1)

theorem one_of_quiet {a b : Node} (h : Quiet a b) : One a b :=
  fun kv hk => (h.2 kv hk).elim Or.inl (fun x => Or.inr (Or.inl x))

theorem quiet_one {a b c : Node} (h1 : Quiet a b) (h2 : One b c) : One a c := by
  intro kv hk
  rcases h2 kv hk with h | h | h
  · rcases h1.2 kv h with h' | h'
    · exact Or.inl h'
    · exact Or.inr (Or.inl h')
  · exact Or.inr (Or.inl (h.trans h1.1))
  · exact Or.inr (Or.inr h)

theorem one_quiet {a b c : Node} (h1 : One a b) (h2 : Quiet b c) : One a c := by
  intro kv hk
  rcases h2.2 kv hk with h | h
  · rcases h1 kv h with h' | h' | h'
    · exact Or.inl h'
    · exact Or.inr (Or.inl h')
    · exact Or.inr (Or.inr (h'.trans h2.1.symm))
  · exact Or.inr (Or.inr (h.trans h2.1.symm))

/-! ### the primitives -/

theorem storeFabric_one (n : Node) (f : Fabric) : One n (storeFabric n f).1 := by
  have ⟨_, hst⟩ := storeFabric_spec n f
  rcases hst with ⟨_, hkv, hh⟩ | ⟨_, hkv, hh⟩
  · intro kv hk
    rw [hh] at hk
    rcases List.mem_cons.mp hk with rfl | hk
    · exact Or.inr (Or.inr (by rw [hkv]; exact KV.Same.refl _))
    · exact Or.inl hk
  · exact one_of_quiet (quiet_of_eq hkv hh)

theorem removeFabricKey_one (n : Node) (idx : Nat) : One n (removeFabricKey n idx).1 := by
  have ⟨_, _, _, hst⟩ := removeFabricKey_spec n idx
  rcases hst with ⟨_, _, ⟨hkv, hh⟩ | ⟨hkv, hh⟩⟩ | ⟨_, hkv, hh⟩
  · intro kv hk
    rw [hh] at hk
    rcases List.mem_cons.mp hk with rfl | hk
    · exact Or.inr (Or.inr (by rw [hkv]; exact KV.Same.refl _))
    · exact Or.inl hk
  · exact one_of_quiet (quiet_of_eq hkv hh)
  · exact one_of_quiet (quiet_of_eq hkv hh)

theorem storeNets_one (n : Node) : One n (storeNets n).1 := by
  have ⟨_, hst⟩ := storeNets_spec n
  rcases hst with ⟨_, hkv, hh⟩ | ⟨_, hkv, hh⟩
  · intro kv hk
    rw [hh] at hk
    rcases List.mem_cons.mp hk with rfl | hk
    · exact Or.inr (Or.inr (by rw [hkv]; exact KV.Same.refl _))
    · exact Or.inl hk
  · exact one_of_quiet (quiet_of_eq hkv hh)

theorem storeResum_quiet (n : Node) : Quiet n (storeResum n).1 := by
  have ⟨_, _, _, hst⟩ := storeResum_spec n
  rcases hst with ⟨_, hkv, hh, _⟩ | ⟨_, hkv, hh, _⟩
  · exact quiet_of_eq hkv hh
  · refine ⟨by rw [hkv]; exact same_of_fabs_nets rfl rfl, fun kv hk => ?_⟩
    rw [hh] at hk
    rcases List.mem_cons.mp hk with rfl | hk
    · exact Or.inr (same_of_fabs_nets rfl rfl)
    · exact Or.inl hk

theorem purgeResum_quiet (n : Node) (idx : Nat) : Quiet n (purgeResum n idx).1 :=
  quiet_trans (quiet_of_eq (n' := { n with resum := n.resum.filter (fun r => r.fab ≠ idx) }) rfl rfl)
    (storeResum_quiet _)

theorem expireArmed_kv (cfg : Cfg) (n : Node) (a : Armed) (exp : Option Nat) :
    (expireArmed cfg n a exp).1.kv = n.kv ∧ (expireArmed cfg n a exp).1.hist = n.hist := by
  unfold expireArmed
  cases rollbackFabrics cfg n a <;> exact ⟨rfl, rfl⟩

theorem expireAndPurge_quiet (cfg : Cfg) (n : Node) (a : Armed) (exp : Option Nat) :
    Quiet n (expireAndPurge cfg n a exp).1 := by
  unfold expireAndPurge
  have ⟨h1, h2⟩ := expireArmed_kv cfg n a exp
  rcases hres : expireArmed cfg n a exp with ⟨n1, e, r⟩
  rw [hres] at h1 h2
  simp only at h1 h2
  cases e with
  | some e => exact quiet_of_eq h1 h2
  | none =>
    cases r with
    | none => exact quiet_of_eq h1 h2
    | some idx =>
      have hq := quiet_trans (quiet_of_eq h1 h2) (purgeResum_quiet n1 idx)
      rcases hp : purgeResum n1 idx with ⟨n2, b⟩
      rw [hp] at hq
      simp only [hp]
      cases b <;> exact hq

theorem expire_quiet (cfg : Cfg) (n : Node) (exp : Option Nat) : Quiet n (expire cfg n exp).1 := by
  unfold expire
  cases n.fs with
  | none => exact quiet_refl n
  | some a => exact expireAndPurge_quiet cfg n a exp

theorem windowTimeout_kv (n : Node) : (windowTimeout n).kv = n.kv ∧ (windowTimeout n).hist = n.hist := by
  unfold windowTimeout; split <;> (try split) <;> exact ⟨rfl, rfl⟩

theorem checkTimeouts_quiet (cfg : Cfg) (n : Node) (sid : Option Nat) : Quiet n (checkTimeouts cfg n sid).1 := by
  unfold checkTimeouts
  cases hfs : n.fs with
  | none => simp only []; exact quiet_of_eq (windowTimeout_kv n).1 (windowTimeout_kv n).2
  | some a =>
    simp only []
    by_cases ht : n.now ≥ a.armedAt + a.timeout
    · simp only [ht, if_true]
      have h1 := expireAndPurge_quiet cfg n a (expSid n sid)
      have heq : (expireAndPurgeLenient cfg n a (expSid n sid)).1 = (expireAndPurge cfg n a (expSid n sid)).1 := rfl
      cases he : (expireAndPurgeLenient cfg n a (expSid n sid)).2 with
      | some e => simp only []; rw [heq]; exact h1
      | none =>
        simp only []; rw [heq]
        exact quiet_trans h1 (quiet_of_eq (windowTimeout_kv _).1 (windowTimeout_kv _).2)
    · simp only [ht, if_false]; exact quiet_of_eq (windowTimeout_kv n).1 (windowTimeout_kv n).2


/-! ### the commands -/

theorem write_one (n : Node) (f f' : Fabric) :
    One n (if armedFor (setFabric n f') f.idx then ok (markDeferred (setFabric n f'))
      else match storeFabric (setFabric n f') f' with
        | (n, true) => ok n
        | (n, false) => (n, .err "NoSpace")).1 := by
  split
  · have ⟨_, _, _, m4, m5⟩ := markDeferred_fields (setFabric n f')
    exact one_of_quiet (quiet_of_eq (n' := markDeferred (setFabric n f')) m4 m5)
  · have h := storeFabric_one (setFabric n f') f'
    have h' : One n (storeFabric (setFabric n f') f').1 := quiet_one (quiet_of_eq rfl rfl) h
    rcases hst : storeFabric (setFabric n f') f' with ⟨n2, b⟩
    rw [hst] at h'
    cases b <;> exact h'

/-- `addNoc` (the command after the retry of a failed resumption-cache store) never touches the store -/
theorem addNoc_store_untouched (cfg : Cfg) (n : Node) (sid : Nat) (mode : Mode) (ca fid node subj ser : Nat) :
    (addNoc cfg n sid mode ca fid node subj ser).1.kv = n.kv ∧
    (addNoc cfg n sid mode ca fid node subj ser).1.hist = n.hist := by
  simp only [addNoc]
  repeat' split
  all_goals exact ⟨rfl, rfl⟩

/-- AddNOC writes no fabric / network key: at most the resumption blob (the retry of a failed store) -/
theorem sessOp_addnoc_quiet (cfg : Cfg) (n : Node) (sid s ca fid node subj ser : Nat) (mode : Mode) :
    Quiet n (sessOp cfg n sid mode (.addnoc s ca fid node subj ser)).1 := by
  simp only [sessOp]
  rcases retryResum_cases n with hr | hr
  · rw [hr]
    have := addNoc_store_untouched cfg n sid mode ca fid node subj ser
    exact quiet_of_eq this.1 this.2
  · rw [hr]
    have h1 := storeResum_quiet n
    rcases hst : storeResum n with ⟨n1, b⟩
    rw [hst] at h1
    cases b with
    | false => exact h1
    | true =>
      have := addNoc_store_untouched cfg n1 sid mode ca fid node subj ser
      exact quiet_trans h1 (quiet_of_eq this.1 this.2)

/-- the commands that never touch the store -/
theorem sessOp_store_untouched (cfg : Cfg) (n : Node) (sid : Nat) (mode : Mode) (op : Op)
    (hop : (∃ s u, op = .csr s u) ∨ (∃ s c, op = .root s c) ∨
           (∃ s nd r, op = .updnoc s nd r) ∨
           (∃ s v, op = .net s v) ∨ (∃ s v, op = .rmnet s v) ∨ (∃ s t, op = .arm s t ∧ t ≠ 0) ∨
           (∃ s v, op = .bcw s v) ∨ (∃ s, op = .openW s)) :
    (sessOp cfg n sid mode op).1.kv = n.kv ∧ (sessOp cfg n sid mode op).1.hist = n.hist := by
  rcases hop with ⟨s, u, rfl⟩ | ⟨s, c, rfl⟩ | ⟨s, nd, r, rfl⟩ | ⟨s, v, rfl⟩ | ⟨s, v, rfl⟩ |
    ⟨s, t, rfl, ht⟩ | ⟨s, v, rfl⟩ | ⟨s, rfl⟩
  all_goals simp only [sessOp]
  all_goals repeat' split
  all_goals first | exact ⟨rfl, rfl⟩ | (exfalso; omega) | exact windowTimeout_kv n | skip

theorem sessOp_one (cfg : Cfg) (n : Node) (sid : Nat) (mode : Mode) (op : Op) (hnc : ∀ s, op ≠ .complete s) :
    One n (sessOp cfg n sid mode op).1 := by
  cases op with
  | openW s =>
    have := sessOp_store_untouched cfg n sid mode (.openW s) (by simp)
    exact one_of_quiet (quiet_of_eq this.1 this.2)
  | arm s secs =>
    by_cases h0 : secs = 0
    · subst h0
      simp only [sessOp, if_true]
      have := expire_quiet cfg n (some sid)
      rcases hr : expire cfg n (some sid) with ⟨n1, e⟩
      rw [hr] at this
      cases e <;> exact one_of_quiet this
    · have := sessOp_store_untouched cfg n sid mode (.arm s secs)
        (Or.inr (Or.inr (Or.inr (Or.inr (Or.inr (Or.inl ⟨s, secs, rfl, h0⟩))))))
      exact one_of_quiet (quiet_of_eq this.1 this.2)
  | csr s upd =>
    have := sessOp_store_untouched cfg n sid mode (.csr s upd) (by simp)
    exact one_of_quiet (quiet_of_eq this.1 this.2)
  | root s ca =>
    have := sessOp_store_untouched cfg n sid mode (.root s ca) (by simp)
    exact one_of_quiet (quiet_of_eq this.1 this.2)
  | addnoc s ca fid node subj ser =>
    exact one_of_quiet (sessOp_addnoc_quiet cfg n sid s ca fid node subj ser mode)
  | updnoc s node ser =>
    have := sessOp_store_untouched cfg n sid mode (.updnoc s node ser) (by simp)
    exact one_of_quiet (quiet_of_eq this.1 this.2)
  | net s v =>
    have := sessOp_store_untouched cfg n sid mode (.net s v) (by simp)
    exact one_of_quiet (quiet_of_eq this.1 this.2)
  | rmnet s v =>
    have := sessOp_store_untouched cfg n sid mode (.rmnet s v) (by simp)
    exact one_of_quiet (quiet_of_eq this.1 this.2)
  | bcw s v =>
    have := sessOp_store_untouched cfg n sid mode (.bcw s v) (by simp)
    exact one_of_quiet (quiet_of_eq this.1 this.2)
  | acl s v =>
    simp only [sessOp]
    split
    · exact one_of_quiet (quiet_refl n)
    · cases hg : getFabric n mode.fab with
      | none => exact one_of_quiet (quiet_refl n)
      | some f =>
        simp only []
        split
        · exact one_of_quiet (quiet_refl n)
        · exact write_one n f { f with acl := f.acl ++ [v] }
  | grp s v =>
    simp only [sessOp]
    split
    · exact one_of_quiet (quiet_refl n)
    · cases hg : getFabric n mode.fab with
      | none => exact one_of_quiet (quiet_refl n)
      | some f =>
        simp only []
        split
        · exact one_of_quiet (quiet_refl n)
        · exact write_one n f (if f.grp.contains v then f else { f with grp := f.grp ++ [v] })
  | label s v =>
    simp only [sessOp]
    split
    · exact one_of_quiet (quiet_refl n)
    · split
      · exact one_of_quiet (quiet_refl n)
      · cases hg : getFabric n mode.fab with
        | none => exact one_of_quiet (quiet_refl n)
        | some f => exact write_one n f { f with label := v }
  | fwrite s =>
    simp only [sessOp]
    split
    · exact one_of_quiet (quiet_refl n)
    · cases hg : getFabric n mode.fab with
      | none => exact one_of_quiet (quiet_refl n)
      | some f => exact write_one n f f
  | complete s => exact absurd rfl (hnc s)
  | rmfab s idx =>
    simp only [sessOp]
    split
    · exact one_of_quiet (quiet_refl n)
    · split
      · have hq := purgeResum_quiet n idx
        rcases hp : purgeResum n idx with ⟨n2, b⟩
        rw [hp] at hq
        simp only at hq
        cases b with
        | false => exact one_of_quiet hq
        | true =>
          simp only []
          have ho := quiet_one hq (removeFabricKey_one n2 idx)
          rcases hrk : removeFabricKey n2 idx with ⟨n3, b3⟩
          rw [hrk] at ho
          simp only at ho
          cases b3 with
          | false => exact ho
          | true => exact one_quiet ho (quiet_of_eq rfl rfl)
      · exact one_of_quiet (quiet_refl n)
  | revoke s =>
    simp only [sessOp]
    have := expire_quiet cfg n (some sid)
    rcases hr : expire cfg n (some sid) with ⟨n1, e⟩
    rw [hr] at this
    cases e with
    | some e => exact one_of_quiet this
    | none => exact one_of_quiet (quiet_trans this (quiet_of_eq rfl rfl))
  | _ => exact one_of_quiet (quiet_refl n)

/-- the undo of the first write of a failed CommissioningComplete: nothing, or one removal -/
theorem undoAdded_hist (n : Node) (idx : Nat) :
    ((undoAdded n idx).kv = n.kv ∧ (undoAdded n idx).hist = n.hist) ∨
    ((undoAdded n idx).kv = n.kv.delFabric idx ∧ (undoAdded n idx).hist = n.kv.delFabric idx :: n.hist) := by
  unfold undoAdded
  split
  · have ⟨_, _, _, hst⟩ := removeFabricKey_spec n idx
    rcases hst with ⟨_, _, ⟨hkv, hh⟩ | ⟨hkv, hh⟩⟩ | ⟨_, hkv, hh⟩
    · exact Or.inr ⟨hkv, hh⟩
    · exact Or.inl ⟨hkv, hh⟩
    · exact Or.inl ⟨hkv, hh⟩
  · exact Or.inl ⟨rfl, rfl⟩

theorem undoAdded_one (n : Node) (idx : Nat) : One n (undoAdded n idx) := by
  rcases undoAdded_hist n idx with ⟨hkv, hh⟩ | ⟨hkv, hh⟩
  · exact one_of_quiet (quiet_of_eq hkv hh)
  · intro kv hk
    rw [hh] at hk
    rcases List.mem_cons.mp hk with rfl | hk
    · exact Or.inr (Or.inr (by rw [hkv]; exact KV.Same.refl _))
    · exact Or.inl hk

/-! ### the undo of a half-done CommissioningComplete -/

theorem kvTick_bad_failIn (n : Node) (h : (kvTick n).2 = true) : (kvTick n).1.failIn = 0 := by
  unfold kvTick at h ⊢
  split
  · rename_i h0; simp [h0] at h
  · split
    · rfl
    · rename_i h0 h1; simp [h0, h1] at h

theorem storeNets_fail_failIn (n : Node) (h : (storeNets n).2 = false) : (storeNets n).1.failIn = 0 := by
  have hb := kvTick_bad_failIn n
  unfold storeNets at h ⊢
  rcases ht : kvTick n with ⟨n1, bad⟩
  rw [ht] at hb
  simp only [ht] at h ⊢
  cases bad with
  | true => exact hb rfl
  | false => simp at h

theorem removeFabricKey_calm {n : Node} (idx : Nat) (h : n.failIn = 0) :
    removeFabricKey n idx = (if n.kv.hasFabric idx then kvCommit n (n.kv.delFabric idx) else n, true) := by
  have hk : kvTick n = (n, false) := by simp [kvTick, h]
  simp only [removeFabricKey, hk]
  by_cases hf : n.kv.hasFabric idx = true <;> simp [hf]

/-- **The repaired half of `C08-complete-partial-commit` / `C11-complete-store-failure`**: a
CommissioningComplete for a fabric ADDED under the fail-safe (it has no stored record) that is not
acknowledged - whichever of its two writes fails - leaves the store, on the fabric records and the
networks, exactly as it was: when the networks cannot be stored, the fabric record just written is
removed again. (An injected fault hits one call, so the removal itself does not fail.) -/
theorem failed_complete_of_added_fabric_undone (cfg : Cfg) (n : Node) (sid s : Nat) (mode : Mode) (a : Armed)
    (hfs : n.fs = some a) (hadd : a.flags.addNoc = true) (hnone : kvF n.kv mode.fab = none)
    (hfail : (sessOp cfg n sid mode (.complete s)).2 ≠ .ok) :
    KV.Same (sessOp cfg n sid mode (.complete s)).1.kv n.kv := by
  simp only [sessOp] at hfail ⊢
  cases hca : checkArmed n mode with
  | some e => exact KV.Same.refl _
  | none =>
    have hab : a.fab = mode.fab := by
      unfold checkArmed at hca
      rw [hfs] at hca
      by_cases hh : a.fab = mode.fab
      · exact hh
      · simp [hh] at hca
    rw [hca] at hfail
    simp only [] at hfail ⊢
    split
    · exact KV.Same.refl _
    · rename_i hcase
      simp only [hcase, if_false] at hfail
      cases hg : getFabric n mode.fab with
      | none => exact KV.Same.refl _
      | some f =>
        have hidx := getFabric_idx hg
        rw [hg] at hfail
        simp only [] at hfail ⊢
        have ⟨hfr1, hst1⟩ := storeFabric_spec n f
        rcases hr1 : storeFabric n f with ⟨n1, b1⟩
        rw [hr1] at hfr1 hst1 hfail
        simp only at hfr1 hst1 hfail
        rcases hst1 with ⟨hb1, hkv1, _⟩ | ⟨hb1, hkv1, _⟩
        · subst hb1
          simp only [] at hfail ⊢
          have ⟨hfr2, hst2⟩ := storeNets_spec { n1 with managed := true }
          have hfi := storeNets_fail_failIn { n1 with managed := true }
          rcases hr2 : storeNets { n1 with managed := true } with ⟨n2, b2⟩
          rw [hr2] at hfr2 hst2 hfail hfi
          simp only at hfr2 hst2 hfail hfi
          cases b2 with
          | true => simp [ok] at hfail
          | false =>
            simp only []
            rcases hst2 with ⟨hb, _⟩ | ⟨_, hkv2, _⟩
            · cases hb
            · have hkv2' : n2.kv = n.kv.putFabric f := by rw [hkv2]; exact hkv1
              have hfs2 : n2.fs = some a := by rw [hfr2.fs]; exact hfr1.fs.trans hfs
              have hadding : addingFabric { n2 with managed := n1.managed } f.idx = true := by
                unfold addingFabric
                simp only [hfs2, hab, hidx, hadd, beq_self_eq_true, Bool.and_self]
              unfold undoAdded
              have hfi' : ({ n2 with managed := n1.managed } : Node).failIn = 0 := hfi rfl
              rw [if_pos hadding, removeFabricKey_calm f.idx hfi']
              have hhas : ({ n2 with managed := n1.managed } : Node).kv.hasFabric f.idx = true := by
                show n2.kv.hasFabric f.idx = true
                rw [hkv2']
                simp [KV.hasFabric, KV.putFabric]
              rw [if_pos hhas]
              refine ⟨fun i => ?_, ?_⟩
              · show kvF (n2.kv.delFabric f.idx) i = kvF n.kv i
                rw [kvF_delFabric, hkv2', kvF_putFabric]
                by_cases hi : i = f.idx
                · rw [if_pos hi, hi, hidx, hnone]
                · rw [if_neg hi, if_neg hi]
              · show (n2.kv.delFabric f.idx).nets = n.kv.nets
                rw [hkv2']; rfl
        · subst hb1
          simp only []
          rw [hkv1]; exact KV.Same.refl _

/-- CommissioningComplete: the fabric, then the networks - the snapshot between the two writes is
the store before the command with the fabric record written -/
theorem sessOp_complete_snaps (cfg : Cfg) (n : Node) (sid s : Nat) (mode : Mode) :
    ∀ kv ∈ (sessOp cfg n sid mode (.complete s)).1.hist,
      kv ∈ n.hist ∨ KV.Same kv n.kv ∨ KV.Same kv (sessOp cfg n sid mode (.complete s)).1.kv ∨
      ((∃ f, KV.Same kv (n.kv.putFabric f)) ∧
        n.hist.length + 2 ≤ (sessOp cfg n sid mode (.complete s)).1.hist.length) := by
  simp only [sessOp]
  split
  · exact fun kv hk => Or.inl hk
  · split
    · exact fun kv hk => Or.inl hk
    · cases hg : getFabric n mode.fab with
      | none => exact fun kv hk => Or.inl hk
      | some f =>
        simp only []
        have ⟨_, hst1⟩ := storeFabric_spec n f
        rcases hr1 : storeFabric n f with ⟨n1, b1⟩
        rw [hr1] at hst1
        simp only at hst1
        rcases hst1 with ⟨hb1, hkv1, hh1⟩ | ⟨hb1, hkv1, hh1⟩
        · subst hb1
          simp only []
          have ⟨_, hst2⟩ := storeNets_spec { n1 with managed := true }
          rcases hr2 : storeNets { n1 with managed := true } with ⟨n2, b2⟩
          rw [hr2] at hst2
          simp only at hst2
          have hcase : ∀ (m : Node), m.kv = n2.kv → m.hist = n2.hist →
              ∀ kv ∈ m.hist, kv ∈ n.hist ∨ KV.Same kv n.kv ∨ KV.Same kv m.kv ∨
                ((∃ f, KV.Same kv (n.kv.putFabric f)) ∧ n.hist.length + 2 ≤ m.hist.length) := by
            intro m hmk hmh kv hk
            rw [hmh] at hk
            rcases hst2 with ⟨_, hkv2, hh2⟩ | ⟨_, hkv2, hh2⟩
            · rw [hh2] at hk
              rcases List.mem_cons.mp hk with rfl | hk
              · exact Or.inr (Or.inr (Or.inl (by rw [hmk, hkv2]; exact KV.Same.refl _)))
              · have hk' : kv ∈ n1.hist := hk
                rw [hh1] at hk'
                rcases List.mem_cons.mp hk' with rfl | hk'
                · refine Or.inr (Or.inr (Or.inr ⟨⟨f, KV.Same.refl _⟩, ?_⟩))
                  rw [hmh, hh2]
                  show n.hist.length + 2 ≤ (n1.hist).length + 1
                  rw [hh1]
                  simp
                · exact Or.inl hk'
            · rw [hh2] at hk
              have hk' : kv ∈ n1.hist := hk
              rw [hh1] at hk'
              rcases List.mem_cons.mp hk' with rfl | hk'
              · refine Or.inr (Or.inr (Or.inl ?_))
                rw [hmk, hkv2]
                show KV.Same (n.kv.putFabric f) n1.kv
                rw [hkv1]; exact KV.Same.refl _
              · exact Or.inl hk'
          cases b2 with
          | false =>
            simp only []
            rcases undoAdded_hist { n2 with managed := n1.managed } f.idx with ⟨hk0, hh0⟩ | ⟨hk0, hh0⟩
            · exact hcase _ hk0 hh0
            · -- the networks were not stored, the fabric record is removed again
              rcases hst2 with ⟨hb, _⟩ | ⟨_, hkv2, hh2⟩
              · cases hb
              · intro kv hk
                rw [hh0] at hk
                rcases List.mem_cons.mp hk with rfl | hk
                · exact Or.inr (Or.inr (Or.inl (by rw [hk0]; exact KV.Same.refl _)))
                · have hk' : kv ∈ n1.hist := by
                    have : kv ∈ n2.hist := hk
                    rw [hh2] at this; exact this
                  rw [hh1] at hk'
                  rcases List.mem_cons.mp hk' with rfl | hk'
                  · refine Or.inr (Or.inr (Or.inr ⟨⟨f, KV.Same.refl _⟩, ?_⟩))
                    rw [hh0]
                    show n.hist.length + 2 ≤ (n2.hist).length + 1
                    rw [hh2]
                    show n.hist.length + 2 ≤ (n1.hist).length + 1
                    rw [hh1]
                    simp
                  · exact Or.inl hk'
          | true => exact hcase _ rfl rfl
        · subst hb1
          simp only []
          intro kv hk
          rw [hh1] at hk
          exact Or.inl hk


/-! ### the whole step -/

theorem restartFrom_snaps (n : Node) (kv : KV) (hist : List KV) :
    KV.Same (restartFrom n kv hist).kv kv ∧
    ∀ x ∈ (restartFrom n kv hist).hist, x ∈ hist ∨ KV.Same x kv := by
  unfold restartFrom
  cases hr : kv.resum <;> simp only [] <;> (try split) <;>
    (refine ⟨same_of_fabs_nets triv triv, fun x hx => ?_⟩
     simp only [List.mem_cons] at hx
     first
       | exact Or.inl hx
       | (rcases hx with rfl | hx
          · exact Or.inr (same_of_fabs_nets triv triv)
          · first
              | exact Or.inl hx
              | (rcases hx with rfl | hx
                 · exact Or.inr (same_of_fabs_nets triv triv)
                 · exact Or.inl hx)))

/-- what one operation adds to the store history -/
def StepSnaps (cfg : Cfg) (n : Node) (op : Op) : Prop :=
  ∀ kv ∈ (step cfg n op).1.hist,
    kv ∈ n.hist ∨ KV.Same kv n.kv ∨ KV.Same kv (step cfg n op).1.kv ∨
    (∃ s, op = .complete s ∧ (∃ f, KV.Same kv (n.kv.putFabric f)) ∧
      (checkTimeouts cfg n (some s)).1.hist.length + 2 ≤ (step cfg n op).1.hist.length)

theorem stepSnaps_of_one {cfg : Cfg} {n : Node} {op : Op} (h : One n (step cfg n op).1) : StepSnaps cfg n op :=
  fun kv hk => (h kv hk).elim Or.inl (fun x => x.elim (fun y => Or.inr (Or.inl y)) (fun y => Or.inr (Or.inr (Or.inl y))))

theorem step_snaps (cfg : Cfg) (n : Node) (op : Op) (hop : op ≠ .freset) : StepSnaps cfg n op := by
  cases hso : isSessOp op with
  | some sid =>
    have hq := checkTimeouts_quiet cfg n (some sid)
    rcases step_sess cfg n op sid hso with e | e | ⟨s1, _, e⟩
    · exact stepSnaps_of_one (by rw [e]; exact one_of_quiet (quiet_refl n))
    · exact stepSnaps_of_one (by rw [e]; exact one_of_quiet hq)
    · by_cases hc : ∃ s, op = .complete s
      · obtain ⟨s, rfl⟩ := hc
        intro kv hk
        rw [e] at hk ⊢
        have hsid : sid = s := by simpa [isSessOp] using hso.symm
        subst hsid
        rcases sessOp_complete_snaps cfg _ sid sid s1.mode kv hk with h | h | h | ⟨⟨f, h⟩, hlen⟩
        · rcases hq.2 kv h with h' | h'
          · exact Or.inl h'
          · exact Or.inr (Or.inl h')
        · exact Or.inr (Or.inl (h.trans hq.1))
        · exact Or.inr (Or.inr (Or.inl h))
        · exact Or.inr (Or.inr (Or.inr ⟨sid, rfl, ⟨f, h.trans (same_putFabric f hq.1)⟩, hlen⟩))
      · refine stepSnaps_of_one ?_
        rw [e]
        exact quiet_one hq (sessOp_one cfg _ sid s1.mode op (fun s hs => hc ⟨s, hs⟩))
  | none =>
    refine stepSnaps_of_one ?_
    cases op with
    | boot => simp only [step, isSessOp]; split <;> exact one_of_quiet (quiet_of_eq rfl rfl)
    | pase =>
      simp only [step, isSessOp]
      split
      · exact one_of_quiet (quiet_refl n)
      · have ⟨_, _, hk, hh, _⟩ := addSess_fields cfg n (.pase 0) 0 0
        rcases hr : addSess cfg n (.pase 0) 0 0 with ⟨n1, o⟩
        rw [hr] at hk hh
        cases o <;> exact one_of_quiet (quiet_of_eq hk hh)
    | caseEst fab node rid =>
      simp only [step, isSessOp]
      split
      · exact one_of_quiet (quiet_refl n)
      · rename_i f _
        have ⟨_, _, hk, hh, _⟩ := addSess_fields cfg n (.case fab) node f.gen
        rcases hr : addSess cfg n (.case fab) node f.gen with ⟨n1, o⟩
        rw [hr] at hk hh
        cases o <;> exact one_of_quiet (quiet_of_eq hk hh)
    | hs fab node rid =>
      simp only [step, isSessOp]
      split
      · exact one_of_quiet (quiet_refl n)
      · rename_i f _
        have ⟨_, _, hk, hh, _⟩ := addSess_fields cfg n (.case fab) node f.gen
        rcases hr : addSess cfg n (.case fab) node f.gen with ⟨n1, o⟩
        rw [hr] at hk hh
        cases o <;> exact one_of_quiet (quiet_of_eq hk hh)
    | hsdone sid =>
      simp only [step, isSessOp]
      split <;> exact one_of_quiet (quiet_of_eq rfl rfl)
    | sdrop sid =>
      simp only [step, isSessOp]
      split <;> exact one_of_quiet (quiet_of_eq rfl rfl)
    | resume rid newRid =>
      simp only [step, isSessOp]
      split
      · exact one_of_quiet (quiet_refl n)
      · rename_i r _
        split
        · exact one_of_quiet (quiet_refl n)
        · have ⟨_, _, hk, hh, _⟩ := addSess_fields cfg n (.case r.fab) r.peer r.gen
          rcases hr : addSess cfg n (.case r.fab) r.peer r.gen with ⟨n1, o⟩
          rw [hr] at hk hh
          cases o <;> exact one_of_quiet (quiet_of_eq hk hh)
    | tick secs => exact one_of_quiet (quiet_of_eq rfl rfl)
    | poll =>
      simp only [step, isSessOp]
      have := checkTimeouts_quiet cfg n none
      rcases hr : checkTimeouts cfg n none with ⟨n1, e⟩
      rw [hr] at this
      cases e <;> exact one_of_quiet this
    | flush =>
      simp only [step, isSessOp]
      have h1 := storeResum_quiet n
      rcases hst : storeResum n with ⟨n1, b⟩
      rw [hst] at h1
      cases b <;> exact one_of_quiet h1
    | restart =>
      simp only [step, isSessOp, ok]
      have ⟨h1, h2⟩ := restartFrom_snaps n n.kv n.hist
      exact one_of_quiet ⟨h1, h2⟩
    | crash k =>
      simp only [step, isSessOp, ok]
      intro kv hk
      cases hd : List.drop (n.hist.length - min k n.hist.length) n.hist with
      | nil =>
        rw [hd] at hk
        have ⟨h1, h2⟩ := restartFrom_snaps n {} []
        rcases h2 kv hk with h | h
        · cases h
        · exact Or.inr (Or.inr (h.trans h1.symm))
      | cons kv0 rest =>
        rw [hd] at hk
        have ⟨h1, h2⟩ := restartFrom_snaps n kv0 (kv0 :: rest)
        rcases h2 kv hk with h | h
        · left
          have : kv ∈ List.drop (n.hist.length - min k n.hist.length) n.hist := by rw [hd]; exact h
          exact List.mem_of_mem_drop this
        · exact Or.inr (Or.inr (h.trans h1.symm))
    | corrupt =>
      simp only [step, isSessOp, ok]
      have ⟨h1, h2⟩ := restartFrom_snaps n { n.kv with resum := .garbage } ({ n.kv with resum := .garbage } :: n.hist)
      refine one_of_quiet ⟨h1.trans (same_of_fabs_nets rfl rfl), fun kv hk => ?_⟩
      rcases h2 kv hk with h | h
      · rcases List.mem_cons.mp h with rfl | h
        · exact Or.inr (same_of_fabs_nets rfl rfl)
        · exact Or.inl h
      · exact Or.inr (h.trans (same_of_fabs_nets rfl rfl))
    | kvfail k => exact one_of_quiet (quiet_of_eq rfl rfl)
    | nop => exact one_of_quiet (quiet_refl n)
    | coldreset => simp only [step, isSessOp, ok]; intro kv hk; cases hk
    | fabrecover i => simp only [step, isSessOp, ok]; intro kv hk; cases hk
    | freset => exact absurd rfl hop
    | _ => simp [isSessOp] at hso

end Admin
