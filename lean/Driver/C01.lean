import RsMatterVerif.Model.Case
import Driver.C19
import Driver.Util
/-! Driver for C01: replays two-node CASE handshakes on the symbolic model (`Model/Case`) and
evaluates the property's clauses on the sessions the REAL nodes ended up with (oracle). -/
namespace Driver.C01
open Cert Case

structure St where
  ctl : Option Fabric := none
  dev : Option Fabric := none
  cacheI : List ResRec := []
  cacheR : List ResRec := []
  /-- fresh-value counter (ephemeral keys, randoms, session / resumption ids) -/
  n : Nat := 0
deriving Inhabited

def mkFabric (idx : Nat) (root noc : Cert) (icac : Option Cert) (opKey : Option Nat) : Fabric :=
  { idx := idx, fabricId := (fabricIdOf noc.subject).getD 0, root := root, ipk := .atom 77,
    nodeId := (nodeIdOf noc.subject).getD 0, noc := noc, icac := icac, opKey := opKey.getD noc.pubKey }

def junk (k : Nat) : Term := .atom (900000 + k)

/-- a bit flip inside top-level field `tag` of message `name`: the field becomes a value nobody
computed; a field that is not present is left alone (the harness finds nothing to flip) -/
def mutField (name : String) (tag : Nat) (m : Msg) : Msg :=
  match name, m with
  | "s1", .sigma1 r s d e res =>
    match tag with
    | 1 => .sigma1 (junk 1) s d e res
    | 2 => .sigma1 r (junk 2) d e res
    | 3 => .sigma1 r s (junk 3) e res
    | 4 => .sigma1 r s d (junk 4) res
    | 6 => .sigma1 r s d e (res.map fun p => (junk 6, p.2))
    | 7 => .sigma1 r s d e (res.map fun p => (p.1, junk 7))
    | _ => m
  | "s2", .sigma2 r s e c =>
    match tag with
    | 1 => .sigma2 (junk 1) s e c
    | 2 => .sigma2 r (junk 2) e c
    | 3 => .sigma2 r s (junk 3) c
    | 4 => .sigma2 r s e (junk 4)
    | _ => m
  | "s3", .sigma3 _ => if tag = 1 then .sigma3 (junk 1) else m
  | "r2", .sigma2Resume r mc s =>
    match tag with
    | 1 => .sigma2Resume (junk 1) mc s
    | 2 => .sigma2Resume r (junk 2) s
    | 3 => .sigma2Resume r mc (junk 3)
    | _ => m
  | _, _ => m

structure Outcome where
  ctl : Option Session := none
  dev : Option Session := none
deriving Inhabited

def fmtSess : Option Session → String
  | none => "none"
  | some s =>
    let cats := if s.cats.isEmpty then "-" else ".".intercalate (s.cats.map toString)
    s!"sess(fab={s.fabIdx},peer={s.peerNode},cats={cats},local={s.localNode})"

def fmtOutcome (o : Outcome) : String :=
  let keys := match o.ctl, o.dev with
    | some a, some b => if a.i2r = b.i2r ∧ a.r2i = b.r2i then "agree" else "differ"
    | _, _ => "na"
  s!"ctl={fmtSess o.ctl} dev={fmtSess o.dev} keys={keys}"

def upsert (cache : List ResRec) (r : ResRec) : List ResRec :=
  (cache.filter fun x => !(x.fabIdx == r.fabIdx && x.peerNode == r.peerNode)) ++ [r]

/-- one handshake between the two nodes; `mut` = (message, field) hit by a bit flip on its first
transmission -/
def runHs (t : Time) (st : St) (cf df : Fabric) (mutn : Option (String × Nat)) : Outcome × St :=
  let n := st.n
  let st := { st with n := n + 10 }
  let app (name : String) (m : Msg) : Msg :=
    match mutn with
    | some (nm, tag) => if nm = name then mutField name tag m else m
    | none => m
  let c := initSigma1 cf st.cacheI df.nodeId (n + 1) (.atom (10000 + n)) (.atom (20000 + n))
  let m1 := app "s1" c.s1
  match respResume [df] st.cacheR m1 (.atom (30000 + n)) (.atom (40000 + n)) with
  | some ctxR =>
    let m2 := app "r2" ctxR.s2r
    match initSigma2Resume c m2 with
    | some (sI, rI) =>
      -- the initiator sends the success status report
      match respResumeFinish ctxR (.status true) with
      | some (sR, rR) =>
        ({ ctl := some sI, dev := some sR },
         { st with cacheI := upsert st.cacheI rI, cacheR := upsert st.cacheR rR })
      | none => ({ ctl := some sI }, { st with cacheI := upsert st.cacheI rI })
    | none => ({}, st)
  | none =>
    match respSigma1 [df] m1 (n + 2) (.atom (50000 + n)) (.atom (30000 + n)) (.atom (40000 + n)) with
    | .refused => ({}, st)
    | .sent ctx =>
      let m2 := app "s2" ctx.s2
      match initSigma2 t c m2 with
      | none => ({}, st)
      | some c3 =>
        let m3 := app "s3" c3.s3
        match respSigma3 t ctx m3 with
        | none => ({}, st)
        | some (sR, rR) =>
          match initFinish c3 (.status true) with
          | some (sI, rI) =>
            ({ ctl := some sI, dev := some sR },
             { st with cacheI := upsert st.cacheI rI, cacheR := upsert st.cacheR rR })
          | none => ({ dev := some sR }, { st with cacheR := upsert st.cacheR rR })

/-! ## oracle: the clauses of the property on what the implementation reports -/

/-- parse `sess(fab=1,peer=200,cats=1.2,local=100)` -/
def parseSess (s : String) : Option (Nat × Nat × List Nat × Nat) :=
  if ¬ s.startsWith "sess(" then none else
  let inner := ((s.drop 5).toString.dropEnd 1).toString
  let kvs := inner.splitOn ","
  let get (k : String) : Option String :=
    kvs.findSome? fun e => if e.startsWith (k ++ "=") then some (e.drop (k.length + 1)).toString else none
  match (get "fab").bind String.toNat?, (get "peer").bind String.toNat?, get "cats",
        (get "local").bind String.toNat? with
  | some f, some p, some c, some l =>
    some (f, p, if c = "-" then [] else (c.splitOn ".").filterMap String.toNat?, l)
  | _, _, _, _ => none

def field (out key : String) : String :=
  ((words out).findSome? fun w =>
    if w.startsWith (key ++ "=") then some (w.drop (key.length + 1)).toString else none).getD ""

/-- a live session on `me` (holding fabric `mine`) must be with a peer whose chain is valid for
that fabric, and be bound to that chain's node id and CATs -/
def checkSide (side : String) (t : Time) (mine peer : Fabric) (s : String) : Option String :=
  if s = "none" then none
  else if s.contains '+' then some s!"{side}: more than one new session: {s}"
  else
    match parseSess s with
    | none => some s!"{side}: unparsable session {s}"
    | some (fab, p, cats, loc) =>
      if peer.opKey ≠ peer.noc.pubKey then
        some s!"{side} holds a session with a peer that does not hold the private key of its NOC: {s}"
      else if ¬ decide (CaseValid t mine.view peer.noc peer.icac) then
        some s!"{side} holds a session although the peer's chain is not valid for the addressed fabric: {s}"
      else if fab ≠ mine.idx then some s!"{side}: session on another fabric index: {s}"
      else if some p ≠ nodeIdOf peer.noc.subject then
        some s!"{side}: session bound to a node id that is not the certificate's: {s}"
      else if cats ≠ catsOf peer.noc.subject then
        some s!"{side}: session bound to other CATs than the certificate's: {s}"
      else if loc ≠ mine.nodeId then some s!"{side}: wrong local node id: {s}"
      else none

def oracle (t : Time) (cf df : Fabric) (out : String) : Option String :=
  if out.startsWith "panic" then some "panic in the code under test" else
  let c := field out "ctl"
  let d := field out "dev"
  match checkSide "controller" t cf df c with
  | some w => some w
  | none =>
    match checkSide "device" t df cf d with
    | some w => some w
    | none =>
      -- the controller only ever wanted to talk to the device's node id
      if c ≠ "none" ∧ d ≠ "none" ∧ field out "keys" ≠ "agree" then
        some s!"both ends hold a session but not the same directional keys: {out}"
      else none

def parseMut (s : String) : Option (String × String × Nat) :=
  match s.splitOn ":" with
  | m :: k :: rest => some (m, k, ((rest.head?).bind String.toNat?).getD 0)
  | _ => none

def step (st : St) (line : String) : St × String :=
  let (op, out) := splitArrow line
  let toks := words op
  match toks with
  | "case" :: _ => ({}, "case")
  | kind :: rest =>
    if out.startsWith "fabric:" ∨ out = "nostate" ∨ out = "bad" then (st, "ok") else
    let st : St :=
      if kind = "hs" then
        let rec? (k : String) : Option Cert := (Driver.C19.kv k rest).bind Driver.C19.parseRec
        let orec (k : String) : Option Cert :=
          match Driver.C19.kv k rest with
          | some "-" => none
          | some v => Driver.C19.parseRec v
          | none => none
        match rec? "root", rec? "cnoc", rec? "dnoc" with
        | some root, some cnoc, some dnoc =>
          let droot := (rec? "droot").getD root
          let key (k : String) : Option Nat := (Driver.C19.kv k rest).bind String.toNat?
          { ctl := some (mkFabric 1 root cnoc (orec "cicac") (key "ckey")),
            dev := some (mkFabric 1 droot dnoc (orec "dicac") (key "dkey")), n := 0 }
        | _, _, _ => {}
      else st
    match st.ctl, st.dev, Driver.C19.parseTime (field out "t") with
    | some cf, some df, some t =>
      let mu := (Driver.C19.kv "mut" rest).bind parseMut
      let sched := Driver.C19.kv "sched" rest
      let ora := oracle t cf df out
      -- model prediction: unmutated runs and single-field bit flips on a perfect network
      let predictable : Bool := sched.isNone && (match mu with | none => true | some (_, k, _) => k == "f")
      let (o, st') := runHs t st cf df (mu.bind fun (m, k, a) => if k = "f" then some (m, a) else none)
      -- after a run the model cannot follow (other mutations, schedules) the caches are taken
      -- from what the implementation did: both ends live => both caches updated as in the model;
      -- otherwise resumption state is unknown and the model restarts from empty caches
      let stNext : St :=
        if predictable then st'
        else if field out "ctl" ≠ "none" ∧ field out "dev" ≠ "none" then st'
        else { st with cacheI := [], cacheR := [], n := st.n + 10 }
      match ora with
      | some w => (stNext, s!"ORA {w}")
      | none =>
        if predictable then
          let want := fmtOutcome o
          let got := s!"ctl={field out "ctl"} dev={field out "dev"} keys={field out "keys"}"
          if want = got then (stNext, "ok") else (stNext, s!"DIS {want}")
        else (stNext, "ok")
    | _, _, _ => (st, "BAD setup")
  | _ => (st, "BAD op")

def run : IO UInt32 := Driver.runLoop ({} : St) step

end Driver.C01
