import RsMatterVerif.Model.Transport
/-!
# The life cycle of session reservations and exchange handles as a transition system (C20)

State: the session table of `Model/Transport.lean` plus the two kinds of *handles* that live in the
tasks of the node and whose `Drop` code gives resources back:

* `Guard` = a live `ReservedSession { id, complete }` (`transport/session.rs`): created by
  `ReservedSession::reserve_now` (`Sessions::add(.., reserved = true, ..)`), `update`, `complete`
  (the repaired one: clears `reserved` at once), `Drop` (incomplete ⇒ `sessions.remove(id)`;
  complete ⇒ `if let Some(s) = sessions.get(id) { s.reserved = false }`);
* a live `Exchange` handle `(session uid, slot index)` (`transport/exchange.rs`): created by
  `Transport::initiate_for_session` and `Transport::accept_if`, `Drop` = `Table.dropExchange`.

The other ops are the ones that act on the table behind the handles' backs: `Sessions::add` for the
unsecured carrier session of a first handshake message, `Sessions::remove` (`remove_pase`,
`remove_for_fabric`, ...), eviction (`write_evict_some_session_packet`: `get_session_for_eviction`
and the removal inside one `with_state`, i.e. atomic), expiry, the receive path on an unreserved
session (`Session::post_recv`), the closer (`handle_dropped_exchange`), the accept-deadline sweep and
time. Every op is a composition of the functions of `Model/Transport.lean`, used unchanged - the same
compositions the unit-level driver (`Driver/TransportCommon.lean`) replays against the real code.

Not an op: sending (`Session::pre_send`), which only changes MRP state and counters (C09).
Import-free apart from `Model/Transport`.
-/
namespace Handshake
open Transport

/-- a live `ReservedSession` -/
structure Guard where
  uid : Nat
  complete : Bool := false
deriving Repr, DecidableEq, Inhabited

structure Sys where
  t : Table := {}
  guards : List Guard := []
  /-- live `Exchange` handles: (session uid, slot index) -/
  handles : List (Nat × Nat) := []
  now : Nat := 0
deriving Repr, DecidableEq, Inhabited

inductive Op
  /-- `Sessions::add(ctr, false, ..)`: the unsecured session that carries a first handshake message -/
  | add (ctr port : Nat)
  /-- `ReservedSession::reserve_now` -/
  | reserve (ctr : Nat)
  /-- `ReservedSession::update` through the guard that holds `uid` -/
  | update (uid localSid peerSid : Nat) (mode : Mode)
  /-- `ReservedSession::complete` -/
  | complete (uid : Nat)
  /-- `impl Drop for ReservedSession` -/
  | dropGuard (uid : Nat)
  /-- `Sessions::remove(id)` by another party (fabric removed, PASE sessions removed, ...) -/
  | remove (uid : Nat)
  /-- `write_evict_some_session_packet`: choose by `get_session_for_eviction`, then remove -/
  | evict
  /-- the session is marked expired (close-session received, retransmissions exhausted) -/
  | expire (uid : Nat)
  /-- `Transport::initiate_for_session`: a new initiator exchange and its handle -/
  | initiate (uid : Nat)
  /-- a message for session `uid` arrives (`Session::post_recv`); reserved sessions are invisible to
  the receive path (`Session::is_for_rx`) -/
  | recv (uid : Nat) (h : RxHdr)
  /-- `Transport::accept_if` takes the accept-pending exchange in slot `i` -/
  | accept (uid i : Nat)
  /-- `impl Drop for Exchange` -/
  | dropHandle (uid i : Nat)
  /-- one round of the closer (`handle_dropped_exchange`) -/
  | sweep
  /-- `handle_accept_timeout_rx_packet` for the message in the RX slot -/
  | sweepAccept (port sessId : Nat) (h : RxHdr)
  | tick (ms : Nat)
deriving Repr, DecidableEq, Inhabited

def hasGuard (s : Sys) (uid : Nat) : Bool := s.guards.any (fun g => g.uid == uid)

def markComplete (uid : Nat) (g : Guard) : Guard := if g.uid == uid then { g with complete := true } else g

def opAdd (s : Sys) (ctr port : Nat) : Sys :=
  { s with t := (s.t.add ctr false s.now port).1 }

def opReserve (s : Sys) (ctr : Nat) : Sys :=
  let r := s.t.add ctr true s.now
  match r.2 with
  | .ok uid => { s with t := r.1, guards := { uid := uid } :: s.guards }
  | .error _ => { s with t := r.1 }

def opUpdate (s : Sys) (uid localSid peerSid : Nat) (mode : Mode) : Sys :=
  if hasGuard s uid then { s with t := (s.t.reservedUpdate uid localSid peerSid mode s.now).1 } else s

def opComplete (s : Sys) (uid : Nat) : Sys :=
  if hasGuard s uid then
    { s with t := (s.t.reservedComplete uid s.now).1, guards := s.guards.map (markComplete uid) }
  else s

def opDropGuard (s : Sys) (uid : Nat) : Sys :=
  match s.guards.find? (fun g => g.uid == uid) with
  | none => s
  | some g =>
    let gs := s.guards.filter (fun g => g.uid != uid)
    if g.complete then { s with t := (s.t.reservedComplete uid s.now).1, guards := gs }
    else { s with t := (s.t.remove uid).1, guards := gs }

def opRemove (s : Sys) (uid : Nat) : Sys := { s with t := (s.t.remove uid).1 }

def opEvict (s : Sys) : Sys :=
  match s.t.evictionUid s.now with
  | some u => { s with t := (s.t.remove u).1 }
  | none => s

def opExpire (s : Sys) (uid : Nat) : Sys :=
  match (s.t.get uid s.now).2 with
  | some x => { s with t := (s.t.get uid s.now).1.setSess { x with expired := true } }
  | none => s

def opInitiate (s : Sys) (uid : Nat) : Sys :=
  let r := s.t.initiate uid s.now
  match r.2 with
  | .ok (_, i) => { s with t := r.1, handles := (uid, i) :: s.handles }
  | .error _ => { s with t := r.1 }

def opRecv (s : Sys) (uid : Nat) (h : RxHdr) : Sys :=
  match s.t.sess uid with
  | none => s
  | some s0 =>
    if s0.reserved then s else
    match (s.t.get uid s.now).2 with
    | some x => { s with t := (s.t.get uid s.now).1.setSess (x.postRecv h s.now).1 }
    | none => s

def opAccept (s : Sys) (uid i : Nat) : Sys :=
  let r := s.t.accept uid i s.now
  if r.2 then { s with t := r.1, handles := (uid, i) :: s.handles } else { s with t := r.1 }

def opDropHandle (s : Sys) (uid i : Nat) : Sys :=
  if s.handles.contains (uid, i) then
    { s with t := (s.t.dropExchange uid i s.now).1, handles := s.handles.filter (fun h => h != (uid, i)) }
  else s

def opSweep (s : Sys) : Sys := { s with t := (s.t.sweepDropped s.now).1 }

def opSweepAccept (s : Sys) (port sessId : Nat) (h : RxHdr) : Sys :=
  { s with t := (s.t.sweepAccept port sessId h s.now).1 }

def step (s : Sys) : Op → Sys
  | .add ctr port => opAdd s ctr port
  | .reserve ctr => opReserve s ctr
  | .update uid l p m => opUpdate s uid l p m
  | .complete uid => opComplete s uid
  | .dropGuard uid => opDropGuard s uid
  | .remove uid => opRemove s uid
  | .evict => opEvict s
  | .expire uid => opExpire s uid
  | .initiate uid => opInitiate s uid
  | .recv uid h => opRecv s uid h
  | .accept uid i => opAccept s uid i
  | .dropHandle uid i => opDropHandle s uid i
  | .sweep => opSweep s
  | .sweepAccept port sid h => opSweepAccept s port sid h
  | .tick ms => { s with now := s.now + ms }

def run (s : Sys) : List Op → Sys
  | [] => s
  | o :: os => run (step s o) os

def init : Sys := {}

/-- the 28-bit id counter of `Sessions::add` has not wrapped: fewer than 2^28 sessions were created -/
def noWrap (s : Sys) : Prop := s.t.nextUid < 0x0fffffff

/-- the states reachable from the empty node by any history, as long as the id counter does not wrap -/
inductive Reach : Sys → Prop
  | init : Reach init
  | step (s : Sys) (o : Op) : Reach s → noWrap s → Reach (step s o)

/-- the slot holds an exchange owned by a task: `Initiator(Owned)` / `Responder(Owned)` -/
def ownedSlot (o : Option Exch) : Bool :=
  match o with
  | some e => e.role == .io || e.role == .ro
  | none => false

/-- idle: no exchange, not reserved, and expired or last used strictly before `now` (the candidates of
`get_session_for_eviction`) -/
def idleSess (now : Nat) (x : Sess) : Bool :=
  !x.reserved && x.noExchanges && (x.expired || decide (x.lastUse < now))

end Handshake
