import RsMatterVerif.Lemmas.AdminCommit
/-!
# C08 — commissioning under the fail-safe is all-or-nothing

Model: `Model/Admin.lean` (transliteration of `failsafe.rs` and of the handler glue).

1. **Command gating** (`csr_accept_iff`, `root_accept_iff`, `addnoc_accept_iff`, `updnoc_accept_iff`,
   `only_failsafe_context`, `addnoc_accepted_in_order`, `csr_once`, `root_once`, `noc_once`,
   `noc_once_per_failsafe`): the
   credential commands are accepted exactly when the accept table says so.  The table has two parts:
   the SPECIFICATION written from the property text - prescribed order, once each, only from the
   fail-safe's context (`specCsr`, `specRoot`, `specUpdNoc`, `specAddNocOrder`) - and, for AddNOC, the
   feasibility conditions of the code (`addNocFeasible`: valid admin subject, NOC issued by the staged
   root, no fabric conflict, a free index, room in the table, no deferred change pending, the PASE
   session not promoted yet), which are a refinement fact (they restate the branches of `add_noc`).
   **"Context" is the fabric association, not the session** - the Matter rule (core spec 11.10.7.2,
   "Fail-Safe Context") and what `failsafe.rs` `check_state` compares: the fail-safe is bound to "no
   fabric" while it was armed over PASE and AddNOC has not happened, else to a fabric index; a command
   is in context when the fabric index of its session equals that.  So ANY un-promoted PASE session
   is in the context of a PASE-armed fail-safe, and ANY CASE session of the fail-safe's fabric - also
   one of another node of that fabric - is in the context of a fail-safe armed over CASE (examples
   below).  "Only from the session that armed it" is NOT claimed and is not what the code does.
2. **Coherence invariant, store faults included** (`coherent_always_faults`): after EVERY history
   (factory reset excluded) node and store agree on every fabric except the one the fail-safe is
   armed for and the *dirty* ones - a fabric-scoped write outside the fail-safe that was answered with
   a store error - and on the networks while idle.  `coherent_always`: nothing dirty ⇒ `Coh`.
3. **Rollback restores** (`rollback_restores`, `restart_restores`): when the fail-safe ends by expiry
   (timer, ArmFailSafe(0), RevokeCommissioning - all three run `expire`) or by a restart, node and
   store agree on the fail-safe's fabric, on every clean fabric and on the networks, and the
   rollback itself writes no fabric / network key.  These say "the STORED view is restored";
   "exactly what they were before arming" is `rollback_restores_state_before_arming` (expiry) and
   `restart_restores_state_before_arming` (restart), under the hypothesis `StoreQuiet`: no step of the
   armed period changes the fabric keys or the network key of the store - which excludes every
   acknowledged write / RemoveFabric of ANY fabric in that period and the partial commit of a failing
   CommissioningComplete (without it the statement is false: `C08_full_rollback_false`).
   All history theorems are about histories WITHOUT factory reset (`Op.freset ∉ ops`).
4. **Commit is joint** (`commit_is_joint`): an acknowledged CommissioningComplete leaves node and
   store equal and the fail-safe disarmed; `failed_complete_stays_armed`: a CommissioningComplete that
   is answered with an error leaves the fail-safe armed (so that it rolls back or can be retried).
5. The plain statement "idle ⇒ node = store" (`C08_full_coherent_always`) is refuted
   (`C08_full_coherent_always_false`: a failing ACL write outside a fail-safe stays in memory) and
   proved under the decidable exclusion `dirtyRun … = []` (`coherent_when_clean`); the all-or-nothing
   rollback statement without the store-quiet hypothesis (`C08_full_rollback`) is refuted by the
   replay of the open finding `C08-complete-partial-commit` (`C08_full_rollback_false`) and proved
   under `StoreQuiet` (`rollback_restores_state_before_arming`).
-/
namespace C08
open Admin


/-! ## specification of the credential commands (from the property text) -/

/-- the command arrives in the fail-safe's context: the fabric index of its session equals the fabric
index the fail-safe is bound to (`0` = none: armed over PASE, no AddNOC yet).  This is the Matter rule
(the Fail-Safe Context is associated with a fabric, not with a session) and the comparison of
`failsafe.rs` `check_state` / `check_armed`; it does not identify the arming session. -/
def inContext (n : Node) (mode : Mode) : Bool :=
  match n.fs with
  | none => false
  | some a => a.fab == mode.fab

def flagsOf (n : Node) : Flags :=
  match n.fs with
  | none => {}
  | some a => a.flags

def specCsr (n : Node) (mode : Mode) (upd : Bool) : Bool :=
  inContext n mode && !((flagsOf n).addCsr || (flagsOf n).updCsr) && (!upd || mode.isCase)

def specRoot (n : Node) (mode : Mode) : Bool :=
  inContext n mode && !(flagsOf n).root

theorem csr_accept_iff (cfg : Cfg) (n : Node) (sid s : Nat) (mode : Mode) (upd : Bool) :
    (sessOp cfg n sid mode (.csr s upd)).2.accepted = true ↔ specCsr n mode upd = true := by
  unfold sessOp specCsr inContext flagsOf checkArmed checkState
  cases hfs : n.fs with
  | none => simp [Status.accepted]
  | some a =>
    by_cases h1 : a.fab = mode.fab <;> by_cases h2 : a.flags.addCsr <;> by_cases h3 : a.flags.updCsr <;>
      cases upd <;> cases hm : mode.isCase <;> simp_all [ok, Status.accepted]

theorem root_accept_iff (cfg : Cfg) (n : Node) (sid s ca : Nat) (mode : Mode) :
    (sessOp cfg n sid mode (.root s ca)).2.accepted = true ↔ specRoot n mode = true := by
  unfold sessOp specRoot inContext flagsOf checkArmed checkState
  cases hfs : n.fs with
  | none => simp [Status.accepted]
  | some a =>
    by_cases h1 : a.fab = mode.fab <;> by_cases h2 : a.flags.root <;> simp_all [ok, Status.accepted]

theorem inContext_iff (n : Node) (mode : Mode) :
    inContext n mode = true ↔ ∃ a, n.fs = some a ∧ a.fab = mode.fab := by
  unfold inContext
  cases n.fs with
  | none => simp
  | some a => simp

/-- what "context" does NOT mean, 1: a second PASE session (1) runs the whole credential sequence
under the fail-safe that the first PASE session (0) armed -/
example :
    let ops : List Op := [.boot, .pase, .pase, .arm 0 60, .csr 1 false, .root 1 1, .addnoc 1 1 5 10 100 1]
    ((run {} {} ops).fabrics.map (·.idx)) = [1] ∧
    ((run {} {} ops).sessions.map (fun s => (s.id, s.mode.fab))) = [(0, 0), (1, 1)] := by
  refine ⟨by decide, by decide⟩

/-- what "context" does NOT mean, 2: the fail-safe is armed over the CASE session 1 of node 100 of
fabric 1; the CASE session 2 of ANOTHER node (200) of fabric 1 runs CSRRequest / UpdateNOC /
CommissioningComplete under it -/
example :
    let ops : List Op := [.boot, .pase, .arm 0 60, .csr 0 false, .root 0 1, .addnoc 0 1 5 10 100 1,
      .caseEst 1 100 1, .complete 1, .caseEst 1 200 2, .arm 1 60, .csr 2 true, .updnoc 2 11 2, .complete 2]
    (run {} {} ops).fs = none ∧ ((run {} {} ops).fabrics.map (fun f => (f.node, f.ser))) = [(11, 2)] := by
  refine ⟨by decide, by decide⟩

/-- (refinement, not specification: the index allocation of `Fabrics::add_with_post_init`) -/
def freeIdx (n : Node) : Option Nat :=
  if maxIdx n.fabrics < 254 then some (maxIdx n.fabrics + 1)
  else (List.range 255).find? (fun i => 1 ≤ i && !hasFabric n i)

/-- the fail-safe context holds a deferred fabric-scoped change -/
def deferredOf (n : Node) : Bool :=
  match n.fs with
  | none => false
  | some a => a.deferred

/-- **AddNOC, the specification** (from the property text): from the fail-safe's context, after
CSRRequest (not the UpdateNOC variant) and AddTrustedRootCertificate, and at most one NOC command
per fail-safe -/
def specAddNocOrder (n : Node) (mode : Mode) : Bool :=
  inContext n mode
  && ((flagsOf n).root && (flagsOf n).addCsr)
  && !((flagsOf n).addNoc || (flagsOf n).updCsr || (flagsOf n).updNoc)

/-- **AddNOC, the feasibility conditions of the code** (a refinement fact - they restate the remaining
branches of `FailSafe::add_noc` / `noc.rs` `handle_add_noc`, and say nothing the property demands): the
admin subject is a node id, the NOC is issued by the staged root, no fabric of that root has the
fabric id, an index is free and the table has room, the context holds no deferred change of an
existing fabric (fix de537e5), and a PASE session has not been promoted to a fabric already -/
def addNocFeasible (cfg : Cfg) (n : Node) (mode : Mode) (ca fid subj : Nat) : Bool :=
  isNodeId subj && decide (ca = n.staged)
  && !(n.fabrics.any (fun f => f.fid = fid && f.ca = n.staged))
  && (freeIdx n).isSome && decide (n.fabrics.length < cfg.maxFabrics)
  && !(decide (mode.fab ≠ 0) && deferredOf n)
  && (match mode with
      | .pase 0 => true
      | .pase _ => false
      | .case _ => true)

/-- the accept table of AddNOC: specification and feasibility -/
def specAddNoc (cfg : Cfg) (n : Node) (mode : Mode) (ca fid subj : Nat) : Bool :=
  inContext n mode
  && ((flagsOf n).root && (flagsOf n).addCsr)
  && !((flagsOf n).addNoc || (flagsOf n).updCsr || (flagsOf n).updNoc)
  && isNodeId subj && decide (ca = n.staged)
  && !(n.fabrics.any (fun f => f.fid = fid && f.ca = n.staged))
  && (freeIdx n).isSome && decide (n.fabrics.length < cfg.maxFabrics)
  && !(decide (mode.fab ≠ 0) && deferredOf n)
  && (match mode with
      | .pase 0 => true
      | .pase _ => false
      | .case _ => true)

theorem specAddNoc_split (cfg : Cfg) (n : Node) (mode : Mode) (ca fid subj : Nat) :
    specAddNoc cfg n mode ca fid subj = (specAddNocOrder n mode && addNocFeasible cfg n mode ca fid subj) := by
  unfold specAddNoc specAddNocOrder addNocFeasible
  simp only [Bool.and_assoc]

def specUpdNoc (n : Node) (mode : Mode) : Bool :=
  inContext n mode && mode.isCase && (flagsOf n).updCsr
  && !((flagsOf n).root || (flagsOf n).addNoc || (flagsOf n).addCsr || (flagsOf n).updNoc)
  && hasFabric n mode.fab

theorem updnoc_accept_iff (cfg : Cfg) (n : Node) (sid s node ser : Nat) (mode : Mode) :
    (sessOp cfg n sid mode (.updnoc s node ser)).2.accepted = true ↔ specUpdNoc n mode = true := by
  unfold sessOp specUpdNoc inContext flagsOf checkArmed checkState getFabric hasFabric
  cases hfs : n.fs with
  | none => simp [Status.accepted]
  | some a =>
    by_cases h1 : a.fab = mode.fab
    · cases hm : mode.isCase
      · simp_all [ok, Status.accepted]
      · cases hf : n.fabrics.find? (fun f => decide (f.idx = mode.fab)) with
        | none =>
          have : n.fabrics.any (fun f => decide (f.idx = mode.fab)) = false := by
            simpa [List.find?_eq_none] using hf
          by_cases h2 : a.flags.updCsr <;> by_cases h3 : a.flags.root <;> by_cases h4 : a.flags.addNoc <;>
            by_cases h5 : a.flags.addCsr <;> by_cases h6 : a.flags.updNoc <;> simp_all [ok, Status.accepted]
        | some f =>
          have : n.fabrics.any (fun f => decide (f.idx = mode.fab)) = true := by
            have := List.find?_some hf
            have hm := List.mem_of_find?_eq_some hf
            simp only [List.any_eq_true]
            exact ⟨f, hm, this⟩
          by_cases h2 : a.flags.updCsr <;> by_cases h3 : a.flags.root <;> by_cases h4 : a.flags.addNoc <;>
            by_cases h5 : a.flags.addCsr <;> by_cases h6 : a.flags.updNoc <;> simp_all [ok, Status.accepted]
    · simp_all [ok, Status.accepted]
theorem addNoc_accept_iff (cfg : Cfg) (n : Node) (sid ca fid node subj ser : Nat) (mode : Mode) :
    (addNoc cfg n sid mode ca fid node subj ser).2.accepted = true ↔
      specAddNoc cfg n mode ca fid subj = true := by
  unfold addNoc specAddNoc inContext flagsOf deferredOf checkArmed checkState freeIdx
  cases hfs : n.fs with
  | none => simp [Status.accepted]
  | some a =>
    cases mode with
    | pase k =>
      cases k <;> simp only [Mode.fab] <;> repeat' split
      all_goals simp_all [Status.accepted]
      all_goals grind
    | case k =>
      simp only [Mode.fab] <;> repeat' split
      all_goals simp_all [Status.accepted]
      all_goals grind

/-- the retry of a failed resumption-cache store touches nothing the gating looks at -/
theorem retryResum_same (n : Node) :
    (retryResum n).1.fs = n.fs ∧ (retryResum n).1.staged = n.staged ∧ (retryResum n).1.fabrics = n.fabrics := by
  have hk : (kvTick n).1.fs = n.fs ∧ (kvTick n).1.staged = n.staged ∧ (kvTick n).1.fabrics = n.fabrics := by
    unfold kvTick; split <;> (try split) <;> exact ⟨rfl, rfl, rfl⟩
  unfold retryResum
  split
  · unfold storeResum
    rcases ht : kvTick n with ⟨n1, bad⟩
    rw [ht] at hk
    cases bad <;> exact hk
  · exact ⟨rfl, rfl, rfl⟩

theorem specAddNoc_congr (cfg : Cfg) (n n' : Node) (mode : Mode) (ca fid subj : Nat)
    (h1 : n'.fs = n.fs) (h2 : n'.staged = n.staged) (h3 : n'.fabrics = n.fabrics) :
    specAddNoc cfg n' mode ca fid subj = specAddNoc cfg n mode ca fid subj := by
  unfold specAddNoc inContext flagsOf deferredOf freeIdx hasFabric
  rw [h1, h2, h3]

/-- AddNOC is accepted exactly when the spec table holds - and the retry of a resumption-cache store
that had failed (the first thing the command does) does not fail again -/
theorem addnoc_accept_iff (cfg : Cfg) (n : Node) (sid s ca fid node subj ser : Nat) (mode : Mode) :
    (sessOp cfg n sid mode (.addnoc s ca fid node subj ser)).2.accepted = true ↔
      ((retryResum n).2 = true ∧ specAddNoc cfg n mode ca fid subj = true) := by
  have ⟨h1, h2, h3⟩ := retryResum_same n
  simp only [sessOp]
  rcases hr : retryResum n with ⟨n1, b⟩
  rw [hr] at h1 h2 h3
  simp only at h1 h2 h3
  cases b with
  | false => simp [Status.accepted]
  | true =>
    simp only [true_and]
    rw [addNoc_accept_iff, specAddNoc_congr cfg n n1 mode ca fid subj h1 h2 h3]

/-- **AddNOC is never accepted outside the specification** (order, once, context) - whatever the
feasibility conditions say -/
theorem addnoc_accepted_in_order (cfg : Cfg) (n : Node) (sid s ca fid node subj ser : Nat) (mode : Mode)
    (hacc : (sessOp cfg n sid mode (.addnoc s ca fid node subj ser)).2.accepted = true) :
    specAddNocOrder n mode = true := by
  have := ((addnoc_accept_iff cfg n sid s ca fid node subj ser mode).mp hacc).2
  rw [specAddNoc_split, Bool.and_eq_true] at this
  exact this.1

/-! ## gating corollaries -/

/-- a credential command is accepted only from the session context the fail-safe is bound to -/
theorem only_failsafe_context (cfg : Cfg) (n : Node) (sid : Nat) (mode : Mode) (op : Op)
    (hop : (∃ s u, op = .csr s u) ∨ (∃ s c, op = .root s c) ∨
           (∃ s c f nd a r, op = .addnoc s c f nd a r) ∨ (∃ s nd r, op = .updnoc s nd r))
    (hacc : (sessOp cfg n sid mode op).2.accepted = true) : inContext n mode = true := by
  rcases hop with ⟨s, u, rfl⟩ | ⟨s, c, rfl⟩ | ⟨s, c, f, nd, a, r, rfl⟩ | ⟨s, nd, r, rfl⟩
  · have := (csr_accept_iff cfg n sid s mode u).mp hacc
    simp only [specCsr, Bool.and_eq_true] at this; exact this.1.1
  · have := (root_accept_iff cfg n sid s c mode).mp hacc
    simp only [specRoot, Bool.and_eq_true] at this; exact this.1
  · have := ((addnoc_accept_iff cfg n sid s c f nd a r mode).mp hacc).2
    simp only [specAddNoc, Bool.and_eq_true] at this; exact this.1.1.1.1.1.1.1.1.1
  · have := (updnoc_accept_iff cfg n sid s nd r mode).mp hacc
    simp only [specUpdNoc, Bool.and_eq_true] at this; exact this.1.1.1.1

/-- without an armed fail-safe no credential command is accepted -/
theorem needs_armed_failsafe (n : Node) (mode : Mode) (h : n.fs = none) : inContext n mode = false := by
  simp [inContext, h]

example : ∃ n mode, inContext n mode = true :=
  ⟨{ fs := some { fab := 0, flags := {}, timeout := 60, armedAt := 0 } }, .pase 0, by decide⟩

/-- an accepted CSRRequest records itself in the fail-safe context ... -/
theorem csr_sets_flag (cfg : Cfg) (n : Node) (sid s : Nat) (mode : Mode) (upd : Bool)
    (hacc : (sessOp cfg n sid mode (.csr s upd)).2.accepted = true) :
    ((flagsOf (sessOp cfg n sid mode (.csr s upd)).1).addCsr || (flagsOf (sessOp cfg n sid mode (.csr s upd)).1).updCsr) = true ∧
    inContext (sessOp cfg n sid mode (.csr s upd)).1 mode = true := by
  have hspec := (csr_accept_iff cfg n sid s mode upd).mp hacc
  unfold sessOp flagsOf inContext checkArmed checkState at *
  unfold specCsr inContext flagsOf at hspec
  cases hfs : n.fs with
  | none => simp [hfs] at hspec
  | some a =>
    by_cases h1 : a.fab = mode.fab <;> by_cases h2 : a.flags.addCsr <;> by_cases h3 : a.flags.updCsr <;>
      cases upd <;> cases hm : mode.isCase <;> simp_all [ok, Status.accepted]

/-- ... so that a second CSRRequest in the same context is rejected (**once**) -/
theorem csr_once (cfg : Cfg) (n : Node) (sid s s' : Nat) (mode : Mode) (upd upd' : Bool)
    (hacc : (sessOp cfg n sid mode (.csr s upd)).2.accepted = true) :
    (sessOp cfg (sessOp cfg n sid mode (.csr s upd)).1 sid mode (.csr s' upd')).2.accepted = false := by
  have h := (csr_sets_flag cfg n sid s mode upd hacc).1
  cases hacc2 : (sessOp cfg (sessOp cfg n sid mode (.csr s upd)).1 sid mode (.csr s' upd')).2.accepted with
  | false => rfl
  | true =>
    have := (csr_accept_iff cfg _ sid s' mode upd').mp hacc2
    simp only [specCsr, Bool.and_eq_true, Bool.not_eq_true'] at this
    rw [this.1.2] at h
    exact absurd h (by decide)

/-- after an accepted AddTrustedRootCertificate a second one is rejected (**once**) -/
theorem root_once (cfg : Cfg) (n : Node) (sid s s' ca ca' : Nat) (mode : Mode)
    (hacc : (sessOp cfg n sid mode (.root s ca)).2.accepted = true) :
    (sessOp cfg (sessOp cfg n sid mode (.root s ca)).1 sid mode (.root s' ca')).2.accepted = false := by
  have hspec := (root_accept_iff cfg n sid s ca mode).mp hacc
  cases hacc2 : (sessOp cfg (sessOp cfg n sid mode (.root s ca)).1 sid mode (.root s' ca')).2.accepted with
  | false => rfl
  | true =>
    have h2 := (root_accept_iff cfg _ sid s' ca' mode).mp hacc2
    exfalso
    unfold sessOp specRoot inContext flagsOf checkArmed checkState at *
    cases hfs : n.fs with
    | none => simp [hfs] at hspec
    | some a =>
      by_cases h1 : a.fab = mode.fab <;> by_cases h3 : a.flags.root <;> simp_all [ok]

theorem addNoc_sets_flag (cfg : Cfg) (n : Node) (sid ca fid node subj ser : Nat) (mode : Mode)
    (hacc : (addNoc cfg n sid mode ca fid node subj ser).2.accepted = true) :
    (flagsOf (addNoc cfg n sid mode ca fid node subj ser).1).addNoc = true := by
  generalize hres : addNoc cfg n sid mode ca fid node subj ser = r at hacc ⊢
  simp only [addNoc] at hres
  repeat' split at hres
  all_goals (subst hres; first | (simp [Status.accepted] at hacc; done) | simp [flagsOf])

/-- an accepted AddNOC records itself in the fail-safe context -/
theorem addnoc_sets_flag (cfg : Cfg) (n : Node) (sid s ca fid node subj ser : Nat) (mode : Mode)
    (hacc : (sessOp cfg n sid mode (.addnoc s ca fid node subj ser)).2.accepted = true) :
    (flagsOf (sessOp cfg n sid mode (.addnoc s ca fid node subj ser)).1).addNoc = true := by
  simp only [sessOp] at hacc ⊢
  rcases hr : retryResum n with ⟨n1, b⟩
  rw [hr] at hacc
  cases b with
  | false => simp [Status.accepted] at hacc
  | true => exact addNoc_sets_flag cfg n1 sid ca fid node subj ser mode hacc

/-- an accepted UpdateNOC records itself in the fail-safe context -/
theorem updnoc_sets_flag (cfg : Cfg) (n : Node) (sid s node ser : Nat) (mode : Mode)
    (hacc : (sessOp cfg n sid mode (.updnoc s node ser)).2.accepted = true) :
    (flagsOf (sessOp cfg n sid mode (.updnoc s node ser)).1).updNoc = true := by
  generalize hres : sessOp cfg n sid mode (.updnoc s node ser) = r at hacc ⊢
  simp only [sessOp] at hres
  repeat' split at hres
  all_goals (subst hres; first | (simp [Status.accepted] at hacc; done) | simp [flagsOf, ok, setFabric])

/-- **AddNOC / UpdateNOC at most once per fail-safe**: in a state whose fail-safe context carries the
AddNOC or the UpdateNOC mark, neither command is accepted - from whatever session -/
theorem noc_refused_after_noc (cfg : Cfg) (n : Node) (sid : Nat) (mode : Mode)
    (h : ((flagsOf n).addNoc || (flagsOf n).updNoc) = true) :
    (∀ s ca fid node subj ser, (sessOp cfg n sid mode (.addnoc s ca fid node subj ser)).2.accepted = false) ∧
    (∀ s node ser, (sessOp cfg n sid mode (.updnoc s node ser)).2.accepted = false) := by
  refine ⟨fun s ca fid node subj ser => ?_, fun s node ser => ?_⟩
  · cases hacc : (sessOp cfg n sid mode (.addnoc s ca fid node subj ser)).2.accepted with
    | false => rfl
    | true =>
      have := ((addnoc_accept_iff cfg n sid s ca fid node subj ser mode).mp hacc).2
      simp only [specAddNoc, Bool.and_eq_true, Bool.not_eq_true', Bool.or_eq_false_iff] at this
      have h1 := this.1.1.1.1.1.1.1.2
      rw [h1.1.1, h1.2] at h
      exact absurd h (by decide)
  · cases hacc : (sessOp cfg n sid mode (.updnoc s node ser)).2.accepted with
    | false => rfl
    | true =>
      have := (updnoc_accept_iff cfg n sid s node ser mode).mp hacc
      simp only [specUpdNoc, Bool.and_eq_true, Bool.not_eq_true', Bool.or_eq_false_iff] at this
      have h1 := this.1.2
      rw [h1.1.1.2, h1.2] at h
      exact absurd h (by decide)
/-- a NOC command: AddNOC or UpdateNOC -/
def isNoc (op : Op) : Prop :=
  (∃ s c f nd a r, op = .addnoc s c f nd a r) ∨ (∃ s nd r, op = .updnoc s nd r)

/-- **AddNOC / UpdateNOC at most once**: right after an accepted NOC command another one is refused -
whichever of the two, from whichever session.  (The refusal holds in EVERY state whose context
carries a NOC mark, `noc_refused_after_noc`, and the mark goes away only with the context:
`noc_once_per_failsafe` below.) -/
theorem noc_once (cfg : Cfg) (n : Node) (sid sid' : Nat) (mode mode' : Mode) (op op' : Op)
    (hop : isNoc op) (hop' : isNoc op')
    (hacc : (sessOp cfg n sid mode op).2.accepted = true) :
    (sessOp cfg (sessOp cfg n sid mode op).1 sid' mode' op').2.accepted = false := by
  have hmark : ((flagsOf (sessOp cfg n sid mode op).1).addNoc || (flagsOf (sessOp cfg n sid mode op).1).updNoc) = true := by
    rcases hop with ⟨s, c, f, nd, a, r, rfl⟩ | ⟨s, nd, r, rfl⟩
    · rw [addnoc_sets_flag cfg n sid s c f nd a r mode hacc]; rfl
    · rw [updnoc_sets_flag cfg n sid s nd r mode hacc]; simp
  have ⟨h1, h2⟩ := noc_refused_after_noc cfg (sessOp cfg n sid mode op).1 sid' mode' hmark
  rcases hop' with ⟨s, c, f, nd, a, r, rfl⟩ | ⟨s, nd, r, rfl⟩
  · exact h1 s c f nd a r
  · exact h2 s nd r

/-- an accepted AddNOC exists (so `noc_once` is not vacuous): the commissioning over PASE -/
example :
    let n := run {} {} [.boot, .pase, .arm 0 60, .csr 0 false, .root 0 1]
    (sessOp {} n 0 (.pase 0) (.addnoc 0 1 5 10 100 1)).2.accepted = true ∧
    (sessOp {} (sessOp {} n 0 (.pase 0) (.addnoc 0 1 5 10 100 1)).1 0 (.pase 1) (.addnoc 0 1 6 11 100 2)).2 =
      .err "ConstraintError" := by
  refine ⟨by decide, by decide⟩

/-! ## coherence, rollback, commit -/

/-- **Coherence invariant, store faults included**: from the factory-fresh node, after EVERY history
without factory reset - any command order, any session, key-value store failures at any write - node
and store agree on every fabric except the one the fail-safe is armed for and the dirty ones, and on
the networks while no fail-safe is armed. -/
theorem coherent_always_faults (cfg : Cfg) (ops : List Op) (hno : Op.freset ∉ ops) :
    CohD (run cfg {} ops) (dirtyRun cfg {} [] ops) :=
  run_cohD cfg ops {} [] coh_init hno

/-- nothing dirty ⇒ coherence proper -/
theorem coherent_always (cfg : Cfg) (ops : List Op) (hno : Op.freset ∉ ops)
    (hclean : dirtyRun cfg {} [] ops = []) : Coh (run cfg {} ops) := by
  have := coherent_always_faults cfg ops hno
  rw [hclean] at this
  exact this

/-- the statement of `C08_full_coherent_always` under its precise exclusion: no factory reset and
nothing dirty (both decidable on the history) -/
theorem coherent_when_clean (cfg : Cfg) (ops : List Op) (hno : Op.freset ∉ ops)
    (hclean : dirtyRun cfg {} [] ops = []) (hidle : (run cfg {} ops).fs = none) : Agree (run cfg {} ops) :=
  agree_of_cohD_idle (coherent_always cfg ops hno hclean) hidle

/-- the exclusion is satisfiable, also by histories WITH store faults: a fault that hits
CommissioningComplete (first write) leaves nothing dirty, the fail-safe armed, and the retry commits -/
example :
    let ops : List Op := [.boot, .pase, .arm 0 60, .csr 0 false, .root 0 1, .addnoc 0 1 5 10 100 1,
      .caseEst 1 100 1, .kvfail 1, .complete 1, .complete 1, .acl 1 200]
    Op.freset ∉ ops ∧ dirtyRun {} {} [] ops = [] ∧ (run {} {} ops).fs = none ∧
    (run {} {} ops).kv.fabs.length = 1 := by
  refine ⟨by decide, by decide, by decide, by decide⟩

/-- **Rollback restores** (expiry by timer, `ArmFailSafe(0)`, `RevokeCommissioning` - all of them run
`FailSafe::expire` followed by the purge of the resumption cache): after any history, if the expiry
succeeds then the fail-safe is disarmed, node and store agree on the fail-safe's fabric, on every
fabric that is not dirty and on the networks, and the rollback wrote no fabric / network key. -/
theorem rollback_restores (cfg : Cfg) (ops : List Op) (hno : Op.freset ∉ ops) (a : Armed) (exp : Option Nat)
    (harmed : (run cfg {} ops).fs = some a)
    (hok : (expireArmed cfg (run cfg {} ops) a exp).2.1 = none) :
    CohD (expireAndPurge cfg (run cfg {} ops) a exp).1 (dirtyRun cfg {} [] ops) ∧
    (expireAndPurge cfg (run cfg {} ops) a exp).1.fs = none ∧
    (a.fab ≠ 0 → getFabric (expireAndPurge cfg (run cfg {} ops) a exp).1 a.fab = kvF (run cfg {} ops).kv a.fab) ∧
    ((expireAndPurge cfg (run cfg {} ops) a exp).1.nets, (expireAndPurge cfg (run cfg {} ops) a exp).1.managed) =
      kvNets (run cfg {} ops).kv ∧
    (expireAndPurge cfg (run cfg {} ops) a exp).1.kv.fabs = (run cfg {} ops).kv.fabs ∧
    (expireAndPurge cfg (run cfg {} ops) a exp).1.kv.nets = (run cfg {} ops).kv.nets := by
  have hc := coherent_always_faults cfg ops hno
  have ⟨h1, h2, h3, h4⟩ := expireAndPurge_cohD cfg _ _ a exp hc harmed
  have ⟨h5, h6, h7⟩ := h4 hok
  exact ⟨h1, h5, h6, h7, h2, h3⟩

/-- the expiry can only fail when the fabric table is full at the moment the stored copy is put back
(which cannot happen after the slot was just freed); in particular it does NOT fail when the
fail-safe's fabric was removed meanwhile (fixed finding `C08-removefabric-then-expiry-stuck`) -/
theorem expire_succeeds_when_fabric_gone (cfg : Cfg) (n : Node) (a : Armed) (exp : Option Nat)
    (hgone : n.kv.fabs.find? (fun f => f.idx = a.fab) = none) :
    (expireArmed cfg n a exp).2.1 = none := by
  unfold expireArmed rollbackFabrics
  by_cases h0 : a.fab = 0 <;> simp [h0, hgone]

/-- **Restart restores**: a restart (or a crash, which restarts from an earlier store) comes up with
exactly the stored fabrics and networks, no fail-safe and no session. -/
theorem restart_restores (n : Node) (kv : KV) (hist : List KV) :
    Agree (restartFrom n kv hist) ∧ (restartFrom n kv hist).fs = none ∧ (restartFrom n kv hist).sessions = [] := by
  have ⟨h1, h2, _, _, _, h6⟩ := restartFrom_agree n kv hist
  exact ⟨h1, h2, h6⟩

/-- **Commit is joint**: after any history, an acknowledged CommissioningComplete leaves the
fail-safe disarmed, the committed fabric equal in node and store, the networks equal, and every
clean fabric equal. -/
theorem commit_is_joint (cfg : Cfg) (ops : List Op) (hno : Op.freset ∉ ops) (sid s : Nat) (mode : Mode)
    (hack : (sessOp cfg (run cfg {} ops) sid mode (.complete s)).2 = .ok) :
    CohD (sessOp cfg (run cfg {} ops) sid mode (.complete s)).1 (dirtyRun cfg {} [] ops) ∧
    (sessOp cfg (run cfg {} ops) sid mode (.complete s)).1.fs = none ∧
    getFabric (sessOp cfg (run cfg {} ops) sid mode (.complete s)).1 mode.fab =
      kvF (sessOp cfg (run cfg {} ops) sid mode (.complete s)).1.kv mode.fab ∧
    (getFabric (sessOp cfg (run cfg {} ops) sid mode (.complete s)).1 mode.fab).isSome = true ∧
    ((sessOp cfg (run cfg {} ops) sid mode (.complete s)).1.nets,
     (sessOp cfg (run cfg {} ops) sid mode (.complete s)).1.managed) =
      kvNets (sessOp cfg (run cfg {} ops) sid mode (.complete s)).1.kv := by
  have hc := coherent_always_faults cfg ops hno
  have ⟨h1, h2⟩ := sessOp_complete_cohD cfg _ _ sid s mode hc
  have ⟨h3, h4, h5⟩ := h2 hack
  exact ⟨h1, h3, h4, h5, h1.2.1 h3⟩

theorem removeFabricKey_window (n : Node) (idx : Nat) : (removeFabricKey n idx).1.window = n.window := by
  have hk : (kvTick n).1.window = n.window := by unfold kvTick; split <;> (try split) <;> rfl
  unfold removeFabricKey
  rcases ht : kvTick n with ⟨n1, bad⟩
  rw [ht] at hk
  cases bad with
  | true => exact hk
  | false =>
    simp only [Bool.false_eq_true, if_false]
    split <;> exact hk

theorem undoAdded_window (n : Node) (idx : Nat) : (undoAdded n idx).window = n.window := by
  unfold undoAdded
  split
  · exact removeFabricKey_window n idx
  · rfl

/-- a CommissioningComplete that is NOT acknowledged (wrong context, store failure at either write)
leaves the fail-safe exactly as it was - armed: it rolls back at the expiry or can be retried
(fixed finding `C08-complete-not-atomic`) -/
theorem complete_ok_or_unchanged (cfg : Cfg) (n : Node) (sid s : Nat) (mode : Mode) :
    (sessOp cfg n sid mode (.complete s)).2 = .ok ∨
    ((sessOp cfg n sid mode (.complete s)).1.fs = n.fs ∧
     (sessOp cfg n sid mode (.complete s)).1.sessions = n.sessions ∧
     (sessOp cfg n sid mode (.complete s)).1.window = n.window) := by
  simp only [sessOp]
  split
  · exact Or.inr ⟨rfl, rfl, rfl⟩
  · split
    · exact Or.inr ⟨rfl, rfl, rfl⟩
    · cases hg : getFabric n mode.fab with
      | none => exact Or.inr ⟨rfl, rfl, rfl⟩
      | some f =>
        simp only []
        have ⟨hfr1, _⟩ := storeFabric_spec n f
        have hw1 : (storeFabric n f).1.window = n.window := by
          unfold storeFabric kvTick kvCommit
          by_cases f0 : n.failIn = 0
          · simp [f0]
          · by_cases f1 : n.failIn = 1
            · simp [f1]
            · simp [f0, f1]
        rcases hr1 : storeFabric n f with ⟨n1, b1⟩
        rw [hr1] at hfr1 hw1
        simp only at hfr1 hw1
        cases b1 with
        | false => exact Or.inr ⟨hfr1.fs, hfr1.sessions, hw1⟩
        | true =>
          simp only []
          have ⟨hfr2, _⟩ := storeNets_spec { n1 with managed := true }
          have hw2 : (storeNets { n1 with managed := true }).1.window = n1.window := by
            unfold storeNets kvTick kvCommit
            by_cases f0 : n1.failIn = 0
            · simp [f0]
            · by_cases f1 : n1.failIn = 1
              · simp [f1]
              · simp [f0, f1]
          rcases hr2 : storeNets { n1 with managed := true } with ⟨n2, b2⟩
          rw [hr2] at hfr2 hw2
          simp only at hfr2 hw2
          cases b2 with
          | false =>
            refine Or.inr ?_
            simp only []
            have hu := undoAdded_frame { n2 with managed := n1.managed } f.idx
            have hwu : (undoAdded { n2 with managed := n1.managed } f.idx).window = n2.window :=
              undoAdded_window _ f.idx
            exact ⟨hu.fs.trans (hfr2.fs.trans hfr1.fs), hu.sessions.trans (hfr2.sessions.trans hfr1.sessions),
              hwu.trans (hw2.trans hw1)⟩
          | true => exact Or.inl rfl

theorem failed_complete_stays_armed (cfg : Cfg) (n : Node) (sid s : Nat) (mode : Mode)
    (hfail : (sessOp cfg n sid mode (.complete s)).2 ≠ .ok) :
    (sessOp cfg n sid mode (.complete s)).1.fs = n.fs ∧
    (sessOp cfg n sid mode (.complete s)).1.sessions = n.sessions ∧
    (sessOp cfg n sid mode (.complete s)).1.window = n.window :=
  (complete_ok_or_unchanged cfg n sid s mode).resolve_left hfail

/-- the commands of the commissioning in progress never write to the store: CSRRequest,
AddTrustedRootCertificate, UpdateNOC, network changes and (re-)arming leave every key alone
(what they change lives in memory until CommissioningComplete) -/
theorem commissioning_ops_keep_store (cfg : Cfg) (n : Node) (sid : Nat) (mode : Mode) (op : Op)
    (hop : (∃ s u, op = .csr s u) ∨ (∃ s c, op = .root s c) ∨
           (∃ s nd r, op = .updnoc s nd r) ∨
           (∃ s v, op = .net s v) ∨ (∃ s v, op = .rmnet s v) ∨ (∃ s t, op = .arm s t ∧ t ≠ 0)) :
    (sessOp cfg n sid mode op).1.kv = n.kv ∧ (sessOp cfg n sid mode op).1.hist = n.hist := by
  refine sessOp_store_untouched cfg n sid mode op ?_
  rcases hop with h | h | h | h | h | h
  · exact Or.inl h
  · exact Or.inr (Or.inl h)
  · exact Or.inr (Or.inr (Or.inl h))
  · exact Or.inr (Or.inr (Or.inr (Or.inl h)))
  · exact Or.inr (Or.inr (Or.inr (Or.inr (Or.inl h))))
  · exact Or.inr (Or.inr (Or.inr (Or.inr (Or.inr (Or.inl h)))))

/-- ... and AddNOC writes no fabric key and no networks key: the only key it may write is the
resumption cache (the retry of a store that had failed) -/
theorem addnoc_keeps_committed_keys (cfg : Cfg) (n : Node) (sid s ca fid node subj ser : Nat) (mode : Mode) :
    (sessOp cfg n sid mode (.addnoc s ca fid node subj ser)).1.kv.fabs = n.kv.fabs ∧
    (sessOp cfg n sid mode (.addnoc s ca fid node subj ser)).1.kv.nets = n.kv.nets := by
  simp only [sessOp]
  rcases retryResum_cases n with hr | hr
  · rw [hr]
    have := (addNoc_store_untouched cfg n sid mode ca fid node subj ser).1
    simp only [this]; exact ⟨triv, triv⟩
  · rw [hr]
    have ⟨_, hf, hn, _⟩ := storeResum_spec n
    rcases hst : storeResum n with ⟨n1, b⟩
    rw [hst] at hf hn
    cases b with
    | false => exact ⟨hf, hn⟩
    | true =>
      have := (addNoc_store_untouched cfg n1 sid mode ca fid node subj ser).1
      simp only [this]; exact ⟨hf, hn⟩

/-- an ACL write of the fabric the fail-safe is armed for is deferred: the store is not touched, and
the fail-safe context remembers it -/
theorem deferred_acl_keeps_store (cfg : Cfg) (n : Node) (sid s v : Nat) (mode : Mode)
    (harm : armedFor n mode.fab = true) (hacc : (sessOp cfg n sid mode (.acl s v)).2 = .ok) :
    (sessOp cfg n sid mode (.acl s v)).1.kv = n.kv ∧ deferredOf (sessOp cfg n sid mode (.acl s v)).1 = true := by
  simp only [sessOp] at hacc ⊢
  split
  · rename_i h0; simp [h0] at hacc
  · rename_i h0
    simp only [h0, if_false] at hacc
    cases hg : getFabric n mode.fab with
    | none => rw [hg] at hacc; simp at hacc
    | some f =>
      rw [hg] at hacc
      have hidx := getFabric_idx hg
      simp only [] at hacc ⊢
      split
      · rename_i hfull; simp [hfull] at hacc
      · have h2 : armedFor (setFabric n { f with acl := f.acl ++ [v] }) f.idx = true := by
          rw [hidx]; exact harm
        simp only [h2, if_true, ok]
        have ⟨a, ha, _⟩ := (armedFor_iff (setFabric n { f with acl := f.acl ++ [v] }) f.idx).mp h2
        unfold markDeferred deferredOf
        rw [ha]
        exact ⟨rfl, rfl⟩

/-- (fixed finding `C08-failsafe-context-switch`) AddNOC is refused while the context, bound to an
existing fabric, holds a deferred change: the context is not re-bound, so the change is rolled back
or committed with it -/
theorem addnoc_refused_while_deferred (cfg : Cfg) (n : Node) (sid s ca fid node subj ser : Nat) (mode : Mode)
    (hfab : mode.fab ≠ 0) (hdef : deferredOf n = true) :
    (sessOp cfg n sid mode (.addnoc s ca fid node subj ser)).2.accepted = false := by
  cases hacc : (sessOp cfg n sid mode (.addnoc s ca fid node subj ser)).2.accepted with
  | false => rfl
  | true =>
    have := ((addnoc_accept_iff cfg n sid s ca fid node subj ser mode).mp hacc).2
    simp only [specAddNoc, Bool.and_eq_true, Bool.not_eq_true', Bool.and_eq_false_iff] at this
    rcases this.1.2 with h | h
    · simp [hfab] at h
    · rw [hdef] at h; cases h

/-- (fixed finding `C08-vvs-flushes-deferred`) SetVIDVerificationStatement over a session of the fabric
the fail-safe is armed for, while that fabric's record carries staged changes (a deferred fabric-scoped
write, or a NOC command): the command is acknowledged, and neither the store nor the fail-safe context
is touched - what was staged is still rolled back by the expiry or committed by CommissioningComplete.
(The unrepaired code stored the whole record - deferred ACL / group / label changes included - and the
expiry then "restored" them from the store.) -/
theorem vvs_rides_along_with_staged (cfg : Cfg) (n : Node) (sid s : Nat) (mode : Mode) (hfab : mode.fab ≠ 0)
    (hpend : pendingFor n mode.fab = true) (hf : (getFabric n mode.fab).isSome = true) :
    sessOp cfg n sid mode (.vvs s) = (n, .ok) := by
  simp only [sessOp, hfab, if_false]
  cases hg : getFabric n mode.fab with
  | none => rw [hg] at hf; cases hf
  | some f =>
    have hidx := getFabric_idx hg
    simp only [hidx, hpend, if_true, ok]

/-- a deferred write makes the fabric's record "staged": from then on (same context)
SetVIDVerificationStatement does not store -/
theorem deferred_is_pending (n : Node) (a : Armed) (hfs : n.fs = some a) (hd : a.deferred = true) :
    pendingFor n a.fab = true := by
  simp [pendingFor, hfs, hd]

/-- non-vacuity + the history of the finding on the model (as repaired): commissioned fabric 1, fail-safe
armed over its CASE session, deferred ACL write, SetVIDVerificationStatement, forced expiry: the store
was not written between the arming and the expiry, and the ACL is the one from before the arming -/
example :
    let ops : List Op := [.boot, .pase, .arm 0 60, .csr 0 false, .root 0 1, .addnoc 0 1 5 10 100 1,
      .caseEst 1 100 1, .complete 1, .arm 1 60, .acl 1 201, .vvs 1]
    let n := run {} {} ops
    pendingFor n 1 = true ∧ (n.kv.fabs.map (·.acl)) = [[100]] ∧ (n.fabrics.map (·.acl)) = [[100, 201]] ∧
    ((run {} {} (ops ++ [.arm 1 0])).fabrics.map (·.acl)) = [[100]] := by decide

/-- no operation of the list writes a fabric key or the networks key -/
def StoreQuiet (cfg : Cfg) : Node → List Op → Prop
  | _, [] => True
  | n, op :: rest =>
    (step cfg n op).1.kv.fabs = n.kv.fabs ∧ (step cfg n op).1.kv.nets = n.kv.nets ∧
    StoreQuiet cfg (step cfg n op).1 rest

theorem storeQuiet_run (cfg : Cfg) (ops : List Op) : ∀ (n : Node), StoreQuiet cfg n ops →
    (run cfg n ops).kv.fabs = n.kv.fabs ∧ (run cfg n ops).kv.nets = n.kv.nets := by
  induction ops with
  | nil => intro n _; exact ⟨rfl, rfl⟩
  | cons op rest ih =>
    intro n h
    have ⟨h1, h2⟩ := ih _ h.2.2
    show (run cfg (step cfg n op).1 rest).kv.fabs = n.kv.fabs ∧ (run cfg (step cfg n op).1 rest).kv.nets = n.kv.nets
    exact ⟨by rw [h1, h.1], by rw [h2, h.2.1]⟩

instance decStoreQuiet (cfg : Cfg) : (n : Node) → (ops : List Op) → Decidable (StoreQuiet cfg n ops)
  | _, [] => isTrue trivial
  | n, op :: rest =>
    have := decStoreQuiet cfg (step cfg n op).1 rest
    by simp only [StoreQuiet]; infer_instance

/-- **Exactly what they were before arming.**  Take a quiescent clean state `q` reached by any
history, then any history `ops1` (arming, credential commands, deferred writes, network changes,
session establishments, time, store faults …) during which nothing is committed to the fabric /
network keys and nothing gets dirty, then a successful expiry: every fabric record (identity, NOC,
ACL, groups, label) and the networks of the node are EXACTLY those of `q`, and the fail-safe is idle. -/
theorem rollback_restores_state_before_arming (cfg : Cfg) (ops0 ops1 : List Op)
    (hno0 : Op.freset ∉ ops0) (hno1 : Op.freset ∉ ops1)
    (hclean0 : dirtyRun cfg {} [] ops0 = []) (hidle : (run cfg {} ops0).fs = none)
    (hclean1 : dirtyRun cfg (run cfg {} ops0) [] ops1 = [])
    (hq : StoreQuiet cfg (run cfg {} ops0) ops1)
    (a : Armed) (exp : Option Nat)
    (harmed : (run cfg (run cfg {} ops0) ops1).fs = some a)
    (hok : (expireArmed cfg (run cfg (run cfg {} ops0) ops1) a exp).2.1 = none) :
    (∀ i, i ≠ 0 → getFabric (expireAndPurge cfg (run cfg (run cfg {} ops0) ops1) a exp).1 i =
                  getFabric (run cfg {} ops0) i) ∧
    ((expireAndPurge cfg (run cfg (run cfg {} ops0) ops1) a exp).1.nets,
     (expireAndPurge cfg (run cfg (run cfg {} ops0) ops1) a exp).1.managed) =
      ((run cfg {} ops0).nets, (run cfg {} ops0).managed) ∧
    (expireAndPurge cfg (run cfg (run cfg {} ops0) ops1) a exp).1.fs = none := by
  have hc0 : Coh (run cfg {} ops0) := coherent_always cfg ops0 hno0 hclean0
  have hag0 := agree_of_cohD_idle hc0 hidle
  have hc1 := run_cohD cfg ops1 _ [] hc0 hno1
  rw [hclean1] at hc1
  have ⟨hk1, hk2⟩ := storeQuiet_run cfg ops1 _ hq
  have ⟨hcd, h2, h3, h4⟩ := expireAndPurge_cohD cfg _ [] a exp hc1 harmed
  have ⟨hfs, _, _⟩ := h4 hok
  have hag := agree_of_cohD_idle hcd hfs
  refine ⟨fun i hi => ?_, ?_, hfs⟩
  · rw [hag.1 i hi, hag0.1 i hi]
    simp only [kvF, h2, hk1]
  · rw [hag.2, hag0.2]
    simp only [kvNets, h3, hk2]

/-- **The restart leg: exactly what they were before arming.**  The same quiescent clean state `q`,
then any history `ops1` during which nothing is committed to the fabric / network keys (whatever
else happens: arming, credential commands, deferred writes, failing writes), then the node restarts
(`m` = whatever is in memory): it comes up with EXACTLY the fabric records and the networks of `q`,
no fail-safe, no session. -/
theorem restart_restores_state_before_arming (cfg : Cfg) (ops0 ops1 : List Op)
    (hno0 : Op.freset ∉ ops0) (hclean0 : dirtyRun cfg {} [] ops0 = []) (hidle : (run cfg {} ops0).fs = none)
    (hq : StoreQuiet cfg (run cfg {} ops0) ops1) (m : Node) :
    (∀ i, i ≠ 0 → getFabric (restartFrom m (run cfg (run cfg {} ops0) ops1).kv (run cfg (run cfg {} ops0) ops1).hist) i =
                  getFabric (run cfg {} ops0) i) ∧
    ((restartFrom m (run cfg (run cfg {} ops0) ops1).kv (run cfg (run cfg {} ops0) ops1).hist).nets,
     (restartFrom m (run cfg (run cfg {} ops0) ops1).kv (run cfg (run cfg {} ops0) ops1).hist).managed) =
      ((run cfg {} ops0).nets, (run cfg {} ops0).managed) ∧
    (restartFrom m (run cfg (run cfg {} ops0) ops1).kv (run cfg (run cfg {} ops0) ops1).hist).fs = none ∧
    (restartFrom m (run cfg (run cfg {} ops0) ops1).kv (run cfg (run cfg {} ops0) ops1).hist).sessions = [] := by
  have hc0 : Coh (run cfg {} ops0) := coherent_always cfg ops0 hno0 hclean0
  have hag0 := agree_of_cohD_idle hc0 hidle
  have ⟨hk1, hk2⟩ := storeQuiet_run cfg ops1 _ hq
  have ⟨hag, hfs, _, h4, h5, h6⟩ := restartFrom_agree m (run cfg (run cfg {} ops0) ops1).kv (run cfg (run cfg {} ops0) ops1).hist
  refine ⟨fun i hi => ?_, ?_, hfs, h6⟩
  · rw [hag.1 i hi, hag0.1 i hi]
    simp only [kvF, h4, hk1]
  · rw [hag.2, hag0.2]
    simp only [kvNets, h5, hk2]

/-- the hypotheses of `rollback_restores_state_before_arming` are satisfiable: a commissioned node
(`ops0`), then ArmFailSafe over CASE, a deferred ACL write, CSRRequest(update), UpdateNOC, a network
change (`ops1`) - armed, store quiet, and the expiry succeeds -/
example :
    let ops0 : List Op := [.boot, .pase, .arm 0 60, .csr 0 false, .root 0 1, .addnoc 0 1 5 10 100 1,
      .caseEst 1 100 1, .complete 1]
    let ops1 : List Op := [.arm 1 60, .acl 1 200, .csr 1 true, .updnoc 1 11 2, .net 1 3]
    Op.freset ∉ ops0 ∧ Op.freset ∉ ops1 ∧ dirtyRun {} {} [] ops0 = [] ∧ (run {} {} ops0).fs = none ∧
    dirtyRun {} (run {} {} ops0) [] ops1 = [] ∧ StoreQuiet {} (run {} {} ops0) ops1 ∧
    (∃ a, (run {} (run {} {} ops0) ops1).fs = some a ∧
      (expireArmed {} (run {} (run {} {} ops0) ops1) a none).2.1 = none) := by
  refine ⟨by decide, by decide, by decide, by decide, by decide, by decide, ⟨_, rfl, by decide⟩⟩

/-! ## the NOC mark lives as long as the fail-safe context ("at most once per fail-safe") -/

/-- the fail-safe context is gone, or it still carries a NOC mark -/
def NocMarkOrIdle (n : Node) : Prop :=
  n.fs = none ∨ ∃ a, n.fs = some a ∧ (a.flags.addNoc || a.flags.updNoc) = true

theorem nocMark_of_fs {n n' : Node} (h : n'.fs = n.fs) (hm : NocMarkOrIdle n) : NocMarkOrIdle n' := by
  unfold NocMarkOrIdle at *; rw [h]; exact hm

theorem expire_fs (cfg : Cfg) (n : Node) (exp : Option Nat) :
    (expire cfg n exp).1.fs = none ∨ (expire cfg n exp).1.fs = n.fs := by
  unfold expire
  cases hfs : n.fs with
  | none => exact Or.inl hfs
  | some a =>
    simp only []
    unfold expireAndPurge
    have hE : (expireArmed cfg n a exp).1.fs = none ∨ (expireArmed cfg n a exp).1 = n := by
      unfold expireArmed
      cases rollbackFabrics cfg n a with
      | error e => exact Or.inr rfl
      | ok fs => exact Or.inl rfl
    rcases hres : expireArmed cfg n a exp with ⟨n1, e, r⟩
    rw [hres] at hE
    simp only at hE
    cases e with
    | some e => simp only []; rcases hE with h | h; exact Or.inl h; exact Or.inr (by rw [h, hfs])
    | none =>
      cases r with
      | none => simp only []; rcases hE with h | h; exact Or.inl h; exact Or.inr (by rw [h, hfs])
      | some idx =>
        simp only []
        have hp := (purgeResum_spec n1 idx).2.2.1
        rcases hpr : purgeResum n1 idx with ⟨n2, b⟩
        rw [hpr] at hp
        simp only at hp
        cases b <;> (simp only []; rw [hp]; rcases hE with h | h; exact Or.inl h; exact Or.inr (by rw [h, hfs]))

theorem nocMark_of_fs_or {n n' : Node} (h : n'.fs = none ∨ n'.fs = n.fs) (hm : NocMarkOrIdle n) : NocMarkOrIdle n' := by
  rcases h with h | h
  · exact Or.inl h
  · exact nocMark_of_fs h hm

theorem writeResult_fs (n : Node) (f f' : Fabric) (hm : NocMarkOrIdle n) : NocMarkOrIdle (writeResult n f f').1 := by
  unfold writeResult
  split
  · simp only [ok]
    unfold markDeferred
    cases hfs : (setFabric n f').fs with
    | none => exact Or.inl (by simp [hfs])
    | some a =>
      have hfs' : n.fs = some a := hfs
      rcases hm with h | ⟨a0, h, hk⟩
      · rw [h] at hfs'; cases hfs'
      · rw [h] at hfs'; injection hfs' with e; subst e
        exact Or.inr ⟨_, rfl, hk⟩
  · have hfr := (storeFabric_spec (setFabric n f') f').1
    rcases hr : storeFabric (setFabric n f') f' with ⟨n2, b⟩
    rw [hr] at hfr
    have : n2.fs = n.fs := hfr.fs
    cases b <;> exact nocMark_of_fs this hm

theorem complete_ok_idle (cfg : Cfg) (n : Node) (sid s : Nat) (mode : Mode)
    (hok : (sessOp cfg n sid mode (.complete s)).2 = .ok) : (sessOp cfg n sid mode (.complete s)).1.fs = none := by
  generalize hres : sessOp cfg n sid mode (.complete s) = r at hok ⊢
  simp only [sessOp] at hres
  repeat' split at hres
  all_goals (subst hres; first | (simp at hok; done) | rfl)

/-- **The NOC mark goes away only with the fail-safe context**: whatever command arrives over whatever
session, afterwards the fail-safe is idle or its context still carries the mark -/
theorem sessOp_keeps_noc_mark (cfg : Cfg) (n : Node) (sid : Nat) (mode : Mode) (op : Op)
    (a : Armed) (hfs : n.fs = some a) (hk : (a.flags.addNoc || a.flags.updNoc) = true) :
    NocMarkOrIdle (sessOp cfg n sid mode op).1 := by
  have hm : NocMarkOrIdle n := Or.inr ⟨a, hfs, hk⟩
  cases op with
  | openW s =>
    simp only [sessOp]
    have hw : (windowTimeout n).fs = n.fs := by unfold windowTimeout; split <;> (try split) <;> rfl
    split
    · exact nocMark_of_fs hw hm
    · exact nocMark_of_fs (n' := { windowTimeout n with window := _ }) hw hm
  | arm s secs =>
    simp only [sessOp]
    split
    · have := expire_fs cfg n (some sid)
      rcases hr : expire cfg n (some sid) with ⟨n1, e⟩
      rw [hr] at this
      cases e <;> exact nocMark_of_fs_or this hm
    · rw [hfs]
      simp only []
      split
      · exact hm
      · exact Or.inr ⟨_, rfl, hk⟩
  | csr s upd =>
    simp only [sessOp]
    split
    · exact hm
    · split
      · exact hm
      · rw [hfs]
        simp only []
        split
        · exact hm
        · simp only [ok]
          split <;> exact Or.inr ⟨_, rfl, hk⟩
  | root s ca =>
    simp only [sessOp]
    split
    · exact hm
    · rw [hfs]
      simp only []
      split
      · exact hm
      · exact Or.inr ⟨_, rfl, hk⟩
  | addnoc s ca fid node subj ser =>
    have hrej := (noc_refused_after_noc cfg n sid mode (by simp [flagsOf, hfs, hk])).1 s ca fid node subj ser
    simp only [sessOp] at hrej ⊢
    have ⟨h1, _, _⟩ := retryResum_same n
    rcases hr : retryResum n with ⟨n1, b⟩
    rw [hr] at h1 hrej
    simp only at h1
    cases b with
    | false => exact nocMark_of_fs h1 hm
    | true =>
      simp only [] at hrej ⊢
      -- rejected: `addNoc` leaves the state as it is, except in the scope-guard branch (an acceptance undone)
      have hfs1 : n1.fs = some a := by rw [h1]; exact hfs
      simp only [addNoc, checkArmed, checkState, hfs1]
      have hk' : (a.flags.addNoc || a.flags.updCsr || a.flags.updNoc) = true := by
        rcases Bool.or_eq_true_iff.mp hk with h | h <;> simp [h]
      repeat' split
      all_goals first | exact Or.inr ⟨a, hfs1, hk⟩ | exact Or.inr ⟨_, rfl, by simp⟩ | simp_all
  | updnoc s node ser =>
    simp only [sessOp, checkArmed, checkState, hfs]
    have hk' : (a.flags.root || a.flags.addNoc || a.flags.addCsr || a.flags.updNoc) = true := by
      rcases Bool.or_eq_true_iff.mp hk with h | h <;> simp [h]
    repeat' split
    all_goals first | exact Or.inr ⟨a, hfs, hk⟩ | exact Or.inr ⟨_, rfl, by simp⟩ | simp_all
  | acl s v =>
    simp only [sessOp]
    split
    · exact hm
    · cases hg : getFabric n mode.fab with
      | none => exact hm
      | some f =>
        simp only []
        split
        · exact hm
        · exact writeResult_fs n f { f with acl := f.acl ++ [v] } hm
  | grp s v =>
    simp only [sessOp]
    split
    · exact hm
    · cases hg : getFabric n mode.fab with
      | none => exact hm
      | some f =>
        simp only []
        split
        · exact hm
        · exact writeResult_fs n f (if f.grp.contains v then f else { f with grp := f.grp ++ [v] }) hm
  | label s v =>
    simp only [sessOp]
    split
    · exact hm
    · split
      · exact hm
      · cases hg : getFabric n mode.fab with
        | none => exact hm
        | some f => exact writeResult_fs n f { f with label := v } hm
  | fwrite s =>
    simp only [sessOp]
    split
    · exact hm
    · cases hg : getFabric n mode.fab with
      | none => exact hm
      | some f => exact writeResult_fs n f f hm
  | vvs s =>
    simp only [sessOp]
    split
    · exact hm
    · cases hg : getFabric n mode.fab with
      | none => exact hm
      | some f =>
        simp only []
        split
        · exact hm
        · have hfr := (storeFabric_spec n f).1
          rcases hr : storeFabric n f with ⟨n2, b⟩
          rw [hr] at hfr
          cases b <;> exact nocMark_of_fs hfr.fs hm
  | net s v =>
    simp only [sessOp]
    repeat' split
    all_goals exact nocMark_of_fs rfl hm
  | rmnet s v =>
    simp only [sessOp]
    repeat' split
    all_goals exact nocMark_of_fs rfl hm
  | complete s =>
    rcases complete_ok_or_unchanged cfg n sid s mode with h | h
    · exact Or.inl (complete_ok_idle cfg n sid s mode h)
    · exact nocMark_of_fs h.1 hm
  | rmfab s idx =>
    simp only [sessOp]
    split
    · exact hm
    · split
      · have hp := (purgeResum_spec n idx).2.2.1
        rcases hpr : purgeResum n idx with ⟨n2, b⟩
        rw [hpr] at hp
        simp only at hp
        cases b with
        | false => exact nocMark_of_fs hp hm
        | true =>
          simp only []
          have hfr := (removeFabricKey_spec n2 idx).1
          rcases hrk : removeFabricKey n2 idx with ⟨n3, b3⟩
          rw [hrk] at hfr
          have h3 : n3.fs = n.fs := by rw [hfr.fs]; exact hp
          cases b3 with
          | false => exact nocMark_of_fs h3 hm
          | true => exact nocMark_of_fs (n' := { n3 with fabrics := _, sessions := _ }) h3 hm
      · exact hm
  | revoke s =>
    simp only [sessOp]
    have := expire_fs cfg n (some sid)
    rcases hr : expire cfg n (some sid) with ⟨n1, e⟩
    rw [hr] at this
    cases e with
    | some e => exact nocMark_of_fs_or this hm
    | none => exact nocMark_of_fs_or (n' := { n1 with window := none }) this hm
  | bcw s v => exact nocMark_of_fs (n' := { n with bc := v }) rfl hm
  | _ => exact hm

theorem checkTimeouts_live (cfg : Cfg) (n : Node) (sid : Option Nat) (a : Armed) (hfs : n.fs = some a)
    (hlive : n.now < a.armedAt + a.timeout) : (checkTimeouts cfg n sid).1.fs = n.fs := by
  have hw : (windowTimeout n).fs = n.fs := by unfold windowTimeout; split <;> (try split) <;> rfl
  unfold checkTimeouts
  rw [hfs]
  simp only []
  have : ¬ (n.now ≥ a.armedAt + a.timeout) := by omega
  simp only [this, if_false]
  rw [hw, hfs]

/-- **... over whole steps**: while the fail-safe timer has not run out, every operation - command
with its prologue, session establishment, time, store fault, restart, factory reset - leaves the
fail-safe idle or its context still carrying the NOC mark.  (When the timer HAS run out the prologue
of the next command ends the context; an ArmFailSafe then begins a new one.) -/
theorem step_keeps_noc_mark (cfg : Cfg) (n : Node) (op : Op) (a : Armed) (hfs : n.fs = some a)
    (hk : (a.flags.addNoc || a.flags.updNoc) = true) (hlive : n.now < a.armedAt + a.timeout) :
    NocMarkOrIdle (step cfg n op).1 := by
  have hm : NocMarkOrIdle n := Or.inr ⟨a, hfs, hk⟩
  cases hso : isSessOp op with
  | some sid =>
    have hpro := checkTimeouts_live cfg n (some sid) a hfs hlive
    rcases step_sess cfg n op sid hso with e | e | ⟨s1, _, e⟩
    · rw [e]; exact hm
    · rw [e]; exact nocMark_of_fs hpro hm
    · rw [e]; exact sessOp_keeps_noc_mark cfg _ sid s1.mode op a (by rw [hpro]; exact hfs) hk
  | none =>
    cases op with
    | boot => simp only [step, isSessOp]; split <;> first | exact hm | exact nocMark_of_fs (n' := { n with window := _ }) rfl hm
    | pase =>
      simp only [step, isSessOp]
      split
      · exact hm
      · have hf : (addSess cfg n (.pase 0) 0 0).1.fs = n.fs := by unfold addSess; simp only []; split <;> rfl
        rcases hr : addSess cfg n (.pase 0) 0 0 with ⟨n1, o⟩
        rw [hr] at hf
        cases o <;> exact nocMark_of_fs hf hm
    | caseEst fab node rid =>
      simp only [step, isSessOp]
      split
      · exact hm
      · rename_i f _
        have hf : (addSess cfg n (.case fab) node f.gen).1.fs = n.fs := by unfold addSess; simp only []; split <;> rfl
        rcases hr : addSess cfg n (.case fab) node f.gen with ⟨n1, o⟩
        rw [hr] at hf
        cases o
        · exact nocMark_of_fs hf hm
        · exact nocMark_of_fs (n' := { n1 with resum := _ }) hf hm
    | resume rid newRid =>
      simp only [step, isSessOp]
      split
      · exact hm
      · rename_i r _
        split
        · exact hm
        · have hf : (addSess cfg n (.case r.fab) r.peer r.gen).1.fs = n.fs := by unfold addSess; simp only []; split <;> rfl
          rcases hr : addSess cfg n (.case r.fab) r.peer r.gen with ⟨n1, o⟩
          rw [hr] at hf
          cases o
          · exact nocMark_of_fs hf hm
          · exact nocMark_of_fs (n' := { n1 with resum := _ }) hf hm
    | hs fab node rid =>
      simp only [step, isSessOp]
      split
      · exact hm
      · rename_i f _
        have hf : (addSess cfg n (.case fab) node f.gen).1.fs = n.fs := by unfold addSess; simp only []; split <;> rfl
        rcases hr : addSess cfg n (.case fab) node f.gen with ⟨n1, o⟩
        rw [hr] at hf
        cases o
        · exact nocMark_of_fs hf hm
        · exact nocMark_of_fs (n' := { n1 with sessions := _, resum := _, pending := _ }) hf hm
    | hsdone sid => simp only [step, isSessOp]; split <;> first | exact hm | exact nocMark_of_fs (n' := { n with pending := _, sessions := _ }) rfl hm
    | sdrop sid => simp only [step, isSessOp]; split <;> first | exact hm | exact nocMark_of_fs (n' := { n with sessions := _ }) rfl hm
    | tick secs => exact nocMark_of_fs (n' := { n with now := _ }) rfl hm
    | poll =>
      simp only [step, isSessOp]
      have hpro := checkTimeouts_live cfg n none a hfs hlive
      rcases hr : checkTimeouts cfg n none with ⟨n1, e⟩
      rw [hr] at hpro
      cases e <;> exact nocMark_of_fs hpro hm
    | flush =>
      simp only [step, isSessOp]
      have hfr := (storeResum_spec n).1
      rcases hst : storeResum n with ⟨n1, b⟩
      rw [hst] at hfr
      cases b <;> exact nocMark_of_fs hfr.fs hm
    | restart => exact Or.inl (restartFrom_agree n _ _).2.1
    | crash k => exact Or.inl (restartFrom_agree n _ _).2.1
    | corrupt => exact Or.inl (restartFrom_agree n _ _).2.1
    | coldreset => exact Or.inl rfl
    | fabrecover i => exact Or.inl rfl
    | kvfail k => exact nocMark_of_fs (n' := { n with failIn := _ }) rfl hm
    | nop => exact hm
    | freset => exact nocMark_of_fs (factoryReset_mem n).2.2.2.2.2.2.2 hm
    | _ => simp [isSessOp] at hso

/-- **AddNOC / UpdateNOC at most once per fail-safe, over histories**: take a state whose fail-safe
context carries a NOC mark (the state after an accepted AddNOC / UpdateNOC: `addnoc_sets_flag`,
`updnoc_sets_flag`) and ANY history from there during which the fail-safe timer does not run out
(commands over any session, session establishments, time within the timeout, store faults,
restarts, ...).  Either the context has ENDED at some point of it (`fs = none`: completed, rolled
back, restarted), or the context at the end still carries the mark - and then (`noc_refused_after_noc`)
every AddNOC / UpdateNOC, from whichever session, is refused. -/
theorem noc_once_per_failsafe (cfg : Cfg) : ∀ (ops : List Op) (n : Node) (a : Armed), n.fs = some a →
    (a.flags.addNoc || a.flags.updNoc) = true →
    (∀ pre, pre <+: ops → ∀ b, (run cfg n pre).fs = some b → (run cfg n pre).now < b.armedAt + b.timeout) →
    (∃ pre, pre <+: ops ∧ (run cfg n pre).fs = none) ∨
    (∃ b, (run cfg n ops).fs = some b ∧ (b.flags.addNoc || b.flags.updNoc) = true) := by
  intro ops
  induction ops with
  | nil => intro n a hfs hk _; exact Or.inr ⟨a, hfs, hk⟩
  | cons op rest ih =>
    intro n a hfs hk hl
    rcases step_keeps_noc_mark cfg n op a hfs hk (hl [] List.nil_prefix a hfs) with h | ⟨b, hb, hkb⟩
    · exact Or.inl ⟨[op], List.cons_prefix_cons.mpr ⟨rfl, List.nil_prefix⟩, h⟩
    · rcases ih (step cfg n op).1 b hb hkb
          (fun pre hp c hc => hl (op :: pre) (List.cons_prefix_cons.mpr ⟨rfl, hp⟩) c hc) with ⟨pre, hp, hn⟩ | h
      · exact Or.inl ⟨op :: pre, List.cons_prefix_cons.mpr ⟨rfl, hp⟩, hn⟩
      · exact Or.inr h

/-- the hypotheses are satisfiable: after an accepted AddNOC, a CASE session is established, an ACL
write is deferred, 30 seconds pass - the context lives on, marked, and UpdateNOC over the CASE
session is refused -/
example :
    let n := run {} {} [.boot, .pase, .arm 0 60, .csr 0 false, .root 0 1, .addnoc 0 1 5 10 100 1]
    let ops : List Op := [.caseEst 1 100 1, .acl 1 200, .tick 30, .csr 1 true]
    (∃ a, n.fs = some a ∧ (a.flags.addNoc || a.flags.updNoc) = true) ∧
    (∃ b, (run {} n ops).fs = some b ∧ (b.flags.addNoc || b.flags.updNoc) = true) ∧
    (step {} (run {} n ops) (.updnoc 1 11 2)).2.accepted = false := by
  refine ⟨⟨_, rfl, by decide⟩, ⟨_, rfl, by decide⟩, by decide⟩

/-! ## the full statements -/

/-- "whenever no fail-safe is armed, node and store agree" - without any hypothesis on the history.
FALSE of the code: a fabric-scoped write outside a fail-safe whose store write fails is answered with
an error but stays in effect in memory (until the next restart). -/
def C08_full_coherent_always : Prop :=
  ∀ (cfg : Cfg) (ops : List Op), (run cfg {} ops).fs = none → Agree (run cfg {} ops)

theorem C08_full_coherent_always_false : ¬ C08_full_coherent_always := by
  intro h
  have hag := h {} [.boot, .pase, .arm 0 60, .csr 0 false, .root 0 1, .addnoc 0 1 5 10 100 1,
    .caseEst 1 100 1, .complete 1, .kvfail 1, .acl 1 200] (by decide)
  have := hag.1 1 (by decide)
  revert this
  decide

/-- the all-or-nothing statement for the rollback WITHOUT the store-quiet hypothesis: if no command
of the armed period was acknowledged as a commit (fabric-scoped write, RemoveFabric,
CommissioningComplete), a successful expiry restores every fabric of the quiescent state before. -/
def ackedCommit (cfg : Cfg) (n : Node) (op : Op) : Bool :=
  match op with
  | .acl .. | .grp .. | .label .. | .rmfab .. | .complete _ => (step cfg n op).2.accepted
  | _ => false

def NoAckedCommit (cfg : Cfg) : Node → List Op → Bool
  | _, [] => true
  | n, op :: rest => !ackedCommit cfg n op && NoAckedCommit cfg (step cfg n op).1 rest

def C08_full_rollback : Prop :=
  ∀ (cfg : Cfg) (ops0 ops1 : List Op) (a : Armed) (exp : Option Nat),
    Op.freset ∉ ops0 → Op.freset ∉ ops1 → dirtyRun cfg {} [] ops0 = [] → (run cfg {} ops0).fs = none →
    dirtyRun cfg (run cfg {} ops0) [] ops1 = [] → NoAckedCommit cfg (run cfg {} ops0) ops1 = true →
    (run cfg (run cfg {} ops0) ops1).fs = some a →
    (expireArmed cfg (run cfg (run cfg {} ops0) ops1) a exp).2.1 = none →
    ∀ i, i ≠ 0 → getFabric (expireAndPurge cfg (run cfg (run cfg {} ops0) ops1) a exp).1 i =
                  getFabric (run cfg {} ops0) i

/-- FALSE of the code (open finding `C08-complete-partial-commit`, the half that is left):
CommissioningComplete writes the fabric, then the networks; when the SECOND write fails the command
is answered with an error and the fail-safe stays armed. For a fabric ADDED under the fail-safe the
record is removed again (`failed_complete_added_fabric_rolls_back`); for a fabric that EXISTED before
(UpdateNOC, deferred writes) the store holds only the new record - the old one is gone, nothing can be
put back, and the expiry "restores" the uncommitted identity. -/
theorem C08_full_rollback_false : ¬ C08_full_rollback := by
  intro h
  have := h {} [.boot, .pase, .arm 0 60, .csr 0 false, .root 0 1, .addnoc 0 1 5 10 100 1,
    .caseEst 1 100 1, .complete 1] [.arm 1 60, .net 1 3, .csr 1 true, .updnoc 1 11 2, .kvfail 2, .complete 1]
    { fab := 1, flags := { updCsr := true, updNoc := true }, timeout := 60, armedAt := 0 } none
    (by decide) (by decide) (by decide) (by decide) (by decide) (by decide) (by decide) (by decide) 1 (by decide)
  revert this
  decide

/-- **the repaired half** (`C08-complete-partial-commit` for the commissioning of a NEW fabric): after
any history, a CommissioningComplete of a fabric added under the fail-safe that is not acknowledged -
whichever write fails - leaves the fabric records and the networks in the store exactly as they were;
the fail-safe stays armed (`failed_complete_stays_armed`), so the expiry rolls the commissioning back
(`rollback_restores`) and a restart comes up without it. -/
theorem failed_complete_added_fabric_rolls_back (cfg : Cfg) (n : Node) (sid s : Nat) (mode : Mode) (a : Armed)
    (hfs : n.fs = some a) (hadd : a.flags.addNoc = true) (hnone : kvF n.kv mode.fab = none)
    (hfail : (sessOp cfg n sid mode (.complete s)).2 ≠ .ok) :
    (∀ i, kvF (sessOp cfg n sid mode (.complete s)).1.kv i = kvF n.kv i) ∧
    (sessOp cfg n sid mode (.complete s)).1.kv.nets = n.kv.nets ∧
    (sessOp cfg n sid mode (.complete s)).1.fs = n.fs :=
  ⟨(failed_complete_of_added_fabric_undone cfg n sid s mode a hfs hadd hnone hfail).1,
   (failed_complete_of_added_fabric_undone cfg n sid s mode a hfs hadd hnone hfail).2,
   (failed_complete_stays_armed cfg n sid s mode hfail).1⟩

/-- the hypotheses are met by the replay of the repaired finding: second write of the
CommissioningComplete of a new fabric fails; afterwards the store holds no fabric, and the expiry
leaves none in the node -/
example :
    let n := run {} {} [.boot, .pase, .arm 0 60, .net 0 3, .csr 0 false, .root 0 2, .addnoc 0 2 2 10 100 1,
      .caseEst 1 101 1, .kvfail 2]
    (∃ a, n.fs = some a ∧ a.flags.addNoc = true) ∧ kvF n.kv 1 = none ∧
    (sessOp {} n 1 (.case 1) (.complete 1)).2 = .err "NoSpace" ∧
    (sessOp {} n 1 (.case 1) (.complete 1)).1.kv.fabs = [] ∧
    (sessOp {} n 1 (.case 1) (.complete 1)).1.hist.length = 2 ∧
    (run {} (sessOp {} n 1 (.case 1) (.complete 1)).1 [.tick 61, .poll]).fabrics = [] := by
  refine ⟨⟨_, rfl, by decide⟩, by decide, by decide, by decide, by decide, by decide⟩

/-! ## RevokeCommissioning / OpenCommissioningWindow and the fail-safe -/

/-- while a commissioning window is open, a fail-safe cannot be armed over a CASE session -/
theorem case_arm_refused_while_window_open (cfg : Cfg) (n : Node) (sid s secs : Nat) (mode : Mode)
    (hidle : n.fs = none) (hw : n.window.isSome = true) (hc : mode.isCase = true) (h0 : secs ≠ 0) :
    sessOp cfg n sid mode (.arm s secs) = (n, .err "Busy") := by
  simp [sessOp, h0, hidle, hw, hc]

/-- an expiry that reports no error leaves the fail-safe idle -/
theorem expire_ok_idle (cfg : Cfg) (n : Node) (exp : Option Nat) (h : (expire cfg n exp).2 = none) :
    (expire cfg n exp).1.fs = none := by
  unfold expire at h ⊢
  cases hfs : n.fs with
  | none => simp only []; exact hfs
  | some a =>
    simp only [hfs] at h ⊢
    unfold expireAndPurge at h ⊢
    cases hr : rollbackFabrics cfg n a with
    | error e =>
      have : expireArmed cfg n a exp = (n, some e, none) := by unfold expireArmed; simp [hr]
      simp [this] at h
    | ok fs =>
      have hfsn : (expireArmed cfg n a exp).1.fs = none := by unfold expireArmed; simp [hr]
      rcases hres : expireArmed cfg n a exp with ⟨n1, e, r⟩
      rw [hres] at h hfsn
      simp only at hfsn
      cases e with
      | some e => simp at h
      | none =>
        cases r with
        | none => exact hfsn
        | some idx =>
          simp only [] at h ⊢
          have p3 := (purgeResum_spec n1 idx).2.2.1
          rcases hp : purgeResum n1 idx with ⟨n2, b⟩
          rw [hp] at p3 h
          cases b with
          | true => simp only []; exact p3.trans hfsn
          | false => simp at h

/-- an acknowledged RevokeCommissioning ends the fail-safe (rolled back) and closes the window -/
theorem revoke_ends_failsafe (cfg : Cfg) (n : Node) (sid s : Nat) (mode : Mode)
    (hack : (sessOp cfg n sid mode (.revoke s)).2 = .ok) :
    (sessOp cfg n sid mode (.revoke s)).1.fs = none ∧ (sessOp cfg n sid mode (.revoke s)).1.window = none := by
  simp only [sessOp] at hack ⊢
  have h1 := expire_ok_idle cfg n (some sid)
  rcases hr : expire cfg n (some sid) with ⟨n1, e⟩
  rw [hr] at hack h1
  cases e with
  | some e => simp at hack
  | none => exact ⟨h1 rfl, rfl⟩

end C08
