//! C17, Matter-TLV certificate -> X.509 DER: the DER writer `ASN1Writer` and `CertRef::as_asn1`
//! (Lean model: `Model/Codec/Der.lean`, `Model/Codec/CertAsn1.lean`). Case kind `derw`.
//!
//! Ops (every line is self-contained):
//!   `w <cap> <fill> <op> <op> …`   a fresh REAL `ASN1Writer` over a buffer of `cap` bytes filled with `fill`;
//!        the `CertConsumer` operations are applied in order, stopping at the first error (as every caller
//!        does with `?`). Op tokens: `ss es` (SEQUENCE) `sset eset` (SET) `so eo` (compound OCTET STRING)
//!        `sctx:<id> ectx` `int:<c>` `ps:<c>` `u8s:<c>` `bs:<0|1>:<c>` `os:<c>` `bool:<0|1>` `ctx:<id>:<c>`
//!        `oid:<c>` `time:<epoch>` `raw:<c>`; content `<c>` = hex, `-` (empty), `@len,a,b` (byte i = a+i*b mod 256)
//!        or `~len,a,b` (printable ASCII 32 + (a+i*b) mod 95).
//!        Output: `ok <as_slice hex>` | `err <ErrorCode> at <i>` | `at <i> panic`
//!   `cert <cap> <tlv hex>`         REAL `CertRef::verif_fields` (the fields as the accessors return them) and REAL
//!        `CertRef::as_asn1` into a buffer of `cap` bytes. Output: `<10 field tokens> R ok <der hex>` |
//!        `… R err <ErrorCode>` | `… R panic`
//!   `gcert <cap> <tlv hex> <10 field tokens>`  the same for a certificate the generator built (with the real TLV
//!        writer) from the field record given in the op; the driver's oracle compares the fields read back from
//!        the DER with this record.
use super::{errname, guard, mutate, num};
use crate::proto::{hex, unhex, Out};
use crate::rng::Rng;

use rs_matter::cert::{ASN1Writer, CertConsumer, CertRef};
use rs_matter::error::Error;
use rs_matter::tlv::{TLVElement, TLVTag, TLVWrite};
use rs_matter::utils::storage::WriteBuf;

use std::sync::mpsc;
use std::time::Duration;

#[path = "c17_certs.rs"]
mod certs;

fn with_timeout<F: FnOnce() -> String + Send + 'static>(f: F) -> String {
    let (tx, rx) = mpsc::channel();
    std::thread::spawn(move || {
        let r = guard(f);
        let _ = tx.send(r);
    });
    match rx.recv_timeout(Duration::from_secs(5)) {
        Ok(s) => s,
        Err(_) => "timeout".into(),
    }
}

// ------------------------------------------------------------------ content descriptors

fn content(s: &str) -> Vec<u8> {
    let pat = |rest: &str| -> (usize, u64, u64) {
        let mut it = rest.split(',');
        let n = it.next().and_then(|x| x.parse().ok()).unwrap_or(0usize).min(70000);
        let a = it.next().and_then(|x| x.parse().ok()).unwrap_or(0u64);
        let b = it.next().and_then(|x| x.parse().ok()).unwrap_or(0u64);
        (n, a, b)
    };
    if let Some(rest) = s.strip_prefix('@') {
        let (n, a, b) = pat(rest);
        (0..n as u64).map(|i| ((a + i * b) % 256) as u8).collect()
    } else if let Some(rest) = s.strip_prefix('~') {
        let (n, a, b) = pat(rest);
        (0..n as u64).map(|i| (32 + (a + i * b) % 95) as u8).collect()
    } else {
        unhex(s)
    }
}

// ------------------------------------------------------------------ writer ops

fn apply(w: &mut ASN1Writer, tok: &str) -> Option<Result<(), Error>> {
    let mut p = tok.splitn(3, ':');
    let name = p.next().unwrap_or("");
    let a1 = p.next();
    let a2 = p.next();
    let text = |b: Vec<u8>| String::from_utf8(b).unwrap_or_default();
    Some(match name {
        "ss" => w.start_seq(""),
        "es" => w.end_seq(),
        "sset" => w.start_set(""),
        "eset" => w.end_set(),
        "so" => w.start_compound_ostr(""),
        "eo" => w.end_compound_ostr(),
        "sctx" => w.start_ctx("", num(a1) as u8),
        "ectx" => w.end_ctx(),
        "int" => w.integer("", &content(a1.unwrap_or("-"))),
        "ps" => w.printstr("", &text(content(a1.unwrap_or("-")))),
        "u8s" => w.utf8str("", &text(content(a1.unwrap_or("-")))),
        "bs" => w.bitstr("", num(a1) != 0, &content(a2.unwrap_or("-"))),
        "os" => w.ostr("", &content(a1.unwrap_or("-"))),
        "bool" => w.bool("", num(a1) != 0),
        "ctx" => w.ctx("", num(a1) as u8, &content(a2.unwrap_or("-"))),
        "oid" => w.oid("", &content(a1.unwrap_or("-"))),
        "time" => w.utctime("", num(a1)),
        "raw" => w.raw("", &content(a1.unwrap_or("-"))),
        _ => return None,
    })
}

fn run_w(op: &str) -> String {
    let mut it = op.split_whitespace();
    it.next();
    let cap = (num(it.next()) as usize).min(70000);
    let fill = num(it.next()) as u8;
    let toks: Vec<String> = it.map(|s| s.to_string()).collect();
    let mut buf = vec![fill; cap];
    // the index of the op being executed, for the panic report
    let at = std::cell::Cell::new(0usize);
    let r = std::panic::catch_unwind(std::panic::AssertUnwindSafe(|| {
        let mut w = ASN1Writer::new(&mut buf);
        for (i, t) in toks.iter().enumerate() {
            at.set(i);
            match apply(&mut w, t) {
                None => return "badop".to_string(),
                Some(Ok(())) => {}
                // (the writer's state after an error is not reported: `add_compound` at the depth limit has
                // already moved the offset when it fails; every caller drops the writer on an error)
                Some(Err(e)) => return format!("{} at {}", errname(&e), i),
            }
        }
        format!("ok {}", hex(w.as_slice()))
    }));
    match r {
        Ok(s) => s,
        Err(_) => format!("at {} panic", at.get()),
    }
}

// ------------------------------------------------------------------ certificates

fn run_cert(cap: usize, tlv: Vec<u8>) -> String {
    with_timeout(move || {
        let fields = guard(|| {
            let c = CertRef::new(TLVElement::new(&tlv));
            let mut s = String::new();
            match c.verif_fields(&mut s) {
                Ok(()) => s,
                Err(_) => "fmt-error".into(),
            }
        });
        let res = guard(|| {
            let c = CertRef::new(TLVElement::new(&tlv));
            let mut buf = vec![0x5au8; cap.min(70000)];
            match c.as_asn1(&mut buf) {
                Ok(n) => format!("ok {}", hex(&buf[..n])),
                Err(e) => errname(&e),
            }
        });
        format!("{} R {}", fields, res)
    })
}

pub fn run_op(kind: &str, op: &str) -> Option<String> {
    if kind != "derw" {
        return None;
    }
    let mut it = op.split_whitespace();
    Some(match it.next() {
        Some("w") => run_w(op),
        Some("cert") | Some("gcert") => {
            let cap = num(it.next()) as usize;
            let tlv = unhex(it.next().unwrap_or("-"));
            run_cert(cap, tlv)
        }
        _ => "badop".into(),
    })
}

// ------------------------------------------------------------------ generator: writer operations

fn gen_content(r: &mut Rng, ascii: bool, big: bool) -> String {
    let len: u64 = if big {
        *r.pick(&[65527u64, 65528, 65529, 65530, 65531, 65532, 65533, 65534, 65535, 65536, 65537])
    } else {
        match r.below(12) {
            0 => 0,
            1 => 1,
            2 => r.range(119, 132),
            3 => r.range(247, 262),
            4 => *r.pick(&[127u64, 128, 255, 256]),
            5 => r.range(2, 40),
            _ => r.range(0, 12),
        }
    };
    if ascii {
        if len <= 8 && r.chance(1, 2) {
            let b: Vec<u8> = (0..len).map(|_| (32 + r.below(95)) as u8).collect();
            return hex(&b);
        }
        return format!("~{},{},{}", len, r.below(95), r.below(7));
    }
    if len <= 12 {
        let mut b = r.bytes(len as usize);
        // integers with the high bit set / leading zeros, bit strings with trailing zeros
        match r.below(6) {
            0 => b.iter_mut().for_each(|x| *x = 0),
            1 if !b.is_empty() => b[0] = 0x80 | b[0],
            2 if !b.is_empty() => b[0] = 0,
            3 if !b.is_empty() => {
                let n = b.len();
                b[n - 1] = 0
            }
            4 if !b.is_empty() => {
                let n = b.len();
                b[n - 1] = 1 << r.below(8)
            }
            _ => {}
        }
        return hex(&b);
    }
    format!("@{},{},{}", len, r.below(256), *r.pick(&[0u64, 1, 3, 255]))
}

const EPOCHS: &[u64] = &[
    0,
    1,
    59,
    86399,
    86400,
    5097600,            // 2000-02-29
    31535999,           // 2000-12-30T23:59:59
    31622399,           // 2000-12-31T23:59:59 (leap year end)
    31622400,           // 2001-01-01
    1577923199,         // 2049-12-31T23:59:59
    1577923200,         // 2050-01-01T00:00:00
    1577923201,
    3155760000,         // 2100-01-01 (no leap day in 2100)
    3160857599,         // 2100-02-28T23:59:59
    3160857600,         // 2100-03-01
    4294967295,         // u32::MAX
    4294967296,
    12622780800,        // 2400-01-01
    12627964800,        // 2400-03-01 (leap day in 2400)
    252455615998,
    252455615999,       // 9999-12-31T23:59:59 = "no well-defined expiry"
];

fn gen_prim(r: &mut Rng, out: &mut Out, big: bool) -> String {
    match r.below(13) {
        0 => format!("int:{}", gen_content(r, false, big)),
        1 => format!("ps:{}", gen_content(r, true, false)),
        2 => format!("u8s:{}", gen_content(r, true, false)),
        3 | 4 => format!("bs:{}:{}", r.below(2), gen_content(r, false, big)),
        5 => format!("os:{}", gen_content(r, false, big)),
        6 => format!("bool:{}", r.below(2)),
        7 => format!("ctx:{}:{}", r.below(31), gen_content(r, false, false)),
        8 => format!("oid:{}", gen_content(r, false, false)),
        9 | 10 => {
            let e = if r.chance(2, 3) {
                let e = *r.pick(EPOCHS);
                if r.chance(1, 3) {
                    e.wrapping_add(r.below(3)).wrapping_sub(1).min(252455615999)
                } else {
                    e
                }
            } else if r.chance(1, 2) {
                r.below(4294967296)
            } else {
                r.below(252455616000)
            };
            out.stat(if e >= 1577923200 { "der_time_generalized" } else { "der_time_utc" }, 1);
            format!("time:{}", e)
        }
        11 => {
            // raw: a well-formed DER value (so that the output stays DER) or arbitrary bytes
            if r.chance(2, 3) {
                let n = r.below(6) as usize;
                let mut v = vec![0x30, (n + 2) as u8, 0x04, n as u8];
                v.extend(r.bytes(n));
                format!("raw:{}", hex(&v))
            } else {
                out.stat("der_raw_arbitrary", 1);
                format!("raw:{}", gen_content(r, false, false))
            }
        }
        _ => format!("os:{}", gen_content(r, false, big)),
    }
}

fn gen_forest(r: &mut Rng, out: &mut Out, depth: u64, budget: &mut i64, big: bool, ops: &mut Vec<String>) {
    let n = r.range(0, 3);
    for _ in 0..n {
        if *budget <= 0 {
            return;
        }
        *budget -= 1;
        if depth > 0 && r.chance(1, 2) {
            let (s, e) = match r.below(4) {
                0 => ("ss".to_string(), "es"),
                1 => ("sset".to_string(), "eset"),
                2 => ("so".to_string(), "eo"),
                _ => (format!("sctx:{}", r.below(31)), "ectx"),
            };
            ops.push(s);
            gen_forest(r, out, depth - 1, budget, big, ops);
            ops.push(e.to_string());
        } else {
            let b = big && r.chance(1, 2);
            ops.push(gen_prim(r, out, b));
        }
    }
}

fn gen_w(r: &mut Rng, out: &mut Out, allow_big: bool) -> Vec<String> {
    let mut ops: Vec<String> = Vec::new();
    let big = allow_big;
    let shape = r.below(10);
    match shape {
        0 => {
            // a chain of nested compounds up to and beyond the depth limit
            let d = r.range(7, 12);
            out.stat(&format!("der_nesting_{}", d), 1);
            for _ in 0..d {
                ops.push(
                    match r.below(4) {
                        0 => "ss",
                        1 => "sset",
                        2 => "so",
                        _ => "sctx:1",
                    }
                    .to_string(),
                );
            }
            ops.push(gen_prim(r, out, false));
            for _ in 0..d {
                ops.push("es".to_string());
            }
        }
        1 => {
            // unbalanced: an end without a start / a start that is never closed
            out.stat("der_unbalanced", 1);
            let mut budget = 6;
            gen_forest(r, out, 3, &mut budget, false, &mut ops);
            let k = r.below(ops.len() as u64 + 1) as usize;
            if r.chance(1, 2) {
                ops.insert(k, "es".to_string());
            } else {
                ops.insert(k, "ss".to_string());
            }
        }
        _ => {
            let mut budget = r.range(1, 14) as i64;
            let depth = r.range(0, 5);
            // one compound around everything in most cases, so that compound lengths cross 127/128, 255/256
            let wrap = r.chance(3, 4);
            if wrap {
                ops.push("ss".to_string());
            }
            gen_forest(r, out, depth, &mut budget, big, &mut ops);
            if ops.len() <= wrap as usize {
                ops.push(gen_prim(r, out, big));
            }
            if wrap {
                ops.push("es".to_string());
            }
        }
    }
    // capacity: run once with room to spare, then pick a capacity around the final length
    let probe = run_w(&format!("w 70000 0 {}", ops.join(" ")));
    let len = if probe.starts_with("ok ") {
        probe.split_whitespace().last().map(|h| if h == "-" { 0 } else { h.len() / 2 }).unwrap_or(0) as u64
    } else {
        r.below(64)
    };
    let cap = match r.below(10) {
        0 => r.below(9),
        1 => len,
        2 => len.saturating_sub(1),
        3 => len + r.range(1, 4),
        4 => len + 3 * r.range(1, 10),
        5 => r.below(len + 1),
        _ => len + 64,
    };
    out.stat(if probe.starts_with("ok") { "der_w_balanced_ok" } else { "der_w_fails_with_room" }, 1);
    let fill = *r.pick(&[0u64, 0xaa, 0xff, 0x30]);
    vec![format!("w {} {} {}", cap, fill, ops.join(" "))]
}

// ------------------------------------------------------------------ generator: certificates

#[derive(Clone)]
enum DnV {
    U(u64),
    S(Vec<u8>),
    P(Vec<u8>),
    /// an octet string where a UTF-8 string / integer is expected
    O(Vec<u8>),
}

#[derive(Clone)]
enum ExtR {
    Bc(bool, Option<u8>),
    Ku(u16),
    Eku(Vec<u8>),
    Skid(Vec<u8>),
    Akid(Vec<u8>),
    Fut(Vec<u8>),
}

#[derive(Clone)]
struct Rec {
    serial: Vec<u8>,
    sa: u8,
    issuer: Vec<(u8, DnV)>,
    nb: u32,
    na: u32,
    subject: Vec<(u8, DnV)>,
    pa: u8,
    curve: u8,
    pk: Vec<u8>,
    exts: Vec<ExtR>,
}

fn dn_tokens(l: &[(u8, DnV)]) -> String {
    let items: Vec<String> = l
        .iter()
        .map(|(t, v)| {
            let tag = t & 0x7f;
            let ts = if (1..=22).contains(&tag) { tag.to_string() } else { "?".to_string() };
            let printable = *t >= 0x80;
            let vs = match v {
                DnV::U(x) => format!("u{}", x),
                DnV::S(s) | DnV::P(s) => format!("{}{}", if printable { "p" } else { "s" }, hex(s)),
                DnV::O(_) => "!TLVTypeMismatch".to_string(),
            };
            format!("{}:{}", ts, vs)
        })
        .collect();
    format!("[{}]", items.join(";"))
}

fn rec_tokens(c: &Rec) -> String {
    let exts: Vec<String> = c
        .exts
        .iter()
        .map(|e| match e {
            ExtR::Bc(ca, p) => format!("bc{}:{}", *ca as u8, p.map(|x| x.to_string()).unwrap_or("-".into())),
            ExtR::Ku(v) => format!("ku{}", v),
            ExtR::Eku(l) => format!("eku{}", l.iter().map(|x| x.to_string()).collect::<Vec<_>>().join(",")),
            ExtR::Skid(b) => format!("skid{}", hex(b)),
            ExtR::Akid(b) => format!("akid{}", hex(b)),
            ExtR::Fut(b) => format!("fut{}", hex(b)),
        })
        .collect();
    format!(
        "serial={} sa={} issuer={} nb={} na={} subject={} pa={} curve={} pk={} ext=[{}]",
        hex(&c.serial),
        c.sa,
        dn_tokens(&c.issuer),
        c.nb,
        c.na,
        dn_tokens(&c.subject),
        c.pa,
        c.curve,
        hex(&c.pk),
        exts.join(";")
    )
}

fn write_dn(tw: &mut WriteBuf, l: &[(u8, DnV)]) -> Result<(), Error> {
    for (t, v) in l {
        let tag = TLVTag::Context(*t);
        match v {
            DnV::U(x) => tw.u64(&tag, *x)?,
            DnV::S(s) | DnV::P(s) => tw.utf8(&tag, core::str::from_utf8(s).unwrap_or(""))?,
            DnV::O(s) => tw.str(&tag, s)?,
        }
    }
    Ok(())
}

fn rec_tlv(c: &Rec) -> Result<Vec<u8>, Error> {
    let mut buf = vec![0u8; 4096];
    let mut tw = WriteBuf::new(&mut buf);
    tw.start_struct(&TLVTag::Anonymous)?;
    tw.str(&TLVTag::Context(1), &c.serial)?;
    tw.u8(&TLVTag::Context(2), c.sa)?;
    tw.start_list(&TLVTag::Context(3))?;
    write_dn(&mut tw, &c.issuer)?;
    tw.end_container()?;
    tw.u32(&TLVTag::Context(4), c.nb)?;
    tw.u32(&TLVTag::Context(5), c.na)?;
    tw.start_list(&TLVTag::Context(6))?;
    write_dn(&mut tw, &c.subject)?;
    tw.end_container()?;
    tw.u8(&TLVTag::Context(7), c.pa)?;
    tw.u8(&TLVTag::Context(8), c.curve)?;
    tw.str(&TLVTag::Context(9), &c.pk)?;
    tw.start_list(&TLVTag::Context(10))?;
    for e in &c.exts {
        match e {
            ExtR::Bc(ca, p) => {
                tw.start_struct(&TLVTag::Context(1))?;
                tw.bool(&TLVTag::Context(1), *ca)?;
                if let Some(p) = p {
                    tw.u8(&TLVTag::Context(2), *p)?;
                }
                tw.end_container()?;
            }
            ExtR::Ku(v) => tw.u16(&TLVTag::Context(2), *v)?,
            ExtR::Eku(l) => {
                tw.start_array(&TLVTag::Context(3))?;
                for x in l {
                    tw.u8(&TLVTag::Anonymous, *x)?;
                }
                tw.end_container()?;
            }
            ExtR::Skid(b) => tw.str(&TLVTag::Context(4), b)?,
            ExtR::Akid(b) => tw.str(&TLVTag::Context(5), b)?,
            ExtR::Fut(b) => tw.str(&TLVTag::Context(6), b)?,
        }
    }
    tw.end_container()?;
    tw.str(&TLVTag::Context(11), &[0x11u8; 64])?;
    tw.end_container()?;
    Ok(tw.as_slice().to_vec())
}

fn gen_dn(r: &mut Rng, out: &mut Out, odd: bool) -> Vec<(u8, DnV)> {
    let n = r.range(1, 5);
    (0..n)
        .map(|_| {
            let mut tag = r.range(1, 22) as u8;
            if odd && r.chance(1, 6) {
                out.stat("der_dn_unknown_tag", 1);
                tag = *r.pick(&[0u8, 23, 60, 127]);
            }
            let matter = (17..=22).contains(&tag);
            let v = if matter && !r.chance(1, 8) {
                DnV::U(match r.below(5) {
                    0 => 0,
                    1 => u64::MAX,
                    2 => r.below(0x1_0000_0000),
                    3 => 0xFFFF_FFFF + r.below(3),
                    _ => r.next(),
                })
            } else if odd && r.chance(1, 10) {
                out.stat("der_dn_uint_under_text_tag", 1);
                DnV::U(r.next())
            } else if odd && r.chance(1, 12) {
                out.stat("der_dn_octets_value", 1);
                DnV::O(r.bytes(3))
            } else {
                let len = *r.pick(&[0usize, 1, 2, 5, 11, 16, 40]);
                let s: Vec<u8> = (0..len).map(|_| *r.pick(b"ABCXYZabcxyz0189 -.'")).collect();
                if r.chance(1, 3) {
                    tag |= 0x80;
                    DnV::P(s)
                } else if r.chance(1, 6) {
                    // multi-byte UTF-8
                    DnV::S("Zürich-\u{4e2d}".as_bytes().to_vec())
                } else {
                    DnV::S(s)
                }
            };
            out.stat(&format!("der_dn_tag_{}", tag & 0x7f), 1);
            (tag, v)
        })
        .collect()
}

fn gen_rec(r: &mut Rng, out: &mut Out) -> Rec {
    let odd = r.chance(1, 3);
    if odd {
        out.stat("der_cert_with_odd_fields", 1);
    }
    let serial_len = *r.pick(&[1usize, 1, 8, 16, 19, 20, 21, 0, 3]);
    let mut serial = r.bytes(serial_len);
    if !serial.is_empty() && r.chance(1, 3) {
        serial[0] = *r.pick(&[0u8, 0x80, 0xff, 0x7f]);
    }
    let epoch = |r: &mut Rng| -> u32 {
        match r.below(4) {
            0 => *r.pick(&[0u32, 1, 1577923199, 1577923200, 1577923201, u32::MAX, 5097600, 3160857600]),
            1 => 1577923200u32.wrapping_add(r.below(5) as u32).wrapping_sub(2),
            _ => r.next() as u32,
        }
    };
    let mut exts = Vec::new();
    let mut kinds: Vec<u64> = (0..6).filter(|_| r.chance(2, 3)).collect();
    if r.chance(1, 4) {
        // unordered / repeated extensions
        kinds.reverse();
        if r.chance(1, 3) && !kinds.is_empty() {
            kinds.push(kinds[0]);
        }
    }
    for k in kinds {
        exts.push(match k {
            0 => ExtR::Bc(r.chance(1, 2), if r.chance(1, 2) { Some(*r.pick(&[0u8, 1, 2, 127, 128, 255])) } else { None }),
            1 => ExtR::Ku(match r.below(5) {
                0 => 0,
                1 => 1 << r.below(16),
                2 => 0xffff,
                3 => *r.pick(&[0x0001u16, 0x0060, 0x0080, 0x0100, 0x8000, 0x00ff, 0xff00]),
                _ => r.next() as u16,
            }),
            2 => {
                let n = r.range(0, 4);
                ExtR::Eku(
                    (0..n)
                        .map(|_| {
                            if odd && r.chance(1, 4) {
                                out.stat("der_eku_out_of_range", 1);
                                *r.pick(&[0u8, 7, 8, 255])
                            } else {
                                r.range(1, 6) as u8
                            }
                        })
                        .collect(),
                )
            }
            3 => {
                let n = *r.pick(&[20usize, 20, 0, 1, 32]);
                ExtR::Skid(r.bytes(n))
            }
            4 => {
                let n = *r.pick(&[20usize, 20, 0, 1, 32]);
                ExtR::Akid(r.bytes(n))
            }
            _ => {
                if odd && r.chance(1, 3) {
                    out.stat("der_future_ext_not_der", 1);
                    let n = r.range(0, 9) as usize;
                    ExtR::Fut(r.bytes(n))
                } else {
                    // one DER Extension with an OID rs-matter does not know
                    let n = r.range(0, 6) as usize;
                    let crit = r.chance(1, 2);
                    let mut body = vec![0x06, 0x03, 0x55, 0x1d, *r.pick(&[0x11u8, 0x20, 0x1f])];
                    if crit {
                        body.extend_from_slice(&[0x01, 0x01, 0xff]);
                    }
                    body.push(0x04);
                    body.push(n as u8);
                    body.extend(r.bytes(n));
                    let mut v = vec![0x30, body.len() as u8];
                    v.extend(body);
                    ExtR::Fut(v)
                }
            }
        });
    }
    Rec {
        serial,
        sa: if odd && r.chance(1, 8) { *r.pick(&[0u8, 2, 255]) } else { 1 },
        issuer: gen_dn(r, out, odd),
        nb: epoch(r),
        na: if r.chance(1, 5) { 0 } else { epoch(r) },
        subject: gen_dn(r, out, odd),
        pa: if odd && r.chance(1, 8) { *r.pick(&[0u8, 2]) } else { 1 },
        curve: if odd && r.chance(1, 8) { *r.pick(&[0u8, 2]) } else { 1 },
        pk: if r.chance(1, 6) {
            let n = *r.pick(&[0usize, 1, 64, 66, 130]);
            r.bytes(n)
        } else {
            let mut k = r.bytes(65);
            k[0] = 4;
            k
        },
        exts,
    }
}

fn gen_cert(r: &mut Rng, out: &mut Out) -> Vec<String> {
    let mut ops = Vec::new();
    if r.chance(2, 3) {
        let rec = gen_rec(r, out);
        match rec_tlv(&rec) {
            Ok(tlv) => {
                let cap = match r.below(8) {
                    0 => r.below(40),
                    1 => r.range(40, 400),
                    _ => 2048,
                };
                out.stat("der_cert_generated", 1);
                ops.push(format!("gcert {} {} {}", cap, hex(&tlv), rec_tokens(&rec)));
                if r.chance(1, 3) {
                    let m = mutate(r, &tlv, out);
                    ops.push(format!("cert 2048 {}", hex(&m)));
                }
            }
            Err(_) => out.stat("der_cert_tlv_too_big", 1),
        }
    } else {
        let i = r.below(certs::CERTS.len() as u64) as usize;
        let base = unhex(certs::CERTS[i].1);
        out.stat("der_cert_vector", 1);
        ops.push(format!("cert 2048 {}", hex(&base)));
        for _ in 0..4 {
            match r.below(6) {
                0 => {
                    out.stat("der_cert_small_buf", 1);
                    ops.push(format!("cert {} {}", *r.pick(&[0u64, 1, 3, 4, 16, 100, 200, 300]), hex(&base)));
                }
                1 => {
                    let n = r.below(base.len() as u64) as usize;
                    ops.push(format!("cert 2048 {}", hex(&base[..n])));
                }
                2 => {
                    let mut m = base.clone();
                    let k = r.below(60.min(m.len() as u64)) as usize;
                    m[k] = *r.pick(&[0x00u8, 0x18, 0x15, 0x16, 0x17, 0x30, 0x31, 0xff, 0x2c, 0x26, 0x24]);
                    ops.push(format!("cert 2048 {}", hex(&m)));
                }
                _ => {
                    let m = mutate(r, &base, out);
                    ops.push(format!("cert 2048 {}", hex(&m)));
                }
            }
        }
    }
    ops
}

pub fn gen(r: &mut Rng, out: &mut Out, thorough: bool, id: &mut u64) {
    let scale: u64 = if thorough { 10 } else { 1 };
    let nw = 1200 * scale;
    let nbig = 6 * scale;
    for i in 0..nw {
        let mut cr = r.fork();
        let ops = gen_w(&mut cr, out, i < nbig);
        out.stat("kind_der_writer", 1);
        super::emit_case(out, *id, "derw", ops);
        *id += 1;
    }
    for _ in 0..600 * scale {
        let mut cr = r.fork();
        let ops = gen_cert(&mut cr, out);
        if ops.is_empty() {
            continue;
        }
        out.stat("kind_der_cert", 1);
        super::emit_case(out, *id, "derw", ops);
        *id += 1;
    }
}
