import RsMatterVerif.Lemmas.CodecX509
import RsMatterVerif.Lemmas.CodecX509Time
/-!
# What the X.509 / CSR decoders of `Model/Codec/X509.lean` read from the model encoder's output

`Run p l Q l'`: on every reader whose remaining bytes are exactly `l` (all frames have room, the innermost frame
ends with `l`) the action `p` succeeds with a value satisfying `Q`, consumes a prefix of `l` and leaves `l'`.
Composite decoders are handled by `Run.bind` over the `Run` facts of the primitives; loops by induction on the
encoded list.
-/
namespace Codec.DerRd

/-- `Next` plus: the innermost frame has exactly `l` left -/
structure NextX (r : Rdr) (l : List Nat) : Prop where
  next : Next r l
  exact : r.inputLen - r.position = l.length

theorem NextX.adv {r : Rdr} {x rest : List Nat} (h : NextX r (x ++ rest)) : NextX (r.adv x.length) rest := by
  refine ⟨h.next.adv, ?_⟩
  obtain ⟨_, _, f3, f4⟩ := r.adv_facts x.length
  have := h.exact
  simp only [List.length_append] at this
  rw [f3, f4]; omega

theorem NextX.nested {r : Rdr} {v rest : List Nat} (h : NextX r (v ++ rest)) : NextX (.nested r v.length 0) v :=
  ⟨(Next.nested h.next).2, by simp [Rdr.inputLen, Rdr.position]⟩

theorem NextX.ofSlice {bytes : List Nat} (h : bytes.length ≤ MAX_LEN) : NextX (.slice bytes 0) bytes :=
  ⟨Next.ofSlice h, by simp [Rdr.inputLen, Rdr.position]⟩

def Run {α : Type} (p : Dec α) (l : List Nat) (Q : α → Prop) (l' : List Nat) : Prop :=
  ∀ r, NextX r l → ∃ a pre, Q a ∧ l = pre ++ l' ∧ p r = .ok (a, r.adv pre.length)

namespace Run
variable {α β : Type}

theorem pure {a : α} {l : List Nat} {Q : α → Prop} (h : Q a) : Run (Pure.pure a : Dec α) l Q l :=
  fun r _ => ⟨a, [], h, rfl, by simp [Rdr.adv_zero, Dec.pure_run]⟩

theorem bind {p : Dec α} {f : α → Dec β} {l l1 l2 : List Nat} {Q : α → Prop} {R : β → Prop}
    (hp : Run p l Q l1) (hf : ∀ a, Q a → Run (f a) l1 R l2) : Run (p >>= f) l R l2 := by
  intro r hr
  obtain ⟨a, pre, hq, hl, hpr⟩ := hp r hr
  subst hl
  obtain ⟨b, pre2, hr2, hl2, hfr⟩ := hf a hq _ hr.adv
  subst hl2
  refine ⟨b, pre ++ pre2, hr2, by simp, ?_⟩
  rw [Dec.bind_run, hpr]
  simp only [hfr, Rdr.adv_adv, List.length_append]

theorem weaken {p : Dec α} {l l' : List Nat} {Q Q' : α → Prop} (h : Run p l Q l') (hq : ∀ a, Q a → Q' a) :
    Run p l Q' l' :=
  fun r hr => by
    obtain ⟨a, pre, h1, h2, h3⟩ := h r hr
    exact ⟨a, pre, hq a h1, h2, h3⟩

theorem lift {x : Except E α} {a : α} {l : List Nat} {Q : α → Prop} (hx : x = .ok a) (h : Q a) :
    Run (Dec.lift x) l Q l :=
  fun r _ => ⟨a, [], h, rfl, by subst hx; simp [Dec.lift, Rdr.adv_zero]⟩

/-- the bytes still to be read fit a `der::Length` -/
theorem of_len {p : Dec α} {l l' : List Nat} {Q : α → Prop} (h : l.length ≤ MAX_LEN → Run p l Q l') : Run p l Q l' :=
  fun r hr => h hr.next.length_le r hr

theorem of_append_nil {p : Dec α} {l l' : List Nat} {Q : α → Prop} (h : Run p (l ++ []) Q l') : Run p l Q l' := by
  simpa using h

theorem congr {p q : Dec α} {l l' : List Nat} {Q : α → Prop} (h : Run q l Q l') (hpq : p = q) : Run p l Q l' := hpq ▸ h

end Run

/-! ## primitives -/

theorem run_header {tag : Nat} {v rest : List Nat} (ht : tagOfByte tag = .ok tag) :
    Run dHeader (encTlv tag v ++ rest) (fun x => x = (tag, v.length)) (v ++ rest) := by
  intro r hr
  obtain ⟨hh, _⟩ := Next.tlvHeader hr.next ht
  refine ⟨_, tag :: encLen v.length, rfl, by simp [encTlv], ?_⟩
  show headerDecode r = _
  rw [hh]
  simp [Nat.add_comm]

theorem run_slice {x rest : List Nat} {n : Nat} (hn : x.length = n) : Run (dSlice n) (x ++ rest) (fun y => y = x) rest := by
  intro r hr
  subst hn
  exact ⟨x, x, rfl, rfl, Next.slice hr.next⟩

theorem run_sliceAt {x rest : List Nat} {n : Nat} (hn : x.length = n) :
    Run (dSliceAt n) (x ++ rest) (fun y => y.1 = x) rest := by
  intro r hr
  subst hn
  exact ⟨(x, r.offset), x, rfl, rfl, Next.sliceAt hr.next⟩

theorem run_byte {b : Nat} {rest : List Nat} : Run dByte (b :: rest) (fun y => y = b) rest := by
  intro r hr
  exact ⟨b, [b], rfl, rfl, Next.byte hr.next⟩

theorem run_finished {l : List Nat} : Run dFinished l (fun b => b = l.isEmpty) l := by
  intro r hr
  refine ⟨l.isEmpty, [], rfl, rfl, ?_⟩
  rw [dFinished_at hr.next.wf, hr.exact]
  cases l <;> simp [Rdr.adv_zero]

theorem peekByte_next : ∀ {r : Rdr} {b : Nat} {l : List Nat}, Next r (b :: l) → r.peekByte = .ok (some b)
  | .slice bs p, b, l, h => by
    have hb := h.bytes
    have hroom := h.room
    simp only [Rdr.input, Rdr.offset, Rdr.inputLen, Rdr.position, List.length_cons] at hb hroom
    unfold Rdr.peekByte
    rw [if_pos (by omega)]
    have h1 : (bs.drop p).head? = some b := by
      have := congrArg List.head? hb
      simpa [List.head?_take] using this
    simp only [List.head?_drop] at h1
    rw [h1]
  | .nested i n p, b, l, h => by
    have hwf := h.wf
    obtain ⟨hi, hp, hrem, hoff⟩ := hwf
    have hroom := h.room
    simp only [Rdr.inputLen, Rdr.position, List.length_cons] at hroom
    unfold Rdr.peekByte
    rw [isFinished_ok h.wf]
    have hne : ((Rdr.nested i n p).inputLen - (Rdr.nested i n p).position == 0) = false := by
      simp [Rdr.inputLen, Rdr.position]; omega
    simp only [hne, Bind.bind, Except.bind, Bool.false_eq_true, if_false]
    exact peekByte_next (r := i) (b := b) (l := l) ⟨hi, by simp only [List.length_cons]; omega, h.bytes⟩

theorem peekByte_nil : ∀ {r : Rdr}, NextX r [] → r.peekByte = .ok none
  | .slice bs p, h => by
    have he := h.exact
    have hwf := h.next.wf
    simp only [Rdr.inputLen, Rdr.position, List.length_nil] at he
    unfold Rdr.peekByte
    have hp : p ≤ bs.length := hwf.1
    rw [if_pos hp]
    have : bs[p]? = none := by simp; omega
    rw [this]
  | .nested i n p, h => by
    have he := h.exact
    simp only [Rdr.inputLen, Rdr.position, List.length_nil] at he
    unfold Rdr.peekByte
    rw [isFinished_ok h.next.wf]
    simp [Rdr.inputLen, Rdr.position, he, Bind.bind, Except.bind, Pure.pure, Except.pure]

theorem run_peek {l : List Nat} : Run dPeek l (fun o => o = l.head?) l := by
  intro r hr
  refine ⟨l.head?, [], rfl, rfl, ?_⟩
  unfold dPeek
  cases l with
  | nil => rw [peekByte_nil hr]; simp [Rdr.adv_zero]
  | cons b t => rw [peekByte_next hr.next]; simp [Rdr.adv_zero]

theorem run_nested {α : Type} {p : Dec α} {v rest : List Nat} {Q : α → Prop} {n : Nat} (hn : v.length = n)
    (hp : Run p v Q []) : Run (dNested n p) (v ++ rest) Q rest := by
  intro r hr
  subst hn
  obtain ⟨a, pre, hq, hl, hpr⟩ := hp _ hr.nested
  have hpre : pre = v := by simpa using hl.symm
  subst hpre
  refine ⟨a, pre, hq, rfl, ?_⟩
  unfold dNested
  exact Next.nest hr.next hpr

theorem run_any {tag : Nat} {v rest : List Nat} (ht : tagOfByte tag = .ok tag) :
    Run dAny (encTlv tag v ++ rest) (fun x => x = (tag, v)) rest := by
  intro r hr
  exact ⟨_, encTlv tag v, rfl, rfl, Next.any hr.next ht⟩

/-- a fresh reader over `bytes` -/
theorem runNew_of_run {α : Type} {p : Dec α} {bytes l' : List Nat} {Q : α → Prop} (hp : Run p bytes Q l')
    (hlen : bytes.length ≤ MAX_LEN) : ∃ a, Q a ∧ runNew bytes p = .ok a := by
  obtain ⟨a, pre, hq, _, hpr⟩ := hp _ (NextX.ofSlice hlen)
  refine ⟨a, hq, ?_⟩
  unfold runNew Rdr.new
  rw [lenNew_of_le hlen]
  simp only [Bind.bind, Except.bind, Pure.pure, Except.pure, hpr]

theorem fromDer_of_run {α : Type} {p : Dec α} {bytes : List Nat} {Q : α → Prop} (hp : Run p bytes Q [])
    (hlen : bytes.length ≤ MAX_LEN) : ∃ a, Q a ∧ fromDer bytes p = .ok a := by
  have hx := NextX.ofSlice hlen
  obtain ⟨a, pre, hq, hl, hpr⟩ := hp _ hx
  have hpre : pre = bytes := by simpa using hl.symm
  subst hpre
  refine ⟨a, hq, ?_⟩
  unfold fromDer Rdr.new
  rw [lenNew_of_le hlen]
  simp only [Bind.bind, Except.bind, Pure.pure, Except.pure, hpr]
  have hfin : ((Rdr.slice pre 0).adv pre.length).finish = .ok () := by
    have hwf := (hx.next.nil_of.adv (x := pre) (rest := [])).wf
    unfold Rdr.finish
    rw [isFinished_ok hwf]
    simp [Rdr.adv, Rdr.inputLen, Rdr.position, Bind.bind, Except.bind, Pure.pure, Except.pure]
  rw [hfin]

/-! ## composite decoders of the `der` crate on the encoder's output -/

theorem run_headerOf {tag : Nat} {v rest : List Nat} (ht : tagOfByte tag = .ok tag) :
    Run (dHeaderOf tag) (encTlv tag v ++ rest) (fun n => n = v.length) (v ++ rest) := by
  unfold dHeaderOf
  refine Run.bind (run_header ht) (fun x hx => ?_)
  subst hx
  simp only [ne_eq, not_true_eq_false, if_false]
  exact Run.pure rfl

theorem run_bytesAt {x rest : List Nat} {n : Nat} (hn : x.length = n) :
    Run (dBytesAt n) (x ++ rest) (fun y => y.1 = x) rest := by
  refine Run.of_len (fun hlen => ?_)
  unfold dBytesAt
  refine Run.bind (run_sliceAt hn) (fun y hy => ?_)
  obtain ⟨v, off⟩ := y
  simp only at hy
  subst hy
  refine Run.bind (Run.lift (Q := fun _ => True) (lenNew_of_le (by simp only [List.length_append] at hlen; omega)) trivial) (fun _ _ => ?_)
  exact Run.pure rfl

theorem run_anyAt {tag : Nat} {v rest : List Nat} (ht : tagOfByte tag = .ok tag) :
    Run dAnyAt (encTlv tag v ++ rest) (fun y => y.1 = tag ∧ y.2.1 = v) rest := by
  unfold dAnyAt
  refine Run.bind (run_header ht) (fun x hx => ?_)
  subst hx
  refine Run.bind (run_bytesAt rfl) (fun y hy => ?_)
  exact Run.pure ⟨rfl, hy⟩

theorem run_readInto {x rest : List Nat} {n : Nat} (hn : x.length = n) :
    Run (dReadInto n) (x ++ rest) (fun y => y = x) rest := by
  unfold dReadInto
  refine Run.bind (run_slice hn) (fun y hy => ?_)
  subst hy
  rw [if_pos hn]
  exact Run.pure rfl

theorem oidValid_len {c : List Nat} (h : oidValid c = true) : c.length ≤ OID_MAX_SIZE := by
  unfold oidValid at h
  cases c with
  | nil => simp at h
  | cons b t => simp only [Bool.and_eq_true, decide_eq_true_eq] at h; exact h.1.1.2

theorem run_oid {c rest : List Nat} (hc : oidValid c = true) : Run dOid (encOid c ++ rest) (fun y => y = c) rest := by
  unfold dOid encOid
  refine Run.bind (run_headerOf tagOfByte_oid) (fun n hn => ?_)
  subst hn
  rw [if_neg (by have := oidValid_len hc; omega)]
  refine Run.bind (run_readInto rfl) (fun y hy => ?_)
  subst hy
  rw [if_pos hc]
  exact Run.pure rfl

/-- an INTEGER whose content is one octet below 0x80 -/
theorem run_uintRef_small {b : Nat} {rest : List Nat} (hb : b < 0x80) :
    Run dUintRef (encTlv TAG_INTEGER [b] ++ rest) (fun y => y = [b]) rest := by
  unfold dUintRef
  refine Run.bind (run_headerOf tagOfByte_int) (fun n hn => ?_)
  subst hn
  refine Run.bind (run_bytesAt rfl) (fun y hy => ?_)
  obtain ⟨bytes, off⟩ := y
  simp only at hy
  subst hy
  have h1 : decodeToSlice [b] = .ok [b] := by
    simp only [decodeToSlice]; rw [if_neg (by omega)]
  refine Run.bind (Run.lift h1 rfl) (fun s hs => ?_)
  subst hs
  have h2 : uintEncodedLen (stripLeadingZeroes [b]) = 1 := by
    have : ¬(128 : Nat) ≤ b := by omega
    simp [uintEncodedLen, stripLeadingZeroes, needsLeadingZero, this]
  simp only [h2, List.length_singleton, ne_eq, not_true_eq_false, if_false]
  exact Run.pure rfl

theorem run_bool {b : Bool} {rest : List Nat} : Run dBool (encBool b ++ rest) (fun y => y = b) rest := by
  unfold dBool encBool
  refine Run.bind (run_headerOf (by simp [tagOfByte, TAG_BOOLEAN])) (fun n hn => ?_)
  subst hn
  simp only [List.length_singleton, ne_eq, not_true_eq_false, if_false]
  refine Run.bind run_byte (fun y hy => ?_)
  subst hy
  cases b
  · simp only [Bool.false_eq_true, if_false, if_true]; exact Run.pure rfl
  · simp only [if_true]
    first | exact Run.pure rfl | (rw [if_neg (by decide), if_pos rfl]; exact Run.pure rfl)

theorem run_u8 {v : Nat} {rest : List Nat} (hv : v < 256) : Run dU8 (encU8 v ++ rest) (fun y => y = v) rest := by
  unfold dU8 encU8
  by_cases hb : v ≥ 0x80
  · rw [if_pos hb]
    refine Run.bind (run_headerOf tagOfByte_int) (fun n hn => ?_)
    subst hn
    rw [if_neg (by simp)]
    refine Run.bind (run_readInto rfl) (fun y hy => ?_)
    subst hy
    have h1 : decodeToSlice [0, v] = .ok [v] := by
      simp only [decodeToSlice, if_true]; rw [if_neg (by omega)]
    refine Run.bind (Run.lift h1 rfl) (fun s hs => ?_)
    subst hs
    have h2 : uintEncodedLen [v] = 2 := by
      have : (128 : Nat) ≤ v := hb
      simp [uintEncodedLen, stripLeadingZeroes, needsLeadingZero, this]
    simp only [List.length_singleton, List.headD_cons, h2, List.length_cons, List.length_nil]
    rw [if_neg (by omega), if_neg (by omega)]
    exact Run.pure rfl
  · rw [if_neg hb]
    refine Run.bind (run_headerOf tagOfByte_int) (fun n hn => ?_)
    subst hn
    rw [if_neg (by simp)]
    refine Run.bind (run_readInto rfl) (fun y hy => ?_)
    subst hy
    have h1 : decodeToSlice [v] = .ok [v] := by
      simp only [decodeToSlice]; rw [if_neg (by omega)]
    refine Run.bind (Run.lift h1 rfl) (fun s hs => ?_)
    subst hs
    have h2 : uintEncodedLen [v] = 1 := by
      have : ¬(128 : Nat) ≤ v := hb
      simp [uintEncodedLen, stripLeadingZeroes, needsLeadingZero, this]
    simp only [List.length_singleton, List.headD_cons, h2]
    rw [if_neg (by omega), if_neg (by omega)]
    exact Run.pure rfl

theorem run_bitString {unused : Nat} {bytes rest : List Nat} (hu : unused ≤ 7) (he : unused ≠ 0 → bytes ≠ []) :
    Run dBitString (encBitString unused bytes ++ rest) (fun y => y.unused = unused ∧ y.bytes = bytes) rest := by
  unfold dBitString encBitString
  refine Run.bind (run_headerOf (by simp [tagOfByte, TAG_BIT_STRING])) (fun n hn => ?_)
  subst hn
  rw [if_neg (by simp)]
  refine Run.bind run_byte (fun y hy => ?_)
  subst hy
  refine Run.bind (run_bytesAt (by simp)) (fun y hy => ?_)
  obtain ⟨bs, off⟩ := y
  simp only at hy
  subst hy
  simp only []
  rw [if_neg (by
    intro h
    rcases h with h | ⟨h1, h2⟩
    · omega
    · exact he h1 (by simpa using h2))]
  exact Run.pure ⟨rfl, rfl⟩

theorem run_octets {v rest : List Nat} : Run octetStringDecode (encOctets v ++ rest) (fun y => y.1 = v) rest := by
  intro r hr
  exact ⟨_, encOctets v, rfl, rfl, Next.octet hr.next⟩

/-- `Option<T>::decode` when the next element has the type's tag -/
theorem run_opt_some {α : Type} {tag b : Nat} {p : Dec α} {l l' : List Nat} {Q : α → Prop} (hl : l.head? = some b)
    (hb : tagOfByte b = .ok tag) (hp : Run p l Q l') : Run (dOpt tag p) l (fun o => ∃ a, o = some a ∧ Q a) l' := by
  unfold dOpt
  refine Run.bind run_peek (fun o ho => ?_)
  subst ho
  rw [hl]
  simp only
  refine Run.bind (Run.lift hb rfl) (fun t ht => ?_)
  subst ht
  simp only [if_true]
  refine Run.bind hp (fun a ha => ?_)
  exact Run.pure ⟨a, rfl, ha⟩

/-- `Option<T>::decode` at the end of the reader, or in front of an element of another type -/
theorem run_opt_none {α : Type} {tag : Nat} {p : Dec α} {l : List Nat}
    (hl : l = [] ∨ ∃ b t, l.head? = some b ∧ tagOfByte b = .ok t ∧ t ≠ tag) : Run (dOpt tag p) l (fun o => o = none) l := by
  unfold dOpt
  refine Run.bind run_peek (fun o ho => ?_)
  subst ho
  rcases hl with rfl | ⟨b, t, hb, ht, hne⟩
  · exact Run.pure rfl
  · rw [hb]
    simp only
    refine Run.bind (Run.lift ht rfl) (fun t' ht' => ?_)
    subst ht'
    rw [if_neg hne]
    exact Run.pure rfl

theorem run_optAny_none : Run dOptAny [] (fun o => o = none) [] := by
  unfold dOptAny
  refine Run.bind run_peek (fun o ho => ?_)
  subst ho
  exact Run.pure rfl

theorem run_optAny_some {tag : Nat} {v rest : List Nat} (ht : tagOfByte tag = .ok tag) :
    Run dOptAny (encTlv tag v ++ rest) (fun o => o = some (tag, v)) rest := by
  unfold dOptAny
  refine Run.bind run_peek (fun o ho => ?_)
  subst ho
  simp only [encTlv, List.cons_append, List.head?_cons]
  refine Run.bind (Run.lift ht rfl) (fun _ _ => ?_)
  have := run_any (tag := tag) (v := v) (rest := rest) ht
  simp only [encTlv, List.cons_append] at this
  refine Run.bind this (fun a ha => ?_)
  subst ha
  exact Run.pure rfl

/-- `AlgorithmIdentifier` without parameters -/
theorem run_algId {c rest : List Nat} (hc : oidValid c = true) :
    Run dAlgId (encAlgId c ++ rest) (fun y => y = (c, none)) rest := by
  unfold dAlgId encAlgId
  refine Run.bind (run_headerOf tagOfByte_seq) (fun n hn => ?_)
  subst hn
  refine run_nested rfl ?_
  have h := run_oid (c := c) (rest := []) hc
  simp only [List.append_nil] at h
  refine Run.bind h (fun oid ho => ?_)
  subst ho
  refine Run.bind run_optAny_none (fun o ho => ?_)
  subst ho
  exact Run.pure rfl

/-- `AlgorithmIdentifier` with one parameter element -/
theorem run_algId_param {c v rest : List Nat} {tag : Nat} (hc : oidValid c = true) (ht : tagOfByte tag = .ok tag) :
    Run dAlgId (encTlv TAG_SEQUENCE (encOid c ++ encTlv tag v) ++ rest) (fun y => y = (c, some (tag, v))) rest := by
  unfold dAlgId
  refine Run.bind (run_headerOf tagOfByte_seq) (fun n hn => ?_)
  subst hn
  refine run_nested rfl ?_
  refine Run.bind (run_oid hc) (fun oid ho => ?_)
  subst ho
  have h := run_optAny_some (tag := tag) (v := v) (rest := []) ht
  simp only [List.append_nil] at h
  refine Run.bind h (fun o ho => ?_)
  subst ho
  exact Run.pure rfl

/-- `decode_with` when the next element is the context-specific field looked for -/
theorem run_ctxWith_hit {α : Type} {n fuel t : Nat} {f : Dec α} {l l' : List Nat} {Q : α → Prop}
    (hl : l.head? = some t) (ht : tagOfByte t = .ok t) (hc : isCtx t = true) (hn : tagNumber t = n)
    (hf : Run f l Q l') : Run (ctxWith n f (fuel + 1)) l (fun o => ∃ a, o = some a ∧ Q a) l' := by
  unfold ctxWith
  refine Run.bind run_peek (fun o ho => ?_)
  subst ho
  rw [hl]
  simp only
  refine Run.bind (Run.lift ht rfl) (fun t' ht' => ?_)
  subst ht'
  rw [if_neg (by simp [hc, hn]), if_pos hn]
  refine Run.bind hf (fun a ha => ?_)
  exact Run.pure ⟨a, rfl, ha⟩

theorem run_ctxExplicit {α : Type} {t : Nat} {inner : Dec α} {v rest : List Nat} {Q : α → Prop}
    (ht : tagOfByte t = .ok t) (hc : isCtx t = true) (hk : isConstructed t = true) (hi : Run inner v Q []) :
    Run (ctxExplicit inner) (encTlv t v ++ rest) Q rest := by
  unfold ctxExplicit
  refine Run.bind (run_header ht) (fun x hx => ?_)
  subst hx
  simp only [hc, hk, Bool.and_self, if_true]
  exact run_nested rfl hi

theorem run_ctxImplicitOctets {t : Nat} {v rest : List Nat} (ht : tagOfByte t = .ok t) (hk : isConstructed t = false) :
    Run ctxImplicitOctets (encTlv t v ++ rest) (fun y => y.1 = v) rest := by
  unfold ctxImplicitOctets
  refine Run.bind (run_header ht) (fun x hx => ?_)
  subst hx
  refine Run.bind (run_bytesAt rfl) (fun y hy => ?_)
  simp only [hk, Bool.false_eq_true, if_false]
  exact Run.pure hy

theorem run_ctxImplicitAny {t : Nat} {v rest : List Nat} (ht : tagOfByte t = .ok t) :
    Run ctxImplicitAny (encTlv t v ++ rest) (fun y => y.1 = t ∧ y.2.1 = v) rest := by
  unfold ctxImplicitAny
  refine Run.bind (run_header ht) (fun x hx => ?_)
  subst hx
  refine Run.bind (run_bytesAt rfl) (fun y hy => ?_)
  exact Run.pure ⟨rfl, hy⟩

/-! ## time values -/

theorem decodeDecimal_dec2 (n : Nat) (h : n < 100) : decodeDecimal (48 + n / 10 % 10) (48 + n % 10) = .ok n := by
  unfold decodeDecimal
  rw [if_pos (by omega)]
  congr 1
  omega

theorem utcOfBytes_enc (c : Cal) (h : c.Valid) (hy : c.year ≤ 2049) :
    utcOfBytes (dec2 (c.year % 100) ++ dec2 c.month ++ dec2 c.day ++ dec2 c.hour ++ dec2 c.minute ++ dec2 c.second ++ [90])
      = .ok c.dt := by
  have hv := h
  obtain ⟨hy1, hy2, hm1, hm2, hd1, hd2, hh, hmi, hs⟩ := h
  have hd31 : c.day ≤ 31 := by
    have : daysIn (isLeapYear c.year) c.month ≤ 31 := by
      unfold daysIn; split
      · cases isLeapYear c.year <;> simp
      · split <;> simp
    omega
  simp only [dec2, List.cons_append, List.nil_append, utcOfBytes, ne_eq, not_true_eq_false, if_false]
  rw [decodeDecimal_dec2 _ (by omega), decodeDecimal_dec2 _ (by omega), decodeDecimal_dec2 _ (by omega),
    decodeDecimal_dec2 _ (by omega), decodeDecimal_dec2 _ (by omega), decodeDecimal_dec2 _ (by omega)]
  simp only [Bind.bind, Except.bind]
  have hyear : (if c.year % 100 ≥ 50 then c.year % 100 + 1900 else c.year % 100 + 2000) = c.year := by
    split <;> omega
  rw [hyear, timeOfFields_cal c hv]
  simp only
  split
  · rfl
  · rename_i hne; exact absurd hy hne

theorem generalizedOfBytes_enc (c : Cal) (h : c.Valid) :
    generalizedOfBytes (dec2 (c.year / 100) ++ dec2 (c.year % 100) ++ dec2 c.month ++ dec2 c.day ++ dec2 c.hour ++
      dec2 c.minute ++ dec2 c.second ++ [90]) = .ok c.dt := by
  have hv := h
  obtain ⟨hy1, hy2, hm1, hm2, hd1, hd2, hh, hmi, hs⟩ := h
  have hd31 : c.day ≤ 31 := by
    have : daysIn (isLeapYear c.year) c.month ≤ 31 := by
      unfold daysIn; split
      · cases isLeapYear c.year <;> simp
      · split <;> simp
    omega
  simp only [dec2, List.cons_append, List.nil_append, generalizedOfBytes, ne_eq, not_true_eq_false, if_false]
  rw [decodeDecimal_dec2 _ (by omega), decodeDecimal_dec2 _ (by omega), decodeDecimal_dec2 _ (by omega),
    decodeDecimal_dec2 _ (by omega), decodeDecimal_dec2 _ (by omega), decodeDecimal_dec2 _ (by omega),
    decodeDecimal_dec2 _ (by omega)]
  simp only [Bind.bind, Except.bind]
  rw [show c.year / 100 * 100 + c.year % 100 = c.year from by omega]
  exact timeOfFields_cal c hv

theorem dec2_length (n : Nat) : (dec2 n).length = 2 := rfl

theorem run_time {c : Cal} {rest : List Nat} (h : c.Valid) : Run dTime (encTime c ++ rest) (fun y => y = c.dt) rest := by
  unfold dTime
  refine Run.bind run_peek (fun o ho => ?_)
  subst ho
  unfold encTime
  by_cases hy : c.year ≤ 2049
  · simp only [hy, if_true, encTlv, List.cons_append, List.head?_cons]
    refine Run.bind (Run.lift (a := TAG_UTC_TIME) (by simp [tagOfByte, TAG_UTC_TIME]) rfl) (fun t ht => ?_)
    subst ht
    simp only [if_true]
    unfold dUtcTime
    have hh := run_headerOf (tag := TAG_UTC_TIME) (v := dec2 (c.year % 100) ++ dec2 c.month ++ dec2 c.day ++ dec2 c.hour ++
      dec2 c.minute ++ dec2 c.second ++ [90]) (rest := rest) (by simp [tagOfByte, TAG_UTC_TIME])
    simp only [encTlv, List.cons_append] at hh
    refine Run.bind hh (fun n hn => ?_)
    subst hn
    rw [if_neg (by simp [dec2_length])]
    refine Run.bind (run_readInto (by simp [dec2_length])) (fun b hb => ?_)
    subst hb
    exact Run.lift (utcOfBytes_enc c h hy) rfl
  · simp only [hy, if_false, encTlv, List.cons_append, List.head?_cons]
    refine Run.bind (Run.lift (a := TAG_GENERALIZED_TIME) (by simp [tagOfByte, TAG_GENERALIZED_TIME]) rfl) (fun t ht => ?_)
    subst ht
    rw [if_neg (by decide), if_pos rfl]
    unfold dGeneralizedTime
    have hh := run_headerOf (tag := TAG_GENERALIZED_TIME) (v := dec2 (c.year / 100) ++ dec2 (c.year % 100) ++ dec2 c.month ++
      dec2 c.day ++ dec2 c.hour ++ dec2 c.minute ++ dec2 c.second ++ [90]) (rest := rest)
      (by simp [tagOfByte, TAG_GENERALIZED_TIME])
    simp only [encTlv, List.cons_append] at hh
    refine Run.bind hh (fun n hn => ?_)
    subst hn
    rw [if_neg (by simp [dec2_length])]
    refine Run.bind (run_readInto (by simp [dec2_length])) (fun b hb => ?_)
    subst hb
    exact Run.lift (generalizedOfBytes_enc c h) rfl

theorem run_validity {nb na : Cal} {rest : List Nat} (h1 : nb.Valid) (h2 : na.Valid) :
    Run dValidity (encTlv TAG_SEQUENCE (encTime nb ++ encTime na) ++ rest) (fun y => y = (nb.dt, na.dt)) rest := by
  unfold dValidity
  refine Run.bind (run_headerOf tagOfByte_seq) (fun n hn => ?_)
  subst hn
  refine run_nested rfl ?_
  refine Run.bind (run_time h1) (fun a ha => ?_)
  subst ha
  have := run_time (c := na) (rest := []) h2
  simp only [List.append_nil] at this
  refine Run.bind this (fun b hb => ?_)
  subst hb
  exact Run.pure rfl


/-! ## distinguished names -/

/-- an attribute the reader can walk over: a well-formed OID and a string tag of the `der` crate -/
def Attr.WF (a : Attr) : Prop := oidValid a.oid = true ∧ tagOfByte a.tag = .ok a.tag

/-- `MatterDnAttrs` of a list of attributes: the last vendor / product id wins, a Matter attribute that is not four
hexadecimal digits makes the name unreadable -/
def dnFold : List Attr → DnAttrs → Option DnAttrs
  | [], acc => some acc
  | a :: rest, acc =>
    match dnApply acc (a.oid, (a.tag, a.value)) with
    | .ok acc' => dnFold rest acc'
    | .error _ => none

theorem encTlv_ne_nil (tag : Nat) (v : List Nat) : encTlv tag v ≠ [] := by simp [encTlv]

theorem encTlv_isEmpty (tag : Nat) (v rest : List Nat) : (encTlv tag v ++ rest).isEmpty = false := by simp [encTlv]

theorem run_atv {a : Attr} {rest : List Nat} (h : a.WF) :
    Run dAtv (encTlv TAG_SEQUENCE (encOid a.oid ++ encTlv a.tag a.value) ++ rest) (fun y => y = (a.oid, (a.tag, a.value))) rest := by
  unfold dAtv
  refine Run.bind (run_headerOf tagOfByte_seq) (fun n hn => ?_)
  subst hn
  refine run_nested rfl ?_
  refine Run.bind (run_oid h.1) (fun oid ho => ?_)
  subst ho
  have := run_any (tag := a.tag) (v := a.value) (rest := []) h.2
  simp only [List.append_nil] at this
  refine Run.bind this (fun v hv => ?_)
  subst hv
  exact Run.pure rfl

/-- the inner loop on an RDN with one attribute -/
theorem run_atvLoop_one {a : Attr} {fuel : Nat} {acc acc' : DnAttrs} (h : a.WF)
    (hap : dnApply acc (a.oid, (a.tag, a.value)) = .ok acc') :
    Run (atvLoop (fuel + 2) acc) (encTlv TAG_SEQUENCE (encOid a.oid ++ encTlv a.tag a.value)) (fun y => y = acc') [] := by
  unfold atvLoop
  refine Run.bind run_finished (fun b hb => ?_)
  subst hb
  have hne : (encTlv TAG_SEQUENCE (encOid a.oid ++ encTlv a.tag a.value)).isEmpty = false := by simp [encTlv]
  simp only [hne, Bool.false_eq_true, if_false]
  have := run_atv (a := a) (rest := []) h
  simp only [List.append_nil] at this
  refine Run.bind this (fun atv hatv => ?_)
  subst hatv
  refine Run.bind (Run.lift hap rfl) (fun x hx => ?_)
  subst hx
  unfold atvLoop
  refine Run.bind run_finished (fun b hb => ?_)
  subst hb
  simp only [List.isEmpty_nil, if_true]
  exact Run.pure rfl

theorem encRdns_cons (a : Attr) (rest : List Attr) : encRdns (a :: rest) = encRdn a ++ encRdns rest := by
  simp [encRdns]

theorem run_rdnLoop {fuel : Nat} : ∀ (attrs : List Attr) (n : Nat) (acc res : DnAttrs), (∀ a ∈ attrs, a.WF) →
    dnFold attrs acc = some res → attrs.length < n →
    Run (rdnLoop (fuel + 2) n acc) (encRdns attrs) (fun y => y = res) []
  | [], n, acc, res, _, hf, hn => by
    cases n with
    | zero => omega
    | succ n =>
      unfold rdnLoop
      refine Run.bind run_finished (fun b hb => ?_)
      subst hb
      simp only [encRdns, List.map_nil, List.flatten_nil, List.isEmpty_nil, if_true]
      simp only [dnFold, Option.some.injEq] at hf
      exact Run.pure hf
  | a :: rest, n, acc, res, hwf, hf, hn => by
    cases n with
    | zero => omega
    | succ n =>
      rw [encRdns_cons]
      refine Run.of_len (fun hlen => ?_)
      unfold rdnLoop
      refine Run.bind run_finished (fun b hb => ?_)
      subst hb
      have hne : (encRdn a ++ encRdns rest).isEmpty = false := by simp [encRdn, encTlv]
      simp only [hne, Bool.false_eq_true, if_false]
      have hany := run_any (tag := TAG_SET) (v := encTlv TAG_SEQUENCE (encOid a.oid ++ encTlv a.tag a.value))
        (rest := encRdns rest) tagOfByte_set
      refine Run.bind (by unfold encRdn; exact hany) (fun x hx => ?_)
      subst hx
      simp only
      simp only [dnFold] at hf
      cases hap : dnApply acc (a.oid, (a.tag, a.value)) with
      | error e => simp [hap] at hf
      | ok acc' =>
        simp only [hap] at hf
        have hvlen : (encTlv TAG_SEQUENCE (encOid a.oid ++ encTlv a.tag a.value)).length ≤ MAX_LEN := by
          have h1 := encTlv_length_ge TAG_SET (encTlv TAG_SEQUENCE (encOid a.oid ++ encTlv a.tag a.value))
          simp only [encRdn, List.length_append] at hlen
          omega
        obtain ⟨x, hx, hrun⟩ := runNew_of_run (run_atvLoop_one (fuel := fuel) (hwf a (by simp)) hap) hvlen
        subst hx
        refine Run.bind (Run.lift hrun rfl) (fun y hy => ?_)
        subst hy
        exact run_rdnLoop rest n _ res (fun b hb => hwf b (by simp [hb])) hf (by simp only [List.length_cons] at hn; omega)

theorem run_name {attrs : List Attr} {fuel : Nat} {res : DnAttrs} {rest : List Nat} (hwf : ∀ a ∈ attrs, a.WF)
    (hf : dnFold attrs { vid := none, pid := none } = some res) (hn : attrs.length < fuel + 2) :
    Run (dName (fuel + 2)) (encName attrs ++ rest) (fun y => y = (encRdns attrs, res)) rest := by
  unfold dName encName
  refine Run.of_len (fun hlen => ?_)
  refine Run.bind (run_headerOf tagOfByte_seq) (fun n hnn => ?_)
  subst hnn
  refine Run.bind (run_slice rfl) (fun raw hraw => ?_)
  subst hraw
  have hrl : (encRdns attrs).length ≤ MAX_LEN := by
    have h1 := encTlv_length_ge TAG_SEQUENCE (encRdns attrs)
    simp only [List.length_append] at hlen
    omega
  obtain ⟨x, hx, hrun⟩ := runNew_of_run (run_rdnLoop (fuel := fuel) attrs (fuel + 2) _ res hwf hf hn) hrl
  subst hx
  refine Run.bind (Run.lift (x := dnParse (fuel + 2) (encRdns attrs)) hrun rfl) (fun y hy => ?_)
  subst hy
  exact Run.pure rfl


/-! ## SubjectPublicKeyInfo -/

theorem oidValid_consts : oidValid OID_EC_PUBLIC_KEY = true ∧ oidValid OID_PRIME256V1 = true ∧
    oidValid OID_ECDSA_WITH_SHA256 = true ∧ oidValid OID_BASIC_CONSTRAINTS = true ∧ oidValid OID_KEY_USAGE = true ∧
    oidValid OID_SUBJECT_KEY_ID = true ∧ oidValid OID_AUTHORITY_KEY_ID = true := by decide

theorem run_spki {pk rest : List Nat} (hl : pk.length = P256_PUBLIC_KEY_LEN) (hh : pk.head? = some 0x04) :
    Run dSpki (encSpki pk ++ rest)
      (fun y => y.1 = some (TAG_OID, OID_PRIME256V1) ∧ y.2.bytes = pk ∧ y.2.unused = 0) rest := by
  unfold dSpki encSpki
  refine Run.bind (run_headerOf tagOfByte_seq) (fun n hn => ?_)
  subst hn
  refine run_nested rfl ?_
  have halg := run_algId_param (c := OID_EC_PUBLIC_KEY) (v := OID_PRIME256V1) (tag := TAG_OID)
    (rest := encBitString 0 pk) oidValid_consts.1 tagOfByte_oid
  refine Run.bind (by unfold encOid; exact halg) (fun x hx => ?_)
  subst hx
  simp only [ne_eq, not_true_eq_false, if_false]
  rw [if_neg (by decide)]
  have hbs := run_bitString (unused := 0) (bytes := pk) (rest := []) (by omega) (fun h => absurd rfl h)
  simp only [List.append_nil] at hbs
  refine Run.bind hbs (fun key hkey => ?_)
  obtain ⟨hu, hb⟩ := hkey
  rw [if_neg (by simp [hu]), if_neg (by simp [hb, hl]), if_neg (by simp [hb, hh])]
  exact Run.pure ⟨rfl, hb, hu⟩


/-! ## extensions -/

/-- the parsed extension fields without the positions of the byte strings -/
structure ExtView where
  bc : Option (Bool × (Bool × Option Nat))
  ku : Option (Bool × Nat)
  skid : Option (Bool × List Nat)
  akid : Option (Bool × List Nat)
deriving DecidableEq

def ExtFields.view (f : ExtFields) : ExtView :=
  { bc := f.bc, ku := f.ku, skid := f.skid.map (fun x => (x.1, x.2.1)), akid := f.akid.map (fun x => (x.1, x.2.1)) }

/-- what one extension does to the parsed fields: the last occurrence of a known extension wins, others are ignored -/
def Ext.apply (v : ExtView) : Ext → ExtView
  | .basicConstraints critical ca pl => { v with bc := some (critical, (ca, pl)) }
  | .keyUsage critical unused bytes => { v with ku := some (critical, keyUsageBits { unused := unused, bytes := bytes, off := 0 }) }
  | .subjectKeyId critical k => { v with skid := some (critical, k) }
  | .authorityKeyId critical k => { v with akid := some (critical, k) }
  | .other _ _ => v

def Ext.WF : Ext → Prop
  | .basicConstraints _ _ pl => ∀ p, pl = some p → p < 256
  | .keyUsage _ unused bytes => unused ≤ 7 ∧ (unused ≠ 0 → bytes ≠ [])
  | .subjectKeyId _ _ => True
  | .authorityKeyId _ _ => True
  | .other oid _ => oidValid oid = true ∧ oid ≠ OID_BASIC_CONSTRAINTS ∧ oid ≠ OID_KEY_USAGE ∧
      oid ≠ OID_SUBJECT_KEY_ID ∧ oid ≠ OID_AUTHORITY_KEY_ID

theorem keyUsageBits_off (u : Nat) (b : List Nat) (o1 o2 : Nat) :
    keyUsageBits { unused := u, bytes := b, off := o1 } = keyUsageBits { unused := u, bytes := b, off := o2 } := rfl

/-- the head of an extension: identifier, criticality, value -/
theorem run_extHead {oid value : List Nat} {critical : Bool} (hoid : oidValid oid = true) :
    Run dExtHead (encOid oid ++ ((if critical then encBool true else []) ++ encOctets value))
      (fun y => y.1 = oid ∧ y.2.1 = critical ∧ y.2.2.1 = value) [] := by
  unfold dExtHead
  refine Run.bind (run_oid hoid) (fun o ho => ?_)
  subst ho
  refine Run.bind run_finished (fun fin hfin => ?_)
  subst hfin
  have hne : ((if critical then encBool true else []) ++ encOctets value).isEmpty = false := by
    cases critical <;> simp [encBool, encOctets, encTlv]
  simp only [hne, Bool.false_eq_true, if_false]
  cases critical with
  | true =>
    simp only [if_true]
    refine Run.bind (Q := fun b => b = true) (l1 := encBool true ++ encOctets value) ?_ (fun b hb => ?_)
    · refine Run.bind run_peek (fun o ho => ?_)
      subst ho
      simp only [encBool, encTlv, List.cons_append, List.head?_cons]
      refine Run.bind (Run.lift (a := TAG_BOOLEAN) (by simp [tagOfByte, TAG_BOOLEAN]) rfl) (fun t ht => ?_)
      subst ht
      exact Run.pure (by simp)
    · subst hb
      simp only [if_true]
      refine Run.bind run_bool (fun c hc => ?_)
      subst hc
      have := run_octets (v := value) (rest := [])
      simp only [List.append_nil] at this
      refine Run.bind this (fun v hv => ?_)
      exact Run.pure ⟨rfl, rfl, hv⟩
  | false =>
    simp only [Bool.false_eq_true, if_false, List.nil_append]
    refine Run.bind (Q := fun b => b = false) (l1 := encOctets value) ?_ (fun b hb => ?_)
    · refine Run.bind run_peek (fun o ho => ?_)
      subst ho
      simp only [encOctets, encTlv, List.cons_append, List.head?_cons]
      refine Run.bind (Run.lift (a := TAG_OCTET_STRING) (by simp [tagOfByte, TAG_OCTET_STRING]) rfl) (fun t ht => ?_)
      subst ht
      exact Run.pure (by simp [TAG_OCTET_STRING, TAG_BOOLEAN])
    · subst hb
      simp only [Bool.false_eq_true, if_false]
      refine Run.bind (Run.pure (Q := fun c => c = false) rfl) (fun c hc => ?_)
      subst hc
      have := run_octets (v := value) (rest := [])
      simp only [List.append_nil] at this
      refine Run.bind this (fun v hv => ?_)
      exact Run.pure ⟨rfl, rfl, hv⟩

theorem run_basicConstraints {ca : Bool} {pl : Option Nat} (hpl : ∀ p, pl = some p → p < 256) :
    Run dBasicConstraints (encBasicConstraints ca pl) (fun y => y = (ca, pl)) [] := by
  unfold dBasicConstraints encBasicConstraints
  refine Run.of_append_nil ?_
  refine Run.bind (run_headerOf tagOfByte_seq) (fun n hn => ?_)
  subst hn
  refine run_nested rfl ?_
  have hint : ∀ p, (encU8 p).head? = some TAG_INTEGER := by
    intro p; unfold encU8; split <;> simp [encTlv]
  have hpl_run : Run (dOpt TAG_INTEGER dU8) (encPathLen pl) (fun o => o = pl) [] := by
    cases pl with
    | none => exact run_opt_none (Or.inl rfl)
    | some p =>
      have := run_u8 (v := p) (rest := []) (hpl p rfl)
      simp only [List.append_nil] at this
      refine (run_opt_some (hint p) tagOfByte_int this).weaken (fun o ho => ?_)
      obtain ⟨a, rfl, rfl⟩ := ho
      rfl
  cases ca with
  | true =>
    simp only [if_true]
    refine Run.bind (run_opt_some (b := TAG_BOOLEAN) (by simp [encBool, encTlv]) (by simp [tagOfByte, TAG_BOOLEAN]) run_bool)
      (fun o ho => ?_)
    obtain ⟨a, rfl, rfl⟩ := ho
    refine Run.bind hpl_run (fun o ho => ?_)
    subst ho
    exact Run.pure rfl
  | false =>
    simp only [Bool.false_eq_true, if_false, List.nil_append]
    refine Run.bind (Q := fun o => o = none) (l1 := encPathLen pl) ?_ (fun o ho => ?_)
    · cases pl with
      | none => exact run_opt_none (Or.inl rfl)
      | some p =>
        exact run_opt_none (Or.inr ⟨TAG_INTEGER, TAG_INTEGER, hint p, tagOfByte_int, by decide⟩)
    · subst ho
      refine Run.bind hpl_run (fun o ho => ?_)
      subst ho
      exact Run.pure rfl

theorem run_akid {k : List Nat} {fuel : Nat} :
    Run (dAkid (fuel + 1)) (encTlv TAG_SEQUENCE (encTlv 0x80 k)) (fun y => y.1 = k) [] := by
  unfold dAkid
  refine Run.of_append_nil ?_
  refine Run.bind (run_headerOf tagOfByte_seq) (fun n hn => ?_)
  subst hn
  refine run_nested rfl ?_
  have hi := run_ctxImplicitOctets (t := 0x80) (v := k) (rest := []) tagOfByte_80 (by decide)
  simp only [List.append_nil] at hi
  have hc := run_ctxWith_hit (n := 0) (fuel := fuel) (t := 0x80) (l := encTlv 0x80 k) (by simp [encTlv]) tagOfByte_80
    (by decide) (by decide) hi
  refine Run.bind hc (fun o ho => ?_)
  obtain ⟨a, rfl, ha⟩ := ho
  exact Run.pure ha

def Ext.oid : Ext → List Nat
  | .basicConstraints .. => OID_BASIC_CONSTRAINTS
  | .keyUsage .. => OID_KEY_USAGE
  | .subjectKeyId .. => OID_SUBJECT_KEY_ID
  | .authorityKeyId .. => OID_AUTHORITY_KEY_ID
  | .other oid _ => oid

def Ext.critical : Ext → Bool
  | .basicConstraints c _ _ => c
  | .keyUsage c _ _ => c
  | .subjectKeyId c _ => c
  | .authorityKeyId c _ => c
  | .other _ _ => false

/-- the octets inside `extnValue` -/
def Ext.value : Ext → List Nat
  | .basicConstraints _ ca pl => encBasicConstraints ca pl
  | .keyUsage _ unused bytes => encBitString unused bytes
  | .subjectKeyId _ k => encOctets k
  | .authorityKeyId _ k => encTlv TAG_SEQUENCE (encTlv 0x80 k)
  | .other _ value => value

theorem encExt_eq (e : Ext) : encExt e = encExtension e.oid e.critical e.value := by cases e <;> rfl

theorem Ext.oid_valid {e : Ext} (h : e.WF) : oidValid e.oid = true := by
  cases e with
  | other oid v => exact h.1
  | basicConstraints => exact oidValid_consts.2.2.2.1
  | keyUsage => exact oidValid_consts.2.2.2.2.1
  | subjectKeyId => exact oidValid_consts.2.2.2.2.2.1
  | authorityKeyId => exact oidValid_consts.2.2.2.2.2.2

theorem extApply_enc {fuel : Nat} {acc : ExtFields} {e : Ext} {base : Nat} (hwf : e.WF) (hlen : e.value.length ≤ MAX_LEN) :
    ∃ acc', extApply (fuel + 1) acc e.oid e.critical e.value base = .ok acc' ∧ acc'.view = Ext.apply acc.view e := by
  cases e with
  | basicConstraints c ca pl =>
    obtain ⟨x, hx, hrun⟩ := fromDer_of_run (run_basicConstraints (ca := ca) (pl := pl) hwf) hlen
    subst hx
    refine ⟨{ acc with bc := some (c, (ca, pl)) }, ?_, rfl⟩
    unfold extApply
    simp only [Ext.oid, Ext.value, Ext.critical, if_true, hrun]
  | keyUsage c unused bytes =>
    have hr := Run.of_append_nil (l := encBitString unused bytes) (run_bitString (rest := []) hwf.1 hwf.2)
    obtain ⟨x, hx, hrun⟩ := fromDer_of_run hr hlen
    refine ⟨{ acc with ku := some (c, keyUsageBits x) }, ?_, ?_⟩
    · unfold extApply
      have hd : OID_KEY_USAGE ≠ OID_BASIC_CONSTRAINTS ∧ OID_SUBJECT_KEY_ID ≠ OID_BASIC_CONSTRAINTS ∧
          OID_SUBJECT_KEY_ID ≠ OID_KEY_USAGE ∧ OID_AUTHORITY_KEY_ID ≠ OID_BASIC_CONSTRAINTS ∧
          OID_AUTHORITY_KEY_ID ≠ OID_KEY_USAGE ∧ OID_AUTHORITY_KEY_ID ≠ OID_SUBJECT_KEY_ID := by decide
      simp only [Ext.oid, Ext.value, Ext.critical, hd.1, hd.2.1, hd.2.2.1, hd.2.2.2.1, hd.2.2.2.2.1, hd.2.2.2.2.2, if_false, if_true, hrun]
    · obtain ⟨u, b, o⟩ := x
      simp only at hx
      obtain ⟨rfl, rfl⟩ := hx
      rfl
  | subjectKeyId c k =>
    have hr := Run.of_append_nil (l := encOctets k) (run_octets (v := k) (rest := []))
    obtain ⟨x, hx, hrun⟩ := fromDer_of_run hr hlen
    refine ⟨{ acc with skid := some (c, (x.1, base + x.2)) }, ?_, ?_⟩
    · unfold extApply
      have hd : OID_KEY_USAGE ≠ OID_BASIC_CONSTRAINTS ∧ OID_SUBJECT_KEY_ID ≠ OID_BASIC_CONSTRAINTS ∧
          OID_SUBJECT_KEY_ID ≠ OID_KEY_USAGE ∧ OID_AUTHORITY_KEY_ID ≠ OID_BASIC_CONSTRAINTS ∧
          OID_AUTHORITY_KEY_ID ≠ OID_KEY_USAGE ∧ OID_AUTHORITY_KEY_ID ≠ OID_SUBJECT_KEY_ID := by decide
      simp only [Ext.oid, Ext.value, Ext.critical, hd.1, hd.2.1, hd.2.2.1, hd.2.2.2.1, hd.2.2.2.2.1, hd.2.2.2.2.2, if_false, if_true, hrun]
    · obtain ⟨kk, o⟩ := x
      simp only at hx
      subst hx
      rfl
  | authorityKeyId c k =>
    obtain ⟨x, hx, hrun⟩ := fromDer_of_run (run_akid (k := k) (fuel := fuel)) hlen
    refine ⟨{ acc with akid := some (c, (x.1, base + x.2)) }, ?_, ?_⟩
    · unfold extApply
      have hd : OID_KEY_USAGE ≠ OID_BASIC_CONSTRAINTS ∧ OID_SUBJECT_KEY_ID ≠ OID_BASIC_CONSTRAINTS ∧
          OID_SUBJECT_KEY_ID ≠ OID_KEY_USAGE ∧ OID_AUTHORITY_KEY_ID ≠ OID_BASIC_CONSTRAINTS ∧
          OID_AUTHORITY_KEY_ID ≠ OID_KEY_USAGE ∧ OID_AUTHORITY_KEY_ID ≠ OID_SUBJECT_KEY_ID := by decide
      simp only [Ext.oid, Ext.value, Ext.critical, hd.1, hd.2.1, hd.2.2.1, hd.2.2.2.1, hd.2.2.2.2.1, hd.2.2.2.2.2, if_false, if_true, hrun]
    · obtain ⟨kk, o⟩ := x
      simp only at hx
      subst hx
      rfl
  | other oid v =>
    obtain ⟨_, h1, h2, h3, h4⟩ := hwf
    refine ⟨acc, ?_, rfl⟩
    unfold extApply
    simp [Ext.oid, Ext.critical, h1, h2, h3, h4]

theorem encExts_cons (e : Ext) (rest : List Ext) : encExts (e :: rest) = encExt e ++ encExts rest := by
  simp [encExts]

theorem run_extLoop {fuel : Nat} : ∀ (l : List Ext) (n : Nat) (acc : ExtFields), (∀ e ∈ l, e.WF) → l.length < n →
    Run (extLoop (fuel + 1) n acc) (encExts l) (fun f => f.view = l.foldl Ext.apply acc.view) []
  | [], n, acc, _, hn => by
    cases n with
    | zero => omega
    | succ n =>
      unfold extLoop
      refine Run.bind run_finished (fun b hb => ?_)
      subst hb
      simp only [encExts, List.map_nil, List.flatten_nil, List.isEmpty_nil, if_true]
      exact Run.pure rfl
  | e :: rest, n, acc, hwf, hn => by
    cases n with
    | zero => omega
    | succ n =>
      rw [encExts_cons, encExt_eq]
      refine Run.of_len (fun hlen => ?_)
      unfold extLoop
      refine Run.bind run_finished (fun b hb => ?_)
      subst hb
      have hne : (encExtension e.oid e.critical e.value ++ encExts rest).isEmpty = false := by
        simp [encExtension, encTlv]
      simp only [hne, Bool.false_eq_true, if_false]
      unfold encExtension
      refine Run.bind (run_anyAt tagOfByte_seq) (fun x hx => ?_)
      obtain ⟨tag, ev, eoff⟩ := x
      simp only at hx
      obtain ⟨_, hev⟩ := hx
      subst hev
      simp only
      have hwe := hwf e (by simp)
      have hevlen : (encOid e.oid ++ (if e.critical = true then encBool true else []) ++ encOctets e.value).length ≤ MAX_LEN := by
        have h1 := encTlv_length_ge TAG_SEQUENCE (encOid e.oid ++ (if e.critical = true then encBool true else []) ++ encOctets e.value)
        simp only [encExtension, List.length_append] at hlen h1 ⊢
        omega
      have hvlen : e.value.length ≤ MAX_LEN := by
        have h1 := encTlv_length_ge TAG_OCTET_STRING e.value
        simp only [List.length_append, encOctets] at hevlen
        omega
      have hhead := run_extHead (oid := e.oid) (value := e.value) (critical := e.critical) (Ext.oid_valid hwe)
      rw [← List.append_assoc] at hhead
      obtain ⟨y, hy, hrun⟩ := runNew_of_run hhead hevlen
      obtain ⟨oid, critical, value, voff⟩ := y
      simp only at hy
      obtain ⟨rfl, rfl, rfl⟩ := hy
      refine Run.bind (Run.lift hrun rfl) (fun z hz => ?_)
      subst hz
      simp only
      obtain ⟨acc', hacc', hview⟩ := extApply_enc (fuel := fuel) (acc := acc) (e := e) (base := eoff + voff) hwe hvlen
      refine Run.bind (Run.lift hacc' rfl) (fun z hz => ?_)
      subst hz
      have := run_extLoop (fuel := fuel) rest n acc' (fun e' he' => hwf e' (by simp [he'])) (by simp only [List.length_cons] at hn; omega)
      refine this.weaken (fun f hf => ?_)
      rw [hf, hview]
      rfl


/-! ## TBSCertificate, Certificate, `X509Cert::new` -/

/-- the requirement checks on the position-free view -/
def extCheckV (k : CertKind) (v : ExtView) : Option (List Nat × Option (List Nat)) :=
  match v.bc, v.ku, v.skid with
  | some (bcCrit, (ca, pl)), some (kuCrit, bits), some (_, skid) =>
    if (k == .paa || v.akid.isSome) && extReqOk k bcCrit ca pl kuCrit bits then some (skid, v.akid.map (·.2)) else none
  | _, _, _ => none

theorem extCheck_view {k : CertKind} {f : ExtFields} {s : List Nat} {a : Option (List Nat)}
    (h : extCheckV k f.view = some (s, a)) : ∃ e, extCheck k f = .ok e ∧ e.skid.1 = s ∧ e.akid.map (·.1) = a := by
  obtain ⟨bc, ku, skid, akid⟩ := f
  unfold extCheckV at h
  unfold extCheck
  simp only [ExtFields.view] at h ⊢
  cases bc with
  | none => simp at h
  | some bcv =>
    obtain ⟨bcCrit, ca, pl⟩ := bcv
    cases ku with
    | none => simp at h
    | some kuv =>
      obtain ⟨kuCrit, bits⟩ := kuv
      cases skid with
      | none => simp at h
      | some sk =>
        obtain ⟨sc, skb, sko⟩ := sk
        simp only [Option.map_some, Option.isSome_map] at h ⊢
        split at h
        · rename_i hc
          simp only [Option.some.injEq, Prod.mk.injEq] at h
          obtain ⟨rfl, rfl⟩ := h
          rw [if_pos hc]
          refine ⟨_, rfl, rfl, ?_⟩
          cases akid with
          | none => rfl
          | some x => rfl
        · simp at h

/-- what the accessors of a parsed certificate return, without the positions of the slices -/
structure CertView where
  skid : List Nat
  akid : Option (List Nat)
  pk : List Nat
  vid : Option Nat
  pid : Option Nat
  notBefore : DateTime
  notAfter : DateTime
deriving DecidableEq

def Cert.view (c : Cert) : CertView :=
  { skid := c.skid.1, akid := c.akid.map (·.1), pk := c.pk.1, vid := c.vid, pid := c.pid,
    notBefore := c.notBefore, notAfter := c.notAfter }

def CertSpec.extView (c : CertSpec) : ExtView :=
  c.exts.foldl Ext.apply { bc := none, ku := none, skid := none, akid := none }

/-- the encoder's inputs are well-formed: readable attributes, calendar dates, an uncompressed P-256 point, extension
values the reader can walk -/
structure CertSpec.WF (c : CertSpec) : Prop where
  issuer : ∀ a ∈ c.issuer, a.WF
  subject : ∀ a ∈ c.subject, a.WF
  nb : c.notBefore.Valid
  na : c.notAfter.Valid
  pkLen : c.pk.length = P256_PUBLIC_KEY_LEN
  pkHead : c.pk.head? = some 0x04
  exts : ∀ e ∈ c.exts, e.WF

theorem run_extensions {k : CertKind} {fuel : Nat} {l : List Ext} {s : List Nat} {a : Option (List Nat)}
    (hwf : ∀ e ∈ l, e.WF) (hn : l.length < fuel + 1)
    (hc : extCheckV k (l.foldl Ext.apply { bc := none, ku := none, skid := none, akid := none }) = some (s, a)) :
    Run (dExtensions k (fuel + 1)) (encTlv TAG_SEQUENCE (encExts l))
      (fun e => e.skid.1 = s ∧ e.akid.map (·.1) = a) [] := by
  unfold dExtensions
  refine Run.of_append_nil ?_
  refine Run.bind (run_headerOf tagOfByte_seq) (fun n hnn => ?_)
  subst hnn
  refine run_nested rfl ?_
  refine Run.bind (run_extLoop (fuel := fuel) l (fuel + 1) ExtFields.empty hwf hn) (fun f hf => ?_)
  have hv : f.view = l.foldl Ext.apply { bc := none, ku := none, skid := none, akid := none } := hf
  rw [← hv] at hc
  obtain ⟨e, he, h1, h2⟩ := extCheck_view hc
  exact Run.lift he ⟨h1, h2⟩

theorem tagOfByte_a3 : tagOfByte 0xA3 = .ok 0xA3 := by simp [tagOfByte]

theorem run_tbs {k : CertKind} {fuel : Nat} {c : CertSpec} {rest : List Nat} {idn sdn : DnAttrs} {s : List Nat}
    {a : Option (List Nat)} (hwf : c.WF)
    (hi : dnFold c.issuer { vid := none, pid := none } = some idn)
    (hs : dnFold c.subject { vid := none, pid := none } = some sdn)
    (hext : extCheckV k c.extView = some (s, a))
    (hval : validateIssuerSubject k idn sdn (encRdns c.issuer) (encRdns c.subject) = .ok ())
    (hfi : c.issuer.length < fuel + 2) (hfs : c.subject.length < fuel + 2) (hfe : c.exts.length < fuel + 2) :
    Run (dTbs k (fuel + 2)) (encTbs c ++ rest)
      (fun cert => cert.view = { skid := s, akid := a, pk := c.pk, vid := sdn.vid, pid := sdn.pid,
                                 notBefore := c.notBefore.dt, notAfter := c.notAfter.dt }) rest := by
  unfold dTbs encTbs
  refine Run.bind (run_headerOf tagOfByte_seq) (fun n hn => ?_)
  subst hn
  refine run_nested rfl ?_
  simp only [List.append_assoc]
  -- version
  have hver : Run (ctxExplicit dUintRef) (encTlv 0xA0 (encTlv TAG_INTEGER [2]) ++ (encTlv TAG_INTEGER c.serial ++
      (encAlgId OID_ECDSA_WITH_SHA256 ++ (encName c.issuer ++ (encTlv TAG_SEQUENCE (encTime c.notBefore ++ encTime c.notAfter) ++
      (encName c.subject ++ (encSpki c.pk ++ encTlv 0xA3 (encTlv TAG_SEQUENCE (encExts c.exts)))))))))
      (fun y => y = [2]) _ :=
    run_ctxExplicit tagOfByte_a0 (by decide) (by decide) (Run.of_append_nil (run_uintRef_small (by omega)))
  refine Run.bind (run_ctxWith_hit (t := 0xA0) (by simp [encTlv]) tagOfByte_a0 (by decide) (by decide) hver) (fun o ho => ?_)
  obtain ⟨ver, rfl, rfl⟩ := ho
  simp only [ne_eq, not_true_eq_false, if_false]
  refine Run.bind (run_any tagOfByte_int) (fun serial _ => ?_)
  refine Run.bind (run_algId oidValid_consts.2.2.1) (fun x hx => ?_)
  subst hx
  simp only [ne_eq, not_true_eq_false, if_false]
  refine Run.bind (run_name hwf.issuer hi hfi) (fun x hx => ?_)
  subst hx
  simp only
  refine Run.bind (run_validity hwf.nb hwf.na) (fun x hx => ?_)
  subst hx
  simp only
  refine Run.bind (run_name hwf.subject hs hfs) (fun x hx => ?_)
  subst hx
  simp only
  refine Run.bind (run_spki hwf.pkLen hwf.pkHead) (fun x hx => ?_)
  obtain ⟨params, key⟩ := x
  simp only at hx
  obtain ⟨hp, hkb, hku⟩ := hx
  subst hp
  simp only [hkb, hwf.pkLen, ne_eq, not_true_eq_false, if_false]
  have hoid : oidOfAny (TAG_OID, OID_PRIME256V1) = .ok OID_PRIME256V1 := by
    simp [oidOfAny, oidValid_consts.2.1]
  simp only [hoid, ne_eq, not_true_eq_false, if_false]
  -- extensions
  have hexts : Run (ctxExplicit (dExtensions k (fuel + 2))) (encTlv 0xA3 (encTlv TAG_SEQUENCE (encExts c.exts)))
      (fun e => e.skid.1 = s ∧ e.akid.map (·.1) = a) [] :=
    Run.of_append_nil (run_ctxExplicit tagOfByte_a3 (by decide) (by decide)
      (run_extensions (fuel := fuel + 1) hwf.exts hfe hext))
  refine Run.bind (run_ctxWith_hit (t := 0xA3) (by simp [encTlv]) tagOfByte_a3 (by decide) (by decide) hexts) (fun o ho => ?_)
  obtain ⟨exts, rfl, he1, he2⟩ := ho
  simp only
  refine Run.bind (Run.lift hval rfl) (fun _ _ => ?_)
  refine Run.pure ?_
  simp only [Cert.view, he1, he2, hkb]

theorem run_certificate {k : CertKind} {fuel : Nat} {c : CertSpec} {idn sdn : DnAttrs} {s : List Nat}
    {a : Option (List Nat)} (hwf : c.WF)
    (hi : dnFold c.issuer { vid := none, pid := none } = some idn)
    (hs : dnFold c.subject { vid := none, pid := none } = some sdn)
    (hext : extCheckV k c.extView = some (s, a))
    (hval : validateIssuerSubject k idn sdn (encRdns c.issuer) (encRdns c.subject) = .ok ())
    (hfi : c.issuer.length < fuel + 2) (hfs : c.subject.length < fuel + 2) (hfe : c.exts.length < fuel + 2) :
    Run (dCertificate k (fuel + 2)) (encCert c)
      (fun cert => cert.view = { skid := s, akid := a, pk := c.pk, vid := sdn.vid, pid := sdn.pid,
                                 notBefore := c.notBefore.dt, notAfter := c.notAfter.dt }) [] := by
  unfold dCertificate encCert
  refine Run.of_append_nil ?_
  refine Run.bind (run_headerOf tagOfByte_seq) (fun n hn => ?_)
  subst hn
  refine run_nested rfl ?_
  simp only [List.append_assoc]
  refine Run.bind (run_tbs hwf hi hs hext hval hfi hfs hfe) (fun tbs htbs => ?_)
  refine Run.bind (run_algId oidValid_consts.2.2.1) (fun _ _ => ?_)
  have hsig := run_bitString (unused := 0) (bytes := c.signature) (rest := []) (by omega) (fun h => absurd rfl h)
  simp only [List.append_nil] at hsig
  refine Run.bind hsig (fun _ _ => ?_)
  exact Run.pure htbs

theorem encRdns_length_ge : ∀ attrs : List Attr, attrs.length ≤ (encRdns attrs).length
  | [] => Nat.zero_le _
  | a :: rest => by
    rw [encRdns_cons]
    have := encRdns_length_ge rest
    simp only [List.length_cons, List.length_append, encRdn, encTlv]
    omega

theorem encExts_length_ge : ∀ l : List Ext, l.length ≤ (encExts l).length
  | [] => Nat.zero_le _
  | e :: rest => by
    rw [encExts_cons, encExt_eq]
    have := encExts_length_ge rest
    simp only [List.length_cons, List.length_append, encExtension, encTlv]
    omega

theorem encCert_sizes (c : CertSpec) :
    c.issuer.length < (encCert c).length ∧ c.subject.length < (encCert c).length ∧ c.exts.length < (encCert c).length := by
  have h1 := encRdns_length_ge c.issuer
  have h2 := encRdns_length_ge c.subject
  have h3 := encExts_length_ge c.exts
  simp only [encCert, encTbs, encName, List.length_append, encTlv_length]
  omega

/-- **X.509 round trip**: `X509Cert::new` of the certificate the model encoder writes for well-formed fields that
satisfy the profile of the certificate type returns — through its accessors — the subject key identifier, the
authority key identifier (when present), the public key, the Matter vendor / product id of the subject and the
validity instants that were written. Extensions may come in any order, unknown non-critical ones are skipped, the last
occurrence of a known extension or of a Matter attribute counts. -/
theorem x509New_encCert (k : CertKind) (c : CertSpec) (idn sdn : DnAttrs) (s : List Nat) (a : Option (List Nat))
    (hwf : c.WF)
    (hi : dnFold c.issuer { vid := none, pid := none } = some idn)
    (hs : dnFold c.subject { vid := none, pid := none } = some sdn)
    (hext : extCheckV k c.extView = some (s, a))
    (hval : validateIssuerSubject k idn sdn (encRdns c.issuer) (encRdns c.subject) = .ok ())
    (hlen : (encCert c).length ≤ MAX_LEN) :
    ∃ cert, x509New k (encCert c) = .ok cert ∧
      cert.view = { skid := s, akid := a, pk := c.pk, vid := sdn.vid, pid := sdn.pid,
                    notBefore := c.notBefore.dt, notAfter := c.notAfter.dt } := by
  obtain ⟨z1, z2, z3⟩ := encCert_sizes c
  have hpos : 1 ≤ (encCert c).length := by omega
  have hfuel : (encCert c).length + 1 = ((encCert c).length - 1) + 2 := by omega
  have hrun := run_certificate (k := k) (fuel := (encCert c).length - 1) hwf hi hs hext hval (by omega) (by omega) (by omega)
  obtain ⟨cert, hv, hder⟩ := fromDer_of_run hrun hlen
  refine ⟨cert, ?_, hv⟩
  unfold x509New
  rw [hfuel, hder]
  rfl


/-! ## CSR -/

theorem run_csrInfo {fuel : Nat} {subject pk attrs rest : List Nat} (hl : pk.length = P256_PUBLIC_KEY_LEN)
    (hh : pk.head? = some 0x04) :
    Run (dCsrInfo (fuel + 1)) (encCsrInfo subject pk attrs ++ rest) (fun key => key.bytes = pk ∧ key.unused = 0) rest := by
  unfold dCsrInfo encCsrInfo
  refine Run.bind (run_headerOf tagOfByte_seq) (fun n hn => ?_)
  subst hn
  refine run_nested rfl ?_
  simp only [List.append_assoc]
  refine Run.bind (run_uintRef_small (by omega)) (fun _ _ => ?_)
  refine Run.bind (run_any tagOfByte_seq) (fun _ _ => ?_)
  refine Run.bind (run_spki hl hh) (fun x hx => ?_)
  obtain ⟨params, key⟩ := x
  simp only at hx
  have hattr := run_ctxImplicitAny (t := 0xA0) (v := attrs) (rest := []) tagOfByte_a0
  simp only [List.append_nil] at hattr
  refine Run.bind (run_ctxWith_hit (t := 0xA0) (by simp [encTlv]) tagOfByte_a0 (by decide) (by decide) hattr) (fun o ho => ?_)
  obtain ⟨a, rfl, _⟩ := ho
  exact Run.pure ⟨hx.2.1, hx.2.2⟩

theorem run_csr {fuel : Nat} {subject pk attrs r s : List Nat} (hl : pk.length = P256_PUBLIC_KEY_LEN)
    (hh : pk.head? = some 0x04) :
    Run (dCsr (fuel + 1)) (encCsr subject pk attrs r s)
      (fun x => x.1.bytes = pk ∧ x.2.bytes = encSig r s) [] := by
  unfold dCsr encCsr
  refine Run.of_append_nil ?_
  refine Run.bind (run_headerOf tagOfByte_seq) (fun n hn => ?_)
  subst hn
  refine run_nested rfl ?_
  simp only [List.append_assoc]
  refine Run.bind (run_csrInfo hl hh) (fun key hkey => ?_)
  refine Run.bind (run_algId oidValid_consts.2.2.1) (fun x hx => ?_)
  subst hx
  simp only [ne_eq, not_true_eq_false, if_false]
  have hsig := run_bitString (unused := 0) (bytes := encSig r s) (rest := []) (by omega) (fun h => absurd rfl h)
  simp only [List.append_nil] at hsig
  refine Run.bind hsig (fun sig hsig => ?_)
  exact Run.pure ⟨hkey.1, hsig.2⟩

theorem dPosition_run (r : Rdr) : dPosition r = .ok (r.position, r) := rfl

/-- the second pass of `CsrRef::new` on the encoder's output: the signed range is the `certificationRequestInfo` element -/
theorem csrInfoRange_enc {fuel : Nat} {subject pk attrs r s : List Nat} (hl : pk.length = P256_PUBLIC_KEY_LEN)
    (hh : pk.head? = some 0x04) (hlen : (encCsr subject pk attrs r s).length ≤ MAX_LEN) :
    ∃ start stop, runNew (encCsr subject pk attrs r s) (dCsrInfoRange (fuel + 1)) = .ok (start, stop) ∧
      start ≤ stop ∧ stop ≤ (encCsr subject pk attrs r s).length ∧
      ((encCsr subject pk attrs r s).drop start).take (stop - start) = encCsrInfo subject pk attrs := by
  -- the pieces of the encoding
  let info := encCsrInfo subject pk attrs
  let tail := encAlgId OID_ECDSA_WITH_SHA256 ++ encBitString 0 (encSig r s)
  let hdr := TAG_SEQUENCE :: encLen (info ++ tail).length
  have hder : encCsr subject pk attrs r s = hdr ++ (info ++ tail) := by
    simp [encCsr, encTlv, hdr, info, tail, List.append_assoc]
  have hx0 : NextX (.slice (encCsr subject pk attrs r s) 0) (encTlv TAG_SEQUENCE (info ++ tail) ++ []) := by
    have := NextX.ofSlice hlen
    simpa [encCsr, info, tail, List.append_assoc] using this
  -- header
  obtain ⟨x, pre1, hq1, hl1, hrun1⟩ := run_header (tag := TAG_SEQUENCE) (v := info ++ tail) (rest := []) tagOfByte_seq _ hx0
  subst hq1
  have hpre1 : pre1 = hdr := by
    have : encTlv TAG_SEQUENCE (info ++ tail) ++ [] = hdr ++ (info ++ tail ++ []) := by simp [encTlv, hdr]
    rw [this] at hl1
    exact (List.append_cancel_right hl1).symm
  subst hpre1
  have hx1 : NextX ((Rdr.slice (encCsr subject pk attrs r s) 0).adv hdr.length) (info ++ tail ++ []) := by
    have : encTlv TAG_SEQUENCE (info ++ tail) ++ [] = hdr ++ (info ++ tail ++ []) := by simp [encTlv, hdr]
    rw [this] at hx0
    exact hx0.adv
  -- certificationRequestInfo
  have hx1' : NextX ((Rdr.slice (encCsr subject pk attrs r s) 0).adv hdr.length) (info ++ tail) := by simpa using hx1
  obtain ⟨key, pre2, _, hl2, hrun2⟩ := run_csrInfo (fuel := fuel) (subject := subject) (attrs := attrs) (rest := tail) hl hh _ hx1'
  have hpre2 : pre2 = info := (List.append_cancel_right hl2).symm
  subst hpre2
  refine ⟨hdr.length, hdr.length + info.length, ?_, by omega, ?_, ?_⟩
  · unfold runNew Rdr.new
    rw [lenNew_of_le hlen]
    simp only [Bind.bind, Except.bind, Pure.pure, Except.pure]
    unfold dCsrInfoRange
    simp only [Dec.bind_run, hrun1, dPosition_run, hrun2, Dec.pure_run]
    simp only [Rdr.adv, Rdr.position, Nat.zero_add]
  · rw [hder]; simp only [List.length_append]; omega
  · rw [hder]
    simp [List.drop_append, List.take_append]
    rfl

/-- **CSR round trip**: `CsrRef::new` of the PKCS#10 request built from a subject, an uncompressed P-256 key, an
attribute set and a signature `(r, s)` hands out the key, the `certificationRequestInfo` element as the signed range and
the raw signature `r ‖ s`; whether the signature verifies is decided by the (symbolic) crypto backend on exactly these. -/
theorem csrNew_encCsr {subject pk attrs r s : List Nat} (hl : pk.length = P256_PUBLIC_KEY_LEN) (hh : pk.head? = some 0x04)
    (hr : Canon 32 r) (hs : Canon 32 s) (hlen : (encCsr subject pk attrs r s).length ≤ MAX_LEN) :
    ∃ c, csrNew (encCsr subject pk attrs r s) = .ok c ∧ c.pk.1 = pk ∧
      ((encCsr subject pk attrs r s).drop c.tbsStart).take (c.tbsEnd - c.tbsStart) = encCsrInfo subject pk attrs ∧
      c.sig = .ok (padLeft 32 r ++ padLeft 32 s) := by
  have hpos : 1 ≤ (encCsr subject pk attrs r s).length := by simp [encCsr, encTlv]
  have hfuel : (encCsr subject pk attrs r s).length + 1 = ((encCsr subject pk attrs r s).length - 1 + 1) + 1 := by omega
  obtain ⟨x, hx, hder⟩ := fromDer_of_run (run_csr (fuel := (encCsr subject pk attrs r s).length - 1 + 1)
    (subject := subject) (attrs := attrs) (r := r) (s := s) hl hh) hlen
  obtain ⟨key, sig⟩ := x
  simp only at hx
  obtain ⟨start, stop, hrange, h1, h2, h3⟩ := csrInfoRange_enc (fuel := (encCsr subject pk attrs r s).length - 1 + 1)
    (subject := subject) (attrs := attrs) (r := r) (s := s) hl hh hlen
  refine ⟨{ pk := (key.bytes, key.off), tbsStart := start, tbsEnd := stop, sig := ecdsaDerToRaw sig.bytes }, ?_, hx.1, h3, ?_⟩
  · unfold csrNew
    rw [hfuel, hder, hrange]
    simp only [mapInvalidData]
    rw [if_pos ⟨h1, h2⟩]
  · simp only [hx.2]
    exact ecdsaDerToRaw_encSig hr hs


end Codec.DerRd
