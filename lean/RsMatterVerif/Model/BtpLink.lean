import RsMatterVerif.Model.Btp
/-!
# Two BTP ends joined by two FIFO queues

`End` is `BtpInner` of `btp.rs` (the session + the one-slot outgoing SDU + the pump
`process_outgoing` / `send` / `recv`), `Link` is two of them and the two GATT directions
(GATT write / indication: ordered, lossless), driven by scheduler operations.

The second half of the file is the *specification* side, written from the text of the property
(not from the code): what a protocol-violating segment is (`Spec.mustReject`), what the
reassembly of a list of accepted segments is (`Spec.Reasm`).
-/
namespace Btp

/-- `BtpInner` -/
structure End where
  s : Session := {}
  /-- `outgoing_sdu.buf` -/
  sdu : List Nat := []
  /-- `outgoing_sdu.buf_offset` -/
  off : Nat := 0
  gattMtu : Option Nat := none
deriving Repr, DecidableEq, Inhabited

/-- `BtpInner::send`: `true` = queued, `false` = an SDU is already being sent -/
def End.send (e : End) (data : List Nat) : Except Fail (End × Bool) :=
  if data.isEmpty || data.length > maxTxPacketSize then .error .invalidArgument
  else if e.sdu.isEmpty then .ok ({ e with sdu := data, off := 0 }, true)
  else .ok (e, false)

/-- `BtpInner::recv` -/
def End.recv (e : End) (cap : Nat) : Except Fail (End × Option (List Nat)) :=
  if e.s.messageAvailable then
    match e.s.fetchMessage cap with
    | .error f => .error f
    | .ok (s, m) => .ok ({ e with s := s }, some (m.getD []))
  else .ok (e, none)

/-- the SDU part of `BtpInner::process_outgoing`. (The queued SDU always carries the peer's
address; it is sendable iff the session is established.) -/
def End.dataStep (e : End) (now : Nat) : Except Fail (End × List Nat) :=
  if !e.sdu.isEmpty && e.s.established then
    match e.s.prepTxData e.sdu e.off now with
    | .error f => .error f
    | .ok (s2, seg, off2) =>
      if seg.length > 0 then
        if off2 = e.sdu.length then .ok ({ e with s := s2, sdu := [], off := 0 }, seg)
        else .ok ({ e with s := s2, off := off2 }, seg)
      else .ok ({ e with s := s2 }, [])
  else .ok (e, [])

/-- the stand-alone acknowledgement part of `BtpInner::process_outgoing`
(fixed tree: no `assert!(len > 0)`, the ACK waits while the send window is exhausted) -/
def End.ackStep (e : End) (now : Nat) : Except Fail (End × List Nat) :=
  if e.s.isAckDue now ackTimeoutSecs then
    match e.s.prepTxData [] 0 now with
    | .error f => .error f
    | .ok (s3, ackSeg, _) => .ok ({ e with s := s3 }, ackSeg)
  else .ok (e, [])

/-- `BtpInner::process_outgoing`: handshake first, then the queued SDU, then a due acknowledgement. -/
def End.processOutgoing (e : End) (now : Nat) : Except Fail (End × List Nat) :=
  match e.s.prepTxHandshake e.gattMtu now with
  | .error f => .error f
  | .ok (s1, hb) =>
    if hb.length > 0 then .ok ({ e with s := s1 }, hb)
    else
      match End.dataStep { e with s := s1 } now with
      | .error f => .error f
      | .ok (e2, seg) =>
        if seg.length > 0 then .ok (e2, seg)
        else e2.ackStep now

/-- `BtpInner::timeout` (`Btp::timeout`, polled every 2 s by `Btp::wait_timeout`; when it answers
`true` the GATT glue ends the session): `Session::is_timed_out(now, conn_idle_timeout_secs)` -
a segment of ours has been awaiting its acknowledgement (`sent_at` = instant of our last
transmission or of the last partial acknowledgement; `Instant::MAX` when nothing is outstanding)
for more than 30 s -/
def End.timeout (e : End) (now : Nat) : Bool := e.s.isTimedOut now connIdleTimeoutSecs

def End.processIncoming (e : End) (data : List Nat) (now : Nat) : Except Fail End :=
  match e.s.processRx e.gattMtu data now with
  | .error f => .error f
  | .ok s => .ok { e with s := s }

/-! ## The link -/

inductive Side | a | b
deriving Repr, DecidableEq, Inhabited

structure Link where
  a : End := {}
  b : End := {}
  /-- segments travelling a → b, oldest first -/
  qab : List (List Nat) := []
  /-- segments travelling b → a -/
  qba : List (List Nat) := []
  now : Nat := 0
deriving Repr, DecidableEq, Inhabited

def Link.get (l : Link) : Side → End
  | .a => l.a
  | .b => l.b

def Link.set (l : Link) (x : Side) (e : End) : Link :=
  match x with
  | .a => { l with a := e }
  | .b => { l with b := e }

/-- the queue of segments travelling *towards* `x` -/
def Link.inq (l : Link) : Side → List (List Nat)
  | .a => l.qba
  | .b => l.qab

def Link.setInq (l : Link) (x : Side) (q : List (List Nat)) : Link :=
  match x with
  | .a => { l with qba := q }
  | .b => { l with qab := q }

def Side.other : Side → Side
  | .a => .b
  | .b => .a

/-- scheduler operations -/
inductive Op where
  | send (x : Side) (msg : List Nat)
  | poll (x : Side)
  | deliver (x : Side)
  | tick (secs : Nat)
  | fetch (x : Side) (cap : Nat)
deriving Repr, DecidableEq, Inhabited

inductive Out where
  | none
  | queued (ok : Bool)
  | tx (seg : List Nat)
  | delivered
  | msg (m : List Nat)
deriving Repr, DecidableEq, Inhabited

/-- one scheduler step; an error leaves the link unchanged (the caller sees the `Fail`) -/
def Link.step (l : Link) : Op → Except Fail (Link × Out)
  | .send x m =>
    match (l.get x).send m with
    | .error f => .error f
    | .ok (e, ok) => .ok (l.set x e, .queued ok)
  | .poll x =>
    match (l.get x).processOutgoing l.now with
    | .error f => .error f
    | .ok (e, seg) =>
      if seg.length > 0 then
        let l1 := l.set x e
        .ok (l1.setInq x.other (l1.inq x.other ++ [seg]), .tx seg)
      else .ok (l.set x e, .none)
  | .deliver x =>
    match l.inq x with
    | [] => .ok (l, .none)
    | seg :: rest =>
      match (l.get x).processIncoming seg l.now with
      | .error f => .error f
      | .ok e => .ok ((l.set x e).setInq x rest, .delivered)
  | .tick n => .ok ({ l with now := l.now + n }, .none)
  | .fetch x cap =>
    match (l.get x).recv cap with
    | .error f => .error f
    | .ok (e, some m) => .ok (l.set x e, .msg m)
    | .ok (e, none) => .ok (l.set x e, .none)

/-! ## Specification side (from the property text) -/
namespace Spec

/-- What the receiving end knows about the conversation, in protocol terms only. -/
structure View where
  /-- sequence number of the last segment accepted from the peer (a `Nat`; before anything has been
  accepted it is 255 at a responder, so that 0 is expected next, and 0 at an initiator: the handshake
  response is the peer's segment number 0) -/
  lastSeq : Nat
  /-- negotiated window -/
  window : Nat
  /-- segments accepted from the peer and not yet acknowledged to it -/
  unackedRx : Nat
  /-- sequence number of the last segment we sent -/
  lastSent : Nat
  /-- how many of our own segments are sent and not yet acknowledged by the peer -/
  outstanding : Nat
  /-- bytes still missing from the message being reassembled (0 = none in progress) -/
  remaining : Nat
  /-- negotiated segment size (header + payload of a full segment) -/
  segSize : Nat
deriving Repr, DecidableEq, Inhabited

/-- The sequence numbers that are awaiting an acknowledgement: those of our `outstanding` most
recently sent segments, counted backwards from `lastSent` in wrap-around (mod 256) arithmetic. -/
def awaitingAck (v : View) : List Nat :=
  (List.range v.outstanding).map (fun i => (v.lastSent + 256 - i) % 256)

/-- a stand-alone acknowledgement: none of beginning / continue / ending, only an acknowledgement -/
def isAckOnly (h : Hdr) : Bool := !h.beg && !h.cont && !h.fin && h.ack

/-- the length the message still has to deliver, as seen by this segment: the announced length for
a beginning segment, else what is missing from the message in progress -/
def expected (v : View) (h : Hdr) : Nat := if h.beg then h.msgLen else v.remaining

/-- "inconsistent flags" on a data segment (BTP framing rules; independent of the conversation
apart from the negotiated segment size) -/
def badFlags (v : View) (h : Hdr) (payload : List Nat) : Bool :=
  -- a management opcode on a data segment
  h.mgmt
  -- a segment that is nothing: no beginning / continue / ending and no acknowledgement
  || (!h.beg && !h.cont && !h.fin && !h.ack)
  -- a stand-alone acknowledgement that carries data
  || (isAckOnly h && payload.length > 0)
  -- beginning and continue at once
  || (h.beg && h.cont)
  -- a segment that is not the ending one must fill the negotiated segment size
  || (!isAckOnly h && !h.fin && h.len + payload.length != v.segSize)
  -- a message that fits one segment must be sent as one (beginning = ending) segment
  || (h.beg && !h.fin && h.len + h.msgLen ≤ v.segSize)

/-- "inconsistent length" -/
def badLength (v : View) (h : Hdr) (payload : List Nat) : Bool :=
  -- a beginning segment inside a message
  (h.beg && v.remaining > 0)
  -- a continue / ending segment outside a message (with or without data)
  || (!h.beg && !isAckOnly h && v.remaining == 0)
  -- more data than announced
  || (expected v h < payload.length)
  -- ending segment before the announced length is reached
  || (h.fin && expected v h > payload.length)
  -- the announced length is reached by a segment that is not the ending segment
  || (!h.fin && payload.length > 0 && expected v h == payload.length)

/-- The four classes of protocol violation named by the property, on a decoded data segment:
wrong sequence number; window overrun; acknowledgement of something never sent (or already
acknowledged); inconsistent length or flags. Written from the BTP rules over the protocol-level
`View`; `segment_refused_iff` (Props/C18.lean) proves that the code refuses a data segment with
`InvalidData` exactly in these cases or when the receive buffer has no room (`noRoom`). -/
def mustReject (v : View) (h : Hdr) (payload : List Nat) : Bool :=
  -- wrong sequence number
  (h.seqNum != (v.lastSeq + 1) % 256)
  -- window overrun: the peer already has `window` segments that we have not acknowledged
  || (v.unackedRx ≥ v.window)
  -- acknowledgement of a sequence number that is not awaiting one (never sent, or acknowledged before)
  || (h.ack && !(awaitingAck v).contains h.ackNum)
  || badFlags v h payload
  || badLength v h payload

/-- Not a protocol violation but a resource limit: the receive buffer (capacity two maximal
messages; `free` bytes left) cannot take the segment - two length bytes in front of a new non-empty
message plus the payload. Refused with the same error. -/
def noRoom (free : Nat) (h : Hdr) (payload : List Nat) : Bool :=
  free < (if h.beg && h.msgLen > 0 then 2 else 0) + payload.length

/-- Reassembly of accepted data segments: the message in progress and the completed messages. -/
structure Reasm where
  cur : List Nat := []
  remaining : Nat := 0
  done : List (List Nat) := []
deriving Repr, DecidableEq, Inhabited

/-- feed one accepted segment (messages of length 0 carry nothing and are not delivered) -/
def Reasm.feed (r : Reasm) (h : Hdr) (payload : List Nat) : Reasm :=
  let cur := if h.beg then payload else r.cur ++ payload
  let rem := (if h.beg then h.msgLen else r.remaining) - payload.length
  if h.fin then
    { cur := [], remaining := 0, done := if cur.isEmpty then r.done else r.done ++ [cur] }
  else { cur := cur, remaining := rem, done := r.done }

/-- `xs` is a prefix of `ys` -/
def isPrefix : List (List Nat) → List (List Nat) → Bool
  | [], _ => true
  | _ :: _, [] => false
  | x :: xs, y :: ys => x == y && isPrefix xs ys

end Spec
end Btp
