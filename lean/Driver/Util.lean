/-!
Line-protocol plumbing shared by all per-property drivers.

Input (stdin), one record per line, produced by the Rust harness running the real code:
  `case <id> <kind...>`      start of a case: reset the model
  `<op tokens> => <impl out>` one operation and what the implementation answered
  `# ...`                    comment / statistics, echoed as `#`
Output (stdout), one line per input line:
  `case`                      for a case line
  `ok`                        model agrees with the implementation and the property oracle holds
  `DIS <model out>`           model and implementation disagree (broken correspondence)
  `ORA <reason>`              the implementation's behaviour violates the property's specification
  `BAD <reason>`              unparsable line (harness bug)
-/
namespace Driver

def splitArrow (line : String) : String × String :=
  match line.splitOn " => " with
  | [a] => (a.trimAscii.toString, "")
  | a :: rest => (a.trimAscii.toString, (" => ".intercalate rest).trimAscii.toString)
  | [] => ("", "")

def words (s : String) : List String :=
  (s.splitOn " ").filter (fun w => w ≠ "")

partial def loop {σ : Type} (h : IO.FS.Stream) (out : IO.FS.Stream) (st : σ)
    (step : σ → String → σ × String) : IO σ := do
  let line ← h.getLine
  if line.isEmpty then
    return st
  let l := line.trimAscii.toString
  if l.isEmpty || l.startsWith "#" then
    out.putStrLn "#"
    loop h out st step
  else
    let (st', o) := step st l
    out.putStrLn o
    loop h out st' step

def runLoop {σ : Type} (init : σ) (step : σ → String → σ × String) : IO UInt32 := do
  let stdin ← IO.getStdin
  let stdout ← IO.getStdout
  let _ ← loop stdin stdout init step
  stdout.flush
  return 0

end Driver
