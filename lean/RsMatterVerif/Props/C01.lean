import RsMatterVerif.Lemmas.Case
import RsMatterVerif.Props.C19
/-!
# C01 — CASE admits only holders of a valid NOC of the addressed fabric
-/
namespace C01
open Cert Case

theorem responder_session_implies_auth (t : Time) (ctx : RespCtx) (m : Msg) (s : Session) (r : ResRec)
    (h : respSigma3 t ctx m = some (s, r)) :
    ∃ noc icac sig,
      -- Sigma3 is a ciphertext under this handshake's S3K carrying a chain and a signature
      m = .sigma3 (.enc (s3k ctx.secret ctx.fabric.ipk ctx.s1 ctx.s2) nonceS3 (tbe3 noc icac sig)) ∧
      -- the chain is valid (C19) up to the root of the fabric the destination id selected,
      -- and carries that fabric's id
      CaseValid t ctx.fabric.view noc icac ∧
      -- proof of possession of the NOC key over this handshake's ephemeral keys
      sig = Term.sign noc.pubKey (tbs noc icac ctx.peerEph (.epk ctx.eph)) ∧
      -- the session is bound to exactly that fabric, node id and CATs
      s.fabIdx = ctx.fabric.idx ∧ nodeIdOf noc.subject = some s.peerNode ∧
      s.cats = catsOf noc.subject ∧ s.localNode = ctx.fabric.nodeId ∧
      -- keys from the transcript of this handshake
      s.i2r = .part 0 (sessionKeys ctx.secret ctx.fabric.ipk ctx.s1 ctx.s2 m) ∧
      s.r2i = .part 1 (sessionKeys ctx.secret ctx.fabric.ipk ctx.s1 ctx.s2 m) ∧
      s.sharedSecret = ctx.secret ∧
      -- the resumption record takes the same identity and this handshake's secret
      r = { fabIdx := s.fabIdx, peerNode := s.peerNode, cats := s.cats, rid := ctx.rid, secret := ctx.secret } := by
  unfold respSigma3 at h
  split at h
  · rename_i k n p
    split at h
    · cases h
    · rename_i hk
      simp only [ne_eq, not_or, Decidable.not_not] at hk
      split at h
      · cases h
      · rename_i noc icac sig hp
        have hp' := parseTbe_some hp
        split at h
        · cases h
        · rename_i hv
          split at h
          · cases h
          · rename_i hsig
            simp only [ne_eq, Decidable.not_not] at hsig
            split at h
            · cases h
            · split at h
              · cases h
              · rename_i peer hpeer
                simp only [Option.some.injEq, Prod.mk.injEq] at h
                obtain ⟨hs, hr⟩ := h
                refine ⟨noc, icac, sig, ?_, (C19.validateCase_iff _ _ _ _).1 hv, hsig, ?_⟩
                · rw [hk.1, hk.2, hp']; rfl
                · subst hs; subst hr
                  exact ⟨rfl, hpeer, rfl, rfl, rfl, rfl, rfl, rfl⟩
  · cases h


/-- the fabric of the handshake is the one the destination id of Sigma1 selects: the first fabric
of the table whose HMAC over (initiator random, root key, fabric id, own node id) equals it -/
theorem respSigma1_selects_fabric (fabrics : List Fabric) (m : Msg) (eph : Nat) (rnd rid sid : Term)
    (ctx : RespCtx) (h : respSigma1 fabrics m eph rnd rid sid = .sent ctx) :
    ∃ iRnd iSid dest iEph resume,
      m = .sigma1 iRnd iSid dest iEph resume ∧ findFabric fabrics iRnd dest = some ctx.fabric ∧
      ctx.fabric ∈ fabrics ∧
      destId ctx.fabric.ipk iRnd ctx.fabric.root.pubKey ctx.fabric.fabricId ctx.fabric.nodeId = dest ∧
      ctx.s1 = m ∧ ctx.peerEph = iEph ∧ ctx.eph = eph ∧ ctx.secret = ecdh eph iEph ∧ ctx.peerSid = iSid ∧
      ctx.rid = rid ∧ ctx.sid = sid := by
  unfold respSigma1 at h
  split at h
  · rename_i iRnd iSid dest iEph resume
    split at h
    · cases h
    · rename_i f hf
      simp only [RespOut1.sent.injEq] at h
      subst h
      refine ⟨iRnd, iSid, dest, iEph, resume, rfl, hf, ?_, ?_, rfl, rfl, rfl, rfl, rfl, rfl, rfl⟩
      · exact List.mem_of_find?_eq_some hf
      · have := List.find?_some hf
        simpa using this
  · cases h

/-- **Responder, resumption**: a session completed on the resumption path takes the identity of
a cached record whose secret produced the `Resume1MIC` of the received Sigma1 (for the random
and resumption id that Sigma1 carries), and only after a success status report. -/
theorem responder_resume_implies_mic (fabrics : List Fabric) (cache : List ResRec) (m1 m2 : Msg)
    (newRid sid : Term) (ctx : RespResumeCtx) (s : Session) (r' : ResRec)
    (h1 : respResume fabrics cache m1 newRid sid = some ctx)
    (h2 : respResumeFinish ctx m2 = some (s, r')) :
    ∃ rec ∈ cache, ∃ iRnd iSid dest iEph,
      m1 = .sigma1 iRnd iSid dest iEph
        (some (rec.rid, Term.mic (resumeKey rec.secret iRnd rec.rid infoS1RK) nonceR1)) ∧
      m2 = .status true ∧
      s.fabIdx = rec.fabIdx ∧ s.peerNode = rec.peerNode ∧ s.cats = rec.cats ∧
      s.i2r = .part 0 (resumeSessionKeys rec.secret iRnd rec.rid) ∧
      s.r2i = .part 1 (resumeSessionKeys rec.secret iRnd rec.rid) ∧
      r' = { rec with rid := newRid } := by
  unfold respResume at h1
  split at h1
  · rename_i iRnd iSid dest iEph rid mic1
    split at h1
    · cases h1
    · rename_i rec hrec
      split at h1
      · cases h1
      · rename_i hmic
        simp only [ne_eq, Decidable.not_not] at hmic
        split at h1
        · cases h1
        · rename_i f hf
          simp only [Option.some.injEq] at h1
          subst h1
          unfold respResumeFinish at h2
          split at h2
          · simp only [Option.some.injEq, Prod.mk.injEq] at h2
            obtain ⟨hs, hr⟩ := h2
            have hrid : rec.rid = rid := by
              have := List.find?_some hrec; simpa using this
            refine ⟨rec, List.mem_of_find?_eq_some hrec, iRnd, iSid, dest, iEph, ?_, rfl, ?_⟩
            · rw [hrid, hmic, hrid]
            · subst hs; subst hr
              exact ⟨rfl, rfl, rfl, rfl, rfl, rfl⟩
          · cases h2
  · cases h1

/-- **Initiator**: Sigma3 is only sent (and the handshake only continues) if Sigma2 is a
ciphertext under this handshake's S2K carrying a chain valid for the initiator's fabric, for the
node id the initiator addressed, with a signature by the NOC key over this handshake's
ephemeral keys. -/
theorem initiator_sigma2_implies_auth (t : Time) (c : InitCtx) (m : Msg) (c3 : InitCtx3)
    (h : initSigma2 t c m = some c3) :
    ∃ rRnd rSid rEph noc icac sig rid,
      m = .sigma2 rRnd rSid rEph
        (.enc (s2k (ecdh c.eph rEph) c.fabric.ipk rRnd rEph c.s1) nonceS2 (tbe2 noc icac sig rid)) ∧
      CaseValid t c.fabric.view noc icac ∧
      nodeIdOf noc.subject = some c.peerNode ∧
      sig = Term.sign noc.pubKey (tbs noc icac rEph (.epk c.eph)) ∧
      c3.ctx = c ∧ c3.s2 = m ∧ c3.cats = catsOf noc.subject ∧ c3.secret = ecdh c.eph rEph ∧
      c3.peerSid = rSid ∧ c3.peerRid = rid ∧
      c3.s3 = .sigma3 (.enc (s3k (ecdh c.eph rEph) c.fabric.ipk c.s1 m) nonceS3
        (tbe3 c.fabric.noc c.fabric.icac
          (Term.sign c.fabric.opKey (tbs c.fabric.noc c.fabric.icac (.epk c.eph) rEph)))) := by
  unfold initSigma2 at h
  split at h
  · rename_i rRnd rSid rEph k n p
    simp only at h
    split at h
    · cases h
    · rename_i hk
      simp only [ne_eq, not_or, Decidable.not_not] at hk
      split at h
      · rename_i noc icac sig rid hp
        have hp' := parseTbe_some hp
        split at h
        · cases h
        · rename_i hv
          split at h
          · cases h
          · rename_i hnode
            simp only [ne_eq, Decidable.not_not] at hnode
            split at h
            · cases h
            · rename_i hsig
              simp only [ne_eq, Decidable.not_not] at hsig
              split at h
              · cases h
              · simp only [Option.some.injEq] at h
                subst h
                refine ⟨rRnd, rSid, rEph, noc, icac, sig, rid, ?_, (C19.validateCase_iff _ _ _ _).1 hv,
                  hnode, hsig, rfl, rfl, rfl, rfl, rfl, rfl, rfl⟩
                rw [hk.1, hk.2, hp']; rfl
      · cases h
  · cases h

/-- the initiator's session is bound to its own fabric, the addressed node id and the CATs of
the validated NOC, with keys from its transcript; it needs a success status report -/
theorem initiator_session_implies_auth (t : Time) (c : InitCtx) (m2 m4 : Msg) (c3 : InitCtx3)
    (s : Session) (r : ResRec) (h2 : initSigma2 t c m2 = some c3) (h4 : initFinish c3 m4 = some (s, r)) :
    m4 = .status true ∧ s.fabIdx = c.fabric.idx ∧ s.peerNode = c.peerNode ∧
    s.localNode = c.fabric.nodeId ∧
    (∃ noc icac, CaseValid t c.fabric.view noc icac ∧ nodeIdOf noc.subject = some s.peerNode ∧
      s.cats = catsOf noc.subject) ∧
    s.i2r = .part 0 (sessionKeys c3.secret c.fabric.ipk c.s1 m2 c3.s3) ∧
    s.r2i = .part 1 (sessionKeys c3.secret c.fabric.ipk c.s1 m2 c3.s3) := by
  obtain ⟨rRnd, rSid, rEph, noc, icac, sig, rid, hm, hv, hn, hsig, hc, hs2, hcats, hsec, _, _, hs3⟩ :=
    initiator_sigma2_implies_auth t c m2 c3 h2
  unfold initFinish at h4
  split at h4
  · simp only [Option.some.injEq, Prod.mk.injEq] at h4
    obtain ⟨hs, _⟩ := h4
    subst hs
    rw [hc, hs2]
    exact ⟨rfl, rfl, rfl, rfl, ⟨noc, icac, hv, hn, hcats⟩, rfl, rfl⟩
  · cases h4

/-- initiator, resumption: only a `Resume2MIC` under the cached secret (for this handshake's
random and the new resumption id) completes the session, with the cached identity -/
theorem initiator_resume_implies_mic (c : InitCtx) (m : Msg) (s : Session) (r' : ResRec)
    (h : initSigma2Resume c m = some (s, r')) :
    ∃ rec newRid rSid, c.cached = some rec ∧
      m = .sigma2Resume newRid (Term.mic (resumeKey rec.secret c.rnd newRid infoS2RK) nonceR2) rSid ∧
      s.fabIdx = rec.fabIdx ∧ s.peerNode = rec.peerNode ∧ s.cats = rec.cats ∧
      s.i2r = .part 0 (resumeSessionKeys rec.secret c.rnd rec.rid) ∧
      s.r2i = .part 1 (resumeSessionKeys rec.secret c.rnd rec.rid) ∧
      r' = { rec with rid := newRid } := by
  unfold initSigma2Resume at h
  split at h
  · rename_i newRid mic2 rSid rec hc
    split at h
    · cases h
    · rename_i hmic
      simp only [ne_eq, Decidable.not_not] at hmic
      simp only [Option.some.injEq, Prod.mk.injEq] at h
      obtain ⟨hs, hr⟩ := h
      subst hs; subst hr
      exact ⟨rec, newRid, rSid, hc, by rw [hmic], rfl, rfl, rfl, rfl, rfl, rfl⟩
  · cases h


/-! ## Agreement: whoever accepts the peer's own ciphertext has seen the peer's transcript -/

theorem ecdh_comm (a b : Nat) : ecdh a (.epk b) = ecdh b (.epk a) := by
  unfold ecdh
  by_cases h1 : a ≤ b <;> by_cases h2 : b ≤ a <;> simp [h1, h2]
  · omega
  · omega

/-- the Sigma2 an honest responder emits -/
theorem respSigma1_s2 (fabrics : List Fabric) (m : Msg) (eph : Nat) (rnd rid sid : Term)
    (ctx : RespCtx) (h : respSigma1 fabrics m eph rnd rid sid = .sent ctx) :
    ∃ iEph, ctx.peerEph = iEph ∧ ctx.secret = ecdh eph iEph ∧ ctx.s1 = m ∧
    ctx.s2 = .sigma2 rnd sid (.epk eph)
      (.enc (s2k ctx.secret ctx.fabric.ipk rnd (.epk eph) m) nonceS2
        (tbe2 ctx.fabric.noc ctx.fabric.icac
          (Term.sign ctx.fabric.opKey (tbs ctx.fabric.noc ctx.fabric.icac (.epk eph) iEph)) rid)) := by
  unfold respSigma1 at h
  split at h
  · rename_i iRnd iSid dest iEph resume
    split at h
    · cases h
    · simp only [RespOut1.sent.injEq] at h
      subst h
      exact ⟨iEph, rfl, rfl, rfl, rfl⟩
  · cases h

/-- **Initiator side of agreement**: if the initiator accepts the Sigma2 an honest responder
produced, then that responder had received exactly the initiator's Sigma1 (any change of any
Sigma1 field in flight is detected here), both computed the same ECDH secret, and the chain and
signature the initiator validated are the responder's own. -/
theorem initiator_accepts_honest_sigma2 (fabrics : List Fabric) (m1' : Msg) (eph : Nat)
    (rnd rid sid : Term) (ctx : RespCtx) (t : Time) (c : InitCtx) (c3 : InitCtx3)
    (hR : respSigma1 fabrics m1' eph rnd rid sid = .sent ctx)
    (hI : initSigma2 t c ctx.s2 = some c3) :
    m1' = c.s1 ∧ c3.secret = ctx.secret ∧ ctx.fabric.ipk = c.fabric.ipk ∧
    nodeIdOf ctx.fabric.noc.subject = some c.peerNode := by
  obtain ⟨iEph, _, hsec, hs1, hs2⟩ := respSigma1_s2 fabrics m1' eph rnd rid sid ctx hR
  obtain ⟨rRnd, rSid, rEph, noc, icac, sig, rid', hm, _, hn, _, _, _, _, hsec3, _⟩ :=
    initiator_sigma2_implies_auth t c ctx.s2 c3 hI
  rw [hs2] at hm
  simp only [Msg.sigma2.injEq, Term.enc.injEq, s2k, Term.kdf.injEq, Term.pair.injEq, tt1,
    Term.hash.injEq, tbe2, Term.cert.injEq] at hm
  obtain ⟨_, _, hEph, ⟨hk, ⟨hipk, _, _, htt⟩, _⟩, _, hnoc, _⟩ := hm
  refine ⟨toTerm_inj htt, ?_, hipk, ?_⟩
  · rw [hsec3, ← hk]
  · rw [hnoc]; exact hn

/-- **Responder side of agreement / keys_agree**: if the responder accepts the Sigma3 an honest
initiator produced, then both hold the same Sigma1 and Sigma2 (any change of any Sigma1 / Sigma2
field in flight is detected here at the latest), the same secret and IPK, hence the same
directional keys; and the responder's session is bound to the initiator's own NOC. -/
theorem keys_agree (t t' : Time) (ctx : RespCtx) (c : InitCtx) (m2 : Msg) (c3 : InitCtx3)
    (sR sI : Session) (rR rI : ResRec)
    (hI2 : initSigma2 t' c m2 = some c3)
    (hR : respSigma3 t ctx c3.s3 = some (sR, rR))
    (hI4 : initFinish c3 (.status true) = some (sI, rI)) :
    ctx.s1 = c.s1 ∧ ctx.s2 = m2 ∧ sR.i2r = sI.i2r ∧ sR.r2i = sI.r2i ∧
    sR.sharedSecret = sI.sharedSecret ∧
    nodeIdOf c.fabric.noc.subject = some sR.peerNode ∧ sR.cats = catsOf c.fabric.noc.subject := by
  obtain ⟨noc, icac, sig, hm, _, _, _, hnode, hcats, _, hi2r, hr2i, hR', hrec⟩ :=
    responder_session_implies_auth t ctx c3.s3 sR rR hR
  obtain ⟨rRnd, rSid, rEph, noc2, icac2, sig2, rid2, hm2, _, _, _, hc, hs2, _, hsec, _, _, hs3⟩ :=
    initiator_sigma2_implies_auth t' c m2 c3 hI2
  rw [hs3] at hm
  simp only [Msg.sigma3.injEq, Term.enc.injEq, s3k, Term.kdf.injEq, Term.pair.injEq, tt2,
    Term.hash.injEq, tbe3, Term.cert.injEq] at hm
  obtain ⟨⟨hk, ⟨hipk, ht1, ht2⟩, _⟩, _, hnoc, _⟩ := hm
  have h1 : c.s1 = ctx.s1 := toTerm_inj ht1
  have h2 : m2 = ctx.s2 := toTerm_inj ht2
  unfold initFinish at hI4
  simp only [Option.some.injEq, Prod.mk.injEq] at hI4
  obtain ⟨hsI, _⟩ := hI4
  subst hsI
  have hsec' : c3.secret = ctx.secret := by rw [hsec, hk]
  refine ⟨h1.symm, h2.symm, ?_, ?_, ?_, ?_, ?_⟩
  · rw [hi2r]; simp only [hc, hs2, hsec', hipk, h1, h2, hs3]
  · rw [hr2i]; simp only [hc, hs2, hsec', hipk, h1, h2, hs3]
  · rw [hR']; exact hsec'.symm
  · rw [hnoc]; exact hnode
  · rw [hnoc]; exact hcats


/-! ## Tampering: single changes of the handshake messages -/

/-- Sigma1 changed in flight (any field, or replaced / replayed as a whole): the initiator does
not accept the Sigma2 the responder builds on it — no Sigma3 is sent, no session on either side. -/
theorem tamper_sigma1_no_session (fabrics : List Fabric) (m1' : Msg) (eph : Nat)
    (rnd rid sid : Term) (ctx : RespCtx) (t : Time) (c : InitCtx)
    (hR : respSigma1 fabrics m1' eph rnd rid sid = .sent ctx) (hne : m1' ≠ c.s1) :
    initSigma2 t c ctx.s2 = none := by
  cases h : initSigma2 t c ctx.s2 with
  | none => rfl
  | some c3 => exact absurd (initiator_accepts_honest_sigma2 fabrics m1' eph rnd rid sid ctx t c c3 hR h).1 hne

/-- Sigma1 or Sigma2 changed in flight, Sigma3 relayed: the responder rejects the initiator's
Sigma3 (different transcript hash ⇒ different S3K). -/
theorem tamper_sigma12_no_session (t t' : Time) (ctx : RespCtx) (c : InitCtx) (m2 : Msg) (c3 : InitCtx3)
    (hI2 : initSigma2 t' c m2 = some c3) (hne : ctx.s1 ≠ c.s1 ∨ ctx.s2 ≠ m2) :
    respSigma3 t ctx c3.s3 = none := by
  cases h : respSigma3 t ctx c3.s3 with
  | none => rfl
  | some p =>
    obtain ⟨sR, rR⟩ := p
    have := keys_agree t t' ctx c m2 c3 sR _ rR _ hI2 h rfl
    rcases hne with h1 | h1
    · exact absurd this.1 h1
    · exact absurd this.2.1 h1

/-- anything that is not a ciphertext under this handshake's S3K (bit flips, truncation, replay of
a Sigma3 of another handshake, another message type) gives the responder no session -/
theorem tamper_sigma3_no_session (t : Time) (ctx : RespCtx) (m : Msg)
    (h : ∀ p, m ≠ .sigma3 (.enc (s3k ctx.secret ctx.fabric.ipk ctx.s1 ctx.s2) nonceS3 p)) :
    respSigma3 t ctx m = none := by
  cases hr : respSigma3 t ctx m with
  | none => rfl
  | some q =>
    obtain ⟨s, r⟩ := q
    obtain ⟨noc, icac, sig, hm, _⟩ := responder_session_implies_auth t ctx m s r hr
    exact absurd hm (h _)

/-- likewise for the initiator and Sigma2 -/
theorem tamper_sigma2_no_session (t : Time) (c : InitCtx) (m : Msg)
    (h : ∀ rRnd rSid rEph p, m ≠ .sigma2 rRnd rSid rEph
      (.enc (s2k (ecdh c.eph rEph) c.fabric.ipk rRnd rEph c.s1) nonceS2 p)) :
    initSigma2 t c m = none := by
  cases hr : initSigma2 t c m with
  | none => rfl
  | some c3 =>
    obtain ⟨rRnd, rSid, rEph, noc, icac, sig, rid, hm, _⟩ := initiator_sigma2_implies_auth t c m c3 hr
    exact absurd hm (h _ _ _ _)

/-- the final status report: anything but success leaves the initiator without a session (the
responder keeps the session of the untouched run) -/
theorem tamper_status_no_session (c3 : InitCtx3) (m : Msg) (h : m ≠ .status true) :
    initFinish c3 m = none := by
  unfold initFinish
  split
  · exact absurd rfl h
  · rfl

/-- what `try_handle_sigma1_resume` has established when it answers with `Sigma2_Resume` -/
theorem respResume_some (fabrics : List Fabric) (cache : List ResRec) (m : Msg) (newRid sid : Term)
    (ctx : RespResumeCtx) (h : respResume fabrics cache m newRid sid = some ctx) :
    ∃ rec ∈ cache, ∃ iRnd iSid dest iEph,
      m = .sigma1 iRnd iSid dest iEph
        (some (rec.rid, Term.mic (resumeKey rec.secret iRnd rec.rid infoS1RK) nonceR1)) ∧
      ctx.record = rec ∧ ctx.newRid = newRid ∧
      ctx.s2r = .sigma2Resume newRid (Term.mic (resumeKey rec.secret iRnd newRid infoS2RK) nonceR2) sid ∧
      ctx.session.i2r = .part 0 (resumeSessionKeys rec.secret iRnd rec.rid) ∧
      ctx.session.r2i = .part 1 (resumeSessionKeys rec.secret iRnd rec.rid) := by
  unfold respResume at h
  split at h
  · rename_i iRnd iSid dest iEph rid mic1
    split at h
    · cases h
    · rename_i rec hrec
      split at h
      · cases h
      · rename_i hmic
        simp only [ne_eq, Decidable.not_not] at hmic
        split at h
        · cases h
        · simp only [Option.some.injEq] at h
          subst h
          have hrid : rec.rid = rid := by
            have := List.find?_some hrec; simpa using this
          refine ⟨rec, List.mem_of_find?_eq_some hrec, iRnd, iSid, dest, iEph, ?_, rfl, rfl, rfl, rfl, rfl⟩
          rw [hrid, hmic, hrid]
  · cases h

/-- **resumption, keys_agree**: the responder resumes on the initiator's own Sigma1 and the
initiator accepts the responder's own `Sigma2_Resume` ⇒ same directional keys and the same
rotated resumption id on both sides -/
theorem resume_keys_agree (f : Fabric) (cacheI cacheR : List ResRec) (peer eph : Nat) (rnd sidI : Term)
    (fabrics : List Fabric) (newRid sid : Term) (ctxR : RespResumeCtx) (sR sI : Session) (rR rI : ResRec)
    (h1 : respResume fabrics cacheR (initSigma1 f cacheI peer eph rnd sidI).s1 newRid sid = some ctxR)
    (h2 : respResumeFinish ctxR (.status true) = some (sR, rR))
    (h3 : initSigma2Resume (initSigma1 f cacheI peer eph rnd sidI) ctxR.s2r = some (sI, rI)) :
    sR.i2r = sI.i2r ∧ sR.r2i = sI.r2i ∧ rR.rid = rI.rid := by
  obtain ⟨recR, _, iRnd, iSid, dest, iEph, hm1, hrec, hnr, hs2r, hki, hkr⟩ :=
    respResume_some fabrics cacheR _ newRid sid ctxR h1
  obtain ⟨recI, newRid', rSid, hc, hm, _, _, _, hIi, hIr, hrI⟩ :=
    initiator_resume_implies_mic _ ctxR.s2r sI rI h3
  unfold respResumeFinish at h2
  simp only [Option.some.injEq, Prod.mk.injEq] at h2
  obtain ⟨hsR, hrR⟩ := h2
  -- the initiator's Sigma1 carries its own record's id and MIC
  have hcached : (initSigma1 f cacheI peer eph rnd sidI).cached = some recI := hc
  simp only [initSigma1] at hm1 hcached hIi hIr
  rw [hcached] at hm1
  simp only [Option.map_some, Msg.sigma1.injEq, Option.some.injEq, Prod.mk.injEq, Term.mic.injEq,
    resumeKey, Term.kdf.injEq, Term.pair.injEq] at hm1
  obtain ⟨hrnd, _, _, _, hrid, ⟨hsec, _, _⟩, _⟩ := hm1
  rw [hs2r] at hm
  simp only [Msg.sigma2Resume.injEq] at hm
  obtain ⟨hnew, _, _⟩ := hm
  refine ⟨?_, ?_, ?_⟩
  · rw [← hsR, hki, hIi, ← hsec, ← hrid, ← hrnd]
  · rw [← hsR, hkr, hIr, ← hsec, ← hrid, ← hrnd]
  · rw [← hrR, hrI, hnr, hnew]


/-! ## What is *not* proved: the Dolev-Yao closure

The theorems above cover every message that is (a) relayed from the honest peer, or (b) not a
ciphertext under the handshake key.  The remaining case — an attacker who *constructs* a
ciphertext under S2K / S3K — needs the secrecy of the ECDH result against the Dolev-Yao
deduction relation below; this statement is kept as a definition, not proved. -/

/-- what an on-path attacker who knows the terms `K` (everything sent so far, all public data,
its own secrets) can construct -/
inductive Derivable (K : List Term) : Term → Prop
  | known {t} : t ∈ K → Derivable K t
  | atom (n) : Derivable K (.atom n)
  | none : Derivable K .none
  | cert (c) : Derivable K (.cert c)
  | pair {a b} : Derivable K a → Derivable K b → Derivable K (.pair a b)
  | fst {a b} : Derivable K (.pair a b) → Derivable K a
  | snd {a b} : Derivable K (.pair a b) → Derivable K b
  | hash {a} : Derivable K a → Derivable K (.hash a)
  | kdf {a b c} : Derivable K a → Derivable K b → Derivable K c → Derivable K (.kdf a b c)
  | mac {a b} : Derivable K a → Derivable K b → Derivable K (.mac a b)
  | mic {a b} : Derivable K a → Derivable K b → Derivable K (.mic a b)
  | enc {k n p} : Derivable K k → Derivable K n → Derivable K p → Derivable K (.enc k n p)
  | dec {k n p} : Derivable K (.enc k n p) → Derivable K k → Derivable K p
  | part {i t} : Derivable K t → Derivable K (.part i t)

/-- full statement of the tamper clause for Sigma3 (not proved): if the attacker knows neither
ephemeral secret of the handshake (i.e. `K` only contains what was sent on the wire and public
data), every Sigma3 it can construct and the responder accepts is the initiator's own. -/
def C01_full : Prop :=
  ∀ (t t' : Time) (ctx : RespCtx) (c : InitCtx) (c3 : InitCtx3) (K : List Term) (m : Msg),
    initSigma2 t' c ctx.s2 = some c3 →
    K = [ctx.s1.toTerm, ctx.s2.toTerm, c3.s3.toTerm, ctx.fabric.ipk] →
    Derivable K m.toTerm → (respSigma3 t ctx m).isSome → m = c3.s3

/-! ## Non-vacuity: a concrete honest handshake (full and resumed) -/

def devNoc : Cert :=
  { C19.exNocDirect with subject := [.nodeId 200, .fabricId 7], skid := some 8, pubKey := 8 }

def ctlFabric : Fabric :=
  { idx := 1, fabricId := 7, root := C19.exRoot, ipk := .atom 77, nodeId := 5, noc := C19.exNoc,
    icac := some C19.exIcac, opKey := 9 }

def devFabric : Fabric :=
  { idx := 2, fabricId := 7, root := C19.exRoot, ipk := .atom 77, nodeId := 200, noc := devNoc,
    icac := .none, opKey := 8 }

def exInit : InitCtx := initSigma1 ctlFabric [] 200 11 (.atom 501) (.atom 601)

def exResp : RespCtx :=
  match respSigma1 [devFabric] exInit.s1 12 (.atom 502) (.atom 702) (.atom 602) with
  | .sent ctx => ctx
  | .refused => default

def exInit3 : InitCtx3 := (initSigma2 C19.exT exInit exResp.s2).getD default

/-- the honest run completes on both sides … -/
example : (respSigma3 C19.exT exResp exInit3.s3).isSome = true := by decide
example : (initFinish exInit3 (.status true)).isSome = true := by decide
/-- … with the responder's session bound to the controller's NOC (node 5, CAT 65537, fabric
index 2 = the fabric the destination id selected) and both sides holding the same keys -/
example : ((respSigma3 C19.exT exResp exInit3.s3).map fun p => (p.1.fabIdx, p.1.peerNode, p.1.cats)) =
    some (2, 5, [65537]) := by decide
example : ((respSigma3 C19.exT exResp exInit3.s3).map fun p => (p.1.i2r, p.1.r2i)) =
    ((initFinish exInit3 (.status true)).map fun p => (p.1.i2r, p.1.r2i)) := by decide
/-- a Sigma1 with one field changed in flight: the initiator refuses the resulting Sigma2 -/
example :
    (match respSigma1 [devFabric] (.sigma1 (.atom 501) (.atom 999) (destId (.atom 77) (.atom 501) 0 7 200) (.epk 11) .none)
        12 (.atom 502) (.atom 702) (.atom 602) with
      | .sent ctx => (initSigma2 C19.exT exInit ctx.s2).isSome
      | .refused => true) = false := by decide
/-- a destination id for a fabric the responder does not have is refused -/
example : (match respSigma1 [devFabric] (.sigma1 (.atom 501) (.atom 601) (destId (.atom 78) (.atom 501) 0 7 200) (.epk 11) .none)
    12 (.atom 502) (.atom 702) (.atom 602) with | .refused => true | _ => false) = true := by decide
/-- a controller whose NOC chains to another root gets no session -/
example : (respSigma3 C19.exT { exResp with fabric := { devFabric with root := { C19.exRoot with pubKey := 4, sigBy := some 4 } } }
    exInit3.s3).isSome = false := by decide

end C01
