import RsMatterVerif.Lemmas.AdminRec
/-!
# C07 — nothing bound to a fabric outlives that fabric

Model: `Model/Admin.lean`.  A secure session carries the fabric INDEX (`SessionMode`), a resumption
record carries the fabric index; ACL entries and group keys live inside the fabric record (they go
with it by construction).  The danger is the index: `Fabrics::add` hands out `max + 1`, so the index
of a fabric that went away is given to the next one.

"Usable" means: the session is in the table and not marked expired.  An expired session takes no NEW
exchange (`transport/session.rs:540`) - the model refuses every command on it - but the code still
delivers messages of an exchange that is already open on it (`get_exch_for_rx` is asked before the
expiry mark): the one session this matters for is the session that issued the RemoveFabric /
ArmFailSafe(0) / RevokeCommissioning itself, which is kept (expired) exactly for sending the answer
of that open exchange.  The theorems say nothing about exchanges already open on an expired session.

1. `noRef_always`: **invariant** - after EVERY history (any session, any order, store faults, restarts,
   crash points and the factory reset included) every non-expired secure session and every resumption
   record refers to a fabric index that is in the fabric table.  (Factory reset: since the repo fix of
   `C07-factory-reset-keeps-sessions`, `Matter::factory_reset` drops the sessions of the fabrics and the
   resumption records whatever the store answers.)
2. `gone_fabric_unreferenced`: hence, once a fabric index is not in the table (RemoveFabric, fail-safe
   rollback, factory reset), nothing usable refers to it.
3. `rmfab_gone_or_untouched`, `rollback_gone`: RemoveFabric / a rollback that does not find a stored
   copy really take the index out of the table.
4. `new_fabric_starts_clean` (index reuse): when AddNOC creates a fabric, the only non-expired
   session on its index is the PASE session that issued the command, and no resumption record is -
   an old session / old credentials cannot reach the new fabric.
5. `rmfab_others_untouched`, `expiry_others_untouched` (`rollback_others_untouched`): sessions of other
   fabrics are unaffected - also the session of another fabric that triggers a forced expiry.

6. **Ghost generations** (`noDangling_always`, `restart_noDangling`, `C07_full_noDangling_holds`): every
   fabric gets a fresh generation id at `AddNOC`; a session / resumption record carries the generation
   it was made for.  `NoDangling`: whatever is usable refers to a fabric that exists WITH THAT
   GENERATION - so the re-use of a fabric index is covered by the invariant itself.
   `C07_full_noDangling_holds`: it holds after EVERY history - store faults, restarts, crash points and
   factory resets together - in which no factory reset is hit by a store fault (`ResetsClean`,
   decidable).  A factory reset that IS hit by one answers the error and leaves fabric keys in the
   store; carrying on from there breaks the statement (`faulty_reset_witness`, open finding
   `C07-faulty-factory-reset-leaves-keys`).
-/
namespace C07
open Admin

/-- **Invariant**, for every history - no operation of the alphabet is excluded. -/
theorem noRef_run (cfg : Cfg) (ops : List Op) : ∀ (n : Node), NoRef n → NoRef (run cfg n ops) := by
  induction ops with
  | nil => intro n h; exact h
  | cons op rest ih =>
    intro n h
    exact ih _ (step_noRef cfg n op h)

theorem noRef_always (cfg : Cfg) (ops : List Op) : NoRef (run cfg {} ops) :=
  noRef_run cfg ops {} noRef_init

/-- **An old session cannot reach a fabric commissioned after a factory reset** (the repaired finding
`C07-factory-reset-keeps-sessions`): whatever the state and whatever the store answers, after the
factory reset there is no fabric, no session that belongs to a fabric and no resumption record. -/
theorem factory_reset_drops_references (cfg : Cfg) (n : Node) :
    (step cfg n .freset).1.fabrics = [] ∧
    (∀ s ∈ (step cfg n .freset).1.sessions, s.mode.fab = 0) ∧
    (step cfg n .freset).1.resum = [] := by
  have ⟨h1, h2, h3, _⟩ := factoryReset_mem n
  refine ⟨h1, fun s hs => ?_, h3⟩
  have hs' : s ∈ (factoryReset n).1.sessions := hs
  rw [h2, List.mem_filter] at hs'
  simpa using hs'.2

/-- the replay of the finding: commissioning, CASE session 1 of peer 100, factory reset, a new fabric
gets index 1 - the old session is gone (before the repair `acl 1 77` was accepted on the new fabric) -/
example :
    let ops : List Op := [.boot, .pase, .arm 0 60, .csr 0 false, .root 0 1, .addnoc 0 1 5 10 100 1,
      .caseEst 1 100 1, .complete 1, .freset, .boot, .pase, .arm 2 60, .csr 2 false, .root 2 2,
      .addnoc 2 2 6 11 101 2]
    (run {} {} ops).fabrics.length = 1 ∧ (step {} (run {} {} ops) (.acl 1 77)).2 = .err "nosess" := by
  refine ⟨by decide +kernel, by decide +kernel⟩

/-- nothing usable refers to a fabric index that is not in the table -/
theorem gone_fabric_unreferenced (n : Node) (h : NoRef n) (i : Nat) (hi : i ≠ 0) (hgone : hasFabric n i = false) :
    (∀ s ∈ n.sessions, s.expired = false → s.mode.fab ≠ i) ∧ (∀ r ∈ n.resum, r.fab ≠ i) := by
  refine ⟨fun s hs he hf => ?_, fun r hr hf => ?_⟩
  · have := h.1 s hs he (by rw [hf]; exact hi)
    rw [hf, hgone] at this; cases this
  · have := h.2 r hr
    rw [hf, hgone] at this; cases this

/-- two fabrics with a CASE session each; RemoveFabric of fabric 1 over the session of fabric 2: the
state is `NoRef`, index 1 is gone, the session and the resumption record of fabric 2 are still there -/
example :
    let ops : List Op := [.boot, .pase, .arm 0 60, .csr 0 false, .root 0 1, .addnoc 0 1 5 10 100 1,
      .caseEst 1 100 1, .complete 1, .boot, .pase, .arm 2 60, .csr 2 false, .root 2 2,
      .addnoc 2 2 6 11 101 2, .caseEst 2 101 2, .complete 3, .rmfab 3 1]
    NoRef (run {} {} ops) ∧ hasFabric (run {} {} ops) 1 = false ∧ hasFabric (run {} {} ops) 2 = true ∧
    (run {} {} ops).sessions.map (fun s => (s.id, s.mode.fab, s.expired)) = [(3, 2, false)] ∧
    (run {} {} ops).resum.map (·.fab) = [2] := by
  intro ops
  exact ⟨noRef_always {} ops, by decide, by decide, by decide, by decide⟩

/-! ## the fabric really goes away -/

theorem purgeResum_fabrics (n : Node) (i : Nat) : (purgeResum n i).1.fabrics = n.fabrics :=
  (purgeResum_mem n i).1

/-- an acknowledged RemoveFabric of an existing fabric takes its index out of the table; a
RemoveFabric that is answered with an error (store failure) leaves the fabric table and the sessions
exactly as they were (fixed finding `C07-failed-removefabric-resurrects`) -/
theorem rmfab_gone_or_untouched (cfg : Cfg) (n : Node) (sid s idx : Nat) (mode : Mode) :
    ((sessOp cfg n sid mode (.rmfab s idx)).2 = .ok ∧
      hasFabric (sessOp cfg n sid mode (.rmfab s idx)).1 idx = false) ∨
    ((sessOp cfg n sid mode (.rmfab s idx)).2 ≠ .ok ∧
      (sessOp cfg n sid mode (.rmfab s idx)).1.fabrics = n.fabrics ∧
      (sessOp cfg n sid mode (.rmfab s idx)).1.sessions = n.sessions) := by
  simp only [sessOp]
  split
  · exact Or.inr ⟨by simp, rfl, rfl⟩
  · split
    · have ⟨p1, p2, _⟩ := purgeResum_mem n idx
      rcases hp : purgeResum n idx with ⟨n2, b⟩
      rw [hp] at p1 p2
      simp only at p1 p2
      cases b with
      | false => exact Or.inr ⟨by simp, p1, p2⟩
      | true =>
        simp only []
        have hfr := (removeFabricKey_spec n2 idx).1
        rcases hrk : removeFabricKey n2 idx with ⟨n3, b3⟩
        rw [hrk] at hfr
        simp only at hfr
        cases b3 with
        | false => exact Or.inr ⟨by simp, hfr.fabrics.trans p1, hfr.sessions.trans p2⟩
        | true =>
          refine Or.inl ⟨rfl, ?_⟩
          simp only [ok, decide_not]
          rw [hasFabric_eq]
          show HasIdx (List.filter (fun f => !decide (f.idx = idx)) n3.fabrics) idx = false
          rw [hasIdx_filter_ne]; simp
    · exact Or.inr ⟨by simp, rfl, rfl⟩

/-- a rollback that finds no stored copy takes the fail-safe's fabric out of the table -/
theorem rollback_gone (cfg : Cfg) (n : Node) (a : Armed) (fs : List Fabric) (h0 : a.fab ≠ 0)
    (hr : rollbackFabrics cfg n a = .ok fs) (hkv : n.kv.fabs.find? (fun f => f.idx = a.fab) = none) :
    HasIdx fs a.fab = false := by
  unfold rollbackFabrics at hr
  simp only [h0, if_false, hkv, decide_not] at hr
  injection hr with hr; subst hr
  rw [hasIdx_filter_ne]; simp

/-! ## index reuse -/

/-- **A new fabric starts clean**: when AddNOC creates the fabric `idx` in a `NoRef` state, the only
non-expired session bound to `idx` afterwards is the session `sid` that issued the command (the PASE
session promoted by it), and no resumption record is bound to `idx`. -/
theorem addNoc_starts_clean (cfg : Cfg) (n : Node) (sid ca fid node subj ser idx : Nat) (mode : Mode)
    (h : NoRef n) (hacc : (addNoc cfg n sid mode ca fid node subj ser).2 = .okIdx idx) :
    (∀ s' ∈ (addNoc cfg n sid mode ca fid node subj ser).1.sessions,
        s'.expired = false → s'.mode.fab = idx → s'.id = sid) ∧
    (∀ r' ∈ (addNoc cfg n sid mode ca fid node subj ser).1.resum, r'.fab ≠ idx) ∧
    hasFabric n idx = false := by
  generalize hres : addNoc cfg n sid mode ca fid node subj ser = r at hacc ⊢
  simp only [addNoc] at hres
  -- what freshness of the new index gives in a `NoRef` state
  have key : ∀ idx', (if maxIdx n.fabrics < 254 then some (maxIdx n.fabrics + 1)
        else List.find? (fun i => decide (1 ≤ i) && !hasFabric n i) (List.range 255)) = some idx' →
      (∀ s' ∈ n.sessions, s'.expired = false → s'.mode.fab ≠ idx') ∧ (∀ r' ∈ n.resum, r'.fab ≠ idx') ∧
      hasFabric n idx' = false := by
    intro idx' hidx'
    have hfresh := newIdx_fresh n idx' hidx'
    have hne0 : idx' ≠ 0 := by
      intro hz
      rw [hz] at hidx'
      split at hidx'
      · injection hidx' with hh; omega
      · have := List.find?_some hidx'
        simp at this
    have := gone_fabric_unreferenced n h idx' hne0 hfresh
    exact ⟨this.1, this.2, hfresh⟩
  repeat' split at hres
  all_goals first | (subst hres; simp at hacc; done) | skip
  · -- promoted PASE session
    rename_i idx' hidx' _ _ _ _
    have ⟨k1, k2, k3⟩ := key idx' hidx'
    subst hres
    simp only [Status.okIdx.injEq] at hacc
    subst hacc
    refine ⟨fun s' hs' he hf => ?_, k2, k3⟩
    simp only [List.mem_map] at hs'
    obtain ⟨s0, hs0, rfl⟩ := hs'
    by_cases hsid : s0.id = sid
    · simp [hsid]
    · simp only [hsid, if_false] at he hf ⊢
      exact absurd hf (k1 s0 hs0 he)
  · -- CASE session: nobody is bound to the new index
    rename_i idx' hidx' _ _ _ _ _
    have ⟨k1, k2, k3⟩ := key idx' hidx'
    subst hres
    simp only [Status.okIdx.injEq] at hacc
    subst hacc
    exact ⟨fun s' hs' he hf => absurd hf (k1 s' hs' he), k2, k3⟩

/-- the same for the whole command (the retry of a failed resumption-cache store that precedes it
touches neither the fabric table nor the sessions nor the cache) -/
theorem new_fabric_starts_clean (cfg : Cfg) (n : Node) (sid s ca fid node subj ser idx : Nat) (mode : Mode)
    (h : NoRef n) (hacc : (sessOp cfg n sid mode (.addnoc s ca fid node subj ser)).2 = .okIdx idx) :
    (∀ s' ∈ (sessOp cfg n sid mode (.addnoc s ca fid node subj ser)).1.sessions,
        s'.expired = false → s'.mode.fab = idx → s'.id = sid) ∧
    (∀ r' ∈ (sessOp cfg n sid mode (.addnoc s ca fid node subj ser)).1.resum, r'.fab ≠ idx) ∧
    hasFabric n idx = false := by
  simp only [sessOp] at hacc ⊢
  rcases retryResum_cases n with hr | hr
  · rw [hr] at hacc ⊢
    exact addNoc_starts_clean cfg n sid ca fid node subj ser idx mode h hacc
  · rw [hr] at hacc ⊢
    have h1 := storeResum_noRef n h
    have ⟨hfr, _⟩ := storeResum_spec n
    rcases hst : storeResum n with ⟨n1, b⟩
    rw [hst] at hacc h1 hfr
    cases b with
    | false => simp at hacc
    | true =>
      have := addNoc_starts_clean cfg n1 sid ca fid node subj ser idx mode h1 hacc
      refine ⟨this.1, this.2.1, ?_⟩
      have h3 := this.2.2
      rw [hasFabric_eq] at h3 ⊢
      rw [← hfr.fabrics]; exact h3

/-! ## other fabrics -/

/-- RemoveFabric keeps every session of the other fabrics exactly as it was -/
theorem removeForFabric_others (l : List Sess) (idx : Nat) (exp : Option Nat) (s : Sess) (hs : s ∈ l)
    (hf : s.mode.fab ≠ idx) (hid : some s.id ≠ exp) : s ∈ removeForFabric l idx exp := by
  unfold removeForFabric
  rw [List.mem_map]
  refine ⟨s, List.mem_filter.mpr ⟨hs, by simp [hf]⟩, by simp [hid]⟩

theorem removePase_others (l : List Sess) (exp : Option Nat) (s : Sess) (hs : s ∈ l)
    (hc : s.mode.isPase = false) : s ∈ removePase l exp := by
  unfold removePase
  rw [List.mem_map]
  refine ⟨s, List.mem_filter.mpr ⟨hs, by simp [hc]⟩, by simp [hc]⟩

/-- **Sessions of other fabrics are unaffected by a rollback**: every CASE session that is not on
the removed fabric (and is not the triggering session) is still there, unchanged. -/
theorem rollback_others_untouched (n : Node) (removed exp : Option Nat) (s : Sess) (hs : s ∈ n.sessions)
    (hc : s.mode.isPase = false) (hf : ∀ idx, removed = some idx → s.mode.fab ≠ idx) (hid : some s.id ≠ exp) :
    s ∈ rollbackSessions n removed exp := by
  unfold rollbackSessions
  cases removed with
  | none => exact removePase_others _ _ s hs hc
  | some idx =>
    apply removePase_others _ _ s _ hc
    apply removeForFabric_others _ _ _ s hs (hf idx rfl)
    split
    · split
      · exact hid
      · simp
    · simp

example : ∃ (l : List Sess) (s : Sess), s ∈ l ∧ s.mode.fab ≠ 1 ∧ some s.id ≠ (none : Option Nat) :=
  ⟨[{ id := 0, mode := .case 2, peer := 1, expired := false, gen := 0 }], _, List.mem_cons_self, by decide, by simp⟩

/-- **RemoveFabric leaves the sessions of the other fabrics exactly as they were** - acknowledged or
not: every session that is not on the removed index is still in the table, unchanged (the issuing
session included when it belongs to another fabric: it is expired only when it is on the removed one) -/
theorem rmfab_others_untouched (cfg : Cfg) (n : Node) (sid s idx : Nat) (mode : Mode) (t : Sess)
    (ht : t ∈ n.sessions) (hf : t.mode.fab ≠ idx) (hown : t.id = sid → mode.fab ≠ idx) :
    t ∈ (sessOp cfg n sid mode (.rmfab s idx)).1.sessions := by
  simp only [sessOp]
  split
  · exact ht
  · split
    · have ⟨_, p2, _⟩ := purgeResum_mem n idx
      rcases hp : purgeResum n idx with ⟨n2, b⟩
      rw [hp] at p2
      simp only at p2
      cases b with
      | false => simp only []; rw [p2]; exact ht
      | true =>
        simp only []
        have hfr := (removeFabricKey_spec n2 idx).1
        rcases hrk : removeFabricKey n2 idx with ⟨n3, b3⟩
        rw [hrk] at hfr
        simp only at hfr
        have ht3 : t ∈ n3.sessions := by rw [hfr.sessions, p2]; exact ht
        cases b3 with
        | false => exact ht3
        | true =>
          simp only [ok]
          apply removeForFabric_others _ _ _ t ht3 hf
          split
          · rename_i hm
            intro he
            injection he with he
            exact hown he hm
          · simp
    · exact ht

/-- **A rollback leaves the sessions of the other fabrics exactly as they were - also the one that
triggers it**: a CASE session that is not on the fabric the rollback removes stays in the table,
unchanged, even when it is the session that issued ArmFailSafe(0) / RevokeCommissioning (`exp`);
needed: no session with its id is on the removed fabric (session ids are unique in the code). -/
theorem rollback_others_untouched_trigger (n : Node) (removed exp : Option Nat) (s : Sess) (hs : s ∈ n.sessions)
    (hc : s.mode.isPase = false) (hf : ∀ idx, removed = some idx → ∀ t ∈ n.sessions, t.id = s.id → t.mode.fab ≠ idx) :
    s ∈ rollbackSessions n removed exp := by
  unfold rollbackSessions
  cases removed with
  | none => exact removePase_others _ _ s hs hc
  | some idx =>
    apply removePase_others _ _ s _ hc
    apply removeForFabric_others _ _ _ s hs (hf idx rfl s hs rfl)
    cases exp with
    | none => simp
    | some e =>
      simp only []
      split
      · rename_i hany
        intro he
        injection he with he
        rw [List.any_eq_true] at hany
        obtain ⟨t, htm, htc⟩ := hany
        simp only [decide_eq_true_eq] at htc
        exact hf idx rfl t htm (by rw [htc.1, he]) htc.2
      · simp

/-- the same for the whole expiry (`FailSafe::expire`, whichever of its three callers) -/
theorem expiry_others_untouched (cfg : Cfg) (n : Node) (a : Armed) (exp : Option Nat) (s : Sess) (hs : s ∈ n.sessions)
    (hc : s.mode.isPase = false) (hf : ∀ t ∈ n.sessions, t.id = s.id → t.mode.fab ≠ a.fab) :
    s ∈ (expireAndPurge cfg n a exp).1.sessions := by
  have hexp : s ∈ (expireArmed cfg n a exp).1.sessions := by
    unfold expireArmed
    cases hr : rollbackFabrics cfg n a with
    | error e => exact hs
    | ok fs =>
      simp only []
      apply rollback_others_untouched_trigger n _ exp s hs hc
      intro idx hidx t ht hid
      split at hidx
      · injection hidx with hidx; rw [← hidx]; exact hf t ht hid
      · cases hidx
  unfold expireAndPurge
  rcases hres : expireArmed cfg n a exp with ⟨n1, e, r⟩
  rw [hres] at hexp
  cases e with
  | some e => exact hexp
  | none =>
    cases r with
    | none => exact hexp
    | some idx =>
      simp only []
      have := purgeResum_sessions n1 idx
      rcases hp : purgeResum n1 idx with ⟨n2, b⟩
      rw [hp] at this
      cases b <;> (simp only []; rw [this]; exact hexp)
/-- fabrics 1 and 2 with a CASE session each, a third commissioning in flight (fail-safe bound to the
new fabric 3): the session of fabric 2 forces the expiry (`ArmFailSafe(0)` is accepted from any
session) - fabric 3 goes, the sessions of fabrics 1 and 2 stay, the triggering one included, not expired -/
example :
    let ops : List Op := [.boot, .pase, .arm 0 60, .csr 0 false, .root 0 1, .addnoc 0 1 5 10 100 1,
      .caseEst 1 100 1, .complete 1, .boot, .pase, .arm 2 60, .csr 2 false, .root 2 2,
      .addnoc 2 2 6 11 101 2, .caseEst 2 101 2, .complete 3, .boot, .pase, .arm 4 60, .csr 4 false,
      .root 4 3, .addnoc 4 3 7 12 102 3, .caseEst 3 102 3]
    (run {} {} ops).fs.map (·.fab) = some 3 ∧
    (∀ t ∈ (run {} {} ops).sessions, t.id = 3 → t.mode.fab ≠ 3) ∧
    (step {} (run {} {} ops) (.arm 3 0)).2 = .ok ∧
    (step {} (run {} {} ops) (.arm 3 0)).1.sessions.map (fun s => (s.id, s.mode.fab, s.expired)) =
      [(1, 1, false), (3, 2, false)] := by
  refine ⟨by decide, by decide, by decide, by decide⟩

/-! ## the ghost-generation form -/

/-- **`NoDangling` is an invariant** (together with `StoreSub`): after every history without restart -
any command order, any session, reserved sessions that complete later, store faults at any write,
factory resets that no store fault hits - every non-expired secure session and every resumption
record refers to a fabric that exists with the generation it was made for.  (Superseded by
`C07_full_noDangling_holds`, which has the restarts as well; kept because it needs `GenInv` only.) -/
theorem noDangling_always (cfg : Cfg) (ops : List Op) (hno : ResetsClean cfg {} ops)
    (hnr : ∀ op ∈ ops, restartLike op = false) : NoDangling (run cfg {} ops) :=
  (run_genInv cfg ops {} genInv_init hno hnr).1

example : ∃ ops : List Op, ResetsClean {} {} ops ∧ (∀ op ∈ ops, restartLike op = false) ∧
    (run {} {} ops).sessions.length = 2 :=
  ⟨[.boot, .pase, .arm 0 60, .csr 0 false, .root 0 1, .addnoc 0 1 5 10 100 1, .caseEst 1 100 1],
   by decide, by decide, by decide⟩

/-- a restart from a store whose resumption records fit its fabrics keeps the invariant -/
theorem restart_noDangling (n : Node) (kv : KV) (hist : List KV) (h : RecOK kv) :
    NoDangling (restartFrom n kv hist) :=
  (restartFrom_genInv n kv hist h).1

/-- index reuse is covered: a session or record of an earlier incarnation of the index cannot be
usable - its generation would have to be the one of the fabric that is there now -/
theorem no_session_of_another_incarnation (n : Node) (h : NoDangling n) (s : Sess) (hs : s ∈ n.sessions)
    (he : s.expired = false) (h0 : s.mode.fab ≠ 0) (f : Fabric) (hf : getFabric n s.mode.fab = some f) :
    s.gen = f.gen := by
  have := h.1 s hs he h0
  unfold fabGen at this
  rw [hf] at this
  simpa using this.symm

theorem no_record_of_another_incarnation (n : Node) (h : NoDangling n) (r : Resum) (hr : r ∈ n.resum)
    (f : Fabric) (hf : getFabric n r.fab = some f) : r.gen = f.gen := by
  have := h.2 r hr
  unfold fabGen at this
  rw [hf] at this
  simpa using this.symm

/-- **The full statement: EVERY history** - store faults at any write, restarts, crash points (restart
from ANY element of the store history), corrupted resumption blobs, the factory-reset-before-start-up
and factory resets of the running node, all together: nothing dangles.  The one exclusion
(`ResetsClean`, decidable on histories): no factory reset of the history is hit by a store fault (and
the stored fabric indices are in the key range `1..255` it walks - a `u8` in the code).  Index re-use
across a restart is covered: the stored resumption records always fit the stored fabrics (`RecOK`).
This became provable with the repair of `C07-failed-purge-on-rollback`: a store of the (purged)
resumption cache that failed is remembered (`resumStale`) and retried before `AddNOC` makes a new
fabric - a stored record whose fabric is gone can only be there while the mark is set (`RecLive`), and
no fabric index is handed out while it is. -/
def C07_full_noDangling : Prop :=
  ∀ (cfg : Cfg) (ops : List Op), ResetsClean cfg {} ops → NoDangling (run cfg {} ops)

theorem C07_full_noDangling_holds : C07_full_noDangling :=
  fun cfg ops hno => (run_good cfg ops {} genInv_init rec_init hno).1.1

/-- in particular for every history without factory reset -/
theorem noDangling_without_reset (cfg : Cfg) (ops : List Op) (hno : Op.freset ∉ ops) :
    NoDangling (run cfg {} ops) :=
  C07_full_noDangling_holds cfg ops (resetsClean_of_none cfg ops {} hno)

/-- ... and every store a crash can leave behind is fit for a restart -/
theorem every_snapshot_recOK (cfg : Cfg) (ops : List Op) (hno : ResetsClean cfg {} ops) :
    RecOK (run cfg {} ops).kv ∧ ∀ kv ∈ (run cfg {} ops).hist, RecOK kv := by
  have ⟨hg, hr⟩ := run_good cfg ops {} genInv_init rec_init hno
  exact ⟨recOK_of hg hr.live, hr.hist⟩

/-- **What the exclusion excludes** (open finding `C07-faulty-factory-reset-leaves-keys`, replayed on
the real code): the factory reset is hit by a store fault at the first fabric key - it answers the
error, key 1 stays in the store.  The node carries on: a new fabric gets index 1, a CASE session is
established on it, the fail-safe runs out - the rollback "restores" the stored copy of the OLD
fabric 1, and the session made for the new one is usable on it. -/
def faultyResetOps : List Op :=
  [.boot, .pase, .arm 0 60, .csr 0 false, .root 0 1, .addnoc 0 1 5 10 100 1, .caseEst 1 100 1, .complete 1,
   .kvfail 1, .freset, .boot, .pase, .arm 2 60, .csr 2 false, .root 2 2, .addnoc 2 2 6 11 101 2,
   .caseEst 1 101 2, .tick 61, .poll]

theorem faulty_reset_witness :
    ¬ ResetsClean {} {} faultyResetOps ∧ ¬ NoDangling (run {} {} faultyResetOps) ∧
    NoRef (run {} {} faultyResetOps) := by
  refine ⟨by decide +kernel, ?_, noRef_always {} _⟩
  intro h
  have hs : ({ id := 3, mode := .case 1, peer := 101, expired := false, gen := 2 } : Sess) ∈
      (run {} {} faultyResetOps).sessions := by decide +kernel
  have := h.1 _ hs rfl (by decide)
  revert this
  decide +kernel

/-- a history WITH a factory reset of the running node that satisfies the hypothesis: commissioning,
CASE session, factory reset, a new commissioning that re-uses index 1, restart -/
example :
    let ops : List Op := [.boot, .pase, .arm 0 60, .csr 0 false, .root 0 1, .addnoc 0 1 5 10 100 1,
      .caseEst 1 100 1, .complete 1, .flush, .freset, .boot, .pase, .arm 2 60, .csr 2 false, .root 2 2,
      .addnoc 2 2 6 11 101 2, .caseEst 1 101 2, .complete 3, .restart]
    ResetsClean {} {} ops ∧ Op.freset ∈ ops ∧ (run {} {} ops).fabrics.map (·.gen) = [2] := by
  refine ⟨by decide +kernel, by decide, by decide +kernel⟩

/-- a history with removal, restart, re-use of the index and a crash point -/
example :
    let ops : List Op := [.boot, .pase, .arm 0 60, .csr 0 false, .root 0 1, .addnoc 0 1 5 10 100 1,
      .caseEst 1 100 1, .complete 1, .flush, .rmfab 1 1, .restart, .boot, .pase, .arm 0 60, .csr 0 false,
      .root 0 2, .addnoc 0 2 6 11 101 2, .caseEst 1 101 2, .complete 1, .crash 3]
    ResetsClean {} {} ops ∧ Calm {} {} ops ∧ (run {} {} ops).fabrics.length = 1 := by
  refine ⟨by decide, by decide, by decide⟩

/-- (`Calm` = the fault counter is 0 in every state of the run, i.e. the history has no `kvfail k`
with `k > 0` at all - it only DESCRIBES the two examples, no theorem needs it any more.)
The history of the repaired finding `C07-failed-purge-on-rollback` (a store fault during the
rollback, index re-use, restart): the failed store is retried by the second `AddNOC`, the restart
loads no record of the dropped fabric -/
example :
    let ops : List Op := [.boot, .pase, .arm 0 60, .csr 0 false, .root 0 1, .addnoc 0 1 5 10 100 1, .caseEst 1 100 1,
      .flush, .kvfail 1, .arm 1 0, .pase, .arm 2 60, .csr 2 false, .root 2 2, .addnoc 2 2 6 11 101 2,
      .caseEst 1 101 2, .complete 3, .restart]
    ResetsClean {} {} ops ∧ ¬ Calm {} {} ops ∧ (run {} {} ops).resum = [] ∧ (run {} {} ops).fabrics.length = 1 := by
  refine ⟨by decide, by decide, by decide, by decide⟩

end C07
