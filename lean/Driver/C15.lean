import Driver.TransportCommon
/-! Driver for C15: model correspondence (`Driver.TC.modelStep`) + the property's specification
evaluated on the implementation's own outputs:
* a message that is not a retransmission carries a counter strictly greater than all earlier ones
  of that session;
* a retransmission carries the counter of its original and — when the builder is idempotent, i.e.
  the op text is the same — exactly the original's header output (counter, piggy-backed ack, session id);
* session ids handed out by the allocator differ from the ids of live sessions, and stay unique
  once installed;
* on every session no two live exchanges share (exchange id, role). -/
namespace Driver.C15
open Driver.TC

structure Orig where
  uid : Nat
  slot : Nat
  ctr : Nat
  op : String
  out : String
  /-- a reliable message without ack flag was received on that exchange while this one was pending
  (peer violating the one-outstanding-message discipline): identity of the piggy-backed ack is not demanded -/
  tainted : Bool := false

structure OSt where
  /-- per session uid: largest counter sent so far -/
  sentMax : List (Nat × Nat) := []
  origs : List Orig := []
  pendingSids : List Nat := []
  sidTaint : Bool := false
  prev : ISnap := {}

structure St where
  m : MSt := {}
  o : OSt := {}
  sys : Bool := false

def dupBy (f : α → β) [BEq β] : List α → Bool
  | [] => false
  | a :: rest => rest.any (fun b => f b == f a) || dupBy f rest

def field (ws : List String) (k : String) : Option String :=
  match ws.dropWhile (· != k) with
  | _ :: v :: _ => some v
  | _ => none

def stillPending (snap : ISnap) (g : Orig) : Bool :=
  (snap.sess g.uid).any (fun s => (s.slots.getD g.slot none).any (fun x => x.rt.any (fun p => p.1 == g.ctr)))

/-- the specification on the implementation's outputs; `none` = fine -/
def oracle (o : OSt) (w : List String) (res : String) (snap : ISnap) : OSt × Option String :=
  let n (i : Nat) : Nat := ((w.getD i "").toNat?).getD 0
  let rw := words res
  let (o, verdict) : OSt × Option String :=
    match w.getD 0 "" with
    | "tx" =>
      match field rw "ctr", field rw "rt" with
      | some cs, some rts =>
        let c := cs.toNat?.getD 0
        let uid := n 1
        let slot := (w.getD 2 "-").toNat?
        if rts = "0" then
          let bad := o.sentMax.any (fun p => p.1 == uid && c ≤ p.2)
          let o1 := { o with sentMax := (uid, c) :: o.sentMax.filter (·.1 != uid) }
          let o2 := match slot with
            | some sl =>
              -- became a pending original iff the implementation now shows a pending retransmission for it
              let pend := (snap.sess uid).any (fun s => ((s.slots.getD sl none).any (fun x => x.rt.any (·.1 == c))))
              if pend then { o1 with origs := { uid := uid, slot := sl, ctr := c, op := " ".intercalate w, out := res } ::
                                o1.origs.filter (fun g => !(g.uid == uid && g.slot == sl)) }
              else o1
            | none => o1
          (o2, if bad then some s!"new message reuses or goes below an earlier counter of session {uid}: ctr={c}" else none)
        else
          match slot with
          | none => (o, some "retransmission flagged for a message outside any exchange")
          | some sl =>
            match o.origs.find? (fun g => g.uid == uid && g.slot == sl) with
            | none => (o, some s!"retransmission without a pending original on session {uid} slot {sl}")
            | some g =>
              if g.ctr != c then (o, some s!"retransmission counter {c} differs from the original's {g.ctr}")
              else if g.op = " ".intercalate w && !g.tainted && res.replace " rt 1 " " rt 0 " != g.out then
                (o, some s!"retransmission differs from the original: '{res}' vs '{g.out}'")
              else (o, none)
      | _, _ =>
        -- a send on a live exchange must not panic (a retransmission whose counter does not match the
        -- remembered one trips `RetransEntry::pre_send`'s consistency check)
        let live := match (w.getD 2 "-").toNat? with
          | some sl => (o.prev.sess (n 1)).any (fun s => (s.slots.getD sl none).isSome)
          | none => false
        (o, if res = "panic" && live then some "sending on a live exchange panicked" else none)
    | "rx" =>
      -- reliable, no ack flag, addressed to an exchange id with a pending original: taint (see `Orig.tainted`)
      if w.getD 5 "-" = "-" && w.getD 6 "" = "r" then
        let uid := n 1
        let ex := n 3
        let hit (g : Orig) : Bool := g.uid == uid &&
          (o.prev.sess uid).any (fun s => (s.slots.getD g.slot none).any (fun x => x.id == ex))
        ({ o with origs := o.origs.map (fun g => if hit g then { g with tainted := true } else g) }, none)
      else (o, none)
    | "setctr" => ({ o with sentMax := o.sentMax.filter (·.1 != n 1) }, none)
    | "sid" =>
      let v := res.toNat?.getD 0
      let live := o.prev.sessions.map (·.lsid)
      ({ o with pendingSids := v :: o.pendingSids },
        if v = 0 then some "session id 0 allocated"
        else if live.contains v then some s!"allocated session id {v} is the id of a live session"
        else none)
    | "setsid" => ({ o with pendingSids := [] }, none)
    | "lsid" | "upd" =>
      let v := n 2
      if res != "ok" then (o, none)
      else if o.pendingSids.contains v then ({ o with pendingSids := o.pendingSids.erase v }, none)
      else ({ o with sidTaint := true }, none)
    | "init" =>
      match rw with
      | ["x", xs, _] =>
        let x := xs.toNat?.getD 0
        let clash := (o.prev.sess (n 1)).any (fun s => s.live.any (fun e => !e.isResponder && e.id == x))
        (o, if clash then some s!"initiate returned exchange id {x} which a live initiator exchange of session {n 1} already has" else none)
      | _ => (o, none)
    | _ => (o, none)
  -- invariants on every snapshot
  let exDup := snap.sessions.find? (fun s => dupBy (fun (e : ISlot) => (e.id, e.isResponder)) s.live)
  let sidDup := !o.sidTaint && dupBy (·.lsid) (snap.sessions.filter (fun s => s.lsid != 0))
  -- forget originals whose retransmission is no longer pending
  let o := { o with origs := o.origs.filter (stillPending snap), prev := snap }
  let verdict := match verdict with
    | some v => some v
    | none =>
      match exDup with
      | some s => some s!"two live exchanges of session {s.uid} share exchange id and role"
      | none => if sidDup then some "two live sessions share a local session id" else none
  (o, verdict)


/-! ### system-level wire tap (`sys` cases): every datagram of a run between two real nodes

Specification (property text): on every session each outgoing message that is not a retransmission
carries a counter strictly greater than all earlier ones of that session, and a retransmission is
bit-for-bit identical to the original — so no (key, counter, source) nonce ever protects two
different messages. On the wire a *stream* is (sending node, receiving node, session id in the
header, source / destination node id of unsecured headers); within a stream, in sending order, a
datagram either repeats a counter seen before — then all its bytes must equal the first one's — or
carries a new one, which must not lie below the earlier ones (up to the reordering between the two
send paths of the transport: at most a few positions). Session-less replies of the transport (Busy /
SessionNotFound status reports, built outside any session with a constant counter) carry no nonce
and are left out. -/

def hexVal (c : Char) : Nat :=
  if c.isDigit then c.toNat - '0'.toNat else if 'a' ≤ c && c ≤ 'f' then c.toNat - 'a'.toNat + 10 else 0

def unhex (s : String) : List Nat :=
  let rec go : List Char → List Nat
    | a :: b :: rest => (hexVal a * 16 + hexVal b) :: go rest
    | _ => []
  go s.toList

def le (bs : List Nat) (off n : Nat) : Nat :=
  (List.range n).foldl (fun acc i => acc + (bs.getD (off + i) 0) * 256 ^ i) 0

structure WDg where
  idx : Nat
  sender : Nat
  hex : String
  sess : Nat
  ctr : Nat
  /-- (source node id, destination node id) as far as present -/
  ids : Nat × Nat
  /-- unsecured status report with protocol code 4 (Busy) or 5 (SessionNotFound) -/
  sessionless : Bool

def parseWDg (idx : Nat) (tok : String) : Option WDg :=
  match tok.splitOn ":" with
  | [_, f, _, h] =>
    let b := unhex h
    if b.length < 8 then none else
    let flags := b.getD 0 0
    let sess := le b 1 2
    let ctr := le b 4 4
    let hasSrc := flags / 4 % 2 == 1
    let dsiz := flags % 4
    let src := if hasSrc then le b 8 8 + 1 else 0
    let o1 := if hasSrc then 16 else 8
    let dst := if dsiz == 1 then le b o1 8 + 1 else if dsiz == 2 then le b o1 2 + 1 else 0
    let o := o1 + (if dsiz == 1 then 8 else if dsiz == 2 then 2 else 0)
    let unsec := sess == 0 && (b.getD 3 0) % 4 == 0
    let xf := b.getD o 0
    let opc := b.getD (o + 1) 0
    let proto := le b (o + 4) 2
    let p := o + 6 + (if xf / 16 % 2 == 1 then 2 else 0) + (if xf / 2 % 2 == 1 then 4 else 0)
    let sl := unsec && proto == 0 && opc == 0x40 && (le b (p + 6) 2 == 4 || le b (p + 6) 2 == 5)
    some { idx := idx, sender := f.toNat?.getD 0, hex := h, sess := sess, ctr := ctr, ids := (src, dst), sessionless := sl }
  | _ => none

structure WStream where
  key : Nat × Nat × Nat × Nat
  /-- (counter, datagram) first seen, newest first -/
  seen : List (Nat × String)
  max : Nat

def wireVerdict (res : String) : Option String :=
  match words res with
  | [_, body] =>
    let dgs := (body.splitOn ",").zipIdx.filterMap (fun (t, i) => parseWDg i t)
    let step (acc : List WStream × Option String) (d : WDg) : List WStream × Option String :=
      match acc.2 with
      | some _ => acc
      | none =>
        if d.sessionless then acc else
        let key := (d.sender, d.sess, d.ids.1, d.ids.2)
        match acc.1.find? (fun s => s.key == key) with
        | none => ({ key := key, seen := [(d.ctr, d.hex)], max := d.ctr } :: acc.1, none)
        | some s =>
          match s.seen.find? (fun p => p.1 == d.ctr) with
          | some (_, h0) =>
            if h0 == d.hex then acc
            else (acc.1, some s!"datagram {d.idx} (node {d.sender}, session {d.sess}) carries counter {d.ctr} again with different bytes: the nonce (key, counter, source) protects two different messages / the retransmission is not identical to the original")
          | none =>
            -- counters are taken in order, but a stand-alone acknowledgement for a duplicate goes to the
            -- wire directly while an older message still waits in the transmit slot: a counter may
            -- appear a few positions late. Anything further back is a counter that went backwards.
            if d.ctr + 16 ≤ s.max && d.sess != 0 then
              (acc.1, some s!"datagram {d.idx} (node {d.sender}, session {d.sess}): new counter {d.ctr} lies far below earlier ones (max {s.max}): the send counter went backwards")
            else if d.ctr + 16 ≤ s.max then
              -- an UNSECURED stream (session id 0: no key, no nonce; the property's counter clause speaks of
              -- secure sessions): a node that lost its unsecured session towards this peer (e.g. a handshake
              -- that ended with an error) creates a new one with a new random counter when the peer's
              -- retransmission arrives - a new epoch of the stream, not a counter that went backwards
              (acc.1.map (fun t => if t.key == key then { t with seen := (d.ctr, d.hex) :: t.seen, max := d.ctr } else t), none)
            else
              (acc.1.map (fun t => if t.key == key then { t with seen := (d.ctr, d.hex) :: t.seen, max := max t.max d.ctr } else t), none)
    (dgs.foldl step ([], none)).2
  | ["0"] => none
  | _ => some "BAD tap line"

def step (st : St) (line : String) : St × String :=
  let (op, out) := splitArrow line
  match words op with
  | "case" :: _ :: kind => ({ m := newCase kind, sys := kind.head? = some "sys" }, "case")
  | w =>
    if st.sys then
      if out = "panic" then (st, "ORA a node panicked") else
      match w.getD 0 "" with
      | "tap" =>
        match wireVerdict out with
        | some why => (st, if why.startsWith "BAD" then why else s!"ORA {why}")
        | none => (st, "ok")
      | _ =>
        if out = "hang" then (st, "ORA the script did not finish (hang)")
        -- the transport refuses a rebuilt message that differs from its first transmission (`Invalid`): that must
        -- never hit an honest (idempotent) builder - only the harness's `flaky=` / `flakyrel=` builders and the
        -- handshakes whose node certificate was replaced under them (`upd=`)
        else if out.startsWith "err:Invalid" && !(w.any (fun t => t.startsWith "flaky=" || t.startsWith "flakyrel=" || t.startsWith "upd=")) && w.getD 0 "" != "hs" then
          (st, "ORA the transport refused the retransmission of an idempotent builder (send failed with Invalid)")
        else (st, "ok")
    else
    let (res, snapS) := splitHash out
    let (m', dis) := modelStep st.m op out
    let (o', ora) := if st.m.isMrp then (st.o, none) else oracle st.o w res (parseSnap snapS)
    let st' : St := { m := m', o := o' }
    match ora with
    | some why => (st', s!"ORA {why}")
    | none =>
      match dis with
      | some mo => (st', s!"DIS {mo}")
      | none => (st', "ok")

def run : IO UInt32 := Driver.runLoop ({} : St) step

end Driver.C15
