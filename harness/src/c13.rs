//! C13: a subscriber eventually learns every change it subscribed to.
//!
//! State-level stream: the REAL `rs_matter::im::subscriptions::Subscriptions<N>` table driven
//! through the `verif_*` hooks with explicit instants.  The `ReportContext`s returned by
//! `add` (priming, the subscription is outside the table) and `report` (the subscription is moved
//! out of the table) are kept alive by the harness until a `fin` op ends them, so that changes,
//! other reports, purges and removals interleave with in-flight subscriptions exactly as the
//! responder / reporter tasks of `im.rs` interleave at their await points.
//!
//! After every op the complete private state (counters, table in order, in-flight snapshot,
//! changed-attribute entries in order, live contexts sorted by id) is dumped.
use std::panic::{catch_unwind, AssertUnwindSafe};

use crate::proto::{parse_cases, Case, Out};
use crate::rng::Rng;
use crate::Args;

use core::num::NonZeroU8;
use embassy_time::Instant;
use rs_matter::im::subscriptions::{ReportContext, Subscriptions, SubscriptionsBuffers, VerifItem, VerifSub};
use rs_matter::error::Error;
use rs_matter::im::IMBuffer;
use rs_matter::persist::{KvBlobStore, PERSISTENT_SUBSCRIPTIONS_START};
use rs_matter::tlv::TLVElement;
use rs_matter::utils::storage::pooled::{Buffers, PooledBuffers};

/// system-level stream: the real reporter / responder tasks on the simulated network
#[path = "c13_sys.rs"]
mod sys;

/// event rings + table + reader: what a report to a live subscription carries
#[path = "c13_evs.rs"]
mod evs;

const POOL: usize = 6;
type Pool = PooledBuffers<IMBuffer, POOL>;

const HZ: u64 = embassy_time::TICK_HZ;

/// the probed universe of concrete paths (endpoint-major), shared with the Lean driver
fn probes() -> Vec<(u16, u32, u32)> {
    let mut v = Vec::new();
    for e in 0..3u16 {
        for c in 1..4u32 {
            for a in 0..4u32 {
                v.push((e, c, a));
            }
        }
    }
    v
}

fn r_sub(s: &VerifSub) -> String {
    format!(
        "{},{},{},{},{},{},{},{},{},{},{}",
        s.id,
        s.fab_idx,
        s.peer_node_id,
        s.min_int_secs,
        s.max_int_secs,
        s.reported_at,
        s.retry_at,
        s.fail_count,
        s.max_seen_attr_change_id,
        s.max_seen_event_number,
        s.resumed_at
    )
}

fn join_or(v: Vec<String>) -> String {
    if v.is_empty() {
        "-".into()
    } else {
        v.join(";")
    }
}

/// number of boots a case can go through (tables are allocated up front: the report contexts
/// borrow them)
const BOOTS: usize = 4;

/// the retained key-value store: it survives a `restart`
#[derive(Default)]
struct MemKv(std::collections::BTreeMap<u16, Vec<u8>>);

impl KvBlobStore for MemKv {
    fn load<'b>(&mut self, key: u16, buf: &'b mut [u8]) -> Result<Option<&'b [u8]>, Error> {
        match self.0.get(&key) {
            None => Ok(None),
            Some(v) => {
                let n = v.len().min(buf.len());
                buf[..n].copy_from_slice(&v[..n]);
                Ok(Some(&buf[..n]))
            }
        }
    }

    fn store(&mut self, key: u16, data: &[u8], _buf: &mut [u8]) -> Result<(), Error> {
        self.0.insert(key, data.to_vec());
        Ok(())
    }

    fn remove(&mut self, key: u16, _buf: &mut [u8]) -> Result<(), Error> {
        self.0.remove(&key);
        Ok(())
    }
}

/// `fab,peer,min,max,id` of one persisted record (context tags 0..3 and 5 of `PersistedSubscription`)
fn r_rec(data: &[u8]) -> String {
    let e = TLVElement::new(data);
    let f = |tag: u8| -> String {
        e.structure()
            .and_then(|s| s.find_ctx(tag))
            .and_then(|x| x.u64())
            .map(|v| v.to_string())
            .unwrap_or_else(|_| "?".into())
    };
    format!("{},{},{},{},{}", f(0), f(1), f(2), f(3), f(5))
}

struct Runner<'a, 's, const N: usize> {
    pools: &'a [Box<Pool>],
    tables: &'s [Box<Subscriptions<N>>],
    all_bufs: &'s [Box<SubscriptionsBuffers<'a, Pool, N>>],
    boot: usize,
    pool: &'a Pool,
    subs: &'s Subscriptions<N>,
    bufs: &'s SubscriptionsBuffers<'a, Pool, N>,
    ctxs: Vec<(u32, ReportContext<'a, 's, Pool, N>)>,
    kv: MemKv,
    dead: bool,
    /// generator-visible facts
    last_table: Vec<VerifSub>,
}

impl<'a, 's, const N: usize> Runner<'a, 's, N> {
    fn dump(&mut self) -> String {
        let mut counters = String::new();
        let mut table = Vec::new();
        let mut tab_views = Vec::new();
        let mut reporting = "-".to_string();
        let mut entries = Vec::new();
        self.subs.verif_visit(&mut |it| match it {
            VerifItem::Counters { next_subscription_id, subscriptions_count, next_change_id, reporting_cancelled } => {
                counters = format!(
                    "{} {} {} {}",
                    next_subscription_id,
                    subscriptions_count,
                    next_change_id,
                    if reporting_cancelled { 1 } else { 0 }
                );
            }
            VerifItem::Sub(s) => {
                table.push(r_sub(&s));
                tab_views.push(s);
            }
            VerifItem::Reporting(s) => reporting = r_sub(&s),
            VerifItem::Entry { endpoint, cluster, attr, change_id } => {
                entries.push(format!("{}.{}.{}@{}", endpoint, cluster, attr, change_id))
            }
        });
        self.last_table = tab_views;
        let mut cx: Vec<(u32, String)> = self
            .ctxs
            .iter()
            .map(|(id, c)| {
                let n = c.verif_next();
                (*id, format!("{},{},{},{},{},{}", id, n.0, n.1, n.2, n.3, n.4))
            })
            .collect();
        cx.sort();
        // the persisted records, slot by slot up to the first empty one (what `load_persist` reads)
        let mut recs = Vec::new();
        for slot in 0..64u16 {
            match self.kv.0.get(&(PERSISTENT_SUBSCRIPTIONS_START + slot)) {
                Some(v) => recs.push(r_rec(v)),
                None => break,
            }
        }
        format!(
            "{} | {} | {} | {} | {} | {}",
            counters,
            reporting,
            join_or(table),
            join_or(entries),
            join_or(cx.into_iter().map(|x| x.1).collect()),
            join_or(recs)
        )
    }

    fn exec_inner(&mut self, op: &str) -> String {
        let w: Vec<&str> = op.split_whitespace().collect();
        let num = |i: usize| -> u64 { w.get(i).and_then(|x| x.parse::<u64>().ok()).unwrap_or(0) };
        match w.first().copied().unwrap_or("") {
            "chg" => {
                self.subs.verif_notify_attr_changed(num(1) as u16, num(2) as u32, num(3) as u32);
                "-".into()
            }
            "chgw" => {
                let e = w.get(1).and_then(|x| x.parse::<u16>().ok());
                let c = if e.is_none() { None } else { w.get(2).and_then(|x| x.parse::<u32>().ok()) };
                self.subs.verif_notify_wildcard(e, c);
                "-".into()
            }
            "add" => {
                let Some(buf) = self.pool.get_immediate() else {
                    return "nobuf".into();
                };
                let fab = NonZeroU8::new((num(2) as u8).max(1)).unwrap();
                match self.subs.verif_add(
                    Instant::from_ticks(num(1)),
                    fab,
                    num(3),
                    num(4) as u16,
                    num(5) as u16,
                    num(6),
                    buf,
                    self.bufs,
                ) {
                    Some(c) => {
                        let id = c.subscription().ids().id;
                        self.ctxs.push((id, c));
                        format!("some {}", id)
                    }
                    None => "none".into(),
                }
            }
            "rep" => {
                // the reporter task is sequential: a second `report` while one is in flight would
                // trip the `debug_assert!(self.reporting.is_none())` precondition
                if self.subs.verif_is_reporting() {
                    return "busy".into();
                }
                match self.subs.verif_report(Instant::from_ticks(num(1)), num(2), self.bufs) {
                    Some(c) => {
                        let id = c.subscription().ids().id;
                        self.ctxs.push((id, c));
                        format!("some {}", id)
                    }
                    None => "none".into(),
                }
            }
            "q" => {
                let id = num(1) as u32;
                match self.ctxs.iter().find(|(i, _)| *i == id) {
                    None => "noctx".into(),
                    Some((_, c)) => {
                        let bits: String = probes()
                            .iter()
                            .map(|(e, cl, a)| if c.should_report_attr(*e, *cl, *a) { '1' } else { '0' })
                            .collect();
                        format!(
                            "{} {} {}",
                            bits,
                            if c.should_send_if_empty() { 1 } else { 0 },
                            c.max_seen_event_number()
                        )
                    }
                }
            }
            "fin" => {
                let id = num(1) as u32;
                match self.ctxs.iter().position(|(i, _)| *i == id) {
                    None => "noctx".into(),
                    Some(p) => {
                        let (_, mut c) = self.ctxs.remove(p);
                        match w.get(2).copied().unwrap_or("drop") {
                            "keep" => c.set_keep(),
                            "retry" => c.set_keep_retry(),
                            "unsent" => c.set_keep_unsent(),
                            _ => {}
                        }
                        drop(c);
                        "done".into()
                    }
                }
            }
            "purge" => {
                self.subs.verif_purge_reported_changes();
                "-".into()
            }
            "rm" => {
                let fab = num(1) as u8;
                let peer = num(2);
                let r = self.subs.verif_remove(self.bufs, |s| {
                    let v = s.verif_view();
                    (v.fab_idx == fab && v.peer_node_id == peer).then_some("verif rm")
                });
                format!("{}", r)
            }
            "rmexp" => {
                let now = Instant::from_ticks(num(1));
                let r = self.subs.verif_remove(self.bufs, |s| s.is_expired(now).then_some("expired"));
                format!("{}", r)
            }
            "nra" => format!("{}", self.subs.verif_next_report_at(num(1), self.bufs).as_ticks()),
            "persist" => {
                let mut buf = [0u8; 4096];
                match self.subs.verif_persist_all(self.bufs, &mut self.kv, &mut buf) {
                    Ok(()) => "ok".into(),
                    Err(e) => format!("err {:?}", e.code()),
                }
            }
            "restart" => {
                if self.boot + 1 >= BOOTS {
                    return "norestart".into();
                }
                // the tasks are gone with their report contexts; the old table is abandoned
                for c in self.ctxs.drain(..) {
                    std::mem::forget(c);
                }
                self.boot += 1;
                self.pool = &self.pools[self.boot];
                self.subs = &self.tables[self.boot];
                self.bufs = &self.all_bufs[self.boot];
                let mut buf = [0u8; 4096];
                match self.subs.verif_load_persist(
                    self.pool,
                    self.bufs,
                    &mut self.kv,
                    &mut buf,
                    Instant::from_ticks(num(1)),
                    num(2),
                ) {
                    Ok(()) => "ok".into(),
                    Err(e) => format!("err {:?}", e.code()),
                }
            }
            _ => "badop".into(),
        }
    }

    fn exec(&mut self, op: &str) -> String {
        if self.dead {
            return "panic".into();
        }
        let r = catch_unwind(AssertUnwindSafe(|| {
            let res = self.exec_inner(op);
            let d = self.dump();
            format!("{} | {}", res, d)
        }));
        match r {
            Ok(s) => s,
            Err(_) => {
                self.dead = true;
                // contexts may refer to a poisoned table: forget them instead of dropping
                for c in self.ctxs.drain(..) {
                    std::mem::forget(c);
                }
                "panic".into()
            }
        }
    }

    fn finish(&mut self) {
        // end the remaining contexts quietly (plain drop)
        let _ = catch_unwind(AssertUnwindSafe(|| {
            self.ctxs.clear();
        }));
    }
}

fn with_runner<const N: usize, R>(f: impl FnOnce(&mut Runner<'_, '_, N>) -> R) -> R {
    let pools: Vec<Box<Pool>> = (0..BOOTS).map(|_| Box::new(Pool::new())).collect();
    let all_bufs: Vec<Box<SubscriptionsBuffers<'_, Pool, N>>> =
        (0..BOOTS).map(|_| Box::new(SubscriptionsBuffers::new())).collect();
    let tables: Vec<Box<Subscriptions<N>>> = (0..BOOTS).map(|_| Box::new(Subscriptions::new())).collect();
    let mut r = Runner {
        pools: &pools,
        tables: &tables,
        all_bufs: &all_bufs,
        boot: 0,
        pool: &pools[0],
        subs: &tables[0],
        bufs: &all_bufs[0],
        ctxs: Vec::new(),
        kv: MemKv::default(),
        dead: false,
        last_table: Vec::new(),
    };
    let out = f(&mut r);
    r.finish();
    out
}

// ------------------------------------------------------------------ the event queue's numbering
/// `KvBlobStoreAccess` over the in-memory store (the queue persists its number epoch)
struct KvAcc(std::cell::RefCell<MemKv>, std::cell::RefCell<[u8; 256]>);

impl rs_matter::persist::KvBlobStoreAccess for KvAcc {
    fn access<F, R>(&self, f: F) -> R
    where
        F: FnOnce(&mut dyn KvBlobStore, &mut [u8]) -> R,
    {
        f(&mut *self.0.borrow_mut(), &mut self.1.borrow_mut()[..])
    }
}

/// `evq` cases: the REAL `Events` queue — `push k` pushes `k` events (output: the numbers `push`
/// returned, first-last, and the number the next push will assign), `wm` = `next_event_number - 1`
/// (what `Events::watermark` hands to `add` / `report` / `load_persist`). Ties `Subs.EvQ` of the model.
fn evq_case(out: &mut Out, case: &Case) {
    out.case(case.id, "evq");
    let ev: Box<rs_matter::im::events::Events<512>> = Box::new(rs_matter::im::events::Events::new());
    let acc = KvAcc(std::cell::RefCell::new(MemKv::default()), std::cell::RefCell::new([0u8; 256]));
    for op in &case.ops {
        let w: Vec<&str> = op.split_whitespace().collect();
        let res = match w.as_slice() {
            ["push", k] => {
                let k: u32 = k.parse().unwrap_or(1).clamp(1, 64);
                let mut nums: Vec<u64> = Vec::new();
                let mut bad = false;
                for _ in 0..k {
                    match catch_unwind(AssertUnwindSafe(|| ev.push(1, 6, 0, rs_matter::im::EventPriority::Info, &acc, |_tw| Ok(())))) {
                        Ok(Ok(n)) => nums.push(n),
                        _ => {
                            bad = true;
                            break;
                        }
                    }
                }
                if bad || nums.is_empty() {
                    "err".to_string()
                } else {
                    format!("{}-{} {}", nums[0], nums[nums.len() - 1], ev.verif_next_event_number())
                }
            }
            ["wm"] => ev.verif_next_event_number().wrapping_sub(1).to_string(),
            _ => "badop".into(),
        };
        out.op(op, &res);
    }
    out.buf.push_str("#nt\n");
}

fn gen_evq(out: &mut Out, r: &mut Rng, n: u64, first_id: u64) {
    for i in 0..n {
        let mut ops: Vec<String> = Vec::new();
        for _ in 0..r.range(2, 8) {
            if r.chance(1, 3) {
                ops.push("wm".into());
            } else {
                ops.push(format!("push {}", r.range(1, 6)));
            }
        }
        ops.push("wm".into());
        out.stat("evq_cases", 1);
        evq_case(out, &Case { id: first_id + i, kind: "evq".into(), ops });
    }
}

fn cap_of(kind: &str) -> usize {
    kind.split_whitespace().nth(1).and_then(|x| x.parse().ok()).unwrap_or(2)
}

fn replay_case(out: &mut Out, case: &Case) {
    let n = cap_of(&case.kind).clamp(1, 4);
    out.case(case.id, &format!("subs {} {}", n, HZ));
    fn go<const N: usize>(out: &mut Out, case: &Case) {
        with_runner::<N, _>(|r| {
            for op in &case.ops {
                let o = r.exec(op);
                out.op(op, &o);
            }
        })
    }
    match n {
        1 => go::<1>(out, case),
        2 => go::<2>(out, case),
        3 => go::<3>(out, case),
        _ => go::<4>(out, case),
    }
}

/// Generator: one interleaving of changes, primings, reporter passes, purges, removals.
fn gen_case<const N: usize>(id: u64, r: &mut Rng, thorough: bool, out: &mut Out) {
    let (start_len, start_ops) = (out.buf.len(), out.ops);
    out.case(id, &format!("subs {} {}", N, HZ));
    let keep_case = with_runner::<N, _>(|run| {
        let len = if thorough { r.range(10, 140) } else { r.range(8, 45) } as usize;
        // time base: mostly small, rarely close to the end of time (checked_add overflow paths)
        let mut t: u64 = if r.chance(1, 40) { u64::MAX - 1 - r.range(0, 200) * HZ } else { r.range(0, 50) * HZ };
        let mut evwm: u64 = if r.chance(1, 3) { r.range(0, 5) } else { 0 };
        let mut n_ops = 0usize;
        let mut saw_flight_change = false;
        let mut saw_report = false;
        let mut saw_purge = false;
        let mut saw_restart = false;
        let mut restarts = 0;
        let hot: Vec<(u16, u32, u32)> = (0..r.range(1, 4)).map(|_| (r.below(3) as u16, r.range(1, 3) as u32, r.below(4) as u32)).collect();
        let mins = [0u64, 0, 1, 1, 2, 5, 30];
        let maxs = [1u64, 2, 4, 10, 40, 60, 600, 65535];
        let step = |run: &mut Runner<'_, '_, N>, out: &mut Out, op: String| -> String {
            let o = run.exec(&op);
            out.op(&op, &o);
            o
        };
        while n_ops < len {
            n_ops += 1;
            // advance time
            if r.chance(1, 2) {
                let dt = match r.below(10) {
                    0 => 1,
                    1 => HZ - 1,
                    2 | 3 => HZ,
                    4 => 2 * HZ,
                    5 => 5 * HZ,
                    6 => 20 * HZ,
                    7 => 30 * HZ,
                    8 => r.range(0, 700) * HZ,
                    _ => r.range(0, 3 * HZ),
                };
                // `Instant::MAX` itself is the "not yet primed" sentinel, never a real instant
                t = t.saturating_add(dt).min(u64::MAX - 1);
            }
            if r.chance(1, 6) {
                evwm += r.range(1, 3);
                out.stat("ev_advance", 1);
            }
            let open: Vec<u32> = run.ctxs.iter().map(|c| c.0).collect();
            let reporting = run.subs.verif_is_reporting();
            let k = r.below(100);
            if k < 28 {
                let (e, c, a) = if r.chance(2, 3) { *r.pick(&hot) } else { (r.below(3) as u16, r.range(1, 3) as u32, r.below(4) as u32) };
                step(run, out, format!("chg {} {} {}", e, c, a));
                out.stat("op_chg", 1);
                if !open.is_empty() {
                    saw_flight_change = true;
                }
            } else if k < 31 {
                // burst: fill / overflow the 16-entry table
                let cnt = r.range(10, 40);
                for _ in 0..cnt {
                    // sometimes attributes outside the probed universe so that promotion has many groups
                    let a = if r.chance(1, 3) { r.range(4, 30) } else { r.below(4) };
                    step(run, out, format!("chg {} {} {}", r.below(3), r.range(1, 3), a));
                }
                out.stat("op_burst", 1);
                if !open.is_empty() {
                    saw_flight_change = true;
                }
            } else if k < 34 {
                let op = match r.below(4) {
                    0 => "chgw * *".to_string(),
                    1 => format!("chgw {} *", r.below(3)),
                    _ => format!("chgw {} {}", r.below(3), r.range(1, 3)),
                };
                step(run, out, op);
                out.stat("op_chgw", 1);
                if !open.is_empty() {
                    saw_flight_change = true;
                }
            } else if k < 46 {
                let min = *r.pick(&mins);
                let max = if r.chance(1, 12) { r.range(0, 3) } else { *r.pick(&maxs) };
                step(run, out, format!("add {} {} {} {} {} {}", t, r.range(1, 2), r.range(10, 12), min, max, evwm));
                out.stat("op_add", 1);
            } else if k < 64 {
                if reporting {
                    n_ops -= 1;
                    if r.chance(1, 20) {
                        step(run, out, format!("rep {} {}", t, evwm));
                        out.stat("op_rep_busy", 1);
                    }
                    continue;
                }
                let o = step(run, out, format!("rep {} {}", t, evwm));
                if let Some(rest) = o.strip_prefix("some ") {
                    saw_report = true;
                    out.stat("op_rep_some", 1);
                    let sid: u32 = rest.split_whitespace().next().and_then(|x| x.parse().ok()).unwrap_or(0);
                    let q = step(run, out, format!("q {}", sid));
                    // what the reporter of `im.rs` sees: the report is EMPTY when the filter selects
                    // nothing (the table-level subscriber selects the whole probed universe), no
                    // liveness report is due and no event is pending; only then nothing is sent and
                    // the context ends with `set_keep_unsent`
                    let qw: Vec<&str> = q.split(" | ").next().unwrap_or("").split_whitespace().collect();
                    let empty = qw.len() == 3
                        && qw[0].bytes().all(|b| b == b'0')
                        && qw[1] == "0"
                        && qw[2].parse::<u64>().map(|sev| sev >= evwm).unwrap_or(false);
                    if empty {
                        out.stat("report_empty", 1);
                    }
                    if r.chance(1, 2) || empty {
                        let mode = if empty {
                            "unsent"
                        } else {
                            match r.below(10) {
                                0..=5 => "keep",
                                6..=8 => "retry",
                                _ => "drop",
                            }
                        };
                        step(run, out, format!("fin {} {}", sid, mode));
                        out.stat(&format!("fin_report_{}", mode), 1);
                    }
                } else {
                    out.stat("op_rep_none", 1);
                }
            } else if k < 80 {
                if open.is_empty() {
                    n_ops -= 1;
                    if r.chance(1, 30) {
                        step(run, out, format!("fin {} keep", r.range(1, 5)));
                    } else if r.chance(1, 4) {
                        n_ops += 1;
                        step(run, out, "purge".to_string());
                        saw_purge = true;
                        out.stat("op_purge", 1);
                    }
                    continue;
                }
                let sid = *r.pick(&open);
                if r.chance(1, 4) {
                    step(run, out, format!("q {}", sid));
                }
                let mode = match r.below(20) {
                    0..=12 => "keep",
                    13..=16 => "retry",
                    _ => "drop",
                };
                step(run, out, format!("fin {} {}", sid, mode));
                out.stat(&format!("fin_{}", mode), 1);
            } else if k < 88 {
                step(run, out, "purge".to_string());
                saw_purge = true;
                out.stat("op_purge", 1);
            } else if k < 90 {
                // the table is mirrored to the store (after a priming / a removal in `im.rs`), possibly
                // while a subscription is outside the table
                step(run, out, "persist".to_string());
                out.stat("op_persist", 1);
                if !open.is_empty() {
                    out.stat("persist_with_flight", 1);
                }
            } else if k < 93 {
                step(run, out, format!("rm {} {}", r.range(1, 2), r.range(10, 12)));
                out.stat("op_rm", 1);
            } else if k < 96 {
                step(run, out, format!("rmexp {}", t));
                out.stat("op_rmexp", 1);
            } else if k < 97 {
                if restarts >= 2 {
                    n_ops -= 1;
                    continue;
                }
                restarts += 1;
                if r.chance(3, 4) {
                    step(run, out, "persist".to_string());
                    out.stat("op_persist", 1);
                }
                // the monotonic clock starts again with the boot
                t = r.range(0, 50) * HZ;
                step(run, out, format!("restart {} {}", t, evwm));
                out.stat("op_restart", 1);
                out.stat("resumed_subscriptions", run.last_table.len() as u64);
                saw_restart = true;
            } else {
                step(run, out, format!("nra {}", evwm));
                out.stat("op_nra", 1);
            }
        }
        // wind down: end open contexts, let time pass and run reporter passes so that owed changes surface
        let open: Vec<u32> = run.ctxs.iter().map(|c| c.0).collect();
        for sid in open {
            let mode = if r.chance(3, 4) { "keep" } else { "retry" };
            step(run, out, format!("fin {} {}", sid, mode));
        }
        for _ in 0..2 {
            step(run, out, "purge".to_string());
            t = t.saturating_add(*r.pick(&[HZ, 2 * HZ, 5 * HZ, 31 * HZ])).min(u64::MAX - 1);
            step(run, out, format!("nra {}", evwm));
            for _ in 0..N + 1 {
                let o = step(run, out, format!("rep {} {}", t, evwm));
                if let Some(rest) = o.strip_prefix("some ") {
                    saw_report = true;
                    let sid: u32 = rest.split_whitespace().next().and_then(|x| x.parse().ok()).unwrap_or(0);
                    step(run, out, format!("q {}", sid));
                    step(run, out, format!("fin {} keep", sid));
                } else {
                    break;
                }
            }
        }
        if saw_flight_change {
            out.stat("cases_with_change_during_flight", 1);
        }
        if saw_restart {
            out.stat("cases_with_restart", 1);
        }
        if saw_flight_change && saw_report && saw_purge {
            out.buf.push_str("#nt\n");
            true
        } else {
            false
        }
    });
    if !keep_case {
        // only non-trivial cases are kept (the evidence counts what it says it counts)
        out.buf.truncate(start_len);
        out.ops = start_ops;
        out.cases -= 1;
        out.stat("dropped_trivial_cases", 1);
    }
}

pub fn gen(a: &Args) -> String {
    let mut r = Rng::new(a.seed);
    let mut out = Out::default();
    out.buf.push_str("#rule a case is one interleaving on a fresh real Subscriptions<N> table (N in 1..4) of attribute changes (hot paths, bursts overflowing the 16-entry table, wildcards), subscription adds whose priming context stays open, reporter report begins with their contexts kept open, keep/retry/drop endings, purges, removals by peer and by expiry, next_report_at queries, persisting the table to a retained store and restarting the device on it (fresh table, load_persist), under a monotone clock with steps around the negotiated intervals; non-trivial = a change was recorded while a subscription was outside the table, a report was begun and a purge ran; distinct = by operation list; ");
    out.buf.push_str(evs::RULE);
    out.buf.push_str("; ");
    out.buf.push_str(sys::RULE);
    out.buf.push('\n');
    let n_cases = if a.thorough { 40000 } else { 4000 };
    // development aid: `--only sys` skips the table-level cases
    let only_sys = a.extra.get("only").map(|v| v == "sys" || v == "evs").unwrap_or(false);
    for id in 0..n_cases {
        if only_sys {
            break;
        }
        let mut cr = r.fork();
        match cr.below(8) {
            0 => gen_case::<1>(id, &mut cr, a.thorough, &mut out),
            1..=3 => gen_case::<2>(id, &mut cr, a.thorough, &mut out),
            4..=6 => gen_case::<3>(id, &mut cr, a.thorough, &mut out),
            _ => gen_case::<4>(id, &mut cr, a.thorough, &mut out),
        }
    }
    if !only_sys {
        let mut er = r.fork();
        gen_evq(&mut out, &mut er, if a.thorough { 200 } else { 20 }, 9_000_000);
    }
    if !only_sys || a.extra.get("only").map(|v| v == "evs").unwrap_or(false) {
        // its own generator state: the other streams keep their cases
        let mut vr = Rng::new(a.seed ^ 0x5e0e_c13c_e5e5_0001);
        evs::gen(&mut out, &mut vr, if a.thorough { 3000 } else { 250 }, 9_500_000);
    }
    if !a.extra.get("only").map(|v| v == "evs").unwrap_or(false) {
        sys::gen(&mut out, &mut r, a.thorough, n_cases);
    }
    out.finish()
}

pub fn replay(a: &Args) -> String {
    let text = std::fs::read_to_string(a.input.as_ref().expect("--in")).expect("read input");
    let mut out = Out::default();
    for c in parse_cases(&text) {
        if c.kind.starts_with("sys") {
            sys::replay_case(&mut out, &c);
        } else if c.kind.starts_with("evq") {
            evq_case(&mut out, &c);
        } else if c.kind.starts_with("evs") {
            evs::replay_case(&mut out, &c);
        } else {
            replay_case(&mut out, &c);
        }
    }
    out.finish()
}
