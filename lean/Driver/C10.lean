import Driver.Util
/-! Driver for C10: not built yet. -/
namespace Driver.C10

def run : IO UInt32 := do
  IO.eprintln "C10: driver not built yet"
  return 2

end Driver.C10
