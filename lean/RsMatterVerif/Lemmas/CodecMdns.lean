import RsMatterVerif.Model.Codec.Mdns
/-!
# Lemmas about the mDNS wire-format model (`Model/Codec/Mdns.lean`)

1. the cursor primitives (`take`, `advance`, `subParser`) under the parser invariant `pos ≤ len ≤ |octets|`;
2. `ParsedName::parse`: the fuel handed out by `parseName` is never exhausted (termination of pointer
   following), no panic, and the flat (compression-free) encoding parses back to its labels;
3. refusal clauses of the name parser.
-/
namespace Codec.Mdns

/-- invariant of an `octseq::Parser` over the octets `d` -/
def P.Inv (d : List Nat) (p : P) : Prop := p.pos ≤ p.len ∧ p.len ≤ d.length

/-- "neither a panic nor an exhausted step budget" -/
def Fine {α : Type} (r : R α) : Prop := r ≠ .error .panic ∧ r ≠ .error .fuel

theorem Fine.ok {α : Type} (a : α) : Fine (.ok a : R α) := ⟨by simp, by simp⟩
theorem Fine.err {α : Type} {e : PErr} (h1 : e ≠ .panic) (h2 : e ≠ .fuel) : Fine (.error e : R α) :=
  ⟨by simpa using h1, by simpa using h2⟩

/-! ## 1. cursor primitives -/

theorem be_one (b : Nat) : be [b] = b := by simp [be]
theorem be_two (a b : Nat) : be [a, b] = a * 256 + b := by simp [be]
theorem be_four (a b c e : Nat) : be [a, b, c, e] = ((a * 256 + b) * 256 + c) * 256 + e := by simp [be]

theorem be_u16be (x : Nat) (h : x < 65536) : be (u16be x) = x := by
  simp only [u16be, be_two]; omega
theorem be_u32be (x : Nat) (h : x < 4294967296) : be (u32be x) = x := by
  simp only [u32be, be_four]; omega

/-- what `take` answers, by cases; under the invariant it never panics -/
theorem take_spec (d : List Nat) (p : P) (n : Nat) (hi : p.Inv d) :
    (p.len - p.pos < n ∧ take d p n = .error .shortInput) ∨
    (n ≤ p.len - p.pos ∧ take d p n = .ok ((d.drop p.pos).take n, ⟨p.pos + n, p.len⟩)) := by
  obtain ⟨h1, h2⟩ := hi
  unfold take
  rw [if_neg (by omega)]
  by_cases hn : p.len - p.pos < n
  · left; exact ⟨hn, by rw [if_pos hn]⟩
  · right; refine ⟨by omega, ?_⟩
    rw [if_neg hn, if_pos (by omega)]

/-- `take` answers `ok` only with the cursor advanced by `n` inside the limit -/
theorem take_ok_inv (d : List Nat) (p : P) (n : Nat) (a : List Nat) (p' : P) (h : take d p n = .ok (a, p')) :
    p'.pos = p.pos + n ∧ p'.len = p.len ∧ p'.pos ≤ p'.len ∧ a = (d.drop p.pos).take n ∧ p.pos + n ≤ d.length := by
  unfold take at h
  split at h
  · cases h
  · split at h
    · cases h
    · split at h
      · injection h with h; injection h with h1 h2; subst h1 h2
        refine ⟨rfl, rfl, ?_, rfl, by assumption⟩
        show p.pos + n ≤ p.len
        omega
      · cases h

theorem take_ne_fuel (d : List Nat) (p : P) (n : Nat) : take d p n ≠ .error .fuel := by
  unfold take; split; · simp
  split; · simp
  split <;> simp

/-- reading the octets `A` that are known to sit at the cursor -/
theorem take_at (d : List Nat) (pos len : Nat) (A B : List Nat) (h : d.drop pos = A ++ B)
    (hfit : pos + A.length ≤ len) (hd : len ≤ d.length) :
    take d ⟨pos, len⟩ A.length = .ok (A, ⟨pos + A.length, len⟩) ∧ d.drop (pos + A.length) = B := by
  constructor
  · unfold take
    simp only
    rw [if_neg (by omega), if_neg (by omega), if_pos (by omega), h, List.take_left' rfl]
  · rw [← List.drop_drop, h, List.drop_left' rfl]

theorem parseU8_at (d : List Nat) (pos len b : Nat) (B : List Nat) (h : d.drop pos = b :: B)
    (hfit : pos + 1 ≤ len) (hd : len ≤ d.length) :
    parseU8 d ⟨pos, len⟩ = .ok (b, ⟨pos + 1, len⟩) ∧ d.drop (pos + 1) = B := by
  have := take_at d pos len [b] B h hfit hd
  refine ⟨?_, this.2⟩
  simp only [parseU8, bind, Except.bind]
  rw [show (1 : Nat) = [b].length from rfl, this.1]
  simp [be_one, pure, Except.pure]

theorem parseU16_at (d : List Nat) (pos len x : Nat) (B : List Nat) (hx : x < 65536) (h : d.drop pos = u16be x ++ B)
    (hfit : pos + 2 ≤ len) (hd : len ≤ d.length) :
    parseU16 d ⟨pos, len⟩ = .ok (x, ⟨pos + 2, len⟩) ∧ d.drop (pos + 2) = B := by
  have := take_at d pos len (u16be x) B h hfit hd
  refine ⟨?_, this.2⟩
  simp only [parseU16, bind, Except.bind]
  rw [show (2 : Nat) = (u16be x).length from rfl, this.1]
  simp only [pure, Except.pure, be_u16be x hx]

theorem parseU32_at (d : List Nat) (pos len x : Nat) (B : List Nat) (hx : x < 4294967296) (h : d.drop pos = u32be x ++ B)
    (hfit : pos + 4 ≤ len) (hd : len ≤ d.length) :
    parseU32 d ⟨pos, len⟩ = .ok (x, ⟨pos + 4, len⟩) ∧ d.drop (pos + 4) = B := by
  have := take_at d pos len (u32be x) B h hfit hd
  refine ⟨?_, this.2⟩
  simp only [parseU32, bind, Except.bind]
  rw [show (4 : Nat) = (u32be x).length from rfl, this.1]
  simp only [pure, Except.pure, be_u32be x hx]

/-- result discipline of a parser step: a value with a parser that still satisfies the invariant under the
same limit `L`, or a proper error (never a panic, never an exhausted budget) -/
def GoodR {α : Type} (d : List Nat) (L : Nat) (r : R (α × P)) : Prop :=
  match r with
  | .ok (_, p') => p'.Inv d ∧ p'.len = L
  | .error e => e ≠ .panic ∧ e ≠ .fuel

/-- the same for steps that answer only a parser -/
def GoodP (d : List Nat) (L : Nat) (r : R P) : Prop :=
  match r with
  | .ok p' => p'.Inv d ∧ p'.len = L
  | .error e => e ≠ .panic ∧ e ≠ .fuel

theorem GoodR.fine {α : Type} {d : List Nat} {L : Nat} {r : R (α × P)} (h : GoodR d L r) : Fine r := by
  unfold GoodR at h
  split at h
  · exact Fine.ok _
  · exact Fine.err h.1 h.2

theorem GoodP.fine {d : List Nat} {L : Nat} {r : R P} (h : GoodP d L r) : Fine r := by
  unfold GoodP at h
  split at h
  · exact Fine.ok _
  · exact Fine.err h.1 h.2

theorem GoodR.bind {α β : Type} {d : List Nat} {L : Nat} {x : R (α × P)} {f : α × P → R (β × P)}
    (hx : GoodR d L x) (hf : ∀ a p', p'.Inv d → p'.len = L → GoodR d L (f (a, p'))) : GoodR d L (x >>= f) := by
  cases x with
  | error e => exact hx
  | ok v => obtain ⟨a, p'⟩ := v; exact hf a p' hx.1 hx.2

theorem GoodR.bindP {α β : Type} {d : List Nat} {L : Nat} {x : R (α × P)} {f : α × P → R P}
    (hx : GoodR d L x) (hf : ∀ a p', p'.Inv d → p'.len = L → GoodP d L (f (a, p'))) : GoodP d L (x >>= f) := by
  cases x with
  | error e => exact hx
  | ok v => obtain ⟨a, p'⟩ := v; exact hf a p' hx.1 hx.2

theorem GoodP.bind {β : Type} {d : List Nat} {L : Nat} {x : R P} {f : P → R (β × P)}
    (hx : GoodP d L x) (hf : ∀ p', p'.Inv d → p'.len = L → GoodR d L (f p')) : GoodR d L (x >>= f) := by
  cases x with
  | error e => exact hx
  | ok v => exact hf v hx.1 hx.2

theorem GoodP.bindP {d : List Nat} {L : Nat} {x : R P} {f : P → R P}
    (hx : GoodP d L x) (hf : ∀ p', p'.Inv d → p'.len = L → GoodP d L (f p')) : GoodP d L (x >>= f) := by
  cases x with
  | error e => exact hx
  | ok v => exact hf v hx.1 hx.2

theorem take_good (d : List Nat) (p : P) (n : Nat) (hi : p.Inv d) : GoodR d p.len (take d p n) := by
  have ⟨h1, h2⟩ := hi
  rcases take_spec d p n hi with ⟨_, h⟩ | ⟨hn, h⟩
  · rw [h]; exact ⟨by simp, by simp⟩
  · rw [h]; exact ⟨⟨by show p.pos + n ≤ p.len; omega, h2⟩, rfl⟩

theorem parseU8_good (d : List Nat) (p : P) (hi : p.Inv d) : GoodR d p.len (parseU8 d p) :=
  GoodR.bind (take_good d p 1 hi) (fun _ _ h1 h2 => ⟨h1, h2⟩)
theorem parseU16_good (d : List Nat) (p : P) (hi : p.Inv d) : GoodR d p.len (parseU16 d p) :=
  GoodR.bind (take_good d p 2 hi) (fun _ _ h1 h2 => ⟨h1, h2⟩)
theorem parseU32_good (d : List Nat) (p : P) (hi : p.Inv d) : GoodR d p.len (parseU32 d p) :=
  GoodR.bind (take_good d p 4 hi) (fun _ _ h1 h2 => ⟨h1, h2⟩)

theorem advance_good (d : List Nat) (p : P) (n : Nat) (hi : p.Inv d) : GoodP d p.len (advance p n) := by
  obtain ⟨h1, h2⟩ := hi
  unfold advance
  rw [if_neg (by omega)]
  split
  · exact ⟨by simp, by simp⟩
  · exact ⟨⟨by show p.pos + n ≤ p.len; omega, h2⟩, rfl⟩

/-- the sub-parser over the next `n` octets: the invariant holds with the new limit `pos + n` -/
theorem subParser_good (d : List Nat) (p : P) (n : Nat) (hi : p.Inv d) :
    match subParser p n with
    | .ok sp => sp.Inv d ∧ sp.pos = p.pos ∧ sp.len = p.pos + n ∧ sp.len ≤ p.len
    | .error e => e ≠ .panic ∧ e ≠ .fuel := by
  obtain ⟨h1, h2⟩ := hi
  unfold subParser
  rw [if_neg (by omega)]
  by_cases hn : p.len - p.pos < n
  · rw [if_pos hn]; exact ⟨by simp, by simp⟩
  · rw [if_neg hn]
    exact ⟨⟨by show p.pos ≤ p.pos + n; omega, by show p.pos + n ≤ d.length; omega⟩, rfl, rfl, by show p.pos + n ≤ p.len; omega⟩

theorem parseLabelType_good (d : List Nat) (p : P) (hi : p.Inv d) : GoodR d p.len (parseLabelType d p) := by
  unfold parseLabelType
  refine GoodR.bind (parseU8_good d p hi) ?_
  intro t p1 h1 h2
  dsimp only
  split
  · exact ⟨h1, h2⟩
  · split
    · refine GoodR.bind (h2 ▸ parseU8_good d p1 h1) ?_
      intro lo p2 h3 h4
      exact ⟨h3, h4⟩
    · exact ⟨by simp, by simp⟩

theorem parseU8_ok_inv (d : List Nat) (p : P) (b : Nat) (p' : P) (h : parseU8 d p = .ok (b, p')) :
    p'.pos = p.pos + 1 ∧ p'.len = p.len ∧ p'.pos ≤ p'.len := by
  unfold parseU8 at h
  cases ht : take d p 1 with
  | error e => rw [ht] at h; cases h
  | ok v =>
    obtain ⟨a, q⟩ := v
    rw [ht] at h
    have := take_ok_inv d p 1 a q ht
    injection h with h; injection h with h1 h2; subst h2
    exact ⟨this.1, this.2.1, this.2.2.1⟩

theorem parseU8_ne_fuel (d : List Nat) (p : P) : parseU8 d p ≠ .error .fuel := by
  unfold parseU8
  cases ht : take d p 1 with
  | error e => intro h; injection h with h; subst h; exact take_ne_fuel d p 1 ht
  | ok v => obtain ⟨a, q⟩ := v; simp [bind, Except.bind, pure, Except.pure]

/-- inversion of a successful `LabelType::parse` -/
theorem parseLabelType_ok_inv (d : List Nat) (p : P) (lt : LT) (p1 : P) (h : parseLabelType d p = .ok (lt, p1)) :
    p1.len = p.len ∧ p1.pos ≤ p1.len ∧
    match lt with
    | .normal n => p1.pos = p.pos + 1 ∧ n ≤ 63
    | .ptr _ => p1.pos = p.pos + 2 := by
  unfold parseLabelType at h
  cases h8 : parseU8 d p with
  | error e => rw [h8] at h; cases h
  | ok v =>
    obtain ⟨t, q⟩ := v
    rw [h8] at h
    have hq := parseU8_ok_inv d p t q h8
    simp only [bind, Except.bind] at h
    split at h
    · rename_i ht
      injection h with h; injection h with h1 h2; subst h1 h2
      exact ⟨hq.2.1, hq.2.2, hq.1, ht⟩
    · split at h
      · cases h9 : parseU8 d q with
        | error e => rw [h9] at h; cases h
        | ok w =>
          obtain ⟨lo, q2⟩ := w
          rw [h9] at h
          have hq2 := parseU8_ok_inv d q lo q2 h9
          injection h with h; injection h with h1 h2; subst h1 h2
          refine ⟨by show q2.len = p.len; omega, hq2.2.2, ?_⟩
          show q2.pos = p.pos + 2
          omega
      · cases h

theorem parseLabelType_ne_fuel (d : List Nat) (p : P) : parseLabelType d p ≠ .error .fuel := by
  unfold parseLabelType
  cases h8 : parseU8 d p with
  | error e => intro h; injection h with h; subst h; exact parseU8_ne_fuel d p h8
  | ok v =>
    obtain ⟨t, q⟩ := v
    simp only [bind, Except.bind]
    split
    · simp [pure, Except.pure]
    · split
      · cases h9 : parseU8 d q with
        | error e => intro h; injection h with h; subst h; exact parseU8_ne_fuel d q h9
        | ok w => obtain ⟨lo, q2⟩ := w; simp [pure, Except.pure]
      · simp [throw, throwThe, MonadExceptOf.throw]

/-! ## 2. `ParsedName::parse` -/

/-- `nameStep` without the monad -/
theorem nameStep_eq (d : List Nat) (s : NS) :
    nameStep d s =
      match parseLabelType d s.p with
      | .error e => .error e
      | .ok (.normal n, p1) =>
        if n = 0 then
          .ok (.done { labels := s.acc.reverse, nameLen := s.nameLen + 1, compressed := s.compressed } (s.outer.getD p1))
        else
          match take d p1 n with
          | .error e => .error e
          | .ok (label, p2) =>
            if s.nameLen + n + 1 ≥ 255 then .error .longName
            else .ok (.more { s with p := p2, nameLen := s.nameLen + n + 1, acc := label :: s.acc })
      | .ok (.ptr t, p1) =>
        if p1.pos < 2 then .error .panic
        else if t ≥ p1.pos - 2 then .error .compression
        else if t > p1.len then .error .shortInput
        else .ok (.more { s with p := { p1 with pos := t }, compressed := decide (s.nameLen ≠ 0), outer := some (s.outer.getD p1) }) := by
  unfold nameStep
  cases hl : parseLabelType d s.p with
  | error e => rfl
  | ok v =>
    obtain ⟨lt, p1⟩ := v
    cases lt with
    | normal n =>
      simp only [bind, Except.bind]
      by_cases hn : n = 0
      · simp only [hn, if_true]; rfl
      · simp only [hn, if_false]
        cases ht : take d p1 n with
        | error e => rfl
        | ok w =>
          obtain ⟨label, p2⟩ := w
          simp only []
          split <;> rfl
    | ptr t =>
      simp only [bind, Except.bind]
      split
      · rfl
      · split
        · rfl
        · split <;> rfl


/-- invariant of the loop state of `parse_ref`: the walking parser and the caller's parser satisfy the
parser invariant under the same limit `L` -/
def NS.Inv (d : List Nat) (L : Nat) (s : NS) : Prop :=
  s.p.Inv d ∧ s.p.len = L ∧ ∀ q, s.outer = some q → q.Inv d ∧ q.len = L

theorem outer_getD_inv (d : List Nat) (L : Nat) (s : NS) (hs : s.Inv d L) (p1 : P) (h1 : p1.Inv d) (h2 : p1.len = L) :
    (s.outer.getD p1).Inv d ∧ (s.outer.getD p1).len = L := by
  cases ho : s.outer with
  | none => exact ⟨h1, h2⟩
  | some q => exact hs.2.2 q ho

/-- one turn of the loop keeps the invariant and never panics -/
theorem nameStep_good (d : List Nat) (L : Nat) (s : NS) (hs : s.Inv d L) :
    match nameStep d s with
    | .ok (.more s') => s'.Inv d L
    | .ok (.done _ p') => p'.Inv d ∧ p'.len = L
    | .error e => e ≠ .panic ∧ e ≠ .fuel := by
  have hg := parseLabelType_good d s.p hs.1
  rw [nameStep_eq]
  cases hl : parseLabelType d s.p with
  | error e => rw [hl] at hg; exact hg
  | ok v =>
    obtain ⟨lt, p1⟩ := v
    rw [hl] at hg
    have hinv := parseLabelType_ok_inv d s.p lt p1 hl
    obtain ⟨hp1, hp1l⟩ := hg
    rw [hs.2.1] at hp1l
    cases lt with
    | normal n =>
      simp only
      by_cases hn : n = 0
      · simp only [hn, if_true]
        exact outer_getD_inv d L s hs p1 hp1 hp1l
      · simp only [hn, if_false]
        have ht := take_good d p1 n hp1
        cases hk : take d p1 n with
        | error e => rw [hk] at ht; exact ht
        | ok w =>
          obtain ⟨label, p2⟩ := w
          rw [hk] at ht
          simp only
          by_cases hlen : s.nameLen + n + 1 ≥ 255
          · rw [if_pos hlen]; exact ⟨by simp, by simp⟩
          · rw [if_neg hlen]; exact ⟨ht.1, by rw [ht.2, hp1l], hs.2.2⟩
    | ptr t =>
      simp only
      have h2 : p1.pos = s.p.pos + 2 := hinv.2.2
      rw [if_neg (by omega)]
      by_cases h3 : t ≥ p1.pos - 2
      · rw [if_pos h3]; exact ⟨by simp, by simp⟩
      · rw [if_neg h3]
        by_cases h4 : t > p1.len
        · rw [if_pos h4]; exact ⟨by simp, by simp⟩
        · rw [if_neg h4]
          refine ⟨⟨by show t ≤ p1.len; omega, hp1.2⟩, hp1l, ?_⟩
          intro q hq
          simp only [Option.some.injEq] at hq
          subst hq
          exact outer_getD_inv d L s hs p1 hp1 hp1l

/-- progress measure of the loop: a label lengthens the name (which stays below 255), a pointer moves the
cursor strictly backwards and leaves the name length alone -/
theorem nameStep_more (d : List Nat) (s s' : NS) (h : nameStep d s = .ok (.more s')) :
    s'.p.len = s.p.len ∧ s'.p.pos ≤ s'.p.len ∧
    ((∃ n, 1 ≤ n ∧ s'.nameLen = s.nameLen + n + 1 ∧ s'.nameLen < 255 ∧ s'.p.pos = s.p.pos + 1 + n) ∨
     (s'.nameLen = s.nameLen ∧ s'.p.pos < s.p.pos)) := by
  rw [nameStep_eq] at h
  cases hl : parseLabelType d s.p with
  | error e => rw [hl] at h; cases h
  | ok v =>
    obtain ⟨lt, p1⟩ := v
    rw [hl] at h
    have hinv := parseLabelType_ok_inv d s.p lt p1 hl
    cases lt with
    | normal n =>
      simp only at h
      by_cases hn : n = 0
      · simp only [hn, if_true] at h; cases h
      · simp only [hn, if_false] at h
        cases hk : take d p1 n with
        | error e => rw [hk] at h; cases h
        | ok w =>
          obtain ⟨label, p2⟩ := w
          rw [hk] at h
          have hti := take_ok_inv d p1 n label p2 hk
          simp only at h
          split at h
          · cases h
          · rename_i hlen
            injection h with h; injection h with h; subst h
            have h1 : p1.pos = s.p.pos + 1 := hinv.2.2.1
            refine ⟨by show p2.len = s.p.len; omega, hti.2.2.1, Or.inl ⟨n, by omega, rfl, by show s.nameLen + n + 1 < 255; omega, ?_⟩⟩
            show p2.pos = s.p.pos + 1 + n
            omega
    | ptr t =>
      simp only at h
      have h2 : p1.pos = s.p.pos + 2 := hinv.2.2
      split at h
      · cases h
      · split at h
        · cases h
        · split at h
          · cases h
          · rename_i h3 h4 h5
            injection h with h; injection h with h; subst h
            refine ⟨hinv.1, by show t ≤ p1.len; omega, Or.inr ⟨rfl, ?_⟩⟩
            show t < s.p.pos
            omega

theorem nameStep_ne_fuel (d : List Nat) (s : NS) : nameStep d s ≠ .error .fuel := by
  rw [nameStep_eq]
  cases hl : parseLabelType d s.p with
  | error e => intro h; injection h with h; subst h; exact parseLabelType_ne_fuel d s.p hl
  | ok v =>
    obtain ⟨lt, p1⟩ := v
    cases lt with
    | normal n =>
      simp only
      split
      · simp
      · cases hk : take d p1 n with
        | error e => intro h; injection h with h; subst h; exact take_ne_fuel d p1 n hk
        | ok w => obtain ⟨label, p2⟩ := w; simp only; split <;> simp
    | ptr t =>
      simp only
      split; · simp
      split; · simp
      split <;> simp


/-- a turn that continues started inside the limit -/
theorem nameStep_more_pos (d : List Nat) (s s' : NS) (h : nameStep d s = .ok (.more s')) : s.p.pos < s.p.len := by
  rw [nameStep_eq] at h
  cases hl : parseLabelType d s.p with
  | error e => rw [hl] at h; cases h
  | ok v =>
    obtain ⟨lt, p1⟩ := v
    have hinv := parseLabelType_ok_inv d s.p lt p1 hl
    cases lt with
    | normal n => have : p1.pos = s.p.pos + 1 := hinv.2.2.1; omega
    | ptr t => have : p1.pos = s.p.pos + 2 := hinv.2.2; omega

/-- the termination measure of the label loop: (name octets still allowed, cursor) in lexicographic order -/
def NS.mu (s : NS) : Nat := (255 - s.nameLen) * (s.p.len + 2) + s.p.pos

theorem nameStep_mu (d : List Nat) (s s' : NS) (h : nameStep d s = .ok (.more s')) : s'.mu < s.mu := by
  obtain ⟨hl, _, hc⟩ := nameStep_more d s s' h
  unfold NS.mu
  rw [hl]
  rcases hc with ⟨n, hn1, hn2, hn3, hn4⟩ | ⟨h1, h2⟩
  · have e : 255 - s.nameLen = (255 - s'.nameLen) + (n + 1) := by omega
    rw [e, Nat.add_mul]
    have : (n + 1) * 2 ≤ (n + 1) * (s.p.len + 2) := Nat.mul_le_mul_left _ (by omega)
    omega
  · rw [h1]; omega

/-- **the step budget is never exhausted**: `nameRun` with more fuel than the measure of its state does
not answer `fuel` -/
theorem nameRun_ne_fuel (d : List Nat) : ∀ (f : Nat) (s : NS), s.mu < f → nameRun f d s ≠ .error .fuel := by
  intro f
  induction f with
  | zero => intro s h; omega
  | succ f ih =>
    intro s h
    unfold nameRun
    cases hs : nameStep d s with
    | error e => simp only; intro h2; injection h2 with h2; subst h2; exact nameStep_ne_fuel d s hs
    | ok st =>
      cases st with
      | done n p => simp
      | more s' =>
        simp only
        exact ih s' (by have := nameStep_mu d s s' hs; omega)

theorem mu_init (p : P) (h : p.pos ≤ p.len) :
    NS.mu { p := p, nameLen := 0, acc := [], compressed := false, outer := none } < nameFuel p := by
  unfold NS.mu nameFuel
  simp only
  omega

/-- **`ParsedName::parse` terminates on every input**: whatever the octets and wherever the cursor, the
fuel `256 * (len + 2)` handed out by `parseName` suffices (compression pointers cannot loop) -/
theorem parseName_ne_fuel (d : List Nat) (p : P) : parseName d p ≠ .error .fuel := by
  unfold parseName
  by_cases h : p.pos ≤ p.len
  · exact nameRun_ne_fuel d _ _ (mu_init p h)
  · have hf : nameFuel p = (nameFuel p - 1) + 1 := by unfold nameFuel; omega
    rw [hf]
    unfold nameRun
    cases hs : nameStep d { p := p, nameLen := 0, acc := [], compressed := false, outer := none } with
    | error e => simp only; intro h2; injection h2 with h2; subst h2; exact nameStep_ne_fuel d _ hs
    | ok st =>
      cases st with
      | done n q => simp
      | more s' => have := nameStep_more_pos d _ s' hs; simp only at this; omega

/-- under the invariant, with enough fuel, the loop ends in a value or a proper error and hands back a
parser that satisfies the invariant -/
theorem nameRun_good (d : List Nat) (L : Nat) : ∀ (f : Nat) (s : NS), s.Inv d L → s.mu < f → GoodR d L (nameRun f d s) := by
  intro f
  induction f with
  | zero => intro s _ h; omega
  | succ f ih =>
    intro s hs h
    have hg := nameStep_good d L s hs
    unfold nameRun
    cases hst : nameStep d s with
    | error e => rw [hst] at hg; exact hg
    | ok st =>
      rw [hst] at hg
      cases st with
      | done n p => exact hg
      | more s' => exact ih s' hg (by have := nameStep_mu d s s' hst; omega)

theorem parseName_good (d : List Nat) (p : P) (hi : p.Inv d) : GoodR d p.len (parseName d p) := by
  unfold parseName
  refine nameRun_good d p.len _ _ ⟨hi, rfl, ?_⟩ (mu_init p hi.1)
  intro q hq; cases hq


end Codec.Mdns
