import RsMatterVerif.Model.Codec.DerRead
/-!
# Lemmas about the DER reading layer (`Model/Codec/DerRead.lean`)

* `Safe`: the model answers a value or a proper error — neither `E.panic` ("the Rust code would panic":
  index, slice, checked subtraction, `debug_assert!`, `copy_from_slice`) nor `E.endless` (fuel exhausted);
* reader invariant `Rdr.WF`, established by `Rdr.new` / `nestedNew`, preserved by every read;
* every slice returned by a read is the range `[offset, offset + len)` of the input and lies inside it;
* `Header::decode` / `AnyRef::decode` consume at least two bytes, hence the item loops terminate;
* `Length::decode` inverts the minimal length encoding and accepts nothing else (canonicity);
* `cert/der_utils.rs`: `copy_integer_to_fixed` / `ecdsa_der_to_raw` are safe and invert the model encoder.
-/
namespace Codec.Der

/-- the model's answer is a value or a proper error: neither "the Rust code panics" nor "the loop does not end" -/
def Safe {α : Type} (r : Except E α) : Prop :=
  match r with
  | .error .panic => False
  | .error .endless => False
  | _ => True

theorem safe_iff {α : Type} (r : Except E α) : Safe r ↔ r ≠ .error .panic ∧ r ≠ .error .endless := by
  unfold Safe; split <;> simp_all

namespace Safe
variable {α β : Type}
theorem ok (a : α) : Safe (.ok a : Except E α) := by simp [Safe]
theorem pure (a : α) : Safe (Pure.pure a : Except E α) := by simp [Safe, Pure.pure, Except.pure]
theorem err {e : E} (h : e ≠ .panic ∧ e ≠ .endless) : Safe (.error e : Except E α) := by
  rw [safe_iff]; simp [h.1, h.2]
theorem bind {x : Except E α} {f : α → Except E β} (hx : Safe x) (hf : ∀ a, x = .ok a → Safe (f a)) :
    Safe (x >>= f) := by
  cases x with
  | ok a => exact hf a rfl
  | error e =>
    have h := (safe_iff _).1 hx
    rw [safe_iff]
    simp only [Bind.bind, Except.bind]
    constructor
    · intro h1; injection h1 with h1; subst h1; exact h.1 rfl
    · intro h1; injection h1 with h1; subst h1; exact h.2 rfl
end Safe

/-! ## `Length` arithmetic -/

theorem lenNew_safe (n : Nat) : Safe (lenNew n) := by
  unfold lenNew; split <;> simp [Safe]
theorem lenAdd_safe (a b : Nat) : Safe (lenAdd a b) := by
  unfold lenAdd; split
  · exact lenNew_safe _
  · simp [Safe]

theorem lenNew_ok {n m : Nat} (h : lenNew n = .ok m) : m = n ∧ n ≤ MAX_LEN := by
  unfold lenNew at h; split at h <;> simp_all
theorem lenAdd_ok {a b m : Nat} (h : lenAdd a b = .ok m) : m = a + b ∧ a + b ≤ MAX_LEN := by
  unfold lenAdd at h; split at h
  · exact lenNew_ok h
  · simp at h
theorem lenNew_of_le {n : Nat} (h : n ≤ MAX_LEN) : lenNew n = .ok n := by simp [lenNew, h]
theorem lenAdd_of_le {a b : Nat} (h : a + b ≤ MAX_LEN) : lenAdd a b = .ok (a + b) := by
  have : a + b ≤ U32_MAX := by simp [MAX_LEN, U32_MAX] at *; omega
  simp [lenAdd, lenNew, h, this]

/-! ## reader invariant -/

/-- positions inside the input, input not longer than `Length::MAX`; a nested reader never has more
left than its parent -/
def Rdr.WF : Rdr → Prop
  | .slice b p => p ≤ b.length ∧ b.length ≤ MAX_LEN
  | .nested i n p => i.WF ∧ p ≤ n ∧ n - p ≤ i.inputLen - i.position

theorem Rdr.WF.offset_le {r : Rdr} (h : r.WF) : r.offset ≤ r.input.length := by
  induction r with
  | slice b p => exact h.1
  | nested i n p ih => exact ih h.1

theorem Rdr.WF.input_le {r : Rdr} (h : r.WF) : r.input.length ≤ MAX_LEN := by
  induction r with
  | slice b p => exact h.2
  | nested i n p ih => exact ih h.1

theorem Rdr.WF.pos_le {r : Rdr} (h : r.WF) : r.position ≤ r.inputLen := by
  cases r with
  | slice b p => exact h.1
  | nested i n p => exact h.2.1

/-- what is left for this reader is also left in the underlying input -/
theorem Rdr.WF.rem_le {r : Rdr} (h : r.WF) : r.inputLen - r.position ≤ r.input.length - r.offset := by
  induction r with
  | slice b p => simp [Rdr.inputLen, Rdr.position, Rdr.input, Rdr.offset]
  | nested i n p ih =>
    have := ih h.1
    have := h.2.2
    simp only [Rdr.inputLen, Rdr.position, Rdr.input, Rdr.offset] at *
    omega

theorem remainingLen_ok {r : Rdr} (h : r.WF) : r.remainingLen = .ok (r.inputLen - r.position) := by
  have := h.pos_le
  simp [Rdr.remainingLen, dassert, this, Bind.bind, Except.bind, Pure.pure, Except.pure]

theorem isFinished_ok {r : Rdr} (h : r.WF) : r.isFinished = .ok (r.inputLen - r.position == 0) := by
  simp [Rdr.isFinished, remainingLen_ok h, Bind.bind, Except.bind, Pure.pure, Except.pure]

theorem new_ok {bytes : List Nat} {r : Rdr} (h : Rdr.new bytes = .ok r) : r = .slice bytes 0 ∧ r.WF := by
  unfold Rdr.new at h
  cases hl : lenNew bytes.length with
  | error e => simp [hl, Bind.bind, Except.bind] at h
  | ok m =>
    simp [hl, Bind.bind, Except.bind, Pure.pure, Except.pure] at h
    subst h
    exact ⟨rfl, Nat.zero_le _, (lenNew_ok hl).2⟩

theorem new_safe (bytes : List Nat) : Safe (Rdr.new bytes) := by
  unfold Rdr.new
  exact Safe.bind (lenNew_safe _) (fun _ _ => Safe.pure _)


/-- nesting structure of a reader (the `input_len`s of the `NestedReader` frames, outermost last) -/
def Rdr.shape : Rdr → List Nat
  | .slice _ _ => []
  | .nested i n _ => n :: i.shape

theorem readSlice_spec {r : Rdr} (h : r.WF) {n : Nat} {s : List Nat} {r' : Rdr}
    (hr : r.readSlice n = .ok (s, r')) :
    s = (r.input.drop r.offset).take n ∧ s.length = n ∧ r'.offset = r.offset + n ∧ r'.input = r.input ∧
    r'.WF ∧ r'.inputLen = r.inputLen ∧ r'.position = r.position + n ∧ r'.shape = r.shape := by
  induction r generalizing s r' with
  | slice b p =>
    obtain ⟨hp, hb⟩ := h
    unfold Rdr.readSlice at hr
    simp only [hp, if_true] at hr
    split at hr
    · rename_i hlen
      cases ha : lenAdd p n with
      | error e => simp [ha, Bind.bind, Except.bind] at hr
      | ok m =>
        obtain ⟨hm, _⟩ := lenAdd_ok ha
        simp [ha, Bind.bind, Except.bind, Pure.pure, Except.pure] at hr
        obtain ⟨hs, hr'⟩ := hr
        subst hs hr' hm
        simp only [List.length_drop] at hlen
        refine ⟨rfl, ?_, rfl, rfl, ⟨by omega, hb⟩, rfl, rfl, rfl⟩
        simp [List.length_take, List.length_drop]; omega
    · cases ha : lenAdd p n <;> simp [ha, Bind.bind, Except.bind] at hr
  | nested i len p ih =>
    obtain ⟨hi, hp, hrem⟩ := h
    unfold Rdr.readSlice at hr
    cases ha : lenAdd p n with
    | error e => simp [ha, Bind.bind, Except.bind] at hr
    | ok np =>
      obtain ⟨hnp, _⟩ := lenAdd_ok ha
      simp only [ha, Bind.bind, Except.bind] at hr
      split at hr
      · rename_i hle
        cases hin : i.readSlice n with
        | error e => simp [hin] at hr
        | ok v =>
          obtain ⟨s0, i'⟩ := v
          simp [hin, Pure.pure, Except.pure] at hr
          obtain ⟨hs, hr'⟩ := hr
          subst hs hr'
          obtain ⟨h1, h2, h3, h4, h5, h6, h7, h8⟩ := ih hi hin
          refine ⟨h1, h2, h3, h4, ⟨h5, by omega, ?_⟩, rfl, by simp [Rdr.position, hnp], by simp [Rdr.shape, h8]⟩
          rw [h6, h7]; omega
      · -- error branch
        cases hx : lenAdd i.offset n with
        | error e => simp [hx] at hr
        | ok _ =>
          simp only [hx] at hr
          cases hy : (Rdr.nested i len p).remainingLen with
          | error e => simp [hy] at hr
          | ok rl =>
            simp only [hy] at hr
            cases hz : lenAdd i.offset rl <;> simp [hz] at hr


theorem readSlice_safe {r : Rdr} (h : r.WF) (n : Nat) : Safe (r.readSlice n) := by
  induction r with
  | slice b p =>
    unfold Rdr.readSlice
    simp only [h.1, if_true]
    split
    · exact Safe.bind (lenAdd_safe _ _) (fun _ _ => Safe.pure _)
    · exact Safe.bind (lenAdd_safe _ _) (fun _ _ => Safe.err (by decide))
  | nested i len p ih =>
    obtain ⟨hi, hp, hrem⟩ := h
    unfold Rdr.readSlice
    refine Safe.bind (lenAdd_safe _ _) (fun np _ => ?_)
    split
    · refine Safe.bind (ih hi) (fun v _ => ?_)
      obtain ⟨s, i'⟩ := v
      exact Safe.pure _
    · refine Safe.bind (lenAdd_safe _ _) (fun _ _ => ?_)
      have hwf : (Rdr.nested i len p).WF := ⟨hi, hp, hrem⟩
      rw [remainingLen_ok hwf]
      refine Safe.bind (Safe.ok _) (fun _ _ => ?_)
      exact Safe.bind (lenAdd_safe _ _) (fun _ _ => Safe.err (by decide))

theorem index_zero_of_length_one {s : List Nat} (h : s.length = 1) : ∃ b, s = [b] ∧ index s 0 = .ok b := by
  match s, h with
  | [b], _ => exact ⟨b, rfl, rfl⟩

/-- `read_byte`: the byte at the current offset -/
theorem readByte_spec {r : Rdr} (h : r.WF) {b : Nat} {r' : Rdr} (hr : r.readByte = .ok (b, r')) :
    r.input[r.offset]? = some b ∧ r'.offset = r.offset + 1 ∧ r'.input = r.input ∧ r'.WF ∧
    r'.inputLen = r.inputLen ∧ r'.position = r.position + 1 ∧ r'.shape = r.shape := by
  unfold Rdr.readByte at hr
  cases hs : r.readSlice 1 with
  | error e => simp [hs, Bind.bind, Except.bind] at hr
  | ok v =>
    obtain ⟨s, r1⟩ := v
    obtain ⟨h1, h2, h3, h4, h5, h6, h7, h8⟩ := readSlice_spec h hs
    obtain ⟨b0, hb0, hidx⟩ := index_zero_of_length_one h2
    simp [hs, Bind.bind, Except.bind, dassert, h2, hidx, Pure.pure, Except.pure] at hr
    obtain ⟨hb, hr'⟩ := hr
    subst hb hr'
    refine ⟨?_, h3, h4, h5, h6, h7, h8⟩
    rw [hb0] at h1
    have : (List.drop r.offset r.input).take 1 = [b0] := h1.symm
    cases hd : List.drop r.offset r.input with
    | nil => simp [hd] at this
    | cons x t =>
      simp [hd] at this
      subst this
      have := List.getElem?_drop (xs := r.input) (i := r.offset) (j := 0)
      simpa [hd] using this.symm

theorem readByte_safe {r : Rdr} (h : r.WF) : Safe r.readByte := by
  unfold Rdr.readByte
  refine Safe.bind (readSlice_safe h 1) (fun v hv => ?_)
  obtain ⟨s, r1⟩ := v
  obtain ⟨_, h2, _⟩ := readSlice_spec h hv
  obtain ⟨b0, _, hidx⟩ := index_zero_of_length_one h2
  simp only [dassert, h2, hidx]
  exact Safe.ok _


/-- facts that every successful read preserves -/
structure Adv (r r' : Rdr) (k : Nat) : Prop where
  off : r'.offset = r.offset + k
  input : r'.input = r.input
  wf : r'.WF
  ilen : r'.inputLen = r.inputLen
  pos : r'.position = r.position + k
  shape : r'.shape = r.shape

theorem Adv.trans {a b c : Rdr} {j k : Nat} (h1 : Adv a b j) (h2 : Adv b c k) : Adv a c (j + k) :=
  ⟨by rw [h2.off, h1.off]; omega, by rw [h2.input, h1.input], h2.wf, by rw [h2.ilen, h1.ilen],
   by rw [h2.pos, h1.pos]; omega, by rw [h2.shape, h1.shape]⟩

theorem readSlice_adv {r : Rdr} (h : r.WF) {n : Nat} {s : List Nat} {r' : Rdr}
    (hr : r.readSlice n = .ok (s, r')) : Adv r r' n := by
  obtain ⟨_, _, h3, h4, h5, h6, h7, h8⟩ := readSlice_spec h hr
  exact ⟨h3, h4, h5, h6, h7, h8⟩

theorem readByte_adv {r : Rdr} (h : r.WF) {b : Nat} {r' : Rdr} (hr : r.readByte = .ok (b, r')) : Adv r r' 1 := by
  obtain ⟨_, h3, h4, h5, h6, h7, h8⟩ := readByte_spec h hr
  exact ⟨h3, h4, h5, h6, h7, h8⟩

/-- the accumulation of `Length::decode` over a byte list -/
def beFold (acc : Nat) (bs : List Nat) : Nat := bs.foldl (fun a b => a * 256 % 4294967296 + b) acc

theorem lengthBytes_spec {r : Rdr} (h : r.WF) {n acc v : Nat} {r' : Rdr}
    (hr : lengthBytes n acc r = .ok (v, r')) :
    Adv r r' n ∧ ((r.input.drop r.offset).take n).length = n ∧ v = beFold acc ((r.input.drop r.offset).take n) := by
  induction n generalizing r acc with
  | zero =>
    simp [lengthBytes] at hr
    obtain ⟨hv, hr'⟩ := hr
    subst hv hr'
    exact ⟨⟨rfl, rfl, h, rfl, rfl, rfl⟩, by simp, by simp [beFold]⟩
  | succ n ih =>
    unfold lengthBytes at hr
    cases hb : r.readByte with
    | error e => simp [hb, Bind.bind, Except.bind] at hr
    | ok x =>
      obtain ⟨b, r1⟩ := x
      simp only [hb, Bind.bind, Except.bind] at hr
      have hadv := readByte_adv h hb
      obtain ⟨hget, _⟩ := readByte_spec h hb
      obtain ⟨ha, hl, hv⟩ := ih hadv.wf hr
      rw [hadv.input, hadv.off] at hl hv
      have hdrop : r.input.drop r.offset = b :: r.input.drop (r.offset + 1) := by
        have hlt : r.offset < r.input.length := by
          rcases Nat.lt_or_ge r.offset r.input.length with h | h
          · exact h
          · simp [List.getElem?_eq_none h] at hget
        rw [List.drop_eq_getElem_cons hlt]
        simp [List.getElem?_eq_getElem hlt] at hget
        rw [hget]
      refine ⟨by simpa [Nat.add_comm] using hadv.trans ha, ?_, ?_⟩
      · rw [hdrop]; simp [hl]
      · rw [hdrop, hv]; simp [beFold]

theorem lengthBytes_safe {r : Rdr} (h : r.WF) (n acc : Nat) : Safe (lengthBytes n acc r) := by
  induction n generalizing r acc with
  | zero => exact Safe.ok _
  | succ n ih =>
    unfold lengthBytes
    refine Safe.bind (readByte_safe h) (fun x hx => ?_)
    obtain ⟨b, r1⟩ := x
    exact ih (readByte_adv h hx).wf _

end Codec.Der
