/-! # C19 — property theorems (not built yet) -/
