import RsMatterVerif.Lemmas.BtpLive
/-!
# Delivery under a fair schedule (liveness of the BTP link)

`never_stuck` says that something can always move; this file turns it into "every submitted message
arrives".  Structure of the argument, for a message waiting at end `x` (peer `y`):

* stage 3 — the message is completely received at `y` and not yet fetched: every `fetch y` hands
  out one message (`stage3`);
* stage 2 — the message is completely on the wire: every `deliver y` moves one segment; the number
  of segments in front of the end of the message (`needN`) decreases (`stage2`);
* stage 1 — part of the message is still in `x`'s one-slot SDU buffer.  The measure is
  lexicographic: (bytes of the SDU still to send, `phi`), where `phi` bounds everything that can
  still happen while `x` does not emit: segments in flight towards `y` (each may re-open `y`'s send
  window: weight `> 4·W`), free slots of `y`'s send window (each emission of `y` takes one — a
  stand-alone acknowledgement is itself a segment that takes a slot, so the acknowledgement
  ping-pong is bounded by the window, not by time), segments in flight towards `x`, unfetched
  messages, `y`'s free SDU slot.  Every scheduler step either leaves the link unchanged (up to the
  clock) or decreases the measure (`stage1_step`).  A link that stays unchanged for ever under a
  fair schedule has empty queues, nothing to fetch, `x`'s send window exhausted — and then the
  acknowledgement timer of `y` (15 s: the `tick 15; poll y` of the fairness hypothesis, the clock
  is unbounded) fires and `y`'s pump emits, or both windows are exhausted with no acknowledgement
  travelling, which `Sync.nodead` excludes.
-/
namespace Btp

/-! ## Runs -/

/-- one scheduler step; a refused operation leaves the link unchanged -/
def LMon.step1 (l : LMon) (op : Op) : LMon :=
  match l.step op with
  | .ok (l', _) => l'
  | .error _ => l

/-- the link after the first `n` operations of the infinite schedule `f` -/
def runF (l : LMon) (f : Nat → Op) : Nat → LMon
  | 0 => l
  | n + 1 => (runF l f n).step1 (f n)

theorem runF_add (l : LMon) (f : Nat → Op) (n : Nat) : ∀ m : Nat,
    runF l f (n + m) = runF (runF l f n) (fun i => f (n + i)) m := by
  intro m
  induction m with
  | zero => rfl
  | succ m ih =>
    show (runF l f (n + m)).step1 (f (n + m)) = (runF (runF l f n) (fun i => f (n + i)) m).step1 (f (n + m))
    rw [ih]

/-- **Fairness**: every queue is drained, every pump runs after the acknowledgement timer has
fired (`tick 15` immediately followed by `poll y`), every application fetches — each infinitely
often.  Anything else (more `send`s, `tick`s, `poll`s, …) may happen in between. -/
structure Fair (f : Nat → Op) : Prop where
  wf : ∀ i, WfOp (f i)
  del : ∀ y i, ∃ j, i ≤ j ∧ f j = .deliver y
  tp : ∀ y i, ∃ j, i ≤ j ∧ f j = .tick 15 ∧ f (j + 1) = .poll y
  fet : ∀ y i, ∃ j, i ≤ j ∧ f j = .fetch y 1232

theorem Fair.shift {f : Nat → Op} (h : Fair f) (n : Nat) : Fair (fun i => f (n + i)) := by
  refine ⟨fun i => h.wf _, ?_, ?_, ?_⟩
  · intro y i
    obtain ⟨j, hj, hf⟩ := h.del y (n + i)
    exact ⟨j - n, by omega, by show f (n + (j - n)) = _; rw [show n + (j - n) = j by omega]; exact hf⟩
  · intro y i
    obtain ⟨j, hj, hf, hf2⟩ := h.tp y (n + i)
    refine ⟨j - n, by omega, ?_, ?_⟩
    · show f (n + (j - n)) = _; rw [show n + (j - n) = j by omega]; exact hf
    · show f (n + (j - n + 1)) = _; rw [show n + (j - n + 1) = j + 1 by omega]; exact hf2
  · intro y i
    obtain ⟨j, hj, hf⟩ := h.fet y (n + i)
    exact ⟨j - n, by omega, by show f (n + (j - n)) = _; rw [show n + (j - n) = j by omega]; exact hf⟩

/-! ## Small frame facts -/

@[simp] theorem get_set_other' (l : LMon) (x : Side) (m : Mon) : (l.set x.other m).get x = l.get x := by
  cases x <;> rfl
@[simp] theorem now_set (l : LMon) (x : Side) (m : Mon) : (l.set x m).now = l.now := by cases x <;> rfl
@[simp] theorem now_setInq (l : LMon) (x : Side) (q : List (List Nat)) : (l.setInq x q).now = l.now := by
  cases x <;> rfl
@[simp] theorem inq_setInq_other' (l : LMon) (x : Side) (q : List (List Nat)) :
    (l.setInq x q).inq x.other = l.inq x.other := by cases x <;> rfl

theorem side_cases (z x : Side) : z = x ∨ z = x.other := by
  cases z <;> cases x <;> simp [Side.other]

theorem other_ne (x : Side) : x.other ≠ x := by cases x <;> simp [Side.other]

/-- the link is unchanged up to the clock, which did not go back -/
structure SameCore (l l' : LMon) : Prop where
  a : l'.a = l.a
  b : l'.b = l.b
  qab : l'.qab = l.qab
  qba : l'.qba = l.qba
  now : l.now ≤ l'.now

theorem SameCore.refl (l : LMon) : SameCore l l := ⟨rfl, rfl, rfl, rfl, Nat.le_refl _⟩

theorem SameCore.trans {l1 l2 l3 : LMon} (h1 : SameCore l1 l2) (h2 : SameCore l2 l3) : SameCore l1 l3 :=
  ⟨h2.a.trans h1.a, h2.b.trans h1.b, h2.qab.trans h1.qab, h2.qba.trans h1.qba, Nat.le_trans h1.now h2.now⟩

theorem SameCore.get {l l' : LMon} (h : SameCore l l') (z : Side) : l'.get z = l.get z := by
  cases z
  · exact h.a
  · exact h.b

theorem SameCore.inq {l l' : LMon} (h : SameCore l l') (z : Side) : l'.inq z = l.inq z := by
  cases z
  · exact h.qba
  · exact h.qab

theorem sameCore_set (l : LMon) (z : Side) : SameCore l (l.set z { (l.get z) with e := (l.get z).e }) := by
  cases z <;> exact ⟨rfl, rfl, rfl, rfl, Nat.le_refl _⟩

/-! ## What each scheduler operation does to a synchronised link -/

/-- what `send` does to the link -/
theorem step_send (l : LMon) (z : Side) (m : List Nat) :
    (l.step (.send z m) = .error .invalidArgument) ∨
    (l.step (.send z m) = .ok (l.set z { (l.get z) with e := (l.get z).e }, .queued false)) ∨
    ((l.get z).e.sdu = [] ∧ m ≠ [] ∧
      l.step (.send z m) = .ok (l.set z { (l.get z) with e := { (l.get z).e with sdu := m, off := 0 }, submitted := (l.get z).submitted ++ [m] }, .queued true)) := by
  simp only [LMon.step, Mon.step]
  unfold End.send
  by_cases h1 : (m.isEmpty || decide (m.length > maxTxPacketSize)) = true
  · left; simp only [h1, if_true]
  · simp only [h1, Bool.false_eq_true, if_false]
    by_cases h2 : (l.get z).e.sdu.isEmpty = true
    · right; right
      simp only [h2, if_true]
      exact ⟨by simpa using h2, fun h0 => by simp [h0] at h1, by first | rfl | trivial⟩
    · right; left
      simp only [h2, Bool.false_eq_true, if_false]

theorem step1_ok {l l' : LMon} {op : Op} {o : Out} (h : l.step op = .ok (l', o)) : l.step1 op = l' := by
  simp only [LMon.step1, h]

theorem step1_err {l : LMon} {op : Op} {f : Fail} (h : l.step op = .error f) : l.step1 op = l := by
  simp only [LMon.step1, h]

theorem recv_some_of_avail {e e' : End} {cap : Nat} {o : Option (List Nat)} (h0 : 0 < e.s.recv.msgCt)
    (h : e.recv cap = .ok (e', o)) : o.isSome = true := by
  unfold End.recv at h
  have : e.s.messageAvailable = true := by simp [Session.messageAvailable]; omega
  simp only [this, if_true] at h
  split at h
  · cases h
  · have hh := Prod.mk.inj (Except.ok.inj h); rw [← hh.2]; rfl

/-- what `fetch` does to the link -/
theorem step_fetch {l : LMon} (hl : LInv l) (z : Side) (cap : Nat) :
    ((l.get z).e.s.recv.msgCt = 0 ∧
      l.step (.fetch z cap) = .ok (l.set z { (l.get z) with e := (l.get z).e }, .none)) ∨
    (∃ (full : List Nat) (e' : End), l.step (.fetch z cap) =
        .ok (l.set z { (l.get z) with e := e', fetched := (l.get z).fetched ++ [(full.take cap, cap)] }, .msg (full.take cap)) ∧
      e'.s.send = (l.get z).e.s.send ∧ e'.sdu = (l.get z).e.sdu ∧ e'.off = (l.get z).e.off ∧
      e'.s.recv.msgCt + 1 = (l.get z).e.s.recv.msgCt) := by
  obtain ⟨hm, _⟩ := hl.get z
  rcases endRecv_spec (l.get z).e hm.e (l.get z).rs (l.get z).fetched.length hm.ring cap with h0 | ⟨full, e', h1, _, _, hr'⟩
  · left
    refine ⟨?_, by simp only [LMon.step, Mon.step, h0]⟩
    cases hc : (l.get z).e.s.recv.msgCt with
    | zero => rfl
    | succ k => have := recv_some_of_avail (by omega) h0; cases this
  · right
    refine ⟨full, e', by simp only [LMon.step, Mon.step, h1], ?_⟩
    obtain ⟨f0, _⟩ := endRecv_frame2 h1
    obtain ⟨g1, g2, _⟩ := endRecv_frame h1
    refine ⟨f0, g1, g2, ?_⟩
    have c1 := hm.ring.cnt
    have c2 := hr'.cnt
    have c3 := hr'.nLe
    omega



theorem prepTxData_nil_full {s s' : Session} {data : List Nat} {off now off' : Nat}
    (h : s.prepTxData data off now = .ok (s', [], off')) : s.send.isFull s.recv = true := by
  unfold Session.prepTxData at h
  by_cases hf : s.send.isFull s.recv = true
  · exact hf
  · exfalso
    simp only [hf, Bool.false_eq_true, if_false] at h
    cases hb : s.buildSegment data off with
    | error e => rw [hb] at h; cases h
    | ok hp =>
      rw [hb] at h
      obtain ⟨hd, p⟩ := hp
      simp only at h
      split at h
      · cases h
      · split at h
        · cases h
        · split at h
          · cases h
          · have hh := Prod.mk.inj (Except.ok.inj h)
            have h2 := (Prod.mk.inj hh.2).1
            have := (encode_length_le hd).2
            have h3 : (hd.encode ++ p).length = 0 := by rw [h2]; rfl
            simp only [List.length_append] at h3; omega

/-- an emission of the pump while an SDU is waiting is a data segment of that SDU: the SDU is
completely on the wire afterwards, or more of it is -/
theorem endOutgoing_sdu {e : End} (he : EInv e) (hnp : e.s.handshakePending = false)
    (hest : e.s.established = true) (hne : e.sdu ≠ []) (hoff : e.off < e.sdu.length)
    {now : Nat} {e' : End} {seg : List Nat}
    (hok : e.processOutgoing now = .ok (e', seg)) (hseg : seg ≠ []) :
    e'.sdu = [] ∨ (e'.sdu = e.sdu ∧ e.off < e'.off) := by
  obtain ⟨hm20, _, _⟩ := he.s.est hest
  unfold End.processOutgoing at hok
  rw [prepTxHandshake_idle hnp] at hok
  simp only [List.length_nil, Nat.lt_irrefl, if_false] at hok
  have he1 : ({ e with s := e.s } : End) = e := rfl
  rw [he1] at hok
  unfold End.dataStep at hok
  have hd : (!e.sdu.isEmpty && e.s.established) = true := by simp [hne, hest]
  simp only [hd, if_true] at hok
  cases h2 : e.s.prepTxData e.sdu e.off now with
  | error f => rw [h2] at hok; cases hok
  | ok r =>
    rw [h2] at hok
    obtain ⟨s2, sg, off2⟩ := r
    simp only at hok
    rcases prepTxData_inv h2 with ⟨hs0, ho0, hs2⟩ | ⟨hd', p, hb, hsg, ho2⟩
    · -- window full: nothing is emitted at all
      exfalso
      subst hs0
      have hfull := prepTxData_nil_full h2
      simp only [List.length_nil, Nat.lt_irrefl, if_false] at hok
      subst hs2
      rw [he1] at hok
      unfold End.ackStep at hok
      split at hok
      · rw [prepTxData_full hfull] at hok
        have hh := Prod.mk.inj (Except.ok.inj hok)
        exact hseg hh.2.symm
      · have hh := Prod.mk.inj (Except.ok.inj hok)
        exact hseg hh.2.symm
    · obtain ⟨_, _, _, _, hpl, _, _, _⟩ := buildSegment_spec he.s hne hoff he.len hm20 hb
      have hlen : sg.length > 0 := by
        rw [hsg]; have := (encode_length_le hd').2; simp only [List.length_append]; omega
      simp only [hlen, if_true] at hok
      by_cases hend : off2 = e.sdu.length
      · simp only [hend, if_true, hlen] at hok
        have hh := Prod.mk.inj (Except.ok.inj hok)
        left; rw [← hh.1]
      · simp only [hend, if_false, hlen, if_true] at hok
        have hh := Prod.mk.inj (Except.ok.inj hok)
        right; rw [← hh.1]
        exact ⟨rfl, by show e.off < off2; omega⟩



/-- what `poll` does to a synchronised link -/
theorem step_poll {W M : Nat} {l : LMon} (hl : LInv l) (hs : Sync W M l) (z : Side) :
    (l.step (.poll z) = .ok (l.set z { (l.get z) with e := (l.get z).e }, .none) ∧
      (l.get z).e.processOutgoing l.now = .ok ((l.get z).e, []) ∧
      ((l.get z).e.s.send.isFull (l.get z).e.s.recv = true ∨
        ((l.get z).e.sdu = [] ∧ (l.get z).e.s.isAckDue l.now ackTimeoutSecs = false))) ∨
    (∃ (seg : List Nat) (e' : End),
      l.step (.poll z) = .ok ((l.set z { (l.get z) with e := e', tx := feedSeg (l.get z).tx seg }).setInq z.other
        (l.inq z.other ++ [seg]), .tx seg) ∧ seg ≠ [] ∧
      (l.get z).e.processOutgoing l.now = .ok (e', seg) ∧
      e'.s = (l.get z).e.s.afterTx l.now ∧ 1 ≤ (l.get z).e.s.send.level ∧
      ((l.get z).e.sdu ≠ [] → e'.sdu = [] ∨ (e'.sdu = (l.get z).e.sdu ∧ (l.get z).e.off < e'.off))) := by
  obtain ⟨hm, _⟩ := hl.get z
  have dx := hs.st z
  obtain ⟨hest, hw, hmt⟩ := hs.ses z
  rcases endOutgoing_sync hm.e dx.pend hest dx.tx l.now with ⟨h0, hc⟩ | ⟨h, p, e', h1, hlv, hok, hga, he', _, hlast1⟩
  · left
    exact ⟨by simp only [LMon.step, Mon.step, h0, List.length_nil, Nat.lt_irrefl, if_false], h0, hc⟩
  · right
    rw [hmt] at hok
    have hlen := (segLen_le hok hs.par.m244).2
    have hne : h.encode ++ p ≠ [] := by
      intro h0; rw [h0] at hlen; simp at hlen
    refine ⟨h.encode ++ p, e', ?_, hne, h1, he', hlv, ?_⟩
    · simp only [LMon.step, Mon.step, h1, hlen, if_true, inq_set]
    · intro hsdu
      exact endOutgoing_sdu hm.e dx.pend hest hsdu (dx.tx.offLt hsdu) h1 hne

theorem commit_msgCt_le {r r' : RecvWindow} {h : Hdr} {p : List Nat} {mtu now : Nat}
    (hacc : r.acceptIncoming h p mtu now = .ok r') : r'.msgCt ≤ r.msgCt + 1 ∧ r.msgCt ≤ r'.msgCt := by
  obtain ⟨_, _, _, _, _, _, _, _, hc⟩ := acceptIncoming_inv hacc
  obtain ⟨_, _, e6, _⟩ := commit_inv hc
  rw [e6]; split <;> omega

/-- what `deliver` does to a synchronised link -/
theorem step_deliver {W M : Nat} {l : LMon} (hl : LInv l) (hs : Sync W M l) (z : Side) :
    (l.inq z = [] ∧ l.step (.deliver z) = .ok (l, .none)) ∨
    (∃ (seg : List Nat) (rest : List (List Nat)) (r' : RecvWindow) (w' : SendWindow),
      l.inq z = seg :: rest ∧
      l.step (.deliver z) = .ok ((l.set z { (l.get z) with
            e := { (l.get z).e with s := { (l.get z).e.s with recv := r', send := w' } },
            rs := feedSeg (l.get z).rs seg,
            fetched := (l.get z).fetched.take (l.get z).fetched.length }).setInq z rest, .delivered) ∧
      r'.msgCt ≤ (l.get z).e.s.recv.msgCt + 1 ∧ (l.get z).e.s.recv.msgCt ≤ r'.msgCt ∧ w'.level ≤ W) := by
  cases hq : l.inq z with
  | nil => left; exact ⟨rfl, by simp only [LMon.step, hq]⟩
  | cons seg rest =>
    right
    obtain ⟨hm, _⟩ := hl.get z
    have d1 := hs.dir z
    have d2 := hs.dir z.other
    simp only [other_other] at d2
    rw [hq] at d1 d2
    obtain ⟨hest, hw, hmt⟩ := hs.ses z
    obtain ⟨h, p, r', hdec, hcan, hacc, d2'⟩ := dirOk_accept hs.par d2 l.now
    obtain ⟨hchk, w', hsa, d1', hwn, hws⟩ := dirOk_ack hs.par.w255 d1 hdec hcan.hs l.now
    have hin : (l.get z).e.processIncoming seg l.now =
        .ok { (l.get z).e with s := { (l.get z).e.s with recv := r', send := w' } } := by
      unfold End.processIncoming Session.processRx
      rw [hdec]
      simp only
      unfold Session.processRxSeg
      simp only [hcan.hs, Bool.false_eq_true, if_false]
      unfold Session.processRxData
      rw [hchk]
      simp only
      rw [hmt, hacc]
      simp only
      rw [hsa]
    have hg : ghostRx (l.get z).rs (l.get z).fetched.length seg = (feedSeg (l.get z).rs seg, (l.get z).fetched.length) :=
      ghostRx_noHs _ _ _ ⟨h, p, hdec, hcan.hs⟩
    obtain ⟨c1, c2⟩ := commit_msgCt_le hacc
    refine ⟨seg, rest, r', w', rfl, ?_, c1, c2, d1'.lvl⟩
    simp only [LMon.step, hq, Mon.step, hin, hg]


/-! ## Runs of a synchronised link -/

theorem sync_step1 {W M : Nat} {l : LMon} (hl : LInv l) (hs : Sync W M l) {op : Op} (hop : WfOp op) :
    LInv (l.step1 op) ∧ Sync W M (l.step1 op) := by
  have c := link_step l hl op hop
  rcases sync_step hl hs op with ⟨l', o, h1, h2⟩ | ⟨h1, _⟩
  · rw [h1] at c
    rw [step1_ok h1]
    exact ⟨c, h2⟩
  · rw [step1_err h1]; exact ⟨hl, hs⟩

theorem sync_runF {W M : Nat} {f : Nat → Op} (hf : ∀ i, WfOp (f i)) {l : LMon} (hl : LInv l) (hs : Sync W M l) :
    ∀ n, LInv (runF l f n) ∧ Sync W M (runF l f n) := by
  intro n
  induction n with
  | zero => exact ⟨hl, hs⟩
  | succ n ih => exact sync_step1 ih.1 ih.2 (hf n)

/-- the four counters of the direction `x → y`: messages submitted at `x`, completely emitted by
`x`, completely received by `y`, fetched at `y` -/
def Sn (l : LMon) (x : Side) : Nat := (l.get x).submitted.length
def Tn (l : LMon) (x : Side) : Nat := (l.get x).tx.done.length
def Rn (l : LMon) (x : Side) : Nat := (l.get x.other).rs.done.length
def Fn (l : LMon) (x : Side) : Nat := (l.get x.other).fetched.length

theorem feedSeg_done_le (rs : Spec.Reasm) (seg : List Nat) : rs.done.length ≤ (feedSeg rs seg).done.length := by
  obtain ⟨l, h⟩ := feedSeg_done rs seg
  rw [h]; simp

/-- **monotonicity**: in a synchronised link none of the four counters of a direction ever
decreases; and unless the operation is `deliver y` the receiver's reassembly is untouched and the
queue towards it only grows at its end -/
theorem sync_step1_mono {W M : Nat} {l : LMon} (hl : LInv l) (hs : Sync W M l) (op : Op) (x : Side) :
    Sn l x ≤ Sn (l.step1 op) x ∧ Tn l x ≤ Tn (l.step1 op) x ∧ Rn l x ≤ Rn (l.step1 op) x ∧
    Fn l x ≤ Fn (l.step1 op) x ∧
    (op ≠ .deliver x.other → ((l.step1 op).get x.other).rs = (l.get x.other).rs ∧
      ((l.step1 op).inq x.other = l.inq x.other ∨ ∃ s, (l.step1 op).inq x.other = l.inq x.other ++ [s])) := by
  unfold Sn Tn Rn Fn
  cases op with
  | send z m =>
    rcases step_send l z m with h | h | ⟨_, _, h⟩
    · rw [step1_err h]; simp
    · rw [step1_ok h]
      rcases side_cases z x with rfl | rfl <;> simp
    · rw [step1_ok h]
      rcases side_cases z x with rfl | rfl <;> simp
  | tick n =>
    have h : l.step (.tick n) = .ok ({ l with now := l.now + n }, .none) := rfl
    rw [step1_ok h]
    refine ⟨Nat.le_refl _, Nat.le_refl _, Nat.le_refl _, Nat.le_refl _, fun _ => ⟨?_, .inl ?_⟩⟩
    · cases x <;> rfl
    · cases x <;> rfl
  | fetch z cap =>
    rcases step_fetch hl z cap with ⟨_, h⟩ | ⟨full, e', h, _⟩
    · rw [step1_ok h]
      rcases side_cases z x with rfl | rfl <;> simp
    · rw [step1_ok h]
      rcases side_cases z x with rfl | rfl <;> simp
  | poll z =>
    rcases step_poll hl hs z with ⟨h, _⟩ | ⟨seg, e', h, _⟩
    · rw [step1_ok h]
      rcases side_cases z x with rfl | rfl <;> simp
    · rw [step1_ok h]
      rcases side_cases z x with rfl | rfl
      · simp [feedSeg_done_le]
      · simp
  | deliver z =>
    rcases step_deliver hl hs z with ⟨_, h⟩ | ⟨seg, rest, r', w', hq, h, _⟩
    · rw [step1_ok h]; simp
    · rw [step1_ok h]
      rcases side_cases z x with rfl | rfl
      · simp
      · simp [feedSeg_done_le]



theorem sync_runF_mono {W M : Nat} {f : Nat → Op} (hf : ∀ i, WfOp (f i)) {l : LMon} (hl : LInv l) (hs : Sync W M l)
    (x : Side) : ∀ n, Sn l x ≤ Sn (runF l f n) x ∧ Tn l x ≤ Tn (runF l f n) x ∧ Rn l x ≤ Rn (runF l f n) x ∧
      Fn l x ≤ Fn (runF l f n) x := by
  intro n
  induction n with
  | zero => exact ⟨Nat.le_refl _, Nat.le_refl _, Nat.le_refl _, Nat.le_refl _⟩
  | succ n ih =>
    obtain ⟨hl', hs'⟩ := sync_runF hf hl hs n
    obtain ⟨m1, m2, m3, m4, _⟩ := sync_step1_mono hl' hs' (f n) x
    obtain ⟨i1, i2, i3, i4⟩ := ih
    exact ⟨Nat.le_trans i1 m1, Nat.le_trans i2 m2, Nat.le_trans i3 m3, Nat.le_trans i4 m4⟩

/-- the number of complete messages waiting at `y` = received − fetched -/
theorem msgCt_eq {l : LMon} (hl : LInv l) (x : Side) :
    (l.get x.other).e.s.recv.msgCt = Rn l x - Fn l x ∧ Fn l x ≤ Rn l x := by
  obtain ⟨hm, _⟩ := hl.get x.other
  exact ⟨hm.ring.cnt, hm.ring.nLe⟩

/-- **stage 3**: a message that is completely received at `y` is fetched -/
theorem stage3 {W M : Nat} (x : Side) (k : Nat) : ∀ (d : Nat) (f : Nat → Op) (l : LMon), Fair f →
    LInv l → Sync W M l → k < Rn l x → k + 1 ≤ Fn l x + d → ∃ n, k < Fn (runF l f n) x := by
  intro d
  induction d with
  | zero => intro f l _ _ _ _ h; exact ⟨0, by show k < Fn l x; omega⟩
  | succ d ih =>
    intro f l hf hl hs hr hd
    by_cases hk : k < Fn l x
    · exact ⟨0, hk⟩
    obtain ⟨j, _, hj⟩ := hf.fet x.other 0
    obtain ⟨hl', hs'⟩ := sync_runF hf.wf hl hs j
    obtain ⟨_, _, m3, m4⟩ := sync_runF_mono hf.wf hl hs x j
    obtain ⟨c1, c2⟩ := msgCt_eq hl' x
    by_cases hk' : k < Fn (runF l f j) x
    · exact ⟨j, hk'⟩
    have hstep : Fn (runF l f (j + 1)) x = Fn (runF l f j) x + 1 := by
      show Fn ((runF l f j).step1 (f j)) x = _
      rw [hj]
      rcases step_fetch hl' x.other 1232 with ⟨h0, _⟩ | ⟨full, e', h, _⟩
      · omega
      · rw [step1_ok h]; simp [Fn]
    obtain ⟨hl2, hs2⟩ := sync_runF hf.wf hl hs (j + 1)
    obtain ⟨_, _, m3', _⟩ := sync_runF_mono hf.wf hl hs x (j + 1)
    obtain ⟨n, hn⟩ := ih (fun i => f (j + 1 + i)) (runF l f (j + 1)) (hf.shift (j + 1)) hl2 hs2 (by omega) (by omega)
    exact ⟨j + 1 + n, by rw [runF_add]; exact hn⟩



/-- number of segments at the head of the queue `q` that the receiver (reassembly state `rs`) has
to accept until more than `k` messages are complete -/
def needN (k : Nat) : Spec.Reasm → List (List Nat) → Nat
  | _, [] => 0
  | rs, seg :: rest => if k < rs.done.length then 0 else 1 + needN k (feedSeg rs seg) rest

theorem needN_snoc (k : Nat) (s : List Nat) : ∀ (q : List (List Nat)) (rs : Spec.Reasm),
    k < (feedAll rs q).done.length → needN k rs (q ++ [s]) = needN k rs q := by
  intro q
  induction q with
  | nil =>
    intro rs h
    have h' : k < rs.done.length := h
    simp [needN, h']
  | cons seg rest ih =>
    intro rs h
    simp only [List.cons_append, needN]
    split
    · rfl
    · rw [ih (feedSeg rs seg) h]

theorem steady_q {W M : Nat} {l : LMon} (hs : Sync W M l) (x : Side) :
    (feedAll (l.get x.other).rs (l.inq x.other)).done.length = Tn l x := by
  rw [(hs.st x).q]; rfl

theorem need_step {W M : Nat} {l : LMon} (hl : LInv l) (hs : Sync W M l) (op : Op) (x : Side) (k : Nat)
    (ht : k < Tn l x) (hk : ¬ k < Rn l x) :
    needN k ((l.step1 op).get x.other).rs ((l.step1 op).inq x.other) ≤ needN k (l.get x.other).rs (l.inq x.other) ∧
    (op = .deliver x.other →
      needN k ((l.step1 op).get x.other).rs ((l.step1 op).inq x.other) + 1 ≤ needN k (l.get x.other).rs (l.inq x.other)) := by
  have hk' : ¬ k < (l.get x.other).rs.done.length := hk
  by_cases hop : op = .deliver x.other
  · subst hop
    rcases step_deliver hl hs x.other with ⟨hq, _⟩ | ⟨seg, rest, r', w', hq, h, _⟩
    · exfalso
      rw [← steady_q hs x, hq] at ht
      exact hk ht
    · rw [step1_ok h]
      simp only [get_setInq, get_set_same, inq_setInq_same, hq, needN, hk', if_false]
      omega
  · obtain ⟨_, _, _, _, hm⟩ := sync_step1_mono hl hs op x
    obtain ⟨h1, h2⟩ := hm hop
    refine ⟨?_, fun h => absurd h hop⟩
    rw [h1]
    rcases h2 with h2 | ⟨s, h2⟩
    · rw [h2]; exact Nat.le_refl _
    · rw [h2, needN_snoc k s _ _ (by rw [steady_q hs x]; exact ht)]; exact Nat.le_refl _

/-- **stage 2**: a message that is completely on the wire is completely received -/
theorem stage2 {W M : Nat} (x : Side) (k : Nat) : ∀ (d : Nat) (f : Nat → Op) (l : LMon), Fair f →
    LInv l → Sync W M l → k < Tn l x → needN k (l.get x.other).rs (l.inq x.other) ≤ d →
    ∃ n, k < Rn (runF l f n) x := by
  intro d
  induction d with
  | zero =>
    intro f l _ _ hs ht hd
    refine ⟨0, ?_⟩
    show k < (l.get x.other).rs.done.length
    rw [← steady_q hs x] at ht
    cases hq : l.inq x.other with
    | nil => rw [hq] at ht; exact ht
    | cons seg rest =>
      rw [hq] at hd
      simp only [needN] at hd
      split at hd
      · assumption
      · omega
  | succ d ih =>
    intro f l hf hl hs ht hd
    by_cases hk : k < Rn l x
    · exact ⟨0, hk⟩
    obtain ⟨j, _, hj⟩ := hf.del x.other 0
    -- up to the next `deliver y` the need does not grow
    have key : ∀ i, (k < Tn (runF l f i) x ∧
        needN k ((runF l f i).get x.other).rs ((runF l f i).inq x.other) ≤ d + 1) ∨ ∃ n, k < Rn (runF l f n) x := by
      intro i
      induction i with
      | zero => exact .inl ⟨ht, hd⟩
      | succ i ihi =>
        rcases ihi with ⟨a1, a2⟩ | a
        · obtain ⟨hl', hs'⟩ := sync_runF hf.wf hl hs i
          by_cases hk2 : k < Rn (runF l f i) x
          · exact .inr ⟨i, hk2⟩
          · left
            obtain ⟨_, m2, _⟩ := sync_step1_mono hl' hs' (f i) x
            refine ⟨Nat.lt_of_lt_of_le a1 m2, Nat.le_trans (need_step hl' hs' (f i) x k a1 hk2).1 a2⟩
        · exact .inr a
    rcases key j with ⟨a1, a2⟩ | a
    · obtain ⟨hl', hs'⟩ := sync_runF hf.wf hl hs j
      by_cases hk2 : k < Rn (runF l f j) x
      · exact ⟨j, hk2⟩
      have hdec := (need_step hl' hs' (f j) x k a1 hk2).2 hj
      obtain ⟨_, m2, _⟩ := sync_step1_mono hl' hs' (f j) x
      obtain ⟨hl2, hs2⟩ := sync_runF hf.wf hl hs (j + 1)
      obtain ⟨n, hn⟩ := ih (fun i => f (j + 1 + i)) (runF l f (j + 1)) (hf.shift (j + 1)) hl2 hs2
        (Nat.lt_of_lt_of_le a1 m2) (by show needN k (((runF l f j).step1 (f j)).get x.other).rs (((runF l f j).step1 (f j)).inq x.other) ≤ d; omega)
      exact ⟨j + 1 + n, by rw [runF_add]; exact hn⟩
    · exact a


/-! ## Stage 1: the SDU waiting at `x` is emitted -/

/-- everything that can still happen while `x` does not emit -/
def phi (l : LMon) (x : Side) : Nat :=
  1024 * (l.inq x.other).length + 4 * (l.get x.other).e.s.send.level + 2 * (l.inq x).length +
    ((l.get x).e.s.recv.msgCt + (l.get x.other).e.s.recv.msgCt) +
    (if (l.get x.other).e.sdu = [] then 1 else 0)

/-- the measure of stage 1: bytes of the SDU still to send, then `phi` -/
def mu (l : LMon) (x : Side) : Nat :=
  2048 * ((l.get x).e.sdu.length - (l.get x).e.off) + phi l x

theorem afterTx_msgCt (s : Session) (now : Nat) : (s.afterTx now).recv.msgCt = s.recv.msgCt := by
  unfold Session.afterTx
  simp only
  split <;> rfl

theorem afterTx_level (s : Session) (now : Nat) : (s.afterTx now).send.level = s.send.level - 1 := rfl

theorem mu_sameCore {l l' : LMon} (h : SameCore l l') (x : Side) : mu l' x = mu l x := by
  unfold mu phi
  rw [h.get x, h.get x.other, h.inq x, h.inq x.other]

/-- **every step is idle or decreases the measure** (or completes the SDU) -/
theorem stage1_step {W M : Nat} {l : LMon} (hl : LInv l) (hs : Sync W M l) (x : Side)
    (hx : (l.get x).e.sdu ≠ []) (op : Op) (hop : WfOp op) :
    SameCore l (l.step1 op) ∨ mu (l.step1 op) x < mu l x ∨ ((l.step1 op).get x).e.sdu = [] := by
  have hW := hs.par.w255
  obtain ⟨hl', hs'⟩ := sync_step1 hl hs hop
  cases op with
  | send z m =>
    rcases step_send l z m with h | h | ⟨h0, hm, h⟩
    · rw [step1_err h]; exact .inl (SameCore.refl l)
    · rw [step1_ok h]; exact .inl (sameCore_set l z)
    · rw [step1_ok h]
      right; left
      rcases side_cases z x with rfl | rfl
      · exact absurd h0 hx
      · simp only [mu, phi, get_set_same, get_set_other', inq_set, hm, h0, if_true, if_false]
        omega
  | tick n =>
    left
    have h : l.step (.tick n) = .ok ({ l with now := l.now + n }, .none) := rfl
    rw [step1_ok h]
    exact ⟨rfl, rfl, rfl, rfl, Nat.le_add_right _ _⟩
  | fetch z cap =>
    rcases step_fetch hl z cap with ⟨_, h⟩ | ⟨full, e', h, f1, f2, f3, f4⟩
    · rw [step1_ok h]; exact .inl (sameCore_set l z)
    · rw [step1_ok h]
      right; left
      rcases side_cases z x with rfl | rfl
      · simp only [mu, phi, get_set_same, get_set_other, inq_set, f2, f3]
        omega
      · simp only [mu, phi, get_set_same, get_set_other', inq_set, f1, f2]
        omega
  | poll z =>
    rcases step_poll hl hs z with ⟨h, _⟩ | ⟨seg, e', h, hne, _, he', hlv, hsdu⟩
    · rw [step1_ok h]; exact .inl (sameCore_set l z)
    · rw [step1_ok h] at hl' ⊢
      rcases side_cases z x with rfl | rfl
      · rcases hsdu hx with h0 | ⟨h1, h2⟩
        · right; right
          simp only [get_setInq, get_set_same]; exact h0
        · right; left
          have hoff := (hl'.get z).1.e.off
          simp only [get_setInq, get_set_same, h1] at hoff
          have hoff0 := (hl.get z).1.e.off
          simp only [mu, phi, get_setInq, get_set_same, get_set_other, inq_setInq_same, inq_setInq_other, inq_set,
            h1, he', afterTx_msgCt, List.length_append, List.length_singleton]
          omega
      · right; left
        simp only [mu, phi, get_setInq, get_set_same, get_set_other', inq_setInq_same, inq_setInq_other', inq_set,
          other_other, he', afterTx_msgCt, afterTx_level, List.length_append, List.length_singleton]
        split <;> split <;> omega
  | deliver z =>
    rcases step_deliver hl hs z with ⟨_, h⟩ | ⟨seg, rest, r', w', hq, h, c1, c2, c3⟩
    · rw [step1_ok h]; exact .inl (SameCore.refl l)
    · rw [step1_ok h]
      right; left
      rcases side_cases z x with rfl | rfl
      · simp only [mu, phi, get_setInq, get_set_same, get_set_other, inq_setInq_same, inq_setInq_other', inq_set, hq,
          List.length_cons]
        omega
      · simp only [mu, phi, get_setInq, get_set_same, get_set_other', inq_setInq_same, inq_setInq_other, inq_set, hq,
          List.length_cons]
        omega



/-- **the quiet link**: nothing in flight, nothing to fetch, an SDU waiting at `x` whose send window
is exhausted. Then the peer owes an acknowledgement whose timer is running (`received_at = t`), and
from `t + 15 s` on the peer's pump emits a segment (window ≥ 3). -/
theorem quiet_enabled {W M : Nat} {l : LMon} (hl : LInv l) (hs : Sync W M l) (hw : 3 ≤ W) (x : Side)
    (hq0 : ∀ y, l.inq y = []) (hm0 : ∀ y, (l.get y).e.s.recv.msgCt = 0)
    (hfx : (l.get x).e.s.send.isFull (l.get x).e.s.recv = true) :
    ∃ t, (l.get x.other).e.s.recv.receivedAt = some t ∧
      ∀ now, t + ackTimeoutSecs ≤ now →
        ∃ e' seg, (l.get x.other).e.processOutgoing now = .ok (e', seg) ∧ seg ≠ [] := by
  obtain ⟨hmy, _⟩ := hl.get x.other
  have dy := hs.st x.other
  obtain ⟨hesty, _, hmty⟩ := hs.ses x.other
  have emits : ∀ {mtu seq rem : Nat} {h : Hdr} {p : List Nat}, SegOk mtu seq rem h p → h.encode ++ p ≠ [] := by
    intro mtu seq rem h p _ h0
    have := (encode_length_le h).2
    have h1 : (h.encode ++ p).length = 0 := by rw [h0]; rfl
    simp only [List.length_append] at h1; omega
  have d1 := hs.dir x
  have d2 := hs.dir x.other
  simp only [other_other] at d2
  have t1 := d1.tight
  have t2 := d2.tight
  rw [hq0 x, hq0 x.other] at t1
  rw [hq0 x, hq0 x.other] at t2
  simp only [Tight, lastAck, List.length_nil] at t1 t2
  have hlx : (l.get x).e.s.send.level ≤ 1 := by
    rcases full_cases hfx with h | ⟨h, _⟩ <;> omega
  have hry : 0 < (l.get x.other).e.s.recv.ackLevel := by omega
  have hpy := pendingAck_some hry (hm0 x.other)
  obtain ⟨t, ht⟩ : ∃ t, (l.get x.other).e.s.recv.receivedAt = some t := by
    have := d1.stamp hry
    cases h : (l.get x.other).e.s.recv.receivedAt with
    | none => rw [h] at this; cases this
    | some t => exact ⟨t, rfl⟩
  refine ⟨t, ht, ?_⟩
  intro now hnow
  have hdue : (l.get x.other).e.s.isAckDue now ackTimeoutSecs = true := by
    unfold Session.isAckDue
    simp only [hpy, Option.isSome_some, ht, Bool.true_and, Bool.or_eq_true, decide_eq_true_eq]
    right; exact hnow
  rcases endOutgoing_sync hmy.e dy.pend hesty dy.tx now with ⟨_, hfull2⟩ | ⟨h, p, e', h1, _, hok, _⟩
  rotate_left
  · exact ⟨e', _, h1, emits hok⟩
  exfalso
  have hfy : (l.get x.other).e.s.send.isFull (l.get x.other).e.s.recv = true := by
    rcases hfull2 with h | ⟨_, h⟩
    · exact h
    · rw [hdue] at h; cases h
  have hly : (l.get x.other).e.s.send.level = 0 := by
    rcases full_cases hfy with h | ⟨_, h⟩
    · exact h
    · rw [hpy] at h; cases h
  have hrx : 2 ≤ (l.get x).e.s.recv.ackLevel := by omega
  rcases full_cases hfx with h | ⟨_, h⟩
  · apply hs.nodead
    rw [dead_iff l x]
    refine ⟨h, hly, ?_, ?_⟩
    · rw [hq0 x]; intro s hs; exact absurd hs List.not_mem_nil
    · rw [hq0 x.other]; intro s hs; exact absurd hs List.not_mem_nil
  · rw [pendingAck_some (by omega) (hm0 x)] at h; cases h



theorem step1_tick_now (l : LMon) (n : Nat) : (l.step1 (.tick n)).now = l.now + n := rfl

/-- the induction step of stage 1: if the SDU of every link with a smaller measure gets out, so
does the SDU of `l` -/
theorem stage1_core {W M : Nat} (hw : 3 ≤ W) (x : Side) (f : Nat → Op) (l : LMon) (hf : Fair f)
    (hl : LInv l) (hs : Sync W M l)
    (ih : ∀ (f' : Nat → Op) (l' : LMon), Fair f' → LInv l' → Sync W M l' → (l'.get x).e.sdu ≠ [] →
      mu l' x < mu l x → ∃ n, ((runF l' f' n).get x).e.sdu = []) :
    ∃ n, ((runF l f n).get x).e.sdu = [] := by
  apply Classical.byContradiction
  intro hne
  have hne' : ∀ n, ((runF l f n).get x).e.sdu ≠ [] := fun n h => hne ⟨n, h⟩
  have hinv := sync_runF hf.wf hl hs
  -- the link never changes
  have hall : ∀ n, SameCore l (runF l f n) ∧ ∀ i, i ≤ n → (runF l f i).now ≤ (runF l f n).now := by
    intro n
    induction n with
    | zero =>
      refine ⟨SameCore.refl l, ?_⟩
      intro i hi
      have : i = 0 := by omega
      subst this; exact Nat.le_refl _
    | succ n ihn =>
      obtain ⟨hl', hs'⟩ := hinv n
      have hstep : SameCore (runF l f n) (runF l f (n + 1)) := by
        rcases stage1_step hl' hs' x (hne' n) (f n) (hf.wf n) with h | h | h
        · exact h
        · exfalso
          rw [mu_sameCore ihn.1 x] at h
          obtain ⟨hl2, hs2⟩ := hinv (n + 1)
          obtain ⟨n', hn'⟩ := ih (fun i => f (n + 1 + i)) (runF l f (n + 1)) (hf.shift (n + 1)) hl2 hs2 (hne' (n + 1)) h
          rw [← runF_add] at hn'
          exact hne' _ hn'
        · exact absurd h (hne' (n + 1))
      refine ⟨ihn.1.trans hstep, ?_⟩
      intro i hi
      by_cases h : i = n + 1
      · subst h; exact Nat.le_refl _
      · exact Nat.le_trans (ihn.2 i (by omega)) hstep.now
  have hsame := fun n => (hall n).1
  -- hence: nothing in flight
  have hq0 : ∀ y, l.inq y = [] := by
    intro y
    obtain ⟨j, _, hj⟩ := hf.del y 0
    obtain ⟨hl', hs'⟩ := hinv j
    have e1 := (hsame j).inq y
    have e2 := (hsame (j + 1)).inq y
    rcases step_deliver hl' hs' y with ⟨hq, _⟩ | ⟨seg, rest, r', w', hq, h, _⟩
    · rw [← e1]; exact hq
    · exfalso
      have : (runF l f (j + 1)).inq y = rest := by
        show ((runF l f j).step1 (f j)).inq y = rest
        rw [hj, step1_ok h]; simp
      rw [e2, ← e1, hq] at this
      have := congrArg List.length this
      simp at this
  -- nothing to fetch
  have hm0 : ∀ y, (l.get y).e.s.recv.msgCt = 0 := by
    intro y
    obtain ⟨j, _, hj⟩ := hf.fet y 0
    obtain ⟨hl', hs'⟩ := hinv j
    have e1 := (hsame j).get y
    have e2 := (hsame (j + 1)).get y
    rcases step_fetch hl' y 1232 with ⟨h0, _⟩ | ⟨full, e', h, _, _, _, h4⟩
    · rw [← e1]; exact h0
    · exfalso
      have : ((runF l f (j + 1)).get y).e = e' := by
        show (((runF l f j).step1 (f j)).get y).e = e'
        rw [hj, step1_ok h]; simp
      rw [e2, ← e1] at this
      rw [← this] at h4
      omega
  -- a `poll` never emits
  have hidle : ∀ y j, f j = .poll y → ∀ e' seg, (l.get y).e.processOutgoing (runF l f j).now = .ok (e', seg) → seg = [] := by
    intro y j hj e' seg hp
    obtain ⟨hl', hs'⟩ := hinv j
    have e1 := (hsame j).get y
    rcases step_poll hl' hs' y with ⟨_, h0, _⟩ | ⟨sg, e2, h, hne2, _⟩
    · rw [e1, hp] at h0
      exact (Prod.mk.inj (Except.ok.inj h0)).2
    · exfalso
      have : (runF l f (j + 1)).inq y.other = (runF l f j).inq y.other ++ [sg] := by
        show ((runF l f j).step1 (f j)).inq y.other = _
        rw [hj, step1_ok h]; simp
      rw [(hsame (j + 1)).inq y.other, (hsame j).inq y.other] at this
      have := congrArg List.length this
      simp at this
  -- `x`'s send window is exhausted
  have hfx : (l.get x).e.s.send.isFull (l.get x).e.s.recv = true := by
    obtain ⟨j, _, _, hj⟩ := hf.tp x 0
    obtain ⟨hl', hs'⟩ := hinv (j + 1)
    have e1 := (hsame (j + 1)).get x
    rcases step_poll hl' hs' x with ⟨_, _, hc⟩ | ⟨sg, e2, h, hne2, hp, _⟩
    · rcases hc with hc | ⟨hc, _⟩
      · rw [e1] at hc; exact hc
      · exact absurd hc (hne' (j + 1))
    · exfalso
      rw [e1] at hp
      exact hne2 (hidle x (j + 1) hj _ _ hp)
  obtain ⟨t, _, hen⟩ := quiet_enabled hl hs hw x hq0 hm0 hfx
  -- the clock is unbounded
  have hclock : ∀ B, ∃ j, B ≤ (runF l f j).now := by
    intro B
    induction B with
    | zero => exact ⟨0, Nat.zero_le _⟩
    | succ B ihB =>
      obtain ⟨j, hj⟩ := ihB
      obtain ⟨j', hj', ht, _⟩ := hf.tp x j
      refine ⟨j' + 1, ?_⟩
      have h1 : (runF l f (j' + 1)).now = (runF l f j').now + 15 := by
        show ((runF l f j').step1 (f j')).now = _
        rw [ht]; rfl
      have h2 := (hall j').2 j hj'
      omega
  obtain ⟨j, hj⟩ := hclock t
  obtain ⟨j', hj', ht, hp⟩ := hf.tp x.other j
  have h1 : (runF l f (j' + 1)).now = (runF l f j').now + 15 := by
    show ((runF l f j').step1 (f j')).now = _
    rw [ht]; rfl
  have h2 := (hall j').2 j hj'
  obtain ⟨e', seg, hout, hseg⟩ := hen (runF l f (j' + 1)).now (by simp only [ackTimeoutSecs_eq]; omega)
  exact hseg (hidle x.other (j' + 1) hp _ _ hout)

/-- **stage 1**: the SDU waiting in `x`'s buffer is put on the wire completely -/
theorem stage1 {W M : Nat} (hw : 3 ≤ W) (x : Side) : ∀ (d : Nat) (f : Nat → Op) (l : LMon), Fair f →
    LInv l → Sync W M l → mu l x ≤ d → ∃ n, ((runF l f n).get x).e.sdu = [] := by
  intro d
  induction d with
  | zero =>
    intro f l hf hl hs hd
    exact stage1_core hw x f l hf hl hs (fun f' l' _ _ _ _ h => by omega)
  | succ d ih =>
    intro f l hf hl hs hd
    exact stage1_core hw x f l hf hl hs (fun f' l' hf' hl' hs' _ h => ih f' l' hf' hl' hs' (by omega))


/-! ## All stages -/

/-- **a message waiting at `x` on a synchronised link is fetched at `y`** -/
theorem sync_delivers {W M : Nat} (hw : 3 ≤ W) (x : Side) (k : Nat) (f : Nat → Op) (l : LMon) (hf : Fair f)
    (hl : LInv l) (hs : Sync W M l) (hk : k < Sn l x) : ∃ n, k < Fn (runF l f n) x := by
  -- stage 1
  obtain ⟨n1, h1⟩ := stage1 hw x (mu l x) f l hf hl hs (Nat.le_refl _)
  obtain ⟨hl1, hs1⟩ := sync_runF hf.wf hl hs n1
  obtain ⟨m1, _⟩ := sync_runF_mono hf.wf hl hs x n1
  have ht1 : k < Tn (runF l f n1) x := by
    have hd := (hs1.st x).tx.done
    simp only [h1, if_true, List.append_nil] at hd
    show k < ((runF l f n1).get x).tx.done.length
    rw [hd]
    exact Nat.lt_of_lt_of_le hk m1
  -- stage 2
  obtain ⟨n2, h2⟩ := stage2 x k _ (fun i => f (n1 + i)) (runF l f n1) (hf.shift n1) hl1 hs1 ht1 (Nat.le_refl _)
  rw [← runF_add] at h2
  obtain ⟨hl2, hs2⟩ := sync_runF hf.wf hl hs (n1 + n2)
  -- stage 3
  obtain ⟨n3, h3⟩ := stage3 x k (k + 1) (fun i => f (n1 + n2 + i)) (runF l f (n1 + n2)) (hf.shift (n1 + n2)) hl2 hs2 h2
    (by omega)
  rw [← runF_add] at h3
  exact ⟨_, h3⟩

/-! ## Through the handshake -/

theorem phase_step1 {ra rb : Bool} {ga gb : Option Nat} {l : LMon} (hl : LInv l) (hp : Phase ra rb ga gb l)
    {op : Op} (hop : WfOp op) :
    LInv (l.step1 op) ∧ Phase ra rb ga gb (l.step1 op) ∧ HsAdv l (l.step1 op) op := by
  have c := link_step l hl op hop
  rcases phase_step_adv hl hp op with ⟨l', o, h1, h2, h3⟩ | ⟨h1, x, m, hm⟩
  · rw [h1] at c
    rw [step1_ok h1]
    exact ⟨c, h2, h3⟩
  · rw [step1_err h1]
    -- a refused operation is a `send`, which is never the operation the handshake waits for
    refine ⟨hl, hp, Nat.le_refl _, fun h _ => ?_⟩
    exfalso
    rw [hm] at h
    unfold hsOp at h
    split at h <;> cases h

theorem phase_runF {ra rb : Bool} {ga gb : Option Nat} {f : Nat → Op} (hf : ∀ i, WfOp (f i)) {l : LMon}
    (hl : LInv l) (hp : Phase ra rb ga gb l) :
    ∀ n, LInv (runF l f n) ∧ Phase ra rb ga gb (runF l f n) ∧ hsRank (runF l f n) ≤ hsRank l := by
  intro n
  induction n with
  | zero => exact ⟨hl, hp, Nat.le_refl _⟩
  | succ n ih =>
    obtain ⟨a, b, c⟩ := phase_step1 ih.1 ih.2.1 (hf n)
    exact ⟨a, b, Nat.le_trans c.1 ih.2.2⟩

theorem fair_hsOp {f : Nat → Op} (hf : Fair f) (r : Nat) : ∃ j, f j = hsOp r := by
  unfold hsOp
  split
  · obtain ⟨j, _, _, h⟩ := hf.tp .a 0; exact ⟨j + 1, h⟩
  · obtain ⟨j, _, h⟩ := hf.del .b 0; exact ⟨j, h⟩
  · obtain ⟨j, _, _, h⟩ := hf.tp .b 0; exact ⟨j + 1, h⟩
  · obtain ⟨j, _, h⟩ := hf.del .a 0; exact ⟨j, h⟩

/-- **under a fair schedule the handshake completes** -/
theorem hs_completes {ra rb : Bool} {ga gb : Option Nat} : ∀ (r : Nat) (f : Nat → Op) (l : LMon), Fair f →
    LInv l → Phase ra rb ga gb l → hsRank l ≤ r → ∃ n, hsRank (runF l f n) = 0 := by
  intro r
  induction r with
  | zero => intro f l _ _ _ h; exact ⟨0, by show hsRank l = 0; omega⟩
  | succ r ih =>
    intro f l hf hl hp hr
    by_cases h0 : hsRank l = 0
    · exact ⟨0, h0⟩
    obtain ⟨j, hj⟩ := fair_hsOp hf (hsRank l)
    obtain ⟨hlj, hpj, hrj⟩ := phase_runF hf.wf hl hp j
    by_cases hlt : hsRank (runF l f j) < hsRank l
    · obtain ⟨n, hn⟩ := ih (fun i => f (j + i)) (runF l f j) (hf.shift j) hlj hpj (by omega)
      rw [← runF_add] at hn
      exact ⟨_, hn⟩
    · have heq : hsRank (runF l f j) = hsRank l := by omega
      obtain ⟨hl2, hp2, hadv⟩ := phase_step1 hlj hpj (hf.wf j)
      have hdec := hadv.2 (by rw [heq]; exact hj) (by rw [heq]; exact h0)
      obtain ⟨n, hn⟩ := ih (fun i => f (j + 1 + i)) (runF l f (j + 1)) (hf.shift (j + 1)) hl2 hp2
        (by show hsRank ((runF l f j).step1 (f j)) ≤ r; omega)
      rw [← runF_add] at hn
      exact ⟨_, hn⟩

theorem phase_rank0 {ra rb : Bool} {ga gb : Option Nat} {l : LMon} (hp : Phase ra rb ga gb l)
    (h0 : hsRank l = 0) : Sync (negWin ga gb rb) (negMtu ga gb rb) l := by
  cases hp with
  | p0 _ sa sb => simp [hsRank, sa, sb, Session.fresh] at h0
  | p1 _ sa sb => simp [hsRank, sa, sb, Session.fresh, initSent] at h0
  | p2 _ sa sb => simp [hsRank, sa, sb, Session.fresh, initSent, Session.setup] at h0
  | p3 _ h => simp [hsRank, h.sa, h.est, h.pend, Session.fresh, initSent] at h0
  | sync h => exact h


/-- what the application has submitted is never taken back (any state of the link) -/
theorem monStep_submitted {m m' : Mon} {op : EOp} {o : Out} (h : m.step op = .ok (m', o)) :
    m.submitted.length ≤ m'.submitted.length := by
  cases op with
  | send d =>
    simp only [Mon.step] at h
    split at h
    · cases h
    · have hh := Prod.mk.inj (Except.ok.inj h); rw [← hh.1]
      simp only
      split <;> simp
  | poll now =>
    simp only [Mon.step] at h
    split at h
    · cases h
    · have hh := Prod.mk.inj (Except.ok.inj h); rw [← hh.1]; exact Nat.le_refl _
  | rx d now =>
    simp only [Mon.step] at h
    split at h
    · cases h
    · have hh := Prod.mk.inj (Except.ok.inj h); rw [← hh.1]; exact Nat.le_refl _
  | fetch cap =>
    simp only [Mon.step] at h
    split at h
    · cases h
    · have hh := Prod.mk.inj (Except.ok.inj h); rw [← hh.1]; exact Nat.le_refl _
    · have hh := Prod.mk.inj (Except.ok.inj h); rw [← hh.1]; exact Nat.le_refl _

theorem get_set_cases (l : LMon) (z x : Side) (m : Mon) :
    ((l.set z m).get x = m ∧ z = x) ∨ ((l.set z m).get x = l.get x ∧ z ≠ x) := by
  cases z <;> cases x <;> simp [LMon.set, LMon.get]

theorem step1_submitted (l : LMon) (op : Op) (x : Side) : Sn l x ≤ Sn (l.step1 op) x := by
  unfold Sn LMon.step1
  cases hstep : l.step op with
  | error f => exact Nat.le_refl _
  | ok r =>
    obtain ⟨l', o⟩ := r
    simp only
    cases op with
    | send z d =>
      simp only [LMon.step] at hstep
      cases hm : (l.get z).step (.send d) with
      | error f => rw [hm] at hstep; cases hstep
      | ok r =>
        rw [hm] at hstep
        have hh := Prod.mk.inj (Except.ok.inj hstep); rw [← hh.1]
        rcases get_set_cases l z x r.1 with ⟨h1, h2⟩ | ⟨h1, _⟩
        · rw [h1, ← h2]; exact monStep_submitted hm
        · rw [h1]; exact Nat.le_refl _
    | poll z =>
      simp only [LMon.step] at hstep
      cases hm : (l.get z).step (.poll l.now) with
      | error f => rw [hm] at hstep; cases hstep
      | ok r =>
        rw [hm] at hstep
        obtain ⟨m', o'⟩ := r
        have key : (l'.get x).submitted.length = ((l.set z m').get x).submitted.length := by
          cases o' <;> simp only at hstep <;>
            (have hh := Prod.mk.inj (Except.ok.inj hstep); rw [← hh.1]) <;> simp
        rw [key]
        rcases get_set_cases l z x m' with ⟨h1, h2⟩ | ⟨h1, _⟩
        · rw [h1, ← h2]; exact monStep_submitted hm
        · rw [h1]; exact Nat.le_refl _
    | deliver z =>
      simp only [LMon.step] at hstep
      cases hq : l.inq z with
      | nil =>
        rw [hq] at hstep
        have hh := Prod.mk.inj (Except.ok.inj hstep); rw [← hh.1]; exact Nat.le_refl _
      | cons seg rest =>
        rw [hq] at hstep
        simp only at hstep
        cases hm : (l.get z).step (.rx seg l.now) with
        | error f => rw [hm] at hstep; cases hstep
        | ok r =>
          rw [hm] at hstep
          have hh := Prod.mk.inj (Except.ok.inj hstep); rw [← hh.1]
          simp only [get_setInq]
          rcases get_set_cases l z x r.1 with ⟨h1, h2⟩ | ⟨h1, _⟩
          · rw [h1, ← h2]; exact monStep_submitted hm
          · rw [h1]; exact Nat.le_refl _
    | tick n =>
      have hh := Prod.mk.inj (Except.ok.inj hstep); rw [← hh.1]
      cases x <;> exact Nat.le_refl _
    | fetch z cap =>
      simp only [LMon.step] at hstep
      cases hm : (l.get z).step (.fetch cap) with
      | error f => rw [hm] at hstep; cases hstep
      | ok r =>
        rw [hm] at hstep
        have hh := Prod.mk.inj (Except.ok.inj hstep); rw [← hh.1]
        rcases get_set_cases l z x r.1 with ⟨h1, h2⟩ | ⟨h1, _⟩
        · rw [h1, ← h2]; exact monStep_submitted hm
        · rw [h1]; exact Nat.le_refl _

theorem runF_submitted (l : LMon) (f : Nat → Op) (x : Side) : ∀ n, Sn l x ≤ Sn (runF l f n) x := by
  intro n
  induction n with
  | zero => exact Nat.le_refl _
  | succ n ih => exact Nat.le_trans ih (step1_submitted _ _ _)

/-- **delivery under a fair schedule, from any state reachable from two fresh ends**: every
message accepted by `send` at `x` is eventually fetched at the other end -/
theorem phase_delivers {ra rb : Bool} {ga gb : Option Nat} (hw : 3 ≤ negWin ga gb rb) {l : LMon} (hl : LInv l)
    (hp : Phase ra rb ga gb l) (f : Nat → Op) (hf : Fair f) (x : Side) (k : Nat) (hk : k < Sn l x) :
    ∃ n, k < Fn (runF l f n) x := by
  obtain ⟨n0, h0⟩ := hs_completes (hsRank l) f l hf hl hp (Nat.le_refl _)
  obtain ⟨hl0, hp0, _⟩ := phase_runF hf.wf hl hp n0
  have hs0 := phase_rank0 hp0 h0
  have hk0 : k < Sn (runF l f n0) x := Nat.lt_of_lt_of_le hk (runF_submitted l f x n0)
  obtain ⟨n, hn⟩ := sync_delivers hw x k (fun i => f (n0 + i)) (runF l f n0) (hf.shift n0) hl0 hs0 hk0
  rw [← runF_add] at hn
  exact ⟨_, hn⟩


end Btp
