//! C03 helpers for the group receive path: provisioning of real fabrics with group key sets on the
//! receiving node, derivation of the operational group key and the group session id with the real
//! KDF (`KeySet::update`, `derive_group_session_id`).
use core::num::NonZeroU8;

use rs_matter::cert::gen::VALID_FOREVER;
use rs_matter::cert::MAX_CERT_TLV_AND_ASN1_LEN;
use rs_matter::crypto::{
    CanonAeadKey, CanonPkcSecretKey, Crypto, RngCore, SecretKey, SigningSecretKey, AEAD_CANON_KEY_LEN,
};
use rs_matter::error::{Error, ErrorCode};
use rs_matter::fabric::GroupKeyMapping;
use rs_matter::group_keys::{GroupEpochKeyEntry, GroupKeySet, KeySet};
use rs_matter::onboard::cac::RcacGenerator;
use rs_matter::onboard::noc::NocGenerator;
use rs_matter::transport::session::derive_group_session_id;
use rs_matter::utils::storage::Vec as SVec;
use rs_matter::Matter;

#[derive(Clone, Copy)]
pub struct FabInfo {
    pub fab_idx: NonZeroU8,
    pub node: u64,
    pub cfid: u64,
}

/// A fabric (fresh root CA, NOC for `node_id`) on `matter`; no group data yet.
pub fn provision<C: Crypto>(matter: &Matter<'_>, crypto: &C, fabric_id: u64, node_id: u64) -> Result<FabInfo, Error> {
    let mut rcac_buf = [0u8; MAX_CERT_TLV_AND_ASN1_LEN];
    let mut rcac_gen = RcacGenerator::new(&mut rcac_buf);
    let (rcac_privkey, rcac) = rcac_gen.generate(crypto, fabric_id, VALID_FOREVER)?;
    let mut noc_buf = [0u8; MAX_CERT_TLV_AND_ASN1_LEN];
    let mut noc_gen = NocGenerator::create(rcac_privkey.reference(), rcac, &[], &mut noc_buf)?;
    let mut ipk = CanonAeadKey::new();
    let mut ipk_bytes = [0u8; AEAD_CANON_KEY_LEN];
    crypto.rand()?.fill_bytes(&mut ipk_bytes);
    ipk.load_from_array(&ipk_bytes);
    let sk = crypto.generate_secret_key()?;
    let mut csr_buf = [0u8; 256];
    let csr = sk.csr(&mut csr_buf)?;
    let mut sk_canon = CanonPkcSecretKey::new();
    sk.write_canon(&mut sk_canon)?;
    let noc = noc_gen.generate(crypto, csr, node_id, &[], VALID_FOREVER)?;
    matter.with_state(|state| {
        let fabric = state.fabrics.add(crypto, sk_canon.reference(), rcac, noc, &[], Some(ipk.reference()), 0xFFF1, 100)?;
        Ok(FabInfo { fab_idx: fabric.fab_idx(), node: fabric.node_id(), cfid: fabric.compressed_fabric_id() })
    })
}

/// Remove every group key set and key mapping of the fabric.
pub fn clear_groups(matter: &Matter<'_>, f: &FabInfo) {
    matter.with_state(|state| {
        if let Ok(fabric) = state.fabrics.fabric_mut(f.fab_idx) {
            let ids: Vec<u16> = fabric.groups().key_map_iter().map(|m| m.group_key_set_id).collect();
            let _ = fabric.groups_mut().key_map_replace(core::iter::empty());
            for id in ids {
                let _ = fabric.groups_mut().key_set_remove(id);
            }
            // key sets without a mapping
            for id in 0..16u16 {
                let _ = fabric.groups_mut().key_set_remove(id);
            }
        }
    })
}

pub fn key_set_add(matter: &Matter<'_>, f: &FabInfo, id: u16, epochs: &[[u8; AEAD_CANON_KEY_LEN]]) -> Result<(), Error> {
    matter.with_state(|state| {
        let fabric = state.fabrics.fabric_mut(f.fab_idx)?;
        let mut epoch_keys = SVec::new();
        for (i, e) in epochs.iter().enumerate() {
            let mut epoch_key = CanonAeadKey::new();
            epoch_key.load_from_array(e);
            epoch_keys.push(GroupEpochKeyEntry { epoch_key, epoch_start_time: i as u64 }).map_err(|_| ErrorCode::NoSpace)?;
        }
        fabric.groups_mut().key_set_add(GroupKeySet { group_key_set_id: id, group_key_security_policy: 0, epoch_keys })
    })
}

pub fn key_map_add(matter: &Matter<'_>, f: &FabInfo, group_id: u16, key_set_id: u16) -> Result<(), Error> {
    matter.with_state(|state| {
        let fabric = state.fabrics.fabric_mut(f.fab_idx)?;
        fabric.groups_mut().key_map_add(GroupKeyMapping { group_id, group_key_set_id: key_set_id })
    })
}

/// (operational key, group session id) for an epoch key in a fabric — the real KDFs.
pub fn derive<C: Crypto>(crypto: &C, epoch: &[u8; AEAD_CANON_KEY_LEN], cfid: u64) -> Result<([u8; AEAD_CANON_KEY_LEN], u16), Error> {
    let mut epoch_key = CanonAeadKey::new();
    epoch_key.load_from_array(epoch);
    let mut ks = KeySet::new();
    ks.update(crypto, epoch_key.reference(), &cfid)?;
    let sid = derive_group_session_id(crypto, ks.op_key())?;
    Ok((*ks.op_key().access(), sid))
}
