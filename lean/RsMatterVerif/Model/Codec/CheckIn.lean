import RsMatterVerif.Model.Codec.Buf
/-!
# Model of the check-in message framing: `sc/checkin.rs` `CheckIn::generate` / `parse`

The cryptography is *symbolic*: an abstract scheme (`Scheme`) supplies HMAC-SHA256 and the AEAD
(AES-CCM, 16-byte tag) as functions; theorems take the usual functional-correctness facts about
them as hypotheses (`Scheme.Sound`), never as axioms.
Layout: `nonce (13) || AEAD(counter (4, LE) || app_data) || tag (16)`; nonce = first 13 bytes of
`HMAC(key, counter_le)`.
-/
namespace Codec.CheckIn
open Codec

def NONCE_LEN : Nat := 13
def COUNTER_LEN : Nat := 4
def TAG_LEN : Nat := 16
def MIN_PAYLOAD_LEN : Nat := NONCE_LEN + COUNTER_LEN + TAG_LEN

structure Scheme where
  /-- `HMAC-SHA256(key, data)` -/
  mac : List Nat → List Nat → List Nat
  /-- AEAD seal with empty AAD: ciphertext of the plaintext followed by the tag -/
  enc : List Nat → List Nat → List Nat → List Nat
  /-- AEAD open: the plaintext, or `none` if the tag does not verify -/
  dec : List Nat → List Nat → List Nat → Option (List Nat)

/-- functional correctness of the symbolic scheme -/
structure Scheme.Sound (S : Scheme) : Prop where
  mac_len : ∀ k d, 13 ≤ (S.mac k d).length
  enc_len : ∀ k n p, (S.enc k n p).length = p.length + 16
  dec_enc : ∀ k n p, S.dec k n (S.enc k n p) = some p
  dec_len : ∀ k n c p, S.dec k n c = some p → p.length + 16 = c.length

/-- `generate_nonce` -/
def nonceOf (S : Scheme) (key : List Nat) (ctr : Nat) : List Nat := (S.mac key (le32 ctr)).take NONCE_LEN

/-- `generate(counter, app_data, payload)` with `payload.len() = cap` -/
def generate (S : Scheme) (key : List Nat) (ctr : Nat) (app : List Nat) (cap : Nat) : Except Err (List Nat) :=
  if cap < MIN_PAYLOAD_LEN + app.length then .error .bufferTooSmall
  else
    let nonce := nonceOf S key ctr
    .ok (nonce ++ S.enc key nonce (le32 ctr ++ app))

/-- `parse(payload)`; `plaintext[..COUNTER_LEN]` is a checked slice; an AEAD failure is `InvalidData` -/
def parse (S : Scheme) (key : List Nat) (payload : List Nat) : Except Err (Nat × List Nat) :=
  if payload.length < MIN_PAYLOAD_LEN then .error .invalid
  else
    let nonce := payload.take NONCE_LEN
    let ct := payload.drop NONCE_LEN
    match S.dec key nonce ct with
    | none => .error .invalidData
    | some pt =>
      if pt.length < COUNTER_LEN then .error .panic
      else
        let ctr := fromLe (pt.take COUNTER_LEN)
        if nonceOf S key ctr ≠ nonce then .error .invalid
        else .ok (ctr, pt.drop COUNTER_LEN)

end Codec.CheckIn
