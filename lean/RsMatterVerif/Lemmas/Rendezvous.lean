import RsMatterVerif.Model.Rendezvous
/-!
# Invariants of the rendezvous slots and of the PASE in-progress marker over all histories (C20)
-/
namespace Rendezvous

/-! ## The mDNS rendezvous slot -/

/-- the slot is occupied exactly when one waiter is placed, and that waiter is the ghost owner -/
def Inv (st : St) : Prop :=
  (st.slot = .idle → st.placed = [] ∧ st.owner = none) ∧
  (st.slot ≠ .idle → ∃ w, st.owner = some w ∧ st.placed = [w])

theorem inv_init : Inv init := by
  refine ⟨fun _ => ⟨rfl, rfl⟩, fun h => ?_⟩
  exact absurd rfl h

theorem erase_singleton (w : Nat) : [w].erase w = [] := by
  simp

theorem contains_singleton {w v : Nat} (h : [w].contains v = true) : v = w := by
  simpa using h

theorem inv_arrive (st : St) (w : Nat) (h : Inv st) : Inv (arrive st w) := by
  unfold arrive
  split
  · exact h
  · exact h

theorem inv_place (st : St) (w : Nat) (h : Inv st) : Inv (place st w) := by
  unfold place
  split
  · split
    · rename_i hs
      have := (h.1 hs).1
      refine ⟨fun hc => (by cases hc), fun _ => ⟨w, rfl, by simp [this]⟩⟩
    · exact h
  · exact h

theorem inv_pickup (st : St) (h : Inv st) : Inv (pickup st) := by
  unfold pickup
  split
  · rename_i hs
    have hne : st.slot ≠ .idle := by rw [hs]; decide
    refine ⟨fun hc => (by cases hc), fun _ => h.2 hne⟩
  · exact h

theorem inv_deposit (st : St) (h : Inv st) : Inv (deposit st) := by
  unfold deposit
  split
  · rename_i hs
    have hne : st.slot ≠ .idle := by rw [hs]; decide
    refine ⟨fun hc => (by cases hc), fun _ => h.2 hne⟩
  · exact h

theorem inv_consume (st : St) (w : Nat) (h : Inv st) : Inv (consume st w) := by
  unfold consume
  split
  · rename_i hw
    split
    · rename_i hs
      have hne : st.slot ≠ .idle := by rw [hs]; decide
      obtain ⟨v, _, hp⟩ := h.2 hne
      rw [hp] at hw
      have hv := contains_singleton hw
      subst hv
      refine ⟨fun _ => ⟨by simp [hp], rfl⟩, fun hc => absurd rfl hc⟩
    · exact h
  · exact h

theorem inv_dropWaiter (st : St) (w : Nat) (h : Inv st) : Inv (dropWaiter st w) := by
  unfold dropWaiter
  split
  · rename_i hw
    by_cases hs : st.slot = .idle
    · have := (h.1 hs).1
      rw [this] at hw
      simp at hw
    · obtain ⟨v, _, hp⟩ := h.2 hs
      rw [hp] at hw
      have hv := contains_singleton hw
      subst hv
      have h1 : guardDropSlot st.slot = .idle := by
        unfold guardDropSlot; split <;> rfl
      have h2 : guardDropOwner st.slot st.owner = none := by
        unfold guardDropOwner; split
        · rename_i hi; exact absurd hi hs
        · rfl
      refine ⟨fun _ => ⟨by simp [hp], h2⟩, fun hc => absurd h1 hc⟩
  · split
    · exact h
    · exact h

theorem inv_step (st : St) (o : Op) (h : Inv st) : Inv (step st o) := by
  cases o with
  | arrive w => exact inv_arrive st w h
  | place w => exact inv_place st w h
  | pickup => exact inv_pickup st h
  | deposit => exact inv_deposit st h
  | consume w => exact inv_consume st w h
  | cancel w => exact inv_dropWaiter st w h
  | timeout w =>
    simp only [step, timeoutWaiter]
    split
    · exact inv_dropWaiter st w h
    · exact h

theorem inv_run : ∀ (ops : List Op) (st : St), Inv st → Inv (run st ops)
  | [], _, h => h
  | o :: os, st, h => inv_run os (step st o) (inv_step st o h)

theorem run_append (a b : List Op) (s : St) : run s (a ++ b) = run (run s a) b := by
  induction a generalizing s with
  | nil => rfl
  | cons o os ih => exact ih (step s o)

/-- in every reachable state -/
theorem inv_reach (ops : List Op) : Inv (run init ops) := inv_run ops init inv_init

/-! ## The PASE in-progress marker -/

/-- a marker never lies further in the future than its life time -/
def PInv (st : PSt) : Prop := ∀ k, st.marker = some k → k.expiry ≤ st.now + paseTimeoutMs

theorem clearIfExpired_sub (m : Option Marker) (now : Nat) (k : Marker)
    (h : clearIfExpired m now = some k) : m = some k ∧ k.expired now = false := by
  unfold clearIfExpired at h
  split at h
  · split at h
    · cases h
    · rename_i k0 hx
      cases h
      exact ⟨rfl, by simpa using hx⟩
  · cases h

theorem decide2_marker (m : Option Marker) (ex : Nat) (new : Bool) (now : Nat) (k : Marker)
    (h : (decide2 m ex new now).1 = some k) : m = some k ∨ k = Marker.new ex now := by
  unfold decide2 at h
  split at h
  · split at h
    · left; exact h
    · right; cases h; rfl
  · split at h
    · right; cases h; rfl
    · cases h

theorem pinv_step (st : PSt) (o : POp) (h : PInv st) : PInv (pstep st o) := by
  cases o with
  | update ex new =>
    intro k hk
    simp only [pstep, update] at hk
    rcases decide2_marker _ ex new st.now k hk with h1 | h1
    · exact h k (clearIfExpired_sub _ _ _ h1).1
    · subst h1
      exact Nat.le_refl _
  | clear => intro k hk; cases hk
  | fail => intro k hk; cases hk
  | handlerDropped _ => exact h
  | tick ms =>
    intro k hk
    have := h k hk
    simp only [pstep]
    omega

theorem pinv_run : ∀ (ops : List POp) (st : PSt), PInv st → PInv (prun st ops)
  | [], _, h => h
  | o :: os, st, h => pinv_run os (pstep st o) (pinv_step st o h)

theorem prun_append (a b : List POp) (s : PSt) : prun s (a ++ b) = prun (prun s a) b := by
  induction a generalizing s with
  | nil => rfl
  | cons o os ih => exact ih (pstep s o)

theorem pinv_init : PInv pinit := by intro k hk; cases hk

theorem now_run : ∀ (ops : List POp) (st : PSt), (prun st ops).now = st.now + elapsed ops
  | [], _ => rfl
  | o :: os, st => by
    rw [prun, now_run os]
    cases o <;> simp only [pstep, elapsed, update, clear, fail] <;> omega

/-- markers owned by `ex` expire no later than `b` -/
def OwnedBelow (ex b : Nat) (st : PSt) : Prop := ∀ k, st.marker = some k → k.owner = ex → k.expiry ≤ b

theorem ownedBelow_step (ex b : Nat) (st : PSt) (o : POp) (ho : o.isUpdateOf ex = false)
    (h : OwnedBelow ex b st) : OwnedBelow ex b (pstep st o) := by
  cases o with
  | update e new =>
    intro k hk hown
    simp only [pstep, update] at hk
    rcases decide2_marker _ e new st.now k hk with h1 | h1
    · exact h k (clearIfExpired_sub _ _ _ h1).1 hown
    · subst h1
      simp only [Marker.new] at hown
      simp only [POp.isUpdateOf, beq_eq_false_iff_ne, ne_eq] at ho
      exact absurd hown ho
  | clear => intro k hk; cases hk
  | fail => intro k hk; cases hk
  | handlerDropped _ => exact h
  | tick ms => exact h

theorem ownedBelow_run (ex b : Nat) : ∀ (ops : List POp) (st : PSt),
    (∀ o ∈ ops, o.isUpdateOf ex = false) → OwnedBelow ex b st → OwnedBelow ex b (prun st ops)
  | [], _, _, h => h
  | o :: os, st, hn, h =>
    ownedBelow_run ex b os (pstep st o) (fun o' ho' => hn o' (List.mem_cons_of_mem _ ho'))
      (ownedBelow_step ex b st o (hn o List.mem_cons_self) h)

/-- every marker expires no later than `b` -/
def AllBelow (b : Nat) (st : PSt) : Prop := ∀ k, st.marker = some k → k.expiry ≤ b

theorem allBelow_step (b : Nat) (st : PSt) (o : POp) (ho : o.isUpdate = false)
    (h : AllBelow b st) : AllBelow b (pstep st o) := by
  cases o with
  | update e new => simp [POp.isUpdate] at ho
  | clear => intro k hk; cases hk
  | fail => intro k hk; cases hk
  | handlerDropped _ => exact h
  | tick ms => exact h

theorem allBelow_run (b : Nat) : ∀ (ops : List POp) (st : PSt),
    (∀ o ∈ ops, o.isUpdate = false) → AllBelow b st → AllBelow b (prun st ops)
  | [], _, _, h => h
  | o :: os, st, hn, h =>
    allBelow_run b os (pstep st o) (fun o' ho' => hn o' (List.mem_cons_of_mem _ ho'))
      (allBelow_step b st o (hn o List.mem_cons_self) h)

/-- the gate lets a new handshake in whenever the marker is not live -/
theorem update_new_of_not_live (st : PSt) (ex : Nat) (h : st.live = false) :
    update st ex true = ({ st with marker := some (Marker.new ex st.now) }, .ok) := by
  unfold update
  have hc : clearIfExpired st.marker st.now = none := by
    unfold clearIfExpired
    unfold PSt.live at h
    cases hm : st.marker with
    | none => rfl
    | some k =>
      simp only [hm, Bool.not_eq_false'] at h
      simp [h]
  rw [hc]
  rfl

end Rendezvous
