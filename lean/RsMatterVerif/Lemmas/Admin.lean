import RsMatterVerif.Model.Admin
/-!
# Lemmas about `Model/Admin` shared by the C07 / C08 / C11 property files
-/
namespace Admin

/-- the stored copy of the fabric with index `i` -/
def kvF (kv : KV) (i : Nat) : Option Fabric := kv.fabs.find? (fun f => f.idx = i)

theorem find_filter_ne (l : List Fabric) (k i : Nat) :
    (l.filter (fun f => f.idx ≠ k)).find? (fun f => f.idx = i) =
      if i = k then none else l.find? (fun f => f.idx = i) := by
  induction l with
  | nil => simp
  | cons g r ih =>
    by_cases hg : g.idx = k
    · by_cases hi : i = k
      · simp_all
      · have : g.idx ≠ i := by omega
        simp_all
    · by_cases hgi : g.idx = i
      · have : i ≠ k := by omega
        simp_all
      · simp_all

theorem find_filter_neB (l : List Fabric) (k i : Nat) :
    (l.filter (fun f => !decide (f.idx = k))).find? (fun f => decide (f.idx = i)) =
      if i = k then none else l.find? (fun f => decide (f.idx = i)) := by
  have := find_filter_ne l k i
  simpa [decide_not] using this

theorem find_append_single (l : List Fabric) (f : Fabric) (i : Nat) :
    (l ++ [f]).find? (fun g => g.idx = i) =
      match l.find? (fun g => g.idx = i) with
      | some g => some g
      | none => if f.idx = i then some f else none := by
  induction l with
  | nil => simp
  | cons g r ih => by_cases hg : g.idx = i <;> simp_all

theorem find_map_set (l : List Fabric) (f : Fabric) (i : Nat) :
    (l.map (fun g => if g.idx = f.idx then f else g)).find? (fun g => g.idx = i) =
      if i = f.idx then (l.find? (fun g => g.idx = i)).map (fun _ => f) else l.find? (fun g => g.idx = i) := by
  induction l with
  | nil => simp
  | cons g r ih =>
    by_cases hg : g.idx = f.idx
    · by_cases hi : i = f.idx
      · simp_all
      · have : ¬ g.idx = i := by omega
        have h2 : ¬ f.idx = i := by omega
        simp_all
    · by_cases hgi : g.idx = i
      · have : ¬ i = f.idx := by omega
        simp_all
      · simp_all

theorem getFabric_setFabric (n : Node) (f : Fabric) (i : Nat) :
    getFabric (setFabric n f) i =
      if i = f.idx then (getFabric n i).map (fun _ => f) else getFabric n i := by
  simp only [getFabric, setFabric]
  exact find_map_set n.fabrics f i

theorem kvF_putFabric (kv : KV) (f : Fabric) (i : Nat) :
    kvF (kv.putFabric f) i = if i = f.idx then some f else kvF kv i := by
  simp only [kvF, KV.putFabric]
  by_cases h : i = f.idx
  · subst h; simp
  · have h' : ¬ f.idx = i := by omega
    rw [List.find?_cons]
    simp only [h', decide_false]
    rw [find_filter_ne]
    simp [h]

theorem kvF_delFabric (kv : KV) (k i : Nat) :
    kvF (kv.delFabric k) i = if i = k then none else kvF kv i := by
  simp only [kvF, KV.delFabric]
  exact find_filter_ne kv.fabs k i

def kvNets (kv : KV) : List Nat × Bool := match kv.nets with | some p => p | none => ([], false)
def exemptIdx (n : Node) : Nat := match n.fs with | some a => a.fab | none => 0

/-- node and store agree: on every fabric index except the one the fail-safe is armed for, and -
while no fail-safe is armed - on the networks -/
def Coh (n : Node) : Prop :=
  (∀ i, i ≠ 0 → i ≠ exemptIdx n → getFabric n i = kvF n.kv i) ∧
  (n.fs = none → (n.nets, n.managed) = kvNets n.kv)

theorem kvTick_nofault (n : Node) (h : n.failIn = 0) : kvTick n = (n, false) := by
  simp [kvTick, h]

theorem storeFabric_nofault (n : Node) (f : Fabric) (h : n.failIn = 0) :
    storeFabric n f = (kvCommit n (n.kv.putFabric f), true) := by
  simp [storeFabric, kvTick_nofault n h]

theorem removeFabricKey_nofault (n : Node) (i : Nat) (h : n.failIn = 0) :
    removeFabricKey n i = (if n.kv.hasFabric i then kvCommit n (n.kv.delFabric i) else n, true) := by
  simp only [removeFabricKey, kvTick_nofault n h]
  by_cases hk : n.kv.hasFabric i = true <;> simp [hk]

theorem storeNets_nofault (n : Node) (h : n.failIn = 0) :
    storeNets n = (kvCommit n { n.kv with nets := some (n.nets, n.managed) }, true) := by
  simp [storeNets, kvTick_nofault n h]

theorem purgeResum_nofault (n : Node) (i : Nat) (h : n.failIn = 0) :
    (purgeResum n i).2 = true ∧ (purgeResum n i).1.failIn = 0 ∧
    (purgeResum n i).1.fabrics = n.fabrics ∧ (purgeResum n i).1.fs = n.fs ∧
    (purgeResum n i).1.nets = n.nets ∧ (purgeResum n i).1.managed = n.managed ∧
    (purgeResum n i).1.kv.fabs = n.kv.fabs ∧ (purgeResum n i).1.kv.nets = n.kv.nets ∧
    (purgeResum n i).1.sessions = n.sessions := by
  unfold purgeResum
  split
  · simp [kvTick, h, kvCommit]
  · simp [h]

theorem coh_congr {n n' : Node} (h1 : n'.fabrics = n.fabrics) (h2 : n'.fs = n.fs)
    (h3 : n'.nets = n.nets) (h4 : n'.managed = n.managed) (h5 : n'.kv.fabs = n.kv.fabs)
    (h6 : n'.kv.nets = n.kv.nets) (h : Coh n) : Coh n' := by
  unfold Coh getFabric kvF kvNets exemptIdx at *
  simp only [h1, h2, h3, h4, h5, h6]
  exact h

end Admin

namespace Admin

/-- full agreement of node and store (what `Coh` says once no fail-safe is armed) -/
def Agree (n : Node) : Prop :=
  (∀ i, i ≠ 0 → getFabric n i = kvF n.kv i) ∧ (n.nets, n.managed) = kvNets n.kv

theorem coh_of_agree {n : Node} (h : Agree n) : Coh n :=
  ⟨fun i hi _ => h.1 i hi, fun _ => h.2⟩

theorem agree_of_coh_idle {n : Node} (h : Coh n) (hfs : n.fs = none) : Agree n := by
  refine ⟨fun i hi => h.1 i hi ?_, h.2 hfs⟩
  simp [exemptIdx, hfs]; omega

theorem rollbackFabrics_find (cfg : Cfg) (n : Node) (a : Armed) (fs : List Fabric)
    (hc : Coh n) (hfs : n.fs = some a) (h : rollbackFabrics cfg n a = .ok fs) :
    ∀ i, i ≠ 0 → fs.find? (fun f => decide (f.idx = i)) = kvF n.kv i := by
  have hex : exemptIdx n = a.fab := by simp [exemptIdx, hfs]
  unfold rollbackFabrics at h
  simp only [decide_not] at h
  intro i hi
  by_cases h0 : a.fab = 0
  · rw [if_pos h0] at h
    injection h with h; subst h
    have := hc.1 i hi (by rw [hex, h0]; exact hi)
    simpa [getFabric] using this
  · rw [if_neg h0] at h
    cases hk : n.kv.fabs.find? (fun f => decide (f.idx = a.fab)) with
    | none =>
      simp only [hk] at h
      injection h with h; subst h
      rw [find_filter_neB]
      by_cases hia : i = a.fab
      · simp [hia, kvF, hk]
      · simp only [hia, if_false]
        have := hc.1 i hi (by rw [hex]; exact hia)
        simpa [getFabric] using this
    | some f =>
      simp only [hk] at h
      have hfidx : f.idx = a.fab := by simpa using List.find?_some hk
      by_cases hroom : (n.fabrics.filter (fun f => !decide (f.idx = a.fab))).length < cfg.maxFabrics
      · rw [if_pos hroom] at h
        injection h with h; subst h
        rw [find_append_single, find_filter_neB]
        by_cases hia : i = a.fab
        · subst hia
          simp [kvF, hk, hfidx]
        · have hfi : ¬ f.idx = i := by omega
          simp only [hia, if_false, hfi]
          have := hc.1 i hi (by rw [hex]; exact hia)
          simp only [getFabric] at this
          rw [this]
          cases kvF n.kv i <;> simp
      · rw [if_neg hroom] at h
        simp at h

/-- **Rollback restores the stored view.**  If the node is coherent and `FailSafe::expire` succeeds,
the fail-safe is disarmed, the store is untouched, and node and store agree on every fabric and on
the networks. -/
theorem expireArmed_agree (cfg : Cfg) (n : Node) (a : Armed) (exp : Option Nat)
    (hc : Coh n) (hfs : n.fs = some a) (hok : (expireArmed cfg n a exp).2.1 = none) :
    Agree (expireArmed cfg n a exp).1 ∧ (expireArmed cfg n a exp).1.fs = none ∧
    (expireArmed cfg n a exp).1.kv = n.kv ∧ (expireArmed cfg n a exp).1.failIn = n.failIn := by
  unfold expireArmed at hok ⊢
  cases hr : rollbackFabrics cfg n a with
  | error e => simp [hr] at hok
  | ok fs =>
    simp only [hr]
    refine ⟨⟨fun i hi => ?_, ?_⟩, ?_, ?_, ?_⟩
    · simpa [getFabric] using rollbackFabrics_find cfg n a fs hc hfs hr i hi
    · simp [kvNets]; cases n.kv.nets <;> simp
    all_goals simp

theorem expireArmed_error (cfg : Cfg) (n : Node) (a : Armed) (exp : Option Nat) (e : String)
    (h : (expireArmed cfg n a exp).2.1 = some e) : (expireArmed cfg n a exp).1 = n := by
  unfold expireArmed at h ⊢
  cases hr : rollbackFabrics cfg n a <;> simp_all

theorem agree_congr {n n' : Node} (h1 : n'.fabrics = n.fabrics)
    (h3 : n'.nets = n.nets) (h4 : n'.managed = n.managed) (h5 : n'.kv.fabs = n.kv.fabs)
    (h6 : n'.kv.nets = n.kv.nets) (h : Agree n) : Agree n' := by
  unfold Agree getFabric kvF kvNets at *
  simp only [h1, h3, h4, h5, h6]
  exact h

/-- `expire` + the purge of the resumption cache done by its callers, without store faults -/
theorem expireAndPurge_agree (cfg : Cfg) (n : Node) (a : Armed) (exp : Option Nat)
    (hc : Coh n) (hfs : n.fs = some a) (hf : n.failIn = 0) :
    (expireAndPurge cfg n a exp).2 = none →
      Agree (expireAndPurge cfg n a exp).1 ∧ (expireAndPurge cfg n a exp).1.fs = none ∧
      (expireAndPurge cfg n a exp).1.failIn = 0 ∧
      (expireAndPurge cfg n a exp).1.kv.fabs = n.kv.fabs ∧
      (expireAndPurge cfg n a exp).1.kv.nets = n.kv.nets := by
  unfold expireAndPurge
  have key := expireArmed_agree cfg n a exp hc hfs
  rcases hres : expireArmed cfg n a exp with ⟨n1, e, r⟩
  rw [hres] at key
  cases e with
  | some e => simp
  | none =>
    have ⟨hag, hfs1, hkv, hfi⟩ := key rfl
    simp only at hag hfs1 hkv hfi
    cases r with
    | none => intro _; exact ⟨hag, hfs1, by rw [hfi, hf], by rw [hkv], by rw [hkv]⟩
    | some idx =>
      have hf1 : n1.failIn = 0 := by rw [hfi, hf]
      have ⟨p1, p2, p3, p4, p5, p6, p7, p8, _⟩ := purgeResum_nofault n1 idx hf1
      rcases hp : purgeResum n1 idx with ⟨n2, b⟩
      rw [hp] at p1 p2 p3 p4 p5 p6 p7 p8
      simp only at p1 p2 p3 p4 p5 p6 p7 p8
      subst p1
      intro _
      simp only [hp]
      exact ⟨agree_congr p3 p5 p6 p7 p8 hag, by rw [p4, hfs1], p2, by rw [p7, hkv], by rw [p8, hkv]⟩

theorem expireAndPurge_coh (cfg : Cfg) (n : Node) (a : Armed) (exp : Option Nat)
    (hc : Coh n) (hfs : n.fs = some a) (hf : n.failIn = 0) :
    Coh (expireAndPurge cfg n a exp).1 ∧ (expireAndPurge cfg n a exp).1.failIn = 0 := by
  cases hr : (expireAndPurge cfg n a exp).2 with
  | none =>
    have ⟨h1, _, h3, _, _⟩ := expireAndPurge_agree cfg n a exp hc hfs hf hr
    exact ⟨coh_of_agree h1, h3⟩
  | some e =>
    -- without store faults the only error is the one of `expire` itself, which changes nothing
    unfold expireAndPurge at hr ⊢
    rcases hres : expireArmed cfg n a exp with ⟨n1, e1, r⟩
    simp only [hres] at hr ⊢
    cases e1 with
    | some e1 =>
      have := expireArmed_error cfg n a exp e1 (by rw [hres])
      rw [hres] at this
      simp only at this
      subst this
      exact ⟨hc, hf⟩
    | none =>
      have key := expireArmed_agree cfg n a exp hc hfs (by rw [hres])
      rw [hres] at key
      have ⟨hag, hfs1, hkv, hfi⟩ := key
      simp only at hag hfs1 hkv hfi
      cases r with
      | none => simp at hr
      | some idx =>
        have hf1 : n1.failIn = 0 := by rw [hfi, hf]
        have ⟨p1, _⟩ := purgeResum_nofault n1 idx hf1
        rcases hp : purgeResum n1 idx with ⟨n2, b⟩
        rw [hp] at p1
        simp only at p1
        subst p1
        simp [hp] at hr

theorem windowTimeout_coh (n : Node) (hc : Coh n) : Coh (windowTimeout n) := by
  unfold windowTimeout
  split
  · split
    · exact coh_congr rfl rfl rfl rfl rfl rfl hc
    · exact hc
  · exact hc

theorem windowTimeout_failIn (n : Node) : (windowTimeout n).failIn = n.failIn := by
  unfold windowTimeout; split <;> (try split) <;> rfl

/-- the prologue of every command (`check_timeouts`) keeps coherence -/
theorem checkTimeouts_coh (cfg : Cfg) (n : Node) (sid : Option Nat) (hc : Coh n) (hf : n.failIn = 0) :
    Coh (checkTimeouts cfg n sid).1 ∧ (checkTimeouts cfg n sid).1.failIn = 0 := by
  unfold checkTimeouts
  cases hfs : n.fs with
  | none => simp only []; exact ⟨windowTimeout_coh n hc, by rw [windowTimeout_failIn, hf]⟩
  | some a =>
    simp only []
    by_cases ht : n.now ≥ a.armedAt + a.timeout
    · simp only [ht, if_true]
      have ⟨h1, h2⟩ := expireAndPurge_coh cfg n a (expSid n sid) hc hfs hf
      have heq : (expireAndPurgeLenient cfg n a (expSid n sid)).1 = (expireAndPurge cfg n a (expSid n sid)).1 := rfl
      cases he : (expireAndPurgeLenient cfg n a (expSid n sid)).2 with
      | some e => simp only []; rw [heq]; exact ⟨h1, h2⟩
      | none =>
        simp only []; rw [heq]
        exact ⟨windowTimeout_coh _ h1, by rw [windowTimeout_failIn]; exact h2⟩
    · simp only [ht, if_false]
      exact ⟨windowTimeout_coh n hc, by rw [windowTimeout_failIn, hf]⟩

theorem coh_congr2 {n n' : Node} (h1 : n'.fabrics = n.fabrics) (h2 : exemptIdx n' = exemptIdx n)
    (h2' : n'.fs = none → n.fs = none)
    (h3 : n'.nets = n.nets) (h4 : n'.managed = n.managed) (h5 : n'.kv.fabs = n.kv.fabs)
    (h6 : n'.kv.nets = n.kv.nets) (h : Coh n) : Coh n' := by
  refine ⟨fun i hi he => ?_, fun hn => ?_⟩
  · have := h.1 i hi (by rw [← h2]; exact he)
    simpa [getFabric, kvF, h1, h5] using this
  · have := h.2 (h2' hn)
    simpa [kvNets, h3, h4, h6] using this

/-- arming (or re-arming, or any change of the fail-safe context that keeps its fabric) keeps coherence -/
theorem coh_arm {n : Node} (a : Armed) (bc : Nat) (hc : Coh n)
    (h : n.fs = none ∨ ∃ b, n.fs = some b ∧ b.fab = a.fab) :
    Coh { n with fs := some a, bc := bc } := by
  refine ⟨fun i hi he => ?_, fun hn => by simp at hn⟩
  have he' : i ≠ a.fab := by simpa [exemptIdx] using he
  rcases h with h | ⟨b, hb, hab⟩
  · have := (agree_of_coh_idle hc h).1 i hi
    simpa [getFabric, kvF] using this
  · have := hc.1 i hi (by simp [exemptIdx, hb, hab]; exact he')
    simpa [getFabric, kvF] using this

theorem coh_staged {n : Node} (st : Nat) (hc : Coh n) : Coh { n with staged := st } :=
  coh_congr rfl rfl rfl rfl rfl rfl hc

theorem coh_window {n : Node} (w : Option Window) (hc : Coh n) : Coh { n with window := w } :=
  coh_congr rfl rfl rfl rfl rfl rfl hc

/-- network changes are only made while the fail-safe is armed -/
theorem coh_nets_armed {n : Node} (l : List Nat) (m : Bool) (hc : Coh n) (ha : n.fs ≠ none) :
    Coh { n with nets := l, managed := m } := by
  refine ⟨fun i hi he => ?_, fun hn => absurd hn ha⟩
  have := hc.1 i hi (by simpa [exemptIdx] using he)
  simpa [getFabric, kvF] using this

theorem checkArmed_none {n : Node} {mode : Mode} (h : checkArmed n mode = none) :
    ∃ a, n.fs = some a ∧ a.fab = mode.fab := by
  unfold checkArmed at h
  cases hfs : n.fs with
  | none => simp [hfs] at h
  | some a =>
    simp only [hfs] at h
    by_cases hab : a.fab = mode.fab
    · exact ⟨a, rfl, hab⟩
    · simp [hab] at h

/-- a fabric-scoped write of fabric `f.idx`: the new record replaces the old one in the node and -
unless the fail-safe is armed for this fabric - in the store -/
theorem coh_fabric_write (n : Node) (f f' : Fabric) (hidx : f'.idx = f.idx) (hne : f.idx ≠ 0)
    (hget : getFabric n f.idx = some f) (hc : Coh n) (hf : n.failIn = 0) :
    let n1 := setFabric n f'
    let r := if armedFor n1 f.idx then ok n1
      else match storeFabric n1 f' with
        | (n, true) => ok n
        | (n, false) => (n, .err "NoSpace")
    Coh r.1 ∧ r.1.failIn = 0 := by
  intro n1 r
  have hn1 : n1 = setFabric n f' := rfl
  have hfs1 : n1.fs = n.fs := rfl
  have hkv1 : n1.kv = n.kv := rfl
  have hfi1 : n1.failIn = 0 := hf
  have hget1 : ∀ i, getFabric n1 i = if i = f.idx then some f' else getFabric n i := by
    intro i
    rw [hn1, getFabric_setFabric, hidx]
    by_cases hi : i = f.idx
    · subst hi; simp [hget]
    · simp [hi]
  by_cases harm : armedFor n1 f.idx = true
  · have hr : r = ok n1 := by simp [r, harm]
    rw [hr]
    refine ⟨⟨fun i hi he => ?_, fun hn => ?_⟩, hfi1⟩
    · have hex : exemptIdx n1 = f.idx := by
        unfold armedFor at harm
        unfold exemptIdx
        cases h : n1.fs with
        | none => simp [h] at harm
        | some a => simp [h] at harm; simp [harm]
      have hif : i ≠ f.idx := by rw [← hex]; exact he
      simp only [ok]
      rw [hget1, if_neg hif, hkv1]
      exact hc.1 i hi (by
        have : exemptIdx n = exemptIdx n1 := by simp [exemptIdx, hfs1]
        rw [this]; exact he)
    · exfalso
      unfold armedFor at harm
      simp only [ok] at hn
      simp [hn] at harm
  · have hstore := storeFabric_nofault n1 f' hfi1
    have hr : r = ok (kvCommit n1 (n1.kv.putFabric f')) := by simp [r, harm, hstore]
    rw [hr]
    refine ⟨⟨fun i hi he => ?_, fun hn => ?_⟩, hfi1⟩
    · simp only [ok, kvCommit]
      show getFabric n1 i = kvF (n1.kv.putFabric f') i
      rw [hget1, kvF_putFabric, hidx, hkv1]
      by_cases hif : i = f.idx
      · simp [hif]
      · simp only [hif, if_false]
        have hne' : i ≠ exemptIdx n := by
          -- not armed for `f.idx`; the exempt index of `n` is the one of the result
          have : exemptIdx (ok (kvCommit n1 (n1.kv.putFabric f'))).1 = exemptIdx n := by
            simp [ok, kvCommit, exemptIdx, hfs1]
          rw [← this]; exact he
        exact hc.1 i hi hne'
    · simp only [ok, kvCommit] at hn ⊢
      have := hc.2 (by rw [← hfs1]; exact hn)
      simpa [kvNets, KV.putFabric, hkv1, hn1, setFabric] using this

theorem getFabric_idx {n : Node} {i : Nat} {f : Fabric} (h : getFabric n i = some f) : f.idx = i := by
  simpa using List.find?_some h

theorem sessOp_acl_coh (cfg : Cfg) (n : Node) (sid s v : Nat) (mode : Mode) (hc : Coh n) (hf : n.failIn = 0) :
    Coh (sessOp cfg n sid mode (.acl s v)).1 ∧ (sessOp cfg n sid mode (.acl s v)).1.failIn = 0 := by
  unfold sessOp
  by_cases h0 : mode.fab = 0
  · simp only [h0, if_true]; exact ⟨hc, hf⟩
  · simp only [h0, if_false]
    cases hg : getFabric n mode.fab with
    | none => exact ⟨hc, hf⟩
    | some f =>
      have hidx := getFabric_idx hg
      simp only []
      split
      · exact ⟨hc, hf⟩
      · exact coh_fabric_write n f { f with acl := f.acl ++ [v] } rfl (by omega) (by rw [hidx]; exact hg) hc hf

theorem sessOp_grp_coh (cfg : Cfg) (n : Node) (sid s v : Nat) (mode : Mode) (hc : Coh n) (hf : n.failIn = 0) :
    Coh (sessOp cfg n sid mode (.grp s v)).1 ∧ (sessOp cfg n sid mode (.grp s v)).1.failIn = 0 := by
  unfold sessOp
  by_cases h0 : mode.fab = 0
  · simp only [h0, if_true]; exact ⟨hc, hf⟩
  · simp only [h0, if_false]
    cases hg : getFabric n mode.fab with
    | none => exact ⟨hc, hf⟩
    | some f =>
      have hidx := getFabric_idx hg
      simp only []
      split
      · exact ⟨hc, hf⟩
      · exact coh_fabric_write n f (if f.grp.contains v then f else { f with grp := f.grp ++ [v] })
          (by split <;> rfl) (by omega) (by rw [hidx]; exact hg) hc hf

theorem sessOp_label_coh (cfg : Cfg) (n : Node) (sid s v : Nat) (mode : Mode) (hc : Coh n) (hf : n.failIn = 0) :
    Coh (sessOp cfg n sid mode (.label s v)).1 ∧ (sessOp cfg n sid mode (.label s v)).1.failIn = 0 := by
  unfold sessOp
  by_cases h0 : mode.fab = 0
  · simp only [h0, if_true]; exact ⟨hc, hf⟩
  · simp only [h0, if_false]
    split
    · exact ⟨hc, hf⟩
    · cases hg : getFabric n mode.fab with
      | none => exact ⟨hc, hf⟩
      | some f =>
        have hidx := getFabric_idx hg
        exact coh_fabric_write n f { f with label := v } rfl (by omega) (by rw [hidx]; exact hg) hc hf

theorem sessOp_openW_coh (cfg : Cfg) (n : Node) (sid s : Nat) (mode : Mode) (hc : Coh n) (hf : n.failIn = 0) :
    Coh (sessOp cfg n sid mode (.openW s)).1 ∧ (sessOp cfg n sid mode (.openW s)).1.failIn = 0 := by
  unfold sessOp
  simp only []
  split
  · exact ⟨windowTimeout_coh n hc, by rw [windowTimeout_failIn, hf]⟩
  · exact ⟨coh_window _ (windowTimeout_coh n hc), by simp [ok, windowTimeout_failIn, hf]⟩

theorem expire_coh (cfg : Cfg) (n : Node) (exp : Option Nat) (hc : Coh n) (hf : n.failIn = 0) :
    Coh (expire cfg n exp).1 ∧ (expire cfg n exp).1.failIn = 0 := by
  unfold expire
  cases hfs : n.fs with
  | none => exact ⟨hc, hf⟩
  | some a => exact expireAndPurge_coh cfg n a exp hc hfs hf

theorem sessOp_arm_coh (cfg : Cfg) (n : Node) (sid s secs : Nat) (mode : Mode) (hc : Coh n) (hf : n.failIn = 0) :
    Coh (sessOp cfg n sid mode (.arm s secs)).1 ∧ (sessOp cfg n sid mode (.arm s secs)).1.failIn = 0 := by
  unfold sessOp
  by_cases h0 : secs = 0
  · simp only [h0, if_true]
    have := expire_coh cfg n (some sid) hc hf
    rcases hr : expire cfg n (some sid) with ⟨n1, e⟩
    rw [hr] at this
    cases e <;> exact this
  · simp only [h0, if_false]
    cases hfs : n.fs with
    | none =>
      simp only []
      split
      · exact ⟨hc, hf⟩
      · exact ⟨coh_arm _ _ hc (Or.inl hfs), hf⟩
    | some a =>
      simp only []
      split
      · exact ⟨hc, hf⟩
      · exact ⟨coh_arm _ _ hc (Or.inr ⟨a, hfs, rfl⟩), hf⟩

theorem sessOp_csr_coh (cfg : Cfg) (n : Node) (sid s : Nat) (upd : Bool) (mode : Mode) (hc : Coh n) (hf : n.failIn = 0) :
    Coh (sessOp cfg n sid mode (.csr s upd)).1 ∧ (sessOp cfg n sid mode (.csr s upd)).1.failIn = 0 := by
  unfold sessOp
  cases hca : checkArmed n mode with
  | some e => exact ⟨hc, hf⟩
  | none =>
    simp only []
    split
    · exact ⟨hc, hf⟩
    · cases hfs : n.fs with
      | none => exact ⟨hc, hf⟩
      | some a =>
        simp only []
        split
        · exact ⟨hc, hf⟩
        · have : Coh { n with fs := some { a with flags := (if upd = true then { a.flags with updCsr := true } else { a.flags with addCsr := true }) }, bc := n.bc } :=
            coh_arm _ _ hc (Or.inr ⟨a, hfs, rfl⟩)
          exact ⟨this, hf⟩

theorem sessOp_root_coh (cfg : Cfg) (n : Node) (sid s ca : Nat) (mode : Mode) (hc : Coh n) (hf : n.failIn = 0) :
    Coh (sessOp cfg n sid mode (.root s ca)).1 ∧ (sessOp cfg n sid mode (.root s ca)).1.failIn = 0 := by
  unfold sessOp
  cases hca : checkArmed n mode with
  | some e => exact ⟨hc, hf⟩
  | none =>
    simp only []
    cases hfs : n.fs with
    | none => exact ⟨hc, hf⟩
    | some a =>
      simp only []
      split
      · exact ⟨hc, hf⟩
      · have h1 : Coh { n with staged := ca } := coh_staged ca hc
        have : Coh { { n with staged := ca } with fs := some { a with flags := { a.flags with root := true } }, bc := n.bc } :=
          coh_arm _ _ h1 (Or.inr ⟨a, hfs, rfl⟩)
        exact ⟨this, hf⟩

theorem sessOp_net_coh (cfg : Cfg) (n : Node) (sid s v : Nat) (mode : Mode) (hc : Coh n) (hf : n.failIn = 0) :
    Coh (sessOp cfg n sid mode (.net s v)).1 ∧ (sessOp cfg n sid mode (.net s v)).1.failIn = 0 := by
  unfold sessOp
  cases hca : checkArmed n mode with
  | some e => exact ⟨hc, hf⟩
  | none =>
    have ⟨a, hfs, _⟩ := checkArmed_none hca
    have hne : n.fs ≠ none := by rw [hfs]; simp
    simp only []
    split
    · exact ⟨coh_nets_armed n.nets false hc hne, hf⟩
    · split
      · exact ⟨hc, hf⟩
      · exact ⟨coh_nets_armed _ false hc hne, hf⟩

theorem sessOp_rmnet_coh (cfg : Cfg) (n : Node) (sid s v : Nat) (mode : Mode) (hc : Coh n) (hf : n.failIn = 0) :
    Coh (sessOp cfg n sid mode (.rmnet s v)).1 ∧ (sessOp cfg n sid mode (.rmnet s v)).1.failIn = 0 := by
  unfold sessOp
  cases hca : checkArmed n mode with
  | some e => exact ⟨hc, hf⟩
  | none =>
    have ⟨a, hfs, _⟩ := checkArmed_none hca
    have hne : n.fs ≠ none := by rw [hfs]; simp
    simp only []
    split
    · exact ⟨coh_nets_armed _ false hc hne, hf⟩
    · exact ⟨hc, hf⟩

theorem sessOp_revoke_coh (cfg : Cfg) (n : Node) (sid s : Nat) (mode : Mode) (hc : Coh n) (hf : n.failIn = 0) :
    Coh (sessOp cfg n sid mode (.revoke s)).1 ∧ (sessOp cfg n sid mode (.revoke s)).1.failIn = 0 := by
  unfold sessOp
  simp only []
  have := expire_coh cfg n (some sid) hc hf
  rcases hr : expire cfg n (some sid) with ⟨n1, e⟩
  rw [hr] at this
  cases e with
  | some e => exact this
  | none => exact ⟨coh_window none this.1, this.2⟩

theorem kvF_none_of_not_has {kv : KV} {i : Nat} (h : kv.hasFabric i = false) : kvF kv i = none := by
  unfold KV.hasFabric at h
  unfold kvF
  rw [List.find?_eq_none]
  intro f hfm
  have := (List.any_eq_false.mp h) f hfm
  simpa using this

theorem sessOp_rmfab_coh (cfg : Cfg) (n : Node) (sid s idx : Nat) (mode : Mode) (hc : Coh n) (hf : n.failIn = 0) :
    Coh (sessOp cfg n sid mode (.rmfab s idx)).1 ∧ (sessOp cfg n sid mode (.rmfab s idx)).1.failIn = 0 := by
  unfold sessOp
  by_cases h0 : idx = 0
  · simp only [h0, if_true]; exact ⟨hc, hf⟩
  · simp only [h0, if_false]
    by_cases hh : hasFabric n idx = true
    · simp only [hh, if_true, decide_not]
      -- the node after the memory part
      generalize hn1 : ({ n with fabrics := n.fabrics.filter (fun f => !decide (f.idx = idx)),
                                 sessions := removeForFabric n.sessions idx (if mode.fab = idx then some sid else none) } : Node) = n1
      have hf1 : n1.failIn = 0 := by rw [← hn1]; exact hf
      have ⟨p1, p2, p3, p4, p5, p6, p7, p8, _⟩ := purgeResum_nofault n1 idx hf1
      rcases hp : purgeResum n1 idx with ⟨n2, b⟩
      rw [hp] at p1 p2 p3 p4 p5 p6 p7 p8
      simp only at p1 p2 p3 p4 p5 p6 p7 p8
      subst p1
      simp only []
      have hrm := removeFabricKey_nofault n2 idx p2
      rw [hrm]
      simp only [ok]
      have hfab2 : n2.fabrics = n.fabrics.filter (fun f => !decide (f.idx = idx)) := by rw [p3, ← hn1]
      have hfs2 : n2.fs = n.fs := by rw [p4, ← hn1]
      have hnets2 : n2.nets = n.nets := by rw [p5, ← hn1]
      have hman2 : n2.managed = n.managed := by rw [p6, ← hn1]
      have hkf2 : n2.kv.fabs = n.kv.fabs := by rw [p7, ← hn1]
      have hkn2 : n2.kv.nets = n.kv.nets := by rw [p8, ← hn1]
      have hget2 : ∀ i, getFabric n2 i = if i = idx then none else getFabric n i := by
        intro i; simp only [getFabric, hfab2]; exact find_filter_neB n.fabrics idx i
      have hkvF2 : ∀ i, kvF n2.kv i = kvF n.kv i := by intro i; simp [kvF, hkf2]
      by_cases hk : n2.kv.hasFabric idx = true
      · simp only [hk, if_true]
        refine ⟨⟨fun i hi he => ?_, fun hn => ?_⟩, p2⟩
        · show getFabric n2 i = kvF (n2.kv.delFabric idx) i
          rw [hget2, kvF_delFabric, hkvF2]
          by_cases hii : i = idx
          · simp [hii]
          · simp only [hii, if_false]
            exact hc.1 i hi (by
              have : exemptIdx n = exemptIdx (kvCommit n2 (n2.kv.delFabric idx)) := by
                simp [exemptIdx, kvCommit, hfs2]
              rw [this]; exact he)
        · have := hc.2 (by rw [← hfs2]; exact hn)
          simpa [kvCommit, kvNets, KV.delFabric, hnets2, hman2, hkn2] using this
      · have hk' : n2.kv.hasFabric idx = false := by simpa using hk
        simp only [hk', Bool.false_eq_true, if_false]
        refine ⟨⟨fun i hi he => ?_, fun hn => ?_⟩, p2⟩
        · rw [hget2, hkvF2]
          by_cases hii : i = idx
          · subst hii
            have := kvF_none_of_not_has hk'
            rw [hkvF2] at this
            simp [this]
          · simp only [hii, if_false]
            exact hc.1 i hi (by
              have : exemptIdx n = exemptIdx n2 := by simp [exemptIdx, hfs2]
              rw [this]; exact he)
        · have := hc.2 (by rw [← hfs2]; exact hn)
          simpa [kvNets, hnets2, hman2, hkn2] using this
    · simp only [hh, Bool.false_eq_true, if_false]; exact ⟨hc, hf⟩

theorem sessOp_updnoc_coh (cfg : Cfg) (n : Node) (sid s node ser : Nat) (mode : Mode) (hc : Coh n) (hf : n.failIn = 0) :
    Coh (sessOp cfg n sid mode (.updnoc s node ser)).1 ∧ (sessOp cfg n sid mode (.updnoc s node ser)).1.failIn = 0 := by
  unfold sessOp
  cases hca : checkArmed n mode with
  | some e => exact ⟨hc, hf⟩
  | none =>
    have ⟨a0, hfs0, hab0⟩ := checkArmed_none hca
    simp only []
    split
    · exact ⟨hc, hf⟩
    · simp only [hfs0]
      split
      · exact ⟨hc, hf⟩
      · cases hg : getFabric n mode.fab with
        | none => exact ⟨hc, hf⟩
        | some f =>
          have hidx := getFabric_idx hg
          simp only [ok]
          refine ⟨⟨fun i hi he => ?_, fun hn => by simp at hn⟩, hf⟩
          have hif : i ≠ f.idx := by simpa [exemptIdx] using he
          show getFabric (setFabric n { f with node := node, ser := ser }) i = kvF n.kv i
          rw [getFabric_setFabric]
          simp only [hif, if_false]
          exact hc.1 i hi (by simp [exemptIdx, hfs0, hab0, ← hidx]; exact hif)

theorem sessOp_complete_agree (cfg : Cfg) (n : Node) (sid s : Nat) (mode : Mode) (hc : Coh n) (hf : n.failIn = 0) :
    (Coh (sessOp cfg n sid mode (.complete s)).1 ∧ (sessOp cfg n sid mode (.complete s)).1.failIn = 0) ∧
    ((sessOp cfg n sid mode (.complete s)).2 = .ok →
      Agree (sessOp cfg n sid mode (.complete s)).1 ∧ (sessOp cfg n sid mode (.complete s)).1.fs = none) := by
  unfold sessOp
  cases hca : checkArmed n mode with
  | some e => exact ⟨⟨hc, hf⟩, by simp⟩
  | none =>
    have ⟨a0, hfs0, hab0⟩ := checkArmed_none hca
    simp only []
    split
    · exact ⟨⟨hc, hf⟩, by simp⟩
    · cases hg : getFabric n mode.fab with
      | none => exact ⟨⟨hc, hf⟩, by simp⟩
      | some f =>
        have hidx := getFabric_idx hg
        simp only []
        generalize hn1 : ({ n with fs := none, bc := 0, window := none, sessions := removePase n.sessions none } : Node) = n1
        have hf1 : n1.failIn = 0 := by rw [← hn1]; exact hf
        rw [storeFabric_nofault n1 f hf1]
        simp only []
        generalize hn2 : ({ kvCommit n1 (n1.kv.putFabric f) with managed := true } : Node) = n2
        have hf2 : n2.failIn = 0 := by rw [← hn2]; exact hf1
        rw [storeNets_nofault n2 hf2]
        simp only [ok]
        have hag : Agree (kvCommit n2 { n2.kv with nets := some (n2.nets, n2.managed) }) := by
          refine ⟨fun i hi => ?_, ?_⟩
          · show getFabric n2 i = kvF { n2.kv with nets := some (n2.nets, n2.managed) } i
            have h1 : getFabric n2 i = getFabric n i := by rw [← hn2, ← hn1]; rfl
            have h2 : kvF { n2.kv with nets := some (n2.nets, n2.managed) } i = kvF (n.kv.putFabric f) i := by
              rw [← hn2, ← hn1]; rfl
            rw [h1, h2, kvF_putFabric]
            by_cases hik : i = f.idx
            · rw [if_pos hik, hik, hidx]; exact hg
            · rw [if_neg hik]
              exact hc.1 i hi (by simp [exemptIdx, hfs0, hab0, ← hidx]; exact hik)
          · simp [kvCommit, kvNets]
        have hfsn : (kvCommit n2 { n2.kv with nets := some (n2.nets, n2.managed) }).fs = none := by
          rw [← hn2, ← hn1]; rfl
        exact ⟨⟨coh_of_agree hag, hf2⟩, fun _ => ⟨hag, hfsn⟩⟩

/-- adding the fabric `f` at a fresh index and binding the fail-safe context to it keeps coherence
(the context was bound to no fabric before: AddNOC over a not yet promoted PASE session) -/
theorem coh_addnoc {n : Node} (a b : Armed) (f : Fabric) (g : Nat) (hc : Coh n) (hfs : n.fs = some a)
    (ha : a.fab = 0) (hb : b.fab = f.idx) :
    Coh { n with fabrics := n.fabrics ++ [f], nextGen := g, fs := some b } := by
  refine ⟨fun i hi he => ?_, fun hn => by simp at hn⟩
  have hif : i ≠ f.idx := by simpa [exemptIdx, hb] using he
  show (n.fabrics ++ [f]).find? (fun x => decide (x.idx = i)) = kvF n.kv i
  rw [find_append_single]
  have := hc.1 i hi (by simp [exemptIdx, hfs, ha]; exact hi)
  simp only [getFabric] at this
  rw [this]
  have hfi : ¬ f.idx = i := fun h => hif h.symm
  cases kvF n.kv i <;> simp [hfi]

theorem sessOp_addnoc_coh (cfg : Cfg) (n : Node) (sid s ca fid node subj ser : Nat) (hc : Coh n) (hf : n.failIn = 0) :
    Coh (sessOp cfg n sid (.pase 0) (.addnoc s ca fid node subj ser)).1 ∧
    (sessOp cfg n sid (.pase 0) (.addnoc s ca fid node subj ser)).1.failIn = 0 := by
  unfold sessOp
  cases hca : checkArmed n (.pase 0) with
  | some e => exact ⟨hc, hf⟩
  | none =>
    have ⟨a0, hfs0, hab0⟩ := checkArmed_none hca
    simp only [hfs0]
    split
    · exact ⟨hc, hf⟩
    · split
      · exact ⟨hc, hf⟩
      · split
        · exact ⟨hc, hf⟩
        · split
          · exact ⟨hc, hf⟩
          · split
            · exact ⟨hc, hf⟩
            · rename_i idx _
              split
              · exact ⟨hc, hf⟩
              · refine ⟨?_, hf⟩
                have := coh_addnoc a0 { a0 with fab := idx, flags := { a0.flags with addNoc := true } }
                  { idx := idx, gen := n.nextGen, ca := n.staged, fid := fid, node := node, ser := ser,
                    acl := [subj], grp := [], label := 0 } (n.nextGen + 1) hc hfs0 (by simpa [Mode.fab] using hab0) rfl
                exact coh_congr rfl rfl rfl rfl rfl rfl this

/-! ### sessions after the prologue keep their id and mode -/

def SessSub (l' l : List Sess) : Prop := ∀ s' ∈ l', ∃ s0 ∈ l, s0.id = s'.id ∧ s0.mode = s'.mode

theorem sessSub_refl (l : List Sess) : SessSub l l := fun s hs => ⟨s, hs, rfl, rfl⟩

theorem sessSub_trans {a b c : List Sess} (h1 : SessSub a b) (h2 : SessSub b c) : SessSub a c := by
  intro s hs
  obtain ⟨s1, hs1, e1, m1⟩ := h1 s hs
  obtain ⟨s2, hs2, e2, m2⟩ := h2 s1 hs1
  exact ⟨s2, hs2, by rw [e2, e1], by rw [m2, m1]⟩

theorem removePase_sub (l : List Sess) (exp : Option Nat) : SessSub (removePase l exp) l := by
  intro s hs
  unfold removePase at hs
  rw [List.mem_map] at hs
  obtain ⟨s0, hs0, rfl⟩ := hs
  have hm := (List.mem_filter.mp hs0).1
  refine ⟨s0, hm, ?_, ?_⟩ <;> split <;> rfl

theorem removeForFabric_sub (l : List Sess) (fab : Nat) (exp : Option Nat) : SessSub (removeForFabric l fab exp) l := by
  intro s hs
  unfold removeForFabric at hs
  rw [List.mem_map] at hs
  obtain ⟨s0, hs0, rfl⟩ := hs
  have hm := (List.mem_filter.mp hs0).1
  refine ⟨s0, hm, ?_, ?_⟩ <;> split <;> rfl

theorem rollbackSessions_sub (n : Node) (r exp : Option Nat) : SessSub (rollbackSessions n r exp) n.sessions := by
  unfold rollbackSessions
  cases r with
  | none => exact removePase_sub _ _
  | some idx => exact sessSub_trans (removePase_sub _ _) (removeForFabric_sub _ _ _)

theorem expireArmed_sub (cfg : Cfg) (n : Node) (a : Armed) (exp : Option Nat) :
    SessSub (expireArmed cfg n a exp).1.sessions n.sessions := by
  unfold expireArmed
  cases rollbackFabrics cfg n a with
  | error e => exact sessSub_refl _
  | ok fs => exact rollbackSessions_sub n _ exp

theorem purgeResum_sessions (n : Node) (i : Nat) : (purgeResum n i).1.sessions = n.sessions := by
  unfold purgeResum
  by_cases h : (n.resum.any fun r => decide (r.fab = i)) = true
  · simp only [h, if_true, kvTick]
    by_cases h0 : n.failIn = 0
    · simp [h0, kvCommit]
    · by_cases h1 : n.failIn = 1
      · simp [h1]
      · simp [h0, h1, kvCommit]
  · simp [h]

theorem expireAndPurge_sub (cfg : Cfg) (n : Node) (a : Armed) (exp : Option Nat) :
    SessSub (expireAndPurge cfg n a exp).1.sessions n.sessions := by
  unfold expireAndPurge
  have h := expireArmed_sub cfg n a exp
  rcases hres : expireArmed cfg n a exp with ⟨n1, e, r⟩
  rw [hres] at h
  simp only at h
  cases e with
  | some e => exact h
  | none =>
    cases r with
    | none => exact h
    | some idx =>
      have hp := purgeResum_sessions n1 idx
      rcases hpr : purgeResum n1 idx with ⟨n2, b⟩
      rw [hpr] at hp
      simp only at hp
      cases b <;> (simp only [hpr]; rw [hp]; exact h)

theorem windowTimeout_sessions (m : Node) : (windowTimeout m).sessions = m.sessions := by
  unfold windowTimeout; split <;> (try split) <;> rfl

theorem checkTimeouts_sub (cfg : Cfg) (n : Node) (sid : Option Nat) :
    SessSub (checkTimeouts cfg n sid).1.sessions n.sessions := by
  unfold checkTimeouts
  cases hfs : n.fs with
  | none => simp only []; rw [windowTimeout_sessions]; exact sessSub_refl _
  | some a =>
    simp only []
    by_cases ht : n.now ≥ a.armedAt + a.timeout
    · simp only [ht, if_true]
      have h := expireAndPurge_sub cfg n a (expSid n sid)
      have heq : (expireAndPurgeLenient cfg n a (expSid n sid)).1 = (expireAndPurge cfg n a (expSid n sid)).1 := rfl
      cases he : (expireAndPurgeLenient cfg n a (expSid n sid)).2 with
      | some e => simp only []; rw [heq]; exact h
      | none => simp only []; rw [windowTimeout_sessions, heq]; exact h
    · simp only [ht, if_false]; rw [windowTimeout_sessions]; exact sessSub_refl _

/-! ### restart, and the whole step -/

/-- a restart rebuilds exactly the stored view -/
theorem restartFrom_agree (n : Node) (kv : KV) (hist : List KV) :
    Agree (restartFrom n kv hist) ∧ (restartFrom n kv hist).fs = none ∧ (restartFrom n kv hist).failIn = 0 ∧
    (restartFrom n kv hist).kv.fabs = kv.fabs ∧ (restartFrom n kv hist).kv.nets = kv.nets ∧
    (restartFrom n kv hist).sessions = [] := by
  unfold restartFrom
  cases hr : kv.resum <;> simp only [] <;> split <;>
    (refine ⟨⟨fun i _ => ?_, ?_⟩, ?_, ?_, ?_, ?_, ?_⟩
     · simp [getFabric, kvF]
     · simp [kvNets]; cases kv.nets <;> simp
     all_goals simp)

theorem addSess_coh (cfg : Cfg) (n : Node) (mode : Mode) (peer gen : Nat) (hc : Coh n) (hf : n.failIn = 0) :
    Coh (addSess cfg n mode peer gen).1 ∧ (addSess cfg n mode peer gen).1.failIn = 0 := by
  unfold addSess
  simp only []
  split
  · exact ⟨coh_congr rfl rfl rfl rfl rfl rfl hc, hf⟩
  · exact ⟨coh_congr rfl rfl rfl rfl rfl rfl hc, hf⟩

/-- what the coherence theorem assumes about one operation: no injected store fault, no factory
reset (treated separately in C11), and AddNOC arrives over a not yet promoted PASE session (AddNOC
over CASE re-binds the fail-safe context: open finding `C08-failsafe-context-switch`) -/
def SafeOp (n : Node) : Op → Prop
  | .kvfail _ => False
  | .freset => False
  | .addnoc s _ _ _ _ _ => ∀ se ∈ n.sessions, se.id = s → se.mode = .pase 0
  | _ => True

theorem getSess_mem {n : Node} {sid : Nat} {s : Sess} (h : getSess n sid = some s) : s ∈ n.sessions ∧ s.id = sid := by
  unfold getSess at h
  exact ⟨List.mem_of_find?_eq_some h, by simpa using List.find?_some h⟩

theorem sessOp_coh (cfg : Cfg) (n : Node) (sid : Nat) (mode : Mode) (op : Op) (hc : Coh n) (hf : n.failIn = 0)
    (hsafe : ∀ s ca fid node subj ser, op = .addnoc s ca fid node subj ser → mode = .pase 0) :
    Coh (sessOp cfg n sid mode op).1 ∧ (sessOp cfg n sid mode op).1.failIn = 0 := by
  cases op with
  | openW s => exact sessOp_openW_coh cfg n sid s mode hc hf
  | arm s secs => exact sessOp_arm_coh cfg n sid s secs mode hc hf
  | csr s upd => exact sessOp_csr_coh cfg n sid s upd mode hc hf
  | root s ca => exact sessOp_root_coh cfg n sid s ca mode hc hf
  | addnoc s ca fid node subj ser =>
    have := hsafe s ca fid node subj ser rfl
    subst this
    exact sessOp_addnoc_coh cfg n sid s ca fid node subj ser hc hf
  | updnoc s node ser => exact sessOp_updnoc_coh cfg n sid s node ser mode hc hf
  | acl s v => exact sessOp_acl_coh cfg n sid s v mode hc hf
  | grp s v => exact sessOp_grp_coh cfg n sid s v mode hc hf
  | label s v => exact sessOp_label_coh cfg n sid s v mode hc hf
  | net s v => exact sessOp_net_coh cfg n sid s v mode hc hf
  | rmnet s v => exact sessOp_rmnet_coh cfg n sid s v mode hc hf
  | complete s => exact (sessOp_complete_agree cfg n sid s mode hc hf).1
  | rmfab s idx => exact sessOp_rmfab_coh cfg n sid s idx mode hc hf
  | revoke s => exact sessOp_revoke_coh cfg n sid s mode hc hf
  | _ => exact ⟨hc, hf⟩

theorem coh_resum {n : Node} (r : List Resum) (hc : Coh n) : Coh { n with resum := r } :=
  coh_congr rfl rfl rfl rfl rfl rfl hc

/-- **Coherence is an invariant** of every operation (without store faults) -/
theorem step_coh (cfg : Cfg) (n : Node) (op : Op) (hc : Coh n) (hf : n.failIn = 0) (hs : SafeOp n op) :
    Coh (step cfg n op).1 ∧ (step cfg n op).1.failIn = 0 := by
  unfold step
  cases hso : isSessOp op with
  | some sid =>
    simp only []
    cases hg : getSess n sid with
    | none => exact ⟨hc, hf⟩
    | some s0 =>
      simp only []
      have ⟨hc1, hf1⟩ := checkTimeouts_coh cfg n (some sid) hc hf
      have hsub := checkTimeouts_sub cfg n (some sid)
      rcases hct : checkTimeouts cfg n (some sid) with ⟨n1, e⟩
      rw [hct] at hc1 hf1 hsub
      simp only at hc1 hf1 hsub
      cases e with
      | some e => exact ⟨hc1, hf1⟩
      | none =>
        simp only []
        cases hg1 : getSess n1 sid with
        | none => exact ⟨hc1, hf1⟩
        | some s1 =>
          simp only []
          split
          · exact ⟨hc1, hf1⟩
          · refine sessOp_coh cfg n1 sid s1.mode op hc1 hf1 ?_
            intro s ca fid node subj ser hop
            subst hop
            have hsid : sid = s := by simpa [isSessOp] using hso.symm
            have ⟨hm1, hid1⟩ := getSess_mem hg1
            obtain ⟨s', hs', hid', hmode'⟩ := hsub s1 hm1
            have := hs s' hs' (by rw [hid', hid1, hsid])
            rw [← hmode', this]
  | none =>
    simp only []
    cases op with
    | boot => simp only []; split <;> first | exact ⟨hc, hf⟩ | exact ⟨coh_window _ hc, hf⟩
    | pase =>
      simp only []
      split
      · exact ⟨hc, hf⟩
      · have := addSess_coh cfg n (.pase 0) 0 0 hc hf
        rcases hr : addSess cfg n (.pase 0) 0 0 with ⟨n1, o⟩
        rw [hr] at this
        cases o <;> exact this
    | caseEst fab node rid =>
      simp only []
      split
      · exact ⟨hc, hf⟩
      · rename_i f _
        have := addSess_coh cfg n (.case fab) node f.gen hc hf
        rcases hr : addSess cfg n (.case fab) node f.gen with ⟨n1, o⟩
        rw [hr] at this
        cases o with
        | none => exact this
        | some id => exact ⟨coh_resum _ this.1, this.2⟩
    | resume rid newRid =>
      simp only []
      split
      · exact ⟨hc, hf⟩
      · rename_i r _
        split
        · exact ⟨hc, hf⟩
        · have := addSess_coh cfg n (.case r.fab) r.peer r.gen hc hf
          rcases hr : addSess cfg n (.case r.fab) r.peer r.gen with ⟨n1, o⟩
          rw [hr] at this
          cases o with
          | none => exact this
          | some id => exact ⟨coh_resum _ this.1, this.2⟩
    | tick secs => exact ⟨coh_congr rfl rfl rfl rfl rfl rfl hc, hf⟩
    | poll =>
      simp only []
      have := checkTimeouts_coh cfg n none hc hf
      rcases hr : checkTimeouts cfg n none with ⟨n1, e⟩
      rw [hr] at this
      cases e <;> exact this
    | flush =>
      simp only [kvTick_nofault n hf]
      exact ⟨coh_congr rfl rfl rfl rfl rfl rfl hc, hf⟩
    | restart =>
      have ⟨h1, _, h3, _⟩ := restartFrom_agree n n.kv n.hist
      exact ⟨coh_of_agree h1, h3⟩
    | crash k =>
      simp only []
      have ⟨h1, _, h3, _⟩ := restartFrom_agree n
        (match List.drop (n.hist.length - min k n.hist.length) n.hist with | kv :: _ => kv | [] => {})
        (List.drop (n.hist.length - min k n.hist.length) n.hist)
      exact ⟨coh_of_agree h1, h3⟩
    | corrupt =>
      simp only []
      have ⟨h1, _, h3, _⟩ := restartFrom_agree n { n.kv with resum := .garbage } ({ n.kv with resum := .garbage } :: n.hist)
      exact ⟨coh_of_agree h1, h3⟩
    | kvfail k => exact absurd hs (by simp [SafeOp])
    | freset => exact absurd hs (by simp [SafeOp])
    | _ => simp [isSessOp] at hso

/-- a history, one operation after the other -/
def run (cfg : Cfg) (n : Node) : List Op → Node
  | [] => n
  | op :: rest => run cfg (step cfg n op).1 rest

/-- every operation of the history is `SafeOp` in the state it is applied to -/
def SafeHist (cfg : Cfg) : Node → List Op → Prop
  | _, [] => True
  | n, op :: rest => SafeOp n op ∧ SafeHist cfg (step cfg n op).1 rest

instance (n : Node) (op : Op) : Decidable (SafeOp n op) := by
  cases op <;> simp only [SafeOp] <;> infer_instance

instance decSafeHist (cfg : Cfg) : (n : Node) → (ops : List Op) → Decidable (SafeHist cfg n ops)
  | _, [] => isTrue trivial
  | n, op :: rest =>
    have := decSafeHist cfg (step cfg n op).1 rest
    by simp only [SafeHist]; infer_instance

theorem run_coh (cfg : Cfg) (ops : List Op) : ∀ (n : Node), Coh n → n.failIn = 0 → SafeHist cfg n ops →
    Coh (run cfg n ops) ∧ (run cfg n ops).failIn = 0 := by
  induction ops with
  | nil => intro n hc hf _; exact ⟨hc, hf⟩
  | cons op rest ih =>
    intro n hc hf hs
    have ⟨h1, h2⟩ := step_coh cfg n op hc hf hs.1
    exact ih _ h1 h2 hs.2

theorem coh_init : Coh ({} : Node) := by
  refine ⟨fun i _ _ => ?_, fun _ => ?_⟩ <;> simp [getFabric, kvF, kvNets]

end Admin
