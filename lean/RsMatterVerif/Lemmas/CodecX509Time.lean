import RsMatterVerif.Model.Codec.X509
/-!
# Calendar arithmetic of the `der` crate's `DateTime` (`Model/Codec/X509.lean`)

`DateTime::new` counts days forward from 1970 (closed formula with the leap years before `year`);
`DateTime::from_unix_duration` goes back from seconds to a date by 400 / 100 / 4-year cycles from 2000-03-01 (musl).
Both decoders of a time value run the second on the result of the first. `timeOfFields_cal`: for every valid date
from 1970-01-01 to 9999-12-31 the pair is the identity — the decoded `DateTime` has the fields that were written and
the seconds of `DateTime::new`.
-/
namespace Codec.DerRd

theorem fix146097 (D : Int) :
    (if tmodI D 146097 < 0 then tdivI D 146097 - 1 else tdivI D 146097) = D / 146097 ∧
    (if tmodI D 146097 < 0 then tmodI D 146097 + 146097 else tmodI D 146097) = D % 146097 := by
  unfold tdivI tmodI
  by_cases h : D ≥ 0
  · simp only [h, if_true]
    constructor <;> split <;> omega
  · simp only [h, if_false]
    constructor <;> split <;> omega

/-- the cycle arithmetic recovers a mixed-radix decomposition of the day number -/
theorem dayParts_of (D qc : Int) (c q r doy : Nat)
    (hD : D = 146097 * qc + 36524 * c + 1461 * q + 365 * r + doy)
    (hc : c ≤ 3) (hq : q ≤ 24) (hr : r ≤ 3) (hdoy : doy ≤ 365)
    (hleap : doy = 365 → r = 3 ∧ (q < 24 ∨ c = 3)) :
    dayParts D = { qc := qc, c := c, q := q, r := r, rem := doy } := by
  unfold dayParts
  simp only []
  rw [(fix146097 D).1, (fix146097 D).2]
  have h1 : D / 146097 = qc := by omega
  have h2 : (D % 146097).toNat = 36524 * c + 1461 * q + 365 * r + doy := by omega
  rw [h1, h2]
  have hcc : (if (36524 * c + 1461 * q + 365 * r + doy) / 36524 = 4 then 3
      else (36524 * c + 1461 * q + 365 * r + doy) / 36524) = c := by
    split <;> omega
  rw [hcc]
  have h3 : 36524 * c + 1461 * q + 365 * r + doy - c * 36524 = 1461 * q + 365 * r + doy := by omega
  rw [h3]
  have hqq : (if (1461 * q + 365 * r + doy) / 1461 = 25 then 24 else (1461 * q + 365 * r + doy) / 1461) = q := by
    split <;> omega
  rw [hqq]
  have h4 : 1461 * q + 365 * r + doy - q * 1461 = 365 * r + doy := by omega
  rw [h4]
  have hrr : (if (365 * r + doy) / 365 = 4 then 3 else (365 * r + doy) / 365) = r := by
    split <;> omega
  rw [hrr]
  have h5 : 365 * r + doy - r * 365 = doy := by omega
  rw [h5]

/-- March .. December: the March year is the calendar year -/
theorem fwd_core_hi (y x md0 adj : Nat) (qc : Int) (c q r : Nat) (hy : 1970 ≤ y)
    (hadj : (adj = 1 ∧ y % 4 = 0 ∧ (y % 100 ≠ 0 ∨ y % 400 = 0)) ∨ (adj = 0 ∧ ¬(y % 4 = 0 ∧ (y % 100 ≠ 0 ∨ y % 400 = 0))))
    (he : (y : Int) - 2000 = 400 * qc + 100 * c + 4 * q + r) (hc : c ≤ 3) (hq : q ≤ 24) (hr : r ≤ 3) :
    (((y - 1970) * 365 + (((y - 1) - 1968) / 4 - ((y - 1) - 1900) / 100 + ((y - 1) - 1600) / 400)
        + (md0 + 59 + x + adj) : Nat) : Int) - 11017
      = 146097 * qc + 36524 * c + 1461 * q + 365 * r + ((md0 + x : Nat) : Int) := by
  omega

/-- January, February: the March year is the previous calendar year -/
theorem fwd_core_lo (y x yd0 : Nat) (qc : Int) (c q r : Nat) (hy : 1970 ≤ y)
    (he : (y : Int) - 1 - 2000 = 400 * qc + 100 * c + 4 * q + r) (hc : c ≤ 3) (hq : q ≤ 24) (hr : r ≤ 3) :
    (((y - 1970) * 365 + (((y - 1) - 1968) / 4 - ((y - 1) - 1900) / 100 + ((y - 1) - 1600) / 400)
        + (yd0 + x + 0) : Nat) : Int) - 11017
      = 146097 * qc + 36524 * c + 1461 * q + 365 * r + ((yd0 + 306 + x : Nat) : Int) := by
  omega

/-- days from March 1st to the first of month `m` (January and February belong to the previous March year) -/
def marchDays (m : Nat) : Nat :=
  if m = 3 then 0 else if m = 4 then 31 else if m = 5 then 61 else if m = 6 then 92 else if m = 7 then 122
  else if m = 8 then 153 else if m = 9 then 184 else if m = 10 then 214 else if m = 11 then 245
  else if m = 12 then 275 else if m = 1 then 306 else 337

/-- days before the first of month `m` in a common year -/
def ydaysOf (m : Nat) : Nat :=
  if m = 1 then 0 else if m = 2 then 31 else if m = 3 then 59 else if m = 4 then 90 else if m = 5 then 120
  else if m = 6 then 151 else if m = 7 then 181 else if m = 8 then 212 else if m = 9 then 243
  else if m = 10 then 273 else if m = 11 then 304 else 334

def daysIn (leap : Bool) (m : Nat) : Nat :=
  if m = 2 then (if leap then 29 else 28)
  else if m = 4 ∨ m = 6 ∨ m = 9 ∨ m = 11 then 30 else 31

theorem monthTable_eq (leap : Bool) (m : Nat) (h1 : 1 ≤ m) (h2 : m ≤ 12) :
    monthTable leap m = some (ydaysOf m, daysIn leap m) := by
  have hmc : m = 1 ∨ m = 2 ∨ m = 3 ∨ m = 4 ∨ m = 5 ∨ m = 6 ∨ m = 7 ∨ m = 8 ∨ m = 9 ∨ m = 10 ∨ m = 11 ∨ m = 12 := by omega
  rcases hmc with rfl | rfl | rfl | rfl | rfl | rfl | rfl | rfl | rfl | rfl | rfl | rfl <;> cases leap <;> rfl

/-- a date of the Gregorian calendar from 1970 to 9999 with a time of day -/
def Cal.Valid (c : Cal) : Prop :=
  1970 ≤ c.year ∧ c.year ≤ 9999 ∧ 1 ≤ c.month ∧ c.month ≤ 12 ∧ 1 ≤ c.day ∧ c.day ≤ daysIn (isLeapYear c.year) c.month ∧
  c.hour ≤ 23 ∧ c.minute ≤ 59 ∧ c.second ≤ 59

/-- seconds since 1970-01-01T00:00:00Z, as `DateTime::new` counts them -/
def Cal.secs (c : Cal) : Nat := dateTimeSecs c.year c.month c.day c.hour c.minute c.second (ydaysOf c.month)

def Cal.dt (c : Cal) : DateTime :=
  { year := c.year, month := c.month, day := c.day, hour := c.hour, minutes := c.minute, seconds := c.second,
    secs := c.secs }

theorem isLeapYear_iff (y : Nat) : isLeapYear y = true ↔ (y % 4 = 0 ∧ (y % 100 ≠ 0 ∨ y % 400 = 0)) := by
  simp [isLeapYear]


theorem monthLoop_skip {ml : Nat} {rest : List Nat} {mon rem : Nat} (h : ml ≤ rem) :
    monthLoop (ml :: rest) mon rem = monthLoop rest (mon + 1) (rem - ml) := by
  rw [monthLoop, if_neg (by omega)]

theorem monthLoop_stop {ml : Nat} {rest : List Nat} {mon rem : Nat} (h : rem < ml) :
    monthLoop (ml :: rest) mon rem = (mon + 1, rem) := by
  rw [monthLoop, if_pos h]

/-- the month loop finds the month and the day of the month -/
theorem monthLoop_march (leap : Bool) (m d : Nat) (h1 : 1 ≤ m) (h2 : m ≤ 12) (hd1 : 1 ≤ d) (hd2 : d ≤ daysIn leap m) :
    monthLoop MONTHS_FROM_MARCH 0 (marchDays m + (d - 1)) = ((if m ≤ 2 then m + 10 else m - 2), d - 1) := by
  have hmc : m = 1 ∨ m = 2 ∨ m = 3 ∨ m = 4 ∨ m = 5 ∨ m = 6 ∨ m = 7 ∨ m = 8 ∨ m = 9 ∨ m = 10 ∨ m = 11 ∨ m = 12 := by omega
  have hl : (if leap = true then 29 else 28) ≤ 29 := by cases leap <;> decide
  unfold MONTHS_FROM_MARCH
  rcases hmc with rfl | rfl | rfl | rfl | rfl | rfl | rfl | rfl | rfl | rfl | rfl | rfl
  · have hd3 : d ≤ 31 := hd2
    rw [show marchDays 1 = 306 from rfl]
    rw [monthLoop_skip (by omega)]
    rw [monthLoop_skip (by omega)]
    rw [monthLoop_skip (by omega)]
    rw [monthLoop_skip (by omega)]
    rw [monthLoop_skip (by omega)]
    rw [monthLoop_skip (by omega)]
    rw [monthLoop_skip (by omega)]
    rw [monthLoop_skip (by omega)]
    rw [monthLoop_skip (by omega)]
    rw [monthLoop_skip (by omega)]
    rw [monthLoop_stop (by omega)]
    rw [show (if 1 ≤ 2 then 1 + 10 else 1 - 2) = 11 from rfl]
    refine Prod.ext rfl ?_
    show _ = d - 1
    omega
  · have hd3 : d ≤ (if leap = true then 29 else 28) := hd2
    rw [show marchDays 2 = 337 from rfl]
    rw [monthLoop_skip (by omega)]
    rw [monthLoop_skip (by omega)]
    rw [monthLoop_skip (by omega)]
    rw [monthLoop_skip (by omega)]
    rw [monthLoop_skip (by omega)]
    rw [monthLoop_skip (by omega)]
    rw [monthLoop_skip (by omega)]
    rw [monthLoop_skip (by omega)]
    rw [monthLoop_skip (by omega)]
    rw [monthLoop_skip (by omega)]
    rw [monthLoop_skip (by omega)]
    rw [monthLoop_stop (by omega)]
    rw [show (if 2 ≤ 2 then 2 + 10 else 2 - 2) = 12 from rfl]
    refine Prod.ext rfl ?_
    show _ = d - 1
    omega
  · have hd3 : d ≤ 31 := hd2
    rw [show marchDays 3 = 0 from rfl]
    rw [monthLoop_stop (by omega)]
    rw [show (if 3 ≤ 2 then 3 + 10 else 3 - 2) = 1 from rfl]
    refine Prod.ext rfl ?_
    show _ = d - 1
    omega
  · have hd3 : d ≤ 30 := hd2
    rw [show marchDays 4 = 31 from rfl]
    rw [monthLoop_skip (by omega)]
    rw [monthLoop_stop (by omega)]
    rw [show (if 4 ≤ 2 then 4 + 10 else 4 - 2) = 2 from rfl]
    refine Prod.ext rfl ?_
    show _ = d - 1
    omega
  · have hd3 : d ≤ 31 := hd2
    rw [show marchDays 5 = 61 from rfl]
    rw [monthLoop_skip (by omega)]
    rw [monthLoop_skip (by omega)]
    rw [monthLoop_stop (by omega)]
    rw [show (if 5 ≤ 2 then 5 + 10 else 5 - 2) = 3 from rfl]
    refine Prod.ext rfl ?_
    show _ = d - 1
    omega
  · have hd3 : d ≤ 30 := hd2
    rw [show marchDays 6 = 92 from rfl]
    rw [monthLoop_skip (by omega)]
    rw [monthLoop_skip (by omega)]
    rw [monthLoop_skip (by omega)]
    rw [monthLoop_stop (by omega)]
    rw [show (if 6 ≤ 2 then 6 + 10 else 6 - 2) = 4 from rfl]
    refine Prod.ext rfl ?_
    show _ = d - 1
    omega
  · have hd3 : d ≤ 31 := hd2
    rw [show marchDays 7 = 122 from rfl]
    rw [monthLoop_skip (by omega)]
    rw [monthLoop_skip (by omega)]
    rw [monthLoop_skip (by omega)]
    rw [monthLoop_skip (by omega)]
    rw [monthLoop_stop (by omega)]
    rw [show (if 7 ≤ 2 then 7 + 10 else 7 - 2) = 5 from rfl]
    refine Prod.ext rfl ?_
    show _ = d - 1
    omega
  · have hd3 : d ≤ 31 := hd2
    rw [show marchDays 8 = 153 from rfl]
    rw [monthLoop_skip (by omega)]
    rw [monthLoop_skip (by omega)]
    rw [monthLoop_skip (by omega)]
    rw [monthLoop_skip (by omega)]
    rw [monthLoop_skip (by omega)]
    rw [monthLoop_stop (by omega)]
    rw [show (if 8 ≤ 2 then 8 + 10 else 8 - 2) = 6 from rfl]
    refine Prod.ext rfl ?_
    show _ = d - 1
    omega
  · have hd3 : d ≤ 30 := hd2
    rw [show marchDays 9 = 184 from rfl]
    rw [monthLoop_skip (by omega)]
    rw [monthLoop_skip (by omega)]
    rw [monthLoop_skip (by omega)]
    rw [monthLoop_skip (by omega)]
    rw [monthLoop_skip (by omega)]
    rw [monthLoop_skip (by omega)]
    rw [monthLoop_stop (by omega)]
    rw [show (if 9 ≤ 2 then 9 + 10 else 9 - 2) = 7 from rfl]
    refine Prod.ext rfl ?_
    show _ = d - 1
    omega
  · have hd3 : d ≤ 31 := hd2
    rw [show marchDays 10 = 214 from rfl]
    rw [monthLoop_skip (by omega)]
    rw [monthLoop_skip (by omega)]
    rw [monthLoop_skip (by omega)]
    rw [monthLoop_skip (by omega)]
    rw [monthLoop_skip (by omega)]
    rw [monthLoop_skip (by omega)]
    rw [monthLoop_skip (by omega)]
    rw [monthLoop_stop (by omega)]
    rw [show (if 10 ≤ 2 then 10 + 10 else 10 - 2) = 8 from rfl]
    refine Prod.ext rfl ?_
    show _ = d - 1
    omega
  · have hd3 : d ≤ 30 := hd2
    rw [show marchDays 11 = 245 from rfl]
    rw [monthLoop_skip (by omega)]
    rw [monthLoop_skip (by omega)]
    rw [monthLoop_skip (by omega)]
    rw [monthLoop_skip (by omega)]
    rw [monthLoop_skip (by omega)]
    rw [monthLoop_skip (by omega)]
    rw [monthLoop_skip (by omega)]
    rw [monthLoop_skip (by omega)]
    rw [monthLoop_stop (by omega)]
    rw [show (if 11 ≤ 2 then 11 + 10 else 11 - 2) = 9 from rfl]
    refine Prod.ext rfl ?_
    show _ = d - 1
    omega
  · have hd3 : d ≤ 31 := hd2
    rw [show marchDays 12 = 275 from rfl]
    rw [monthLoop_skip (by omega)]
    rw [monthLoop_skip (by omega)]
    rw [monthLoop_skip (by omega)]
    rw [monthLoop_skip (by omega)]
    rw [monthLoop_skip (by omega)]
    rw [monthLoop_skip (by omega)]
    rw [monthLoop_skip (by omega)]
    rw [monthLoop_skip (by omega)]
    rw [monthLoop_skip (by omega)]
    rw [monthLoop_stop (by omega)]
    rw [show (if 12 ≤ 2 then 12 + 10 else 12 - 2) = 10 from rfl]
    refine Prod.ext rfl ?_
    show _ = d - 1
    omega



/-- day of the common year + leap day: at most 364 / 365 -/
theorem ydays_bound (leap : Bool) (m d : Nat) (h1 : 1 ≤ m) (h2 : m ≤ 12) (hd2 : d ≤ daysIn leap m) :
    ydaysOf m + (d - 1) + leapAdj leap m ≤ 364 + (if leap then 1 else 0) := by
  have hmc : m = 1 ∨ m = 2 ∨ m = 3 ∨ m = 4 ∨ m = 5 ∨ m = 6 ∨ m = 7 ∨ m = 8 ∨ m = 9 ∨ m = 10 ∨ m = 11 ∨ m = 12 := by omega
  rcases hmc with rfl | rfl | rfl | rfl | rfl | rfl | rfl | rfl | rfl | rfl | rfl | rfl <;> cases leap <;>
    simp [daysIn, ydaysOf, leapAdj] at hd2 ⊢ <;> omega

theorem Cal.secs_le (c : Cal) (h : c.Valid) : c.secs ≤ MAX_UNIX_SECS := by
  obtain ⟨hy1, hy2, hm1, hm2, hd1, hd2, hh, hmi, hs⟩ := h
  have hb := ydays_bound (isLeapYear c.year) c.month c.day hm1 hm2 hd2
  have hl := isLeapYear_iff c.year
  unfold Cal.secs dateTimeSecs MAX_UNIX_SECS
  simp only []
  cases hleap : isLeapYear c.year with
  | false =>
    rw [hleap] at hb
    simp only [Bool.false_eq_true, if_false] at hb
    omega
  | true =>
    rw [hleap] at hb
    have := hl.1 hleap
    simp only [if_true] at hb
    omega

theorem dateTimeNew_cal (c : Cal) (h : c.Valid) :
    dateTimeNew c.year c.month c.day c.hour c.minute c.second = .ok c.dt := by
  have hle := c.secs_le h
  obtain ⟨hy1, hy2, hm1, hm2, hd1, hd2, hh, hmi, hs⟩ := h
  have hd31 : c.day ≤ 31 := by
    have : daysIn (isLeapYear c.year) c.month ≤ 31 := by
      unfold daysIn; split
      · cases isLeapYear c.year <;> simp
      · split <;> simp
    omega
  unfold dateTimeNew
  rw [if_neg (by omega), monthTable_eq _ _ hm1 hm2]
  simp only
  rw [if_neg (by omega), if_neg (by unfold Cal.secs at hle; omega)]
  rfl

theorem ydays_march (m : Nat) (h1 : 1 ≤ m) (h2 : m ≤ 12) :
    (m ≤ 2 → marchDays m = ydaysOf m + 306) ∧ (3 ≤ m → ydaysOf m = marchDays m + 59) := by
  have hmc : m = 1 ∨ m = 2 ∨ m = 3 ∨ m = 4 ∨ m = 5 ∨ m = 6 ∨ m = 7 ∨ m = 8 ∨ m = 9 ∨ m = 10 ∨ m = 11 ∨ m = 12 := by omega
  rcases hmc with rfl | rfl | rfl | rfl | rfl | rfl | rfl | rfl | rfl | rfl | rfl | rfl <;> decide

theorem marchDays_le (leap : Bool) (m d : Nat) (h1 : 1 ≤ m) (h2 : m ≤ 12) (hd1 : 1 ≤ d) (hd2 : d ≤ daysIn leap m) :
    marchDays m + (d - 1) ≤ 365 ∧ (marchDays m + (d - 1) = 365 → m = 2 ∧ leap = true) := by
  have hmc : m = 1 ∨ m = 2 ∨ m = 3 ∨ m = 4 ∨ m = 5 ∨ m = 6 ∨ m = 7 ∨ m = 8 ∨ m = 9 ∨ m = 10 ∨ m = 11 ∨ m = 12 := by omega
  rcases hmc with rfl | rfl | rfl | rfl | rfl | rfl | rfl | rfl | rfl | rfl | rfl | rfl <;> cases leap <;>
    simp [daysIn, marchDays] at hd2 ⊢ <;> omega

/-- the cycle arithmetic applied to the day number of a valid date -/
theorem dayParts_cal (c : Cal) (h : c.Valid) :
    ∃ (qc : Int) (cc q r : Nat),
      dayParts (((c.secs / 86400 : Nat) : Int) - 11017)
        = { qc := qc, c := cc, q := q, r := r, rem := marchDays c.month + (c.day - 1) } ∧
      (c.year : Int) - (if c.month ≤ 2 then 1 else 0) = 2000 + (r : Int) + 4 * (q : Int) + 100 * (cc : Int) + 400 * qc := by
  obtain ⟨hy1, hy2, hm1, hm2, hd1, hd2, hh, hmi, hs⟩ := h
  have hl := isLeapYear_iff c.year
  have hmd := marchDays_le (isLeapYear c.year) c.month c.day hm1 hm2 hd1 hd2
  have hym := ydays_march c.month hm1 hm2
  -- digits of the March year relative to 2000
  let e : Int := (c.year : Int) - (if c.month ≤ 2 then 1 else 0) - 2000
  refine ⟨e / 400, ((e % 400) / 100).toNat, ((e % 100) / 4).toNat, (e % 4).toNat, ?_, ?_⟩
  · have hdays : c.secs / 86400 = (c.year - 1970) * 365 +
        (((c.year - 1) - 1968) / 4 - ((c.year - 1) - 1900) / 100 + ((c.year - 1) - 1600) / 400) +
        (ydaysOf c.month + (c.day - 1) + leapAdj (isLeapYear c.year) c.month) := by
      unfold Cal.secs dateTimeSecs
      simp only []
      omega
    rw [hdays]
    refine dayParts_of _ _ _ _ _ _ ?_ (by omega) (by omega) (by omega) hmd.1 (fun h365 => ?_)
    · by_cases hm : c.month ≤ 2
      · have hadj : leapAdj (isLeapYear c.year) c.month = 0 := by
          unfold leapAdj; rw [show (decide (c.month > 2)) = false from by simp; omega]; simp
        rw [hadj, (hym.1 hm)]
        have := fwd_core_lo c.year (c.day - 1) (ydaysOf c.month) (e / 400) ((e % 400) / 100).toNat ((e % 100) / 4).toNat
          (e % 4).toNat hy1 (by simp only [e, hm, if_true]; omega) (by omega) (by omega) (by omega)
        rw [this]
      · have hm3 : 3 ≤ c.month := by omega
        have hadj : (leapAdj (isLeapYear c.year) c.month = 1 ∧ c.year % 4 = 0 ∧ (c.year % 100 ≠ 0 ∨ c.year % 400 = 0)) ∨
            (leapAdj (isLeapYear c.year) c.month = 0 ∧ ¬(c.year % 4 = 0 ∧ (c.year % 100 ≠ 0 ∨ c.year % 400 = 0))) := by
          unfold leapAdj
          rw [show (decide (c.month > 2)) = true from by simp; omega]
          cases hleap : isLeapYear c.year with
          | true => exact Or.inl ⟨by simp, hl.1 hleap⟩
          | false => exact Or.inr ⟨by simp, fun hc => by rw [hl.2 hc] at hleap; cases hleap⟩
        rw [hym.2 hm3]
        have := fwd_core_hi c.year (c.day - 1) (marchDays c.month) (leapAdj (isLeapYear c.year) c.month)
          (e / 400) ((e % 400) / 100).toNat ((e % 100) / 4).toNat (e % 4).toNat hy1 hadj
          (by simp only [e, hm, if_false]; omega) (by omega) (by omega) (by omega)
        rw [this]
    · obtain ⟨hm2', hleap⟩ := hmd.2 h365
      have := hl.1 hleap
      simp only [e, show c.month ≤ 2 from by omega, if_true]
      omega
  · simp only [e]
    omega

/-- `from_unix_duration` on the seconds of a valid date returns the date -/
theorem secsToTm_cal (c : Cal) (h : c.Valid) :
    secsToTm c.secs = { year := c.year, mon := c.month, mday := c.day, hour := c.hour, minute := c.minute,
                        second := c.second } := by
  obtain ⟨qc, cc, q, r, hparts, hyear⟩ := dayParts_cal c h
  obtain ⟨hy1, hy2, hm1, hm2, hd1, hd2, hh, hmi, hs⟩ := h
  have hml := monthLoop_march (isLeapYear c.year) c.month c.day hm1 hm2 hd1 hd2
  have hrem : c.secs % 86400 = c.second + c.minute * 60 + c.hour * 3600 := by
    unfold Cal.secs dateTimeSecs
    simp only []
    omega
  unfold secsToTm
  simp only [hparts, hml, hrem]
  by_cases hm : c.month ≤ 2
  · simp only [hm, if_true] at hyear ⊢
    rw [if_pos (by omega), if_pos (by omega)]
    refine congr (congr (congr (congr (congr (congrArg Tm.mk ?_) ?_) ?_) ?_) ?_) ?_ <;> omega
  · simp only [hm, if_false] at hyear ⊢
    rw [if_neg (by omega), if_neg (by omega)]
    refine congr (congr (congr (congr (congr (congrArg Tm.mk ?_) ?_) ?_) ?_) ?_) ?_ <;> omega

theorem dateTimeFromUnix_cal (c : Cal) (h : c.Valid) : dateTimeFromUnix c.secs = .ok c.dt := by
  unfold dateTimeFromUnix
  rw [if_neg (by have := c.secs_le h; omega), secsToTm_cal c h]
  simp only
  have hy := h.2.1
  have hd : c.day ≤ 31 := by
    have : daysIn (isLeapYear c.year) c.month ≤ 31 := by
      unfold daysIn; split
      · cases isLeapYear c.year <;> simp
      · split <;> simp
    have := h.2.2.2.2.2.1
    omega
  rw [if_neg (by omega)]
  simp only [Int.toNat_natCast]
  exact dateTimeNew_cal c h

/-- **both time decoders return the date that was written**: `DateTime::new` followed by
`DateTime::from_unix_duration` is the identity on valid dates from 1970 to 9999 -/
theorem timeOfFields_cal (c : Cal) (h : c.Valid) :
    timeOfFields c.year c.month c.day c.hour c.minute c.second = .ok c.dt := by
  unfold timeOfFields
  rw [dateTimeNew_cal c h]
  exact dateTimeFromUnix_cal c h


end Codec.DerRd
