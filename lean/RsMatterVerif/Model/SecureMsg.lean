import RsMatterVerif.Generated.Consts
import RsMatterVerif.Model.Dedup
/-!
# Model of the secured-message path (C03)

Transliteration of
* `transport/plain_hdr.rs`  `PlainHdr::{encode, decode}` (byte exact),
* `transport/proto_hdr.rs`  `ProtoHdr::{encode, decrypt_and_decode}`, `get_iv` (nonce), AAD = parsed header bytes,
* `transport/packet.rs`     `PacketHdr::{encode, decode_remaining}`,
* `transport/session.rs`    `Session::{is_for_rx, pre_send (no exchange), decode_remaining, encode, post_recv, add_exch}`,
  `Sessions::{get_for_rx, add, remove, get_session_for_eviction, get_or_create_for_group_rx}`
  (the whole key-derivation loop, see below),
* `transport/mrp.rs`        `ReliableMessage::post_recv`,
* `transport.rs`            `decode_packet` (plain header → session lookup → decrypt → protocol header → `post_recv`).

Bytes are `Nat`s below 256, integers are `Nat`s with the ranges of the Rust types.

**AEAD is ideal.** A ciphertext is not computed: the table `Aead` lists the encryptions that were
performed, `EncRec = Enc key nonce aad plaintext` together with the byte string that stands for it
on the wire, and `Aead.dec k n a c` succeeds exactly when `c` is the wire form of an `Enc k n a _`
of the table — nothing else decrypts. The wire bytes are chosen by the environment (in the
correspondence run: by the real AES-CCM).

Peers are UDP, TCP or BTP addresses (`Address::canonical`, `is_reliable`, `adjust_reliability`).
Group receive (`Sessions::get_or_create_for_group_rx`) is modelled with its key-derivation loop
(fabrics × key map × epoch keys; operational key and group session id are *symbolic*: `opKey` is an
injective pairing of epoch key and compressed fabric id, the 16-bit group session id is the
environment function `gsid`), the per-sender counter store (`Dedup.GStore`), the creation of the
ephemeral group session incl. LRU eviction (`get_session_for_eviction`, `last_use` kept in a list
parallel to the session table). `handle_rx_packet`'s reactions to every outcome of `decode_packet`
(stand-alone ACK for a duplicate, Busy + eviction, CloseSession, SessionNotFound, removal of a
session on a received CloseSession) are `handleRx`. Freed exchange slots (`None` entries) are not
modelled. Import-free apart from the generated constants and `Model/Dedup` so that the driver links.
-/
namespace SecureMsg

abbrev Bytes := List Nat

/-- `n` little-endian bytes of `v` -/
def le : Nat → Nat → Bytes
  | 0, _ => []
  | n + 1, v => (v % 256) :: le n (v / 256)

/-- value of little-endian bytes -/
def leVal : Bytes → Nat
  | [] => 0
  | b :: bs => b + 256 * leVal bs

/-- `ErrorCode`s that can leave `decode_packet` -/
inductive Err
  | Invalid | TruncatedPacket | InvalidData | NoSession | Duplicate | NoExchange | NoSpaceExchanges
  | NoSpaceSessions | BufferTooSmall | InvalidState | InvalidSignature
deriving Repr, DecidableEq, Inhabited

def Err.name : Err → String
  | .Invalid => "Invalid" | .TruncatedPacket => "TruncatedPacket" | .InvalidData => "InvalidData"
  | .NoSession => "NoSession" | .Duplicate => "Duplicate" | .NoExchange => "NoExchange"
  | .NoSpaceExchanges => "NoSpaceExchanges" | .NoSpaceSessions => "NoSpaceSessions"
  | .BufferTooSmall => "BufferTooSmall" | .InvalidState => "InvalidState"
  | .InvalidSignature => "InvalidSignature"

/-- `ParseBuf::le_uN`: `n` bytes from the front or `TruncatedPacket` -/
def takeLe (n : Nat) (bs : Bytes) : Except Err (Nat × Bytes) :=
  if n ≤ bs.length then .ok (leVal (bs.take n), bs.drop n) else .error .TruncatedPacket

/-! ## Peer addresses (`transport/network.rs` `Address`) -/

inductive Ip
  | v4 (n : Nat)
  | v6 (n : Nat)
deriving Repr, DecidableEq, Inhabited

inductive Addr
  | udp (ip : Ip) (port : Nat)
  | tcp (ip : Ip) (port : Nat)
  | btp (a : Nat)
deriving Repr, DecidableEq, Inhabited

/-- `Ipv6Addr::to_canonical`: `::ffff:a.b.c.d` is the IPv4 address `a.b.c.d` -/
def Ip.canonical : Ip → Ip
  | .v6 n => if n / 4294967296 = 65535 then .v4 (n % 4294967296) else .v6 n
  | .v4 n => .v4 n

/-- `Address::canonical` -/
def Addr.canonical : Addr → Addr
  | .udp ip p => .udp ip.canonical p
  | .tcp ip p => .tcp ip.canonical p
  | .btp a => .btp a

/-- `Address::is_reliable` -/
def Addr.isReliable : Addr → Bool
  | .udp _ _ => false
  | _ => true

/-! ## Plain (unencrypted) header -/

-- `MsgFlags`
def F_DSIZ_UNICAST : Nat := Consts.msgFlagDsizUnicast
def F_DSIZ_GROUP : Nat := Consts.msgFlagDsizGroup
def F_SRC : Nat := Consts.msgFlagSrc
def MSGFLAGS_ALL : Nat := F_DSIZ_UNICAST ||| F_DSIZ_GROUP ||| F_SRC
-- `SecFlags`
def S_GROUP : Nat := Consts.secFlagGroup
def S_MSGEXT : Nat := Consts.secFlagMsgExt
def S_CONTROL : Nat := Consts.secFlagControl
def S_PRIVACY : Nat := Consts.secFlagPrivacy
def SECFLAGS_ALL : Nat := S_GROUP ||| S_MSGEXT ||| S_CONTROL ||| S_PRIVACY
-- `ExchFlags`
def X_INITIATOR : Nat := Consts.exchFlagInitiator
def X_ACK : Nat := Consts.exchFlagAck
def X_RELIABLE : Nat := Consts.exchFlagReliable
def X_SECEX : Nat := Consts.exchFlagSecex
def X_VENDOR : Nat := Consts.exchFlagVendor
def EXCHFLAGS_ALL : Nat := X_INITIATOR ||| X_ACK ||| X_RELIABLE ||| X_SECEX ||| X_VENDOR

/-- `flags.contains(f)` -/
def has (flags f : Nat) : Bool := flags &&& f == f

/-- `bitflags::from_bits`: every set bit must be a declared flag -/
def fromBits (all b : Nat) : Bool := b &&& all == b

structure PlainHdr where
  flags : Nat := 0
  sessId : Nat := 0
  secFlags : Nat := 0
  ctr : Nat := 0
  src : Nat := 0
  dst : Nat := 0
deriving Repr, DecidableEq, Inhabited

def PlainHdr.srcNode (h : PlainHdr) : Option Nat := if has h.flags F_SRC then some h.src else none
def PlainHdr.dsiz (h : PlainHdr) : Nat := h.flags &&& (F_DSIZ_UNICAST ||| F_DSIZ_GROUP)
def PlainHdr.dstUnicast (h : PlainHdr) : Option Nat := if h.dsiz = F_DSIZ_UNICAST then some h.dst else none
def PlainHdr.dstGroup (h : PlainHdr) : Option Nat := if h.dsiz = F_DSIZ_GROUP then some (h.dst % 65536) else none
def PlainHdr.isGroup (h : PlainHdr) : Bool := has h.secFlags S_GROUP
def PlainHdr.isControl (h : PlainHdr) : Bool := has h.secFlags S_CONTROL
def PlainHdr.isEncrypted (h : PlainHdr) : Bool := h.sessId != 0 || h.isGroup

/-- number of source-node-id bytes on the wire (`SRC_ADDR_PRESENT` ⇒ a u64) -/
def srcLen (flags : Nat) : Nat := if has flags F_SRC then 8 else 0
/-- number of destination bytes: unicast node id (u64), group id (u16), or nothing — also when
*both* DSIZ bits are set (`!flags.contains(DSIZ_MASK)` guards both the encoder and the decoder) -/
def dstLen (flags : Nat) : Nat :=
  let dsiz := flags &&& (F_DSIZ_UNICAST ||| F_DSIZ_GROUP)
  if dsiz = F_DSIZ_UNICAST then 8 else if dsiz = F_DSIZ_GROUP then 2 else 0

/-- `PlainHdr::encode` (an optional field is written as "`len` bytes" with `len = 0` when absent) -/
def PlainHdr.encode (h : PlainHdr) : Bytes :=
  le 1 h.flags ++ le 2 h.sessId ++ le 1 h.secFlags ++ le 4 h.ctr
  ++ le (srcLen h.flags) h.src ++ le (dstLen h.flags) h.dst

/-- `PlainHdr::decode`; returns the header and the unparsed rest. A field that is absent stays at
its reset value 0 (`takeLe 0` reads nothing and yields 0). -/
def PlainHdr.decode (bs : Bytes) : Except Err (PlainHdr × Bytes) := do
  let (flags, bs) ← takeLe 1 bs
  if !fromBits MSGFLAGS_ALL flags then throw .Invalid
  let (sessId, bs) ← takeLe 2 bs
  let (secFlags, bs) ← takeLe 1 bs
  if !fromBits SECFLAGS_ALL secFlags then throw .Invalid
  let (ctr, bs) ← takeLe 4 bs
  let (src, bs) ← takeLe (srcLen flags) bs
  let (dst, bs) ← takeLe (dstLen flags) bs
  pure ({ flags, sessId, secFlags, ctr, src, dst }, bs)

/-! ## Protocol header -/

structure ProtoHdr where
  exchFlags : Nat := 0
  opcode : Nat := 0
  exchId : Nat := 0
  protoId : Nat := 0
  vendor : Nat := 0
  ack : Nat := 0
deriving Repr, DecidableEq, Inhabited

def ProtoHdr.isInitiator (p : ProtoHdr) : Bool := has p.exchFlags X_INITIATOR
def ProtoHdr.isReliable (p : ProtoHdr) : Bool := has p.exchFlags X_RELIABLE
def ProtoHdr.getAck (p : ProtoHdr) : Option Nat := if has p.exchFlags X_ACK then some p.ack else none

def vendorLen (exchFlags : Nat) : Nat := if has exchFlags X_VENDOR then 2 else 0
def ackLen (exchFlags : Nat) : Nat := if has exchFlags X_ACK then 4 else 0

/-- `ProtoHdr::encode` -/
def ProtoHdr.encode (p : ProtoHdr) : Bytes :=
  le 1 p.exchFlags ++ le 1 p.opcode ++ le 2 p.exchId ++ le 2 p.protoId
  ++ le (vendorLen p.exchFlags) p.vendor ++ le (ackLen p.exchFlags) p.ack

/-- the parsing half of `ProtoHdr::decrypt_and_decode`; the rest is the application payload -/
def ProtoHdr.decode (bs : Bytes) : Except Err (ProtoHdr × Bytes) := do
  let (exchFlags, bs) ← takeLe 1 bs
  if !fromBits EXCHFLAGS_ALL exchFlags then throw .Invalid
  let (opcode, bs) ← takeLe 1 bs
  let (exchId, bs) ← takeLe 2 bs
  let (protoId, bs) ← takeLe 2 bs
  let (vendor, bs) ← takeLe (vendorLen exchFlags) bs
  let (ack, bs) ← takeLe (ackLen exchFlags) bs
  pure ({ exchFlags, opcode, exchId, protoId, vendor, ack }, bs)

/-- `MessageMeta` predicates (`transport/exchange.rs`) -/
def ProtoHdr.isStandaloneAck (p : ProtoHdr) : Bool :=
  p.protoId == Consts.protoIdSecureChannel && p.opcode == Consts.opMrpStandaloneAck
def ProtoHdr.isScStatus (p : ProtoHdr) : Bool :=
  p.protoId == Consts.protoIdSecureChannel && p.opcode == Consts.opStatusReport
def ProtoHdr.isNewExchange (p : ProtoHdr) : Bool := !p.isStandaloneAck && !p.isScStatus
def ProtoHdr.isNewSession (p : ProtoHdr) : Bool :=
  p.protoId == Consts.protoIdSecureChannel
    && (p.opcode == Consts.opPbkdfParamRequest || p.opcode == Consts.opCaseSigma1)
def ProtoHdr.isControlMsg (p : ProtoHdr) : Bool :=
  p.protoId == Consts.protoIdSecureChannel
    && (p.opcode == Consts.opMsgCounterSyncReq || p.opcode == Consts.opMsgCounterSyncResp)

/-- `flags.remove(m)` on a `u8` -/
def clearBits (f m : Nat) : Nat := f &&& (255 ^^^ m)

/-- `ProtoHdr::adjust_reliability`: over a reliable transport the R and A flags are lowered -/
def ProtoHdr.adjustReliability (p : ProtoHdr) (a : Addr) : ProtoHdr :=
  if a.isReliable then { p with exchFlags := clearBits (clearBits p.exchFlags X_RELIABLE) X_ACK, ack := 0 }
  else p

def ProtoHdr.toggleInitiator (p : ProtoHdr) : ProtoHdr :=
  if p.isInitiator then { p with exchFlags := clearBits p.exchFlags X_INITIATOR }
  else { p with exchFlags := p.exchFlags ||| X_INITIATOR }

def ProtoHdr.setAck (p : ProtoHdr) (c : Nat) : ProtoHdr := { p with exchFlags := p.exchFlags ||| X_ACK, ack := c }
def ProtoHdr.clearAck (p : ProtoHdr) : ProtoHdr := { p with exchFlags := clearBits p.exchFlags X_ACK, ack := 0 }
def ProtoHdr.unsetReliable (p : ProtoHdr) : ProtoHdr := { p with exchFlags := clearBits p.exchFlags X_RELIABLE }

/-- `MessageMeta::set_into` -/
def ProtoHdr.setMeta (p : ProtoHdr) (protoId opcode : Nat) (reliable : Bool) : ProtoHdr :=
  let f := clearBits p.exchFlags X_VENDOR
  { p with protoId := protoId, opcode := opcode, vendor := 0,
           exchFlags := if reliable then f ||| X_RELIABLE else clearBits f X_RELIABLE }

structure PacketHdr where
  plain : PlainHdr := {}
  proto : ProtoHdr := {}
deriving Repr, DecidableEq, Inhabited

/-! ## Ideal AEAD -/

/-- `Enc key nonce aad pt`, and the wire bytes `ct` (cipher text ‖ tag) standing for it -/
structure EncRec where
  key : Nat
  nonce : Bytes
  aad : Bytes
  pt : Bytes
  ct : Bytes
deriving Repr, DecidableEq, Inhabited

abbrev Aead := List EncRec

def EncRec.opens (r : EncRec) (k : Nat) (n a c : Bytes) : Bool :=
  r.key == k && r.nonce == n && r.aad == a && r.ct == c

/-- `dec k n a c = some p` iff `c` is the wire form of an `Enc k n a p` that was produced -/
def Aead.dec (t : Aead) (k : Nat) (n a c : Bytes) : Option Bytes :=
  (t.find? (fun r => r.opens k n a c)).map (·.pt)

/-- `get_iv`: security flags ‖ counter ‖ node id -/
def nonce (secFlags ctr node : Nat) : Bytes := le 1 secFlags ++ le 4 ctr ++ le 8 node

def TAG_LEN : Nat := Consts.aeadTagLen

/-! ## Sessions -/

inductive Mode
  | plain | pase | case
  /-- `SessionMode::Group { fab_idx, group_id }` -/
  | group (fab gid : Nat)
deriving Repr, DecidableEq, Inhabited

structure Exch where
  id : Nat
  /-- `Role::Responder(_)` (else initiator) -/
  responder : Bool
  /-- `mrp.retrans`: counter waiting to be acknowledged -/
  retrans : Option Nat := none
  /-- `mrp.ack`: counter we owe an acknowledgement for -/
  ack : Option Nat := none
deriving Repr, DecidableEq, Inhabited

structure Session where
  addr : Addr
  localNode : Nat := 0
  peerNode : Option Nat := none
  decKey : Nat := 0
  encKey : Nat := 0
  localSid : Nat := 0
  peerSid : Nat := 0
  txCtr : Nat := 0
  rx : Dedup.RxState := Dedup.RxState.unsynced
  mode : Mode := .plain
  exchs : List Exch := []
  expired : Bool := false
  reserved : Bool := false
deriving Repr, DecidableEq, Inhabited

def Session.isEncrypted (s : Session) : Bool := s.mode != .plain
def Session.isGroup (s : Session) : Bool := match s.mode with | .group _ _ => true | _ => false
def Session.getDecKey (s : Session) : Option Nat := if s.isEncrypted then some s.decKey else none
def Session.getEncKey (s : Session) : Option Nat := if s.isEncrypted then some s.encKey else none

/-- `Session::is_for_rx` (addresses are compared canonically) -/
def Session.isForRx (s : Session) (from_ : Addr) (h : PlainHdr) : Bool :=
  let nodeidMatches := s.peerNode.isNone || h.srcNode.isNone || s.peerNode == h.srcNode
  let destMatches := s.isEncrypted || s.localNode == 0 || h.dstUnicast.isNone
      || h.dstUnicast == some s.localNode
  nodeidMatches && destMatches && s.localSid == h.sessId && s.addr.canonical == from_.canonical
    && s.isEncrypted == h.isEncrypted && !s.reserved

/-! ## Sender side -/

/-- `Session::pre_send` without an exchange: what the session stamps into the header.
Group *data* messages take their counter from the exchange, so without one they fail. -/
def Session.preSend (s : Session) (h : PacketHdr) : Except Err (PacketHdr × Session) :=
  let isGroup := s.isGroup
  let isControl := isGroup && h.proto.isControlMsg
  if isGroup && !isControl then .error .InvalidState else
  let pl := { h.plain with sessId := s.peerSid, ctr := s.txCtr }
  -- set_src_nodeid
  let pl :=
    if (!s.isEncrypted || isGroup) && s.localNode != 0
    then { pl with flags := pl.flags ||| F_SRC, src := s.localNode }
    else { pl with flags := pl.flags &&& (F_DSIZ_UNICAST ||| F_DSIZ_GROUP), src := 0 }
  -- destination
  let clearDst (p : PlainHdr) : PlainHdr := { p with flags := p.flags &&& F_SRC, dst := 0 }
  let pl :=
    if s.mode = .plain || isControl then
      match s.peerNode with
      | some n => { pl with flags := (pl.flags &&& F_SRC) ||| F_DSIZ_UNICAST, dst := n }
      | none => clearDst pl
    else clearDst pl
  let pl :=
    if isGroup then
      { pl with secFlags := (pl.secFlags ||| S_GROUP ||| S_CONTROL) }   -- is_control holds here
    else pl
  .ok ({ plain := pl, proto := h.proto.adjustReliability s.addr }, { s with txCtr := (s.txCtr + 1) % 4294967296 })

/-- `Session::encode` = `PacketHdr::encode(enc_key, local_nodeid)`: the wire datagram and, when the
session has a key, the `Enc` term. `ct` = the wire bytes of cipher text ‖ tag. -/
def Session.encode (s : Session) (h : PacketHdr) (payload ct : Bytes) : Bytes × Option EncRec :=
  let plainBytes := h.plain.encode
  let pt := h.proto.encode ++ payload
  match s.getEncKey with
  | some k =>
    (plainBytes ++ ct,
      some { key := k, nonce := nonce h.plain.secFlags h.plain.ctr s.localNode, aad := plainBytes, pt, ct })
  | none => (plainBytes ++ pt, none)

/-! ## Group key material (`fabric.rs` `Groups`, `group_keys.rs`) -/

structure KeySetM where
  id : Nat
  epochKeys : List Nat
deriving Repr, DecidableEq, Inhabited

structure FabricM where
  fabIdx : Nat
  nodeId : Nat
  /-- compressed fabric id -/
  cfid : Nat
  /-- `key_map`: (group id, group key set id) in table order -/
  keyMap : List (Nat × Nat) := []
  keySets : List KeySetM := []
deriving Repr, DecidableEq, Inhabited

/-- Operational group key `KeySet::update` = HKDF(epoch key, salt = compressed fabric id):
symbolic — an injective pairing of its two inputs (epoch keys are 128-bit); odd, so that it never
equals a directly installed key (those are even numbers in the correspondence runs). -/
def opKey (epoch cfid : Nat) : Nat := 2 * (cfid * 340282366920938463463374607431768211456 + epoch) + 1

/-- what the receiver knows beyond its session table: the encryptions made so far (ideal AEAD),
its fabrics with their group keys, and the 16-bit group session id of an operational key
(`derive_group_session_id`, a hash — not injective) -/
structure Env where
  t : Aead := []
  fabs : List FabricM := []
  gsid : Nat → Nat := fun _ => 0

/-- one candidate of the key-derivation loop: a key whose group session id is the header's -/
structure Cand where
  fabIdx : Nat
  /-- the fabric's node id (becomes the local node id of the group session) -/
  nodeId : Nat
  gid : Nat
  key : Nat
deriving Repr, DecidableEq, Inhabited

/-- multicast: only the mappings of the target group; unicast (MCSP): every mapping -/
def skipMap (h : PlainHdr) (m : Nat × Nat) : Bool :=
  match h.dstGroup with | some gid => m.1 != gid | none => false

/-- unicast-addressed: only the fabrics in which this node has the destination node id -/
def skipFabric (h : PlainHdr) (f : FabricM) : Bool :=
  match h.dstUnicast with | some d => f.nodeId != d | none => false

/-- the epoch keys of one key-map entry that are tried -/
def candsOfMap (gsid : Nat → Nat) (f : FabricM) (h : PlainHdr) (m : Nat × Nat) : List Cand :=
  if skipMap h m then [] else
  match f.keySets.find? (fun ks => ks.id == m.2) with
  | none => []
  | some ks =>
    ks.epochKeys.filterMap fun e =>
      let k := opKey e f.cfid
      if gsid k == h.sessId then
        some { fabIdx := f.fabIdx, nodeId := f.nodeId, gid := h.dstGroup.getD m.1, key := k }
      else none

def candsOfFabric (gsid : Nat → Nat) (h : PlainHdr) (f : FabricM) : List Cand :=
  if skipFabric h f then [] else
  f.keyMap.flatMap (candsOfMap gsid f h)

/-- the loop `for fabric { for map_entry { for epoch_key {..} } }` of `get_or_create_for_group_rx`,
in its order, restricted to the keys that are actually tried (`key_attempted`) -/
def candidates (E : Env) (h : PlainHdr) : List Cand := E.fabs.flatMap (candsOfFabric E.gsid h)

/-! ## Receiver side -/

abbrev Node := List Session

/-- `Sessions::get_for_rx`: first session that `is_for_rx` -/
def findRx (n : Node) (from_ : Addr) (h : PlainHdr) : Option Nat :=
  n.findIdx? (fun s => s.isForRx from_ h)

/-- what `decode_packet` establishes before any state (beyond `last_use`) is touched; every
alternative carries the headers as they are left in the packet -/
inductive Stage
  | rej (e : Err) (h : PacketHdr)
  /-- decoded for the existing session `idx` -/
  | decoded (idx : Nat) (h : PacketHdr) (payload : Bytes)
  /-- unencrypted, no session: a new unsecured session is to be created -/
  | newPlain (h : PacketHdr) (payload : Bytes)
  /-- group message, no session: authenticated under the candidate key `c` -/
  | groupNew (c : Cand) (h : PacketHdr) (payload : Bytes)
deriving Repr, DecidableEq, Inhabited

def Stage.hdr : Stage → PacketHdr
  | .rej _ h => h | .decoded _ h _ => h | .newPlain h _ => h | .groupNew _ h _ => h

/-- `PacketHdr::decode_remaining(dec_key, node id)` + `adjust_reliability(peer)`: decrypt under `key`
(if any) with nonce `sec flags ‖ counter ‖ node id` and AAD = the parsed plain-header bytes, then
parse the protocol header. `aad` are the parsed bytes, `rest` everything behind them. -/
def decodeRemaining (t : Aead) (key : Option Nat) (node : Nat) (a : Addr) (h : PlainHdr)
    (aad rest : Bytes) : Except Err (ProtoHdr × Bytes) :=
  match key with
  | some k =>
    match t.dec k (nonce h.secFlags h.ctr node) aad rest with
    | some pt => (ProtoHdr.decode pt).map fun (p, pay) => (p.adjustReliability a, pay)
    | none => .error .InvalidData
  | none => (ProtoHdr.decode rest).map fun (p, pay) => (p.adjustReliability a, pay)

/-- `Session::decode_remaining` -/
def Session.decodeRemaining (t : Aead) (s : Session) (h : PlainHdr) (aad rest : Bytes) :
    Except Err (ProtoHdr × Bytes) :=
  SecureMsg.decodeRemaining t s.getDecKey (s.peerNode.getD 0) s.addr h aad rest

def MAX_GROUP_SAVE : Nat := 1280

/-- `try_group_decrypt` for one candidate: `Some` only if the message decrypts *and* parses -/
def tryGroup (t : Aead) (from_ : Addr) (h : PlainHdr) (src : Nat) (aad rest : Bytes) (c : Cand) :
    Option (Cand × ProtoHdr × Bytes) :=
  match SecureMsg.decodeRemaining t (some c.key) src from_ h aad rest with
  | .ok (p, pay) => some (c, p, pay)
  | .error _ => none

/-- `Sessions::get_or_create_for_group_rx` up to and including authentication -/
def groupStage (E : Env) (from_ : Addr) (h : PlainHdr) (aad rest : Bytes) : Stage :=
  match h.srcNode with
  | none => .rej .InvalidData { plain := h }
  | some src =>
    if h.dstGroup.isNone && h.dstUnicast.isNone then .rej .InvalidData { plain := h }
    else if rest.length > MAX_GROUP_SAVE then .rej .BufferTooSmall { plain := h }
    else
      let cands := candidates E h
      match cands.findSome? (tryGroup E.t from_ h src aad rest) with
      | some (c, p, pay) => .groupNew c { plain := h, proto := p } pay
      | none =>
        if cands.isEmpty then .rej .NoSession { plain := h } else .rej .InvalidSignature { plain := h }

/-- the part of `decode_packet` that runs before `post_recv` / the counter store -/
def decodeStage (E : Env) (n : Node) (from_ : Addr) (dg : Bytes) : Stage :=
  match PlainHdr.decode dg with
  | .error e => .rej e {}
  | .ok (h, rest) =>
    let aad := dg.take (dg.length - rest.length)
    match findRx n from_ h with
    | some idx =>
      match n[idx]? with
      | none => .rej .NoSession { plain := h }   -- unreachable
      | some s =>
        match s.decodeRemaining E.t h aad rest with
        | .error e => .rej e { plain := h }
        | .ok (p, payload) => .decoded idx { plain := h, proto := p } payload
    | none =>
      if !h.isEncrypted then
        match SecureMsg.decodeRemaining E.t none 0 from_ h aad rest with
        | .error e => .rej e { plain := h }
        | .ok (p, payload) =>
          if p.isNewSession then .newPlain { plain := h, proto := p } payload
          else .rej .NoSession { plain := h, proto := p }
      else if h.isGroup then groupStage E from_ h aad rest
      else .rej .NoSession { plain := h }

/-- `ReliableMessage::post_recv` on one exchange -/
def Exch.postRecv (e : Exch) (ctr : Nat) (p : ProtoHdr) : Except Err Exch :=
  let step1 : Except Err Exch :=
    match p.getAck, e.retrans with
    | some a, some r => if r != a then .error .Duplicate else .ok { e with retrans := none, ack := none }
    | _, _ => .ok e
  match step1 with
  | .error x => .error x
  | .ok e => .ok (if p.isReliable then { e with ack := some ctr } else e)

def MAX_EXCHANGES : Nat := Consts.maxExchanges

/-- a group *data* message on a group session has already been judged by the per-sender group
counter store (`store_checked` in `Session::post_recv`) -/
def Session.storeChecked (s : Session) (h : PlainHdr) : Bool := s.isGroup && h.isGroup && !h.isControl

/-- the per-session receive window — skipped for group data messages (the store is their
authority; control messages keep the window) -/
def Session.windowStep (s : Session) (h : PlainHdr) : Dedup.RxState × Bool :=
  if s.storeChecked h then (s.rx, true) else Dedup.postRecvPlain s.rx h.ctr s.isEncrypted

/-- `Session::post_recv`: counter window, then exchange lookup / creation.
Returns the answer and the session as it is left behind (also on the error paths). -/
def Session.postRecv (s : Session) (h : PacketHdr) : Except Err Bool × Session :=
  let (rx', fresh) := s.windowStep h.plain
  if !fresh then (.error .Duplicate, s) else
  let s := { s with rx := rx' }
  match s.exchs.findIdx? (fun e => e.id == h.proto.exchId && h.proto.isInitiator == e.responder) with
  | some i =>
    match s.exchs[i]? with
    | none => (.error .NoExchange, s)   -- unreachable
    | some e =>
      match e.postRecv h.plain.ctr h.proto with
      | .error x => (.error x, s)
      | .ok e' => (.ok false, { s with exchs := s.exchs.set i e' })
  | none =>
    if !h.proto.isInitiator || !h.proto.isNewExchange then (.error .NoExchange, s)
    else if s.expired then (.error .NoSession, s)
    else if s.exchs.length < MAX_EXCHANGES then
      let e : Exch := { id := h.proto.exchId, responder := true }
      match e.postRecv h.plain.ctr h.proto with
      | .error x => (.error x, { s with exchs := s.exchs ++ [e] })
      | .ok e' => (.ok true, { s with exchs := s.exchs ++ [e'] })
    else (.error .NoSpaceExchanges, s)

def MAX_SESSIONS : Nat := Consts.maxSessions

/-- the receiving node: session table, `last_use` of every session (same order), group counter store -/
structure World where
  node : Node := []
  lru : List Nat := []
  gstore : Dedup.GStore := Dedup.GStore.empty
deriving Repr, DecidableEq, Inhabited

/-- `Vec::swap_remove` -/
def swapRemove {α : Type} (l : List α) (i : Nat) : List α :=
  match l.getLast? with
  | none => l
  | some last => if i + 1 = l.length then l.dropLast else (l.set i last).dropLast

/-- `Sessions::remove` -/
def World.remove (w : World) (i : Nat) : World :=
  { w with node := swapRemove w.node i, lru := swapRemove w.lru i }

/-- `Sessions::add` -/
def World.add (w : World) (now : Nat) (s : Session) : Option World :=
  if w.node.length < MAX_SESSIONS then some { w with node := w.node ++ [s], lru := w.lru ++ [now] }
  else none

/-- the scan of `Sessions::get_session_for_eviction` from position `i` on -/
def evictScan : List (Session × Nat) → Nat → Option Nat → Nat → Option Nat
  | [], _, best, _ => best
  | (s, lu) :: rest, i, best, ts =>
    if (s.expired || decide (lu < ts)) && !s.reserved && s.exchs.isEmpty then
      if s.expired then some i else evictScan rest (i + 1) (some i) lu
    else evictScan rest (i + 1) best ts

/-- `Sessions::get_session_for_eviction`: an expired session, else the least recently used one,
among the unreserved sessions without exchanges -/
def World.evictIdx (w : World) (now : Nat) : Option Nat := evictScan (w.node.zip w.lru) 0 none now

/-- `get_for_rx` refreshes `last_use` of the session it finds — before anything is authenticated -/
def World.touch (w : World) (now : Nat) (from_ : Addr) (dg : Bytes) : World :=
  match PlainHdr.decode dg with
  | .error _ => w
  | .ok (h, _) =>
    match findRx w.node from_ h with
    | some i => { w with lru := w.lru.set i now }
    | none => w

/-- what is handed on -/
inductive Outcome
  | err (e : Err)
  /-- handed to an exchange of session `idx` (`newExch`: the exchange was created by this message) -/
  | ok (idx : Nat) (newExch : Bool) (h : PacketHdr) (payload : Bytes)
deriving Repr, DecidableEq, Inhabited

/-- the ephemeral group session created for an authenticated group message -/
def groupSession (from_ : Addr) (c : Cand) (h : PlainHdr) : Session :=
  { addr := from_, localNode := c.nodeId, peerNode := h.srcNode, decKey := c.key, encKey := c.key,
    localSid := h.sessId, peerSid := h.sessId, mode := .group c.fabIdx c.gid }

/-- the per-sender counter store is consulted for data messages only (control messages are trust-first) -/
def World.groupCtr (w : World) (c : Cand) (h : PlainHdr) : World × Bool :=
  if h.isControl then (w, true)
  else
    let r := w.gstore.postRecv c.fabIdx (h.srcNode.getD 0) h.ctr
    ({ w with gstore := r.1 }, r.2)

/-- `Sessions::add`, evicting the least recently used idle session when the table is full -/
def World.makeRoom (w : World) (now : Nat) (s : Session) : Option World :=
  match w.add now s with
  | some w' => some w'
  | none =>
    match w.evictIdx now with
    | some i => (w.remove i).add now s
    | none => none

/-- `post_recv` on the session that was just appended to the table -/
def World.deliverLast (w : World) (s : Session) (h : PacketHdr) (payload : Bytes) : Outcome × World :=
  let idx := w.node.length - 1
  let r := s.postRecv h
  (match r.1 with
   | .error e => Outcome.err e
   | .ok nw => Outcome.ok idx nw h payload,
   { w with node := w.node.set idx r.2 })

/-- the second half of `get_or_create_for_group_rx` + `post_recv`: counter store (data messages
only), then the session (evicting the LRU one when the table is full) -/
def World.groupAccept (w : World) (now : Nat) (from_ : Addr) (c : Cand) (h : PacketHdr)
    (payload : Bytes) : Outcome × World :=
  let r := w.groupCtr c h.plain
  if !r.2 then (.err .Duplicate, r.1) else
  match r.1.makeRoom now (groupSession from_ c h.plain) with
  | none => (.err .NoSpaceSessions, r.1)
  | some w' => w'.deliverLast (groupSession from_ c h.plain) h payload

/-- the destination group of a group data message differs from the group of the session it was matched to -/
def otherGroup (h : PlainHdr) (gid : Nat) : Bool :=
  match h.dstGroup with | some g => g != gid | none => false

/-- A group *data* message that was matched to an existing (ephemeral) group session passes the
checks of the creating path: it addresses the session's group and its counter is new to the
per-sender group counter store (`decode_packet`, fixed code). -/
def World.groupDataCheck (w : World) (s : Session) (h : PlainHdr) : Option Err × World :=
  if h.isGroup && !h.isControl then
    match s.mode with
    | .group fab gid =>
      if otherGroup h gid then (some .NoSession, w)
      else
        let r := w.gstore.postRecv fab (s.peerNode.getD 0) h.ctr
        (if r.2 then none else some .Duplicate, { w with gstore := r.1 })
    | _ => (none, w)
  else (none, w)

/-- `post_recv` on the session `idx` -/
def World.deliverAt (w : World) (idx : Nat) (s : Session) (h : PacketHdr) (payload : Bytes) : Outcome × World :=
  let r := s.postRecv h
  (match r.1 with
   | .error e => Outcome.err e
   | .ok nw => Outcome.ok idx nw h payload,
   { w with node := w.node.set idx r.2 })

/-- `decode_packet` -/
def receive (E : Env) (now : Nat) (w0 : World) (from_ : Addr) (dg : Bytes) : Outcome × World :=
  let w := w0.touch now from_ dg
  match decodeStage E w.node from_ dg with
  | .rej e _ => (.err e, w)
  | .decoded idx h payload =>
    match w.node[idx]? with
    | none => (.err .NoSession, w)
    | some s =>
      let c := w.groupDataCheck s h.plain
      match c.1 with
      | some e => (.err e, c.2)
      | none => c.2.deliverAt idx s h payload
  | .newPlain h payload =>
    match w.add now { addr := from_, peerNode := h.plain.srcNode } with
    | some w' => w'.deliverLast { addr := from_, peerNode := h.plain.srcNode } h payload
    | none => (.err .NoSpaceSessions, w)
  | .groupNew c h payload => w.groupAccept now from_ c h payload

/-! ## `handle_rx_packet`: the reactions to the outcome of `decode_packet` -/

/-- one datagram sent in reaction -/
structure Reply where
  to : Addr
  /-- the key it is secured with (`none`: unsecured) and the node id in its nonce -/
  key : Option Nat
  srcNode : Nat
  hdr : PacketHdr
  payload : Bytes
  /-- the table index of the session it was written on (`none`: written without a session) -/
  via : Option Nat := none
deriving Repr, DecidableEq, Inhabited

structure HRes where
  /-- `Ok(true)`: the message is left in place for a responder -/
  deliver : Bool := false
  replies : List Reply := []
  /-- `handle_rx_packet` itself ended with an error (logged, packet dropped) -/
  failed : Option Err := none
deriving Repr, DecidableEq, Inhabited

def SC_CLOSE_SESSION : Nat := Consts.scCloseSession
def SC_BUSY : Nat := Consts.scBusy
def SC_SESSION_NOT_FOUND : Nat := Consts.scSessionNotFound
def GC_SUCCESS : Nat := 0
def GC_FAILURE : Nat := 1
def GC_BUSY : Nat := 8
def GC_MAX : Nat := 16

/-- `StatusReport::write` for a secure-channel status -/
def statusReport (general code : Nat) (data : Bytes) : Bytes :=
  le 2 general ++ le 4 Consts.protoIdSecureChannel ++ le 2 code ++ data

/-- `TransportRunner::is_close_session` (a status report whose general code is no `GeneralCode` does not parse) -/
def isCloseSession (payload : Bytes) : Bool :=
  match takeLe 2 payload with
  | .error _ => false
  | .ok (g, r1) =>
    if g > GC_MAX then false else
    match takeLe 4 r1 with
    | .error _ => false
    | .ok (pid, r2) =>
      match takeLe 2 r2 with
      | .error _ => false
      | .ok (code, _) => pid == Consts.protoIdSecureChannel && code == SC_CLOSE_SESSION

/-- `write_packet(packet, Some(session), None, ..)`: the plain header is reset, `pre_send` stamps it -/
def writeOnSession (s : Session) (p : ProtoHdr) (payload : Bytes) : Except Err (Reply × Session) :=
  match s.preSend { plain := {}, proto := p } with
  | .error e => .error e
  | .ok (h, s') => .ok ({ to := s.addr, key := s.getEncKey, srcNode := s.localNode, hdr := h, payload }, s')

/-- `write_packet(packet, None, None, ..)`: only for an unencrypted, source-tagged, unreliable header -/
def writeUnsecured (from_ : Addr) (h : PacketHdr) (payload : Bytes) : Except Err Reply :=
  if h.plain.isEncrypted || h.plain.srcNode.isNone || h.proto.isReliable then .error .NoSession else
  let plain : PlainHdr := { flags := F_DSIZ_UNICAST, sessId := 0, ctr := 1, dst := h.plain.src }
  let proto := ({ h.proto with exchFlags := clearBits h.proto.exchFlags X_INITIATOR }).adjustReliability from_
  .ok { to := from_, key := none, srcNode := 0, hdr := { plain, proto }, payload }

/-- `write_evict_some_session_packet`: evict the LRU idle session and tell its peer.
`exchId`: the fresh exchange id drawn from the allocator (environment). -/
def World.evictSome (w : World) (now exchId : Nat) (p : ProtoHdr) : HRes × World :=
  match w.evictIdx now with
  | none => ({}, w)
  | some i =>
    match w.node[i]? with
    | none => ({}, w)
    | some s =>
      let p := ({ p with exchId := exchId, exchFlags := p.exchFlags ||| X_INITIATOR }).setMeta
        Consts.protoIdSecureChannel Consts.opStatusReport false
      let w' := w.remove i
      match writeOnSession s p (statusReport GC_SUCCESS SC_CLOSE_SESSION []) with
      | .error e => ({ failed := some e }, w')
      | .ok (r, _) => ({ replies := [{ r with via := some i }] }, w')

/-- the `match result { .. }` of `handle_rx_packet`; `h` = the headers `decode_packet` left in the
packet, `w` = the node after `decode_packet` -/
def react (now exchId : Nat) (from_ : Addr) (h : PacketHdr) (o : Outcome) (w : World) : HRes × World :=
  match o with
  | .err .Duplicate =>
    if h.plain.isGroup then ({}, w)
    else if !from_.isReliable && !h.proto.isStandaloneAck then
      match findRx w.node from_ h.plain with
      | none => ({ failed := some .NoSession }, w)   -- `unwrap!`: unreachable
      | some i =>
        match w.node[i]? with
        | none => ({ failed := some .NoSession }, w)
        | some s =>
          let p := ((h.proto.toggleInitiator).setAck h.plain.ctr).setMeta
            Consts.protoIdSecureChannel Consts.opMrpStandaloneAck false
          match writeOnSession s p [] with
          | .error e => ({ failed := some e }, w)
          | .ok (r, s') => ({ replies := [{ r with via := some i }] }, { w with node := w.node.set i s', lru := w.lru.set i now })
    else ({}, w)
  | .err .NoSpaceSessions =>
    if !h.plain.isEncrypted && h.proto.isNewSession then
      let p := ((h.proto.toggleInitiator).setAck h.plain.ctr).setMeta
        Consts.protoIdSecureChannel Consts.opStatusReport false
      match writeUnsecured from_ { h with proto := p } (statusReport GC_BUSY SC_BUSY [0xF4, 0x01]) with
      | .error e => ({ failed := some e }, w)
      | .ok r =>
        let (res, w') := w.evictSome now exchId r.hdr.proto
        ({ res with replies := r :: res.replies }, w')
    else ({}, w)
  | .err .NoSpaceExchanges =>
    match findRx w.node from_ h.plain with
    | none => ({ failed := some .NoSession }, w)   -- `unwrap!`: unreachable
    | some i =>
      match w.node[i]? with
      | none => ({ failed := some .NoSession }, w)
      | some s =>
        let p := ({ h.proto with exchId := exchId, exchFlags := h.proto.exchFlags ||| X_INITIATOR }).setMeta
          Consts.protoIdSecureChannel Consts.opStatusReport false
        let w' := w.remove i
        match writeOnSession s p (statusReport GC_SUCCESS SC_CLOSE_SESSION []) with
        | .error e => ({ failed := some e }, w')
        | .ok (r, _) => ({ replies := [{ r with via := some i }] }, w')
  | .err .NoSession =>
    if !h.plain.isEncrypted then ({}, w)
    else
      let pl := { h.plain with sessId := 0, flags := h.plain.flags ||| F_SRC, src := 0 }
      let p := ((h.proto.unsetReliable).clearAck).setMeta Consts.protoIdSecureChannel Consts.opStatusReport false
      match writeUnsecured from_ { plain := pl, proto := p } (statusReport GC_FAILURE SC_SESSION_NOT_FOUND []) with
      | .error e => ({ failed := some e }, w)
      | .ok r => ({ replies := [r] }, w)
  | .err _ => ({}, w)
  | .ok _ _ hh payload =>
    if hh.proto.isStandaloneAck then ({}, w)
    else if hh.proto.isScStatus && isCloseSession payload then
      match findRx w.node from_ hh.plain with
      | some i => ({}, w.remove i)
      | none => ({}, w)
    else ({ deliver := true }, w)

/-- one step of the receive loop `process_rx`: `handle_rx_packet` -/
def handleRx (E : Env) (now exchId : Nat) (w : World) (from_ : Addr) (dg : Bytes) : HRes × World :=
  let h := (decodeStage E (w.touch now from_ dg).node from_ dg).hdr
  let (o, w') := receive E now w from_ dg
  react now exchId from_ h o w'

/-! ## Specification vocabulary (written from the property text) -/

/-- field ranges of a header that came off the wire / may go onto it (what `PlainHdr::decode`
accepts and `PlainHdr::encode` writes without truncation) -/
structure PlainHdr.WF (h : PlainHdr) : Prop where
  flags : fromBits MSGFLAGS_ALL h.flags = true
  sessId : h.sessId < 256 ^ 2
  secFlags : fromBits SECFLAGS_ALL h.secFlags = true
  ctr : h.ctr < 256 ^ 4
  /-- a u64 when present, 0 when absent -/
  src : h.src < 256 ^ srcLen h.flags
  /-- u64 / u16 / 0 according to the DSIZ bits -/
  dst : h.dst < 256 ^ dstLen h.flags

/-- `dg` is authentic for the receiving session `r` — **the ideal-AEAD notion of authenticity**: it
is, bit for bit, the wire form `aad ‖ ct` of an encryption that was *really made* (an entry of the
table `t`) under `r`'s receive key, for the nonce built from the header's security flags and counter
and the peer node id `r` was established with, with the complete (well-formed) header as associated
data. No computational claim is made: that nothing but a recorded encryption decrypts is the
ideal-AEAD assumption (`Aead.dec`). -/
def AuthenticFor (t : Aead) (r : Session) (dg : Bytes) : Prop :=
  ∃ rec ∈ t, ∃ h : PlainHdr, h.WF ∧
    rec.key = r.decKey ∧ rec.aad = h.encode ∧ dg = rec.aad ++ rec.ct ∧
    rec.nonce = nonce h.secFlags h.ctr (r.peerNode.getD 0)

/-- executable form of `AuthenticFor` used by the driver's oracle -/
def authenticForB (t : Aead) (r : Session) (dg : Bytes) : Bool :=
  t.any fun rec =>
    rec.key == r.decKey && dg == rec.aad ++ rec.ct &&
    match PlainHdr.decode rec.aad with
    | .ok (h, []) => h.encode == rec.aad && rec.nonce == nonce h.secFlags h.ctr (r.peerNode.getD 0)
    | _ => false

/-- the group keys a node holds for a group message with header `h` (written from the property
text, not from the loop): operational keys derived from an epoch key of a key set that is mapped,
in fabric `f`, to the addressed group (for a unicast-addressed group control message: of the fabric
in which this node has the addressed node id, any mapped key set) -/
def GroupKeyFor (fabs : List FabricM) (h : PlainHdr) (f : FabricM) (gid key : Nat) : Prop :=
  f ∈ fabs ∧ ∃ ksid, (gid, ksid) ∈ f.keyMap ∧ ∃ ks ∈ f.keySets, ks.id = ksid ∧ ∃ e ∈ ks.epochKeys,
    key = opKey e f.cfid ∧
    (∀ g, h.dstGroup = some g → gid = g) ∧ (∀ d, h.dstUnicast = some d → f.nodeId = d)

/-- `dg` is an authentic group message under `key`: bit for bit the wire form of an encryption
under `key` with the complete header as associated data and the *source node id of the header* in
the nonce -/
def GroupAuthentic (t : Aead) (key : Nat) (dg : Bytes) (h : PlainHdr) (src : Nat) : Prop :=
  h.WF ∧ h.srcNode = some src ∧ h.isGroup = true ∧
  ∃ rec ∈ t, rec.key = key ∧ rec.aad = h.encode ∧ dg = rec.aad ++ rec.ct ∧
    rec.nonce = nonce h.secFlags h.ctr src

/-- executable form used by the driver's oracle: is `dg` an authentic group message under one of the
keys the node holds for the addressed group (any fabric)? Independent of the loop: quantifies over
all fabrics, mappings, key sets and epoch keys. -/
def groupAuthenticB (E : Env) (dg : Bytes) : Bool :=
  E.t.any fun rec =>
    dg == rec.aad ++ rec.ct &&
    match PlainHdr.decode rec.aad with
    | .ok (h, []) =>
      h.encode == rec.aad && h.isGroup &&
      (match h.srcNode with
       | some src => rec.nonce == nonce h.secFlags h.ctr src
       | none => false) &&
      E.fabs.any fun f =>
        (match h.dstUnicast with | some d => f.nodeId == d | none => true) &&
        f.keyMap.any fun m =>
          (match h.dstGroup with | some g => m.1 == g | none => true) &&
          f.keySets.any fun ks => ks.id == m.2 && ks.epochKeys.any fun e => opKey e f.cfid == rec.key
    | _ => false

end SecureMsg
