import RsMatterVerif.Lemmas.Expand
/-!
# C06 — every Interaction Model operation is mediated by the access check

`Expand.expand` is the transliterated `PathExpander` (`Model/Expand.lean`, first half) drained with
`fuel` calls of `next`; all statements hold for every `fuel`, i.e. for every prefix of the
expansion. `Expand.expected` is the specification written from the property text.
The access-control state (`ctx.fabrics`), the requester and the node are fixed during one
expansion (see `docs/C06.md` for the one deliberate exception in the code, the last-authorised
cache across an ACL rewrite).
-/
namespace C06
open Acl Expand


/-- the access declaration the check looks up for a leaf id -/
def attrPerms (c : Cluster) (id : Nat) : Nat := ((c.attrs.find? (fun a => a.id == id)).map (·.access)).getD 0
def cmdPerms (c : Cluster) (id : Nat) : Nat := ((c.cmds.find? (fun a => a.id == id)).map (·.access)).getD 0

/-- **Every expanded item is mediated.** Whatever the request (any list of concrete and wildcard
paths, repeats, any order), every item the expander hands to a handler exists on the node (an
enabled leaf of a cluster of an endpoint), matches one of the requested paths, is reachable by the
requester (group membership), passed the caller's filter and passed `check_*_access` under the
request's access-control state. -/
theorem expanded_items_authorised (ctx : Ctx) (op : Operation) (node : Node) (paths : List Path)
    (fuel : Nat) (ep cl lf : Nat) (w a : Bool)
    (h : Out.item ep cl lf w a ∈ expand ctx op node paths fuel) :
    Authorised ctx op node (ep, cl, lf) ∧ ∃ p ∈ paths, PathMatches p ep cl lf ∧ w = isWildcard p :=
  run_sound fuel _ (inv_init ctx op node paths) _ h

/-- **A wildcard silently omits.** No status is ever produced for a wildcard path the operation
supports (reads: any wildcard; writes / invokes: the endpoint wildcard). -/
theorem wildcard_never_errors (ctx : Ctx) (op : Operation) (node : Node) (paths : List Path)
    (fuel : Nat) (p : Path) (s : Status) (h : Out.status p s ∈ expand ctx op node paths fuel) :
    p ∈ paths ∧ ¬ SupportedWildcard op p :=
  run_sound fuel _ (inv_init ctx op node paths) _ h

/-- **Denied means no effect.** If no element matching the (any) path is authorised, no item comes
out — the invoker / writer only ever act on items. -/
theorem denied_has_no_effect (ctx : Ctx) (op : Operation) (node : Node) (paths : List Path) (fuel : Nat)
    (hden : ∀ ep cl lf, (∃ p ∈ paths, PathMatches p ep cl lf) → ¬ Authorised ctx op node (ep, cl, lf)) :
    ∀ o ∈ expand ctx op node paths fuel, ∃ p s, o = .status p s := by
  intro o ho
  cases o with
  | status p s => exact ⟨p, s, rfl⟩
  | item ep cl lf w a =>
    obtain ⟨ha, p, hp, hm, _⟩ := expanded_items_authorised ctx op node paths fuel ep cl lf w a ho
    exact absurd ha (hden ep cl lf ⟨p, hp, hm⟩)

/-- a concrete path is answered at most once (one item or one status) -/
theorem concrete_at_most_one (ctx : Ctx) (op : Operation) (node : Node) (p : Path) (fuel : Nat)
    (hc : isWildcard p = false) : (expand ctx op node [p] fuel).length ≤ 1 := by
  unfold expand
  cases fuel with
  | zero => simp [run]
  | succ n =>
    unfold run
    simp only [next]
    unfold nextFrom
    cases hn : nextForPath ctx op node p {} none with
    | yield ep cl lf arr cur' =>
      simp only [hc, Bool.not_false, if_true, List.length_cons]
      cases n with
      | zero => simp [run]
      | succ m => simp [run, next]
    | done => simp
    | err s =>
      simp only [List.length_cons]
      cases n with
      | zero => simp [run]
      | succ m => simp [run, next]

/-! ## timed-only and fabric-scoped marks -/

theorem checkAttrAccess_write_timed {ctx : Ctx} {c : Cluster} {ep : Nat} {dts : List Nat} {id : Nat}
    (h : checkAttrAccess ctx c ep dts true id = .ok ())
    (ht : contains (attrPerms c id) Consts.accTimedOnly = true) : ctx.timed = true := by
  unfold checkAttrAccess at h
  simp only [Bool.true_and] at h
  by_cases hh : (!ctx.timed && contains (attrPerms c id) Consts.accTimedOnly) = true
  · unfold attrPerms at hh; rw [if_pos hh] at h; cases h
  · rw [ht] at hh; simpa using hh

theorem checkCmdAccess_marks {ctx : Ctx} {c : Cluster} {ep : Nat} {dts : List Nat} {id : Nat}
    (h : checkCmdAccess ctx c ep dts id = .ok ()) :
    (contains (cmdPerms c id) Consts.accTimedOnly = true → ctx.timed = true) ∧
    (contains (cmdPerms c id) Consts.accFabScoped = true → ctx.accessor.fabIdx ≠ 0) := by
  unfold checkCmdAccess at h
  by_cases h1 : (!ctx.timed && contains (cmdPerms c id) Consts.accTimedOnly) = true
  · unfold cmdPerms at h1; rw [if_pos h1] at h; cases h
  · unfold cmdPerms at h1; rw [if_neg h1] at h
    by_cases h2 : (contains (cmdPerms c id) Consts.accFabScoped && ctx.accessor.fabIdx == 0) = true
    · unfold cmdPerms at h2; rw [if_pos h2] at h; cases h
    · constructor
      · intro ht; unfold cmdPerms at ht; rw [ht] at h1; simpa using h1
      · intro hf; rw [hf] at h2; simpa using h2

/-- **Timed-only elements act only inside a timed interaction.** An item of a write / invoke
expansion whose declaration is marked timed-only implies the request carried the timed flag. -/
theorem timed_only_needs_timed (ctx : Ctx) (op : Operation) (node : Node) (paths : List Path)
    (fuel : Nat) (ep cl lf : Nat) (w a : Bool) (hop : op ≠ .read)
    (h : Out.item ep cl lf w a ∈ expand ctx op node paths fuel) :
    ∃ e ∈ node, e.id = ep ∧ ∃ c ∈ e.clusters, c.id = cl ∧
      (contains (if op = .invoke then cmdPerms c lf else attrPerms c lf) Consts.accTimedOnly = true →
        ctx.timed = true) := by
  obtain ⟨⟨e, he, hi, c, hc, hci, l, hl, hli, _, _, chk⟩, _⟩ :=
    expanded_items_authorised ctx op node paths fuel ep cl lf w a h
  refine ⟨e, he, hi, c, hc, hci, ?_⟩
  cases op with
  | read => exact absurd rfl hop
  | write => simp only [reduceCtorEq, if_false]; exact checkAttrAccess_write_timed chk
  | invoke => simp only [if_true]; exact (checkCmdAccess_marks chk).1

/-- **Fabric-scoped commands are refused to requesters without a fabric.** -/
theorem fabric_scoped_needs_fabric (ctx : Ctx) (node : Node) (paths : List Path)
    (fuel : Nat) (ep cl lf : Nat) (w a : Bool)
    (h : Out.item ep cl lf w a ∈ expand ctx .invoke node paths fuel) :
    ∃ e ∈ node, e.id = ep ∧ ∃ c ∈ e.clusters, c.id = cl ∧
      (contains (cmdPerms c lf) Consts.accFabScoped = true → ctx.accessor.fabIdx ≠ 0) := by
  obtain ⟨⟨e, he, hi, c, hc, hci, l, hl, hli, _, _, chk⟩, _⟩ :=
    expanded_items_authorised ctx .invoke node paths fuel ep cl lf w a h
  exact ⟨e, he, hi, c, hc, hci, (checkCmdAccess_marks chk).2⟩

/-- **The timed window must be live.** `timed_out` lets a request carrying the timed flag through
only if the exchange started with a `TimedRequest` whose window has not closed; without the flag
only if there was no `TimedRequest`. -/
theorem timed_gate_live (flag : Bool) (inst : Option Nat) (now : Nat)
    (h : timedGate flag inst now = .proceed) :
    (flag = true → ∃ t, inst = some t ∧ now ≤ t) ∧ (flag = false → inst = none) := by
  unfold timedGate at h
  cases inst with
  | none => cases flag <;> simp_all
  | some t =>
    cases flag with
    | false => simp at h
    | true =>
      simp only [Option.isSome_some, bne_self_eq_false, Bool.false_eq_true, if_false, Option.map_some,
        Option.getD_some, decide_eq_true_eq] at h
      refine ⟨fun _ => ⟨t, rfl, ?_⟩, fun hh => by cases hh⟩
      by_cases hgt : now > t
      · simp [hgt] at h
      · omega

/-! ## the model's access check is the specification's `permitted` -/

theorem and_single_bit (a i : Nat) : a &&& 2 ^ i = 2 ^ i ∨ a &&& 2 ^ i = 0 := by
  cases h : a.testBit i
  · right
    apply Nat.eq_of_testBit_eq
    intro j
    simp only [Nat.testBit_and, Nat.testBit_two_pow, Nat.zero_testBit]
    by_cases hij : i = j
    · subst hij; simp [h]
    · simp [hij]
  · left
    apply Nat.eq_of_testBit_eq
    intro j
    simp only [Nat.testBit_and, Nat.testBit_two_pow]
    by_cases hij : i = j
    · subst hij; simp [h]
    · simp [hij]

theorem contains_eq_declHas (a i : Nat) : contains a (2 ^ i) = declHas a (2 ^ i) := by
  unfold contains declHas
  have hpos : 2 ^ i ≠ 0 := Nat.pos_iff_ne_zero.mp (Nat.two_pow_pos i)
  rcases and_single_bit a i with h | h
  · rw [h]; simp
  · rw [h]; simp [hpos.symm]

theorem contains_read (a : Nat) : contains a READ = declHas a Consts.accRead := contains_eq_declHas a 4
theorem contains_write (a : Nat) : contains a WRITE = declHas a Consts.accWrite := contains_eq_declHas a 5
theorem contains_timed (a : Nat) : contains a Consts.accTimedOnly = declHas a Consts.accTimedOnly :=
  contains_eq_declHas a 8
theorem contains_fabScoped (a : Nat) : contains a Consts.accFabScoped = declHas a Consts.accFabScoped :=
  contains_eq_declHas a 6

theorem find_unique {ls : List Leaf} {l : Leaf} (hl : l ∈ ls) (hnd : (ls.map (·.id)).Nodup) :
    ls.find? (fun a => a.id == l.id) = some l := by
  induction ls with
  | nil => cases hl
  | cons x xs ih =>
    simp only [List.map_cons, List.nodup_cons, List.mem_map, not_exists, not_and] at hnd
    rcases List.mem_cons.mp hl with rfl | hl'
    · simp
    · have : x.id ≠ l.id := fun h => hnd.1 l hl' h.symm
      rw [List.find?_cons_of_neg (by simpa using this)]
      exact ih hl' hnd.2

/-- under the hypotheses of C05, the code's decision for a request equals the specification's -/
theorem allow_eq_grantedB (fabrics : List Fabric) (req : AccessReq)
    (hwf : WF fabrics) (hc : CanonicalPrivs fabrics) (hop : ReadOrWrite req) :
    allow fabrics req = grantedB fabrics req := by
  have h1 := C05.allow_iff_granted fabrics req hwf hc hop
  have h2 := C05.grantedB_iff fabrics req
  cases ha : allow fabrics req <;> cases hg : grantedB fabrics req <;> simp_all

/-- **The access check of the code is the `permitted` of the specification** (through C05's
`allow_iff_granted`), for every existing leaf of a well-formed cluster table. -/
theorem checkAccess_eq_permitted (ctx : Ctx) (op : Operation) (e : Endpoint) (c : Cluster) (l : Leaf)
    (hwf : WF ctx.fabrics) (hc : CanonicalPrivs ctx.fabrics)
    (hl : l ∈ (if op = .invoke then c.cmds else c.attrs))
    (hnd : ((if op = .invoke then c.cmds else c.attrs).map (·.id)).Nodup) :
    checkAccess ctx op e c l.id = (match permitted ctx op e c l with
      | none => .ok ()
      | some s => .error s) := by
  cases op with
  | read =>
    simp only [reduceCtorEq, if_false] at hl hnd
    unfold checkAccess checkAttrAccess permitted
    simp only [find_unique hl hnd, Option.map_some, Option.getD_some, Bool.false_and, Bool.false_eq_true,
      if_false, contains_read, beq_self_eq_true, if_true]
    rw [allow_eq_grantedB _ _ hwf hc ⟨.read, rfl⟩]
    cases declHas l.access Consts.accRead <;>
      cases grantedB ctx.fabrics (mkReq ctx e.id c.id l.id e.deviceTypes READ l.access) <;> simp
  | write =>
    simp only [reduceCtorEq, if_false] at hl hnd
    unfold checkAccess checkAttrAccess permitted
    simp only [find_unique hl hnd, Option.map_some, Option.getD_some, Bool.true_and, if_true,
      contains_write, contains_timed, reduceCtorEq, beq_iff_eq, if_false]
    rw [allow_eq_grantedB _ _ hwf hc ⟨.write, rfl⟩]
    cases ctx.timed <;> cases declHas l.access Consts.accTimedOnly <;>
      cases declHas l.access Consts.accWrite <;>
      cases grantedB ctx.fabrics (mkReq ctx e.id c.id l.id e.deviceTypes WRITE l.access) <;> simp
  | invoke =>
    simp only [if_true] at hl hnd
    unfold checkAccess checkCmdAccess permitted
    simp only [find_unique hl hnd, Option.map_some, Option.getD_some, contains_timed, contains_fabScoped,
      reduceCtorEq, beq_iff_eq, if_false]
    rw [allow_eq_grantedB _ _ hwf hc ⟨.write, rfl⟩]
    cases ctx.timed <;> cases declHas l.access Consts.accTimedOnly <;>
      cases declHas l.access Consts.accFabScoped <;>
      cases hf : (ctx.accessor.fabIdx == 0) <;>
      cases grantedB ctx.fabrics (mkReq ctx e.id c.id l.id e.deviceTypes WRITE l.access) <;> simp

theorem nodeWF_tables {node : Node} (h : nodeWF node = true) {e : Endpoint} (he : e ∈ node)
    {c : Cluster} (hc : c ∈ e.clusters) :
    (c.attrs.map (·.id)).Nodup ∧ (c.cmds.map (·.id)).Nodup := by
  unfold nodeWF at h
  simp only [Bool.and_eq_true, List.all_eq_true, decide_eq_true_iff] at h
  exact (h.2 e he).2 c hc

/-- **Every expanded item is permitted by the specification.** On a well-formed node and ACL state,
each item of the expansion is an enabled leaf of the node that the requester can reach and for which
the specification's `permitted` (operation offered, timed / fabric-scoped marks honoured, access
granted by the *specification* of C05) holds. -/
theorem expanded_items_permitted (ctx : Ctx) (op : Operation) (node : Node) (paths : List Path)
    (fuel : Nat) (ep cl lf : Nat) (w a : Bool)
    (hn : nodeWF node = true) (hwf : WF ctx.fabrics) (hc : CanonicalPrivs ctx.fabrics)
    (h : Out.item ep cl lf w a ∈ expand ctx op node paths fuel) :
    ∃ e ∈ node, e.id = ep ∧ ∃ c ∈ e.clusters, c.id = cl ∧ ∃ l ∈ specLeaves c op, l.id = lf ∧
      reachable ctx e = true ∧ ctx.filter ep cl lf = true ∧ permitted ctx op e c l = none ∧
      ∃ p ∈ paths, PathMatches p ep cl lf := by
  obtain ⟨⟨e, he, hi, c, hcm, hci, l, hl, hli, acc, fil, chk⟩, p, hp, hm, _⟩ :=
    expanded_items_authorised ctx op node paths fuel ep cl lf w a h
  simp only at hi hci hli acc fil chk
  have hl' : l ∈ specLeaves c op := by
    unfold specLeaves; unfold Cluster.leaves at hl; exact hl
  refine ⟨e, he, hi, c, hcm, hci, l, hl', hli, ?_, fil, ?_, p, hp, hm⟩
  · unfold reachable
    rw [← hi] at acc
    have := (C05.group_reaches_only_member_endpoints ctx.fabrics ctx.accessor e.id hwf).mp acc
    exact (C05.reachesB_iff _ _ _).mpr this
  · obtain ⟨na, nc⟩ := nodeWF_tables hn he hcm
    have hmem : l ∈ (if op = .invoke then c.cmds else c.attrs) := by
      unfold Cluster.leaves at hl
      cases op <;> simp_all
    have hnd : ((if op = .invoke then c.cmds else c.attrs).map (·.id)).Nodup := by
      cases op <;> simp_all
    have := checkAccess_eq_permitted ctx op e c l hwf hc hmem hnd
    rw [hli] at this
    rw [this] at chk
    cases hpm : permitted ctx op e c l with
    | none => rfl
    | some s => rw [hpm] at chk; cases chk

/-! ## concrete paths: equality with the specification -/

/-- the answer list of a concrete path `p` for an outcome of `next_for_path` -/
def outs (p : Path) : PathOutcome → List Out
  | .item e c l a => [.item e c l false a]
  | .done => []
  | .err s => [.status p s]

theorem expand_single_concrete (ctx : Ctx) (op : Operation) (node : Node) (p : Path) (fuel : Nat)
    (hw : isWildcard p = false) :
    expand ctx op node [p] (fuel + 2) = outs p (nextForPath ctx op node p {} none).outcome := by
  unfold expand
  unfold run
  simp only [next]
  unfold nextFrom
  cases hn : nextForPath ctx op node p {} none with
  | yield ep cl lf arr cur' =>
    simp only [hw, Bool.not_false, if_true, PathRes.outcome, outs]
    unfold run
    simp [next]
  | done => simp [PathRes.outcome, outs]
  | err s =>
    simp only [PathRes.outcome, outs]
    unfold run
    simp [next]

theorem isEndpointAccessible_eq_reachesB (fabrics : List Fabric) (a : Accessor) (ep : Nat) (hwf : WF fabrics) :
    isEndpointAccessible fabrics a ep = reachesB fabrics a ep := by
  have h1 := C05.group_reaches_only_member_endpoints fabrics a ep hwf
  have h2 := C05.reachesB_iff fabrics a ep
  cases h : isEndpointAccessible fabrics a ep <;> cases h' : reachesB fabrics a ep <;> simp_all

theorem find_unique_filter {ls : List Leaf} {l : Leaf} (hl : l ∈ ls.filter (·.enabled))
    (hnd : (ls.map (·.id)).Nodup) :
    (ls.filter (·.enabled)).find? (fun a => a.id == l.id) = some l := by
  apply find_unique hl
  exact List.Nodup.sublist (List.Sublist.map _ List.filter_sublist) hnd

/-- **A request consisting of one concrete path is answered exactly as the specification says**:
the element, nothing (rejected by the caller's filter), or the single status of the first failing
level — in particular a denied concrete path yields exactly its status and no item. -/
theorem concrete_path_expected (ctx : Ctx) (op : Operation) (node : Node) (p : Path) (fuel : Nat)
    {ep cl lf : Nat} (hep : p.endpoint = some ep) (hcl : p.cluster = some cl) (hl : p.leaf = some lf)
    (hn : nodeWF node = true) (hwf : WF ctx.fabrics) (hc : CanonicalPrivs ctx.fabrics) :
    expand ctx op node [p] (fuel + 2) = expectedItem ctx op node p := by
  have hw : isWildcard p = false := by simp [isWildcard, hep, hcl, hl]
  rw [expand_single_concrete ctx op node p fuel hw, nextForPath_concrete ctx op node p none hep hcl hl]
  unfold expectedItem
  simp only [hcl, hl, hep, Option.isNone_some, Bool.and_false, Bool.false_eq_true, if_false]
  unfold concreteOutcome expectedConcrete
  have hpred : (fun (e : Endpoint) => ep == e.id && isEndpointAccessible ctx.fabrics ctx.accessor e.id)
      = (fun e => e.id == ep && reachable ctx e) := by
    funext e
    unfold reachable
    rw [isEndpointAccessible_eq_reachesB _ _ _ hwf, Bool.beq_comm]
  rw [hpred]
  cases hfe : node.find? (fun e => e.id == ep && reachable ctx e) with
  | none => simp [outs]
  | some e =>
    have he : e ∈ node := List.mem_of_find?_eq_some hfe
    simp only
    cases hfc : e.clusters.find? (fun c => c.id == cl) with
    | none => simp [outs]
    | some c =>
      have hcm : c ∈ e.clusters := List.mem_of_find?_eq_some hfc
      obtain ⟨na, nc⟩ := nodeWF_tables hn he hcm
      simp only
      unfold leafOutcome
      have hsl : c.leaves (op == .invoke) = specLeaves c op := rfl
      rw [hsl]
      cases hfl : (specLeaves c op).find? (fun l => l.id == lf) with
      | none => cases op <;> simp [outs]
      | some l =>
        have hlm : l ∈ specLeaves c op := List.mem_of_find?_eq_some hfl
        have hlid : l.id = lf := by have := List.find?_some hfl; simpa using this
        have hmem : l ∈ (if op = .invoke then c.cmds else c.attrs) := by
          unfold specLeaves at hlm
          cases op <;> simp_all
        have hnd : ((if op = .invoke then c.cmds else c.attrs).map (·.id)).Nodup := by
          cases op <;> simp_all
        have hchk := checkAccess_eq_permitted ctx op e c l hwf hc hmem hnd
        simp only
        unfold leafCheck
        by_cases hfil : ctx.filter e.id c.id l.id = true
        · have harr : arrayFlag op c l = (op != .invoke && l.array) := by
            unfold arrayFlag
            cases op with
            | invoke => simp
            | read =>
              have : l ∈ c.attrs.filter (·.enabled) := by unfold specLeaves at hlm; simpa using hlm
              simp [Cluster.leaves, find_unique_filter this na]
              rfl
            | write =>
              have : l ∈ c.attrs.filter (·.enabled) := by unfold specLeaves at hlm; simpa using hlm
              simp [Cluster.leaves, find_unique_filter this na]
              rfl
          simp only [hfil, if_true, Bool.not_true, Bool.false_eq_true, if_false, reduceCtorEq, beq_iff_eq]
          rw [hchk]
          cases hp : permitted ctx op e c l with
          | none => simp [outs, harr, Except.map]
          | some s => simp [outs, Except.map]
        · simp [hfil, outs]

/-- The full statement of C06 for the expansion: the answers are exactly the specification's list.
Evaluated by the oracle on every generated request (no counterexample); the soundness half is the
theorems above, the completeness half (every permitted element is answered, a denied concrete path
gets exactly its status) is not proved here. -/
def C06_full : Prop :=
  ∀ (ctx : Ctx) (op : Operation) (node : Node) (paths : List Path),
    nodeWF node = true → WF ctx.fabrics → CanonicalPrivs ctx.fabrics →
    ∃ fuel, ∀ fuel' ≥ fuel, expand ctx op node paths fuel' = expected ctx op node paths

/-! ## non-vacuity -/

/-- endpoint 0: cluster 31 with attribute 0 (`RWVA`) and command 0 (`WA`, fabric-scoped);
endpoint 1: cluster 6 with attributes 0 (`RV`), 1 (`RWVM`, timed-only) and command 0 (`WO`, timed-only) -/
def demoNode : Node :=
  [ { id := 0, deviceTypes := [22], clusters :=
      [ { id := 31, attrs := [ { id := 0, access := 57, array := true, enabled := true } ],
          cmds := [ { id := 0, access := 104, array := false, enabled := true } ] } ] },
    { id := 1, deviceTypes := [256], clusters :=
      [ { id := 6, attrs := [ { id := 0, access := 17, array := false, enabled := true },
                              { id := 1, access := 309, array := false, enabled := true } ],
          cmds := [ { id := 0, access := 302, array := false, enabled := true } ] } ] } ]

/-- fabric 1: node 5 may operate endpoint 1 -/
def demoAcl : List Fabric :=
  [ { fabIdx := 1,
      acl := [ { privilege := PRIV_MANAGE, authMode := .case, subjects := some [5],
                 targets := some [ { endpoint := some 1, cluster := none, deviceType := none } ],
                 fabIdx := some 1 } ],
      groups := [] } ]

def demoCtx (timed : Bool) : Ctx :=
  { fabrics := demoAcl, accessor := { fabIdx := 1, auxAclEnabled := false, subjects := [5, 0, 0, 0], authMode := some .case },
    timed := timed, filter := fun _ _ _ => true }

def wild : Path := { endpoint := none, cluster := none, leaf := none }
def conc (e c l : Nat) : Path := { endpoint := some e, cluster := some c, leaf := some l }

/-- wildcard read: exactly the two permitted attributes of endpoint 1, nothing about endpoint 0 -/
example : expand (demoCtx false) .read demoNode [wild] 10 =
    [.item 1 6 0 true false, .item 1 6 1 true false] := by decide
/-- concrete read of the Access Control attribute: one status, no item -/
example : expand (demoCtx false) .read demoNode [conc 0 31 0] 10 =
    [.status (conc 0 31 0) .unsupportedAccess] := by decide
/-- timed-only attribute: refused without the timed flag, written with it -/
example : expand (demoCtx false) .write demoNode [conc 1 6 1] 10 =
    [.status (conc 1 6 1) .needsTimedInteraction] := by decide
example : expand (demoCtx true) .write demoNode [conc 1 6 1] 10 = [.item 1 6 1 false false] := by decide
/-- absent cluster / attribute / endpoint -/
example : expand (demoCtx false) .read demoNode [conc 1 8 0, conc 1 6 9, conc 5 6 0] 10 =
    [.status (conc 1 8 0) .unsupportedCluster, .status (conc 1 6 9) .unsupportedAttribute,
     .status (conc 5 6 0) .unsupportedEndpoint] := by decide
/-- the specification gives the same lists -/
example : expected (demoCtx false) .read demoNode [wild, conc 0 31 0] =
    expand (demoCtx false) .read demoNode [wild, conc 0 31 0] 10 := by decide
/-- hypotheses of `expanded_items_permitted` are satisfiable -/
example : nodeWF demoNode = true ∧ WF demoAcl := ⟨by decide, ⟨by decide, by decide, by decide⟩⟩
/-- fabric-scoped command over PASE without a fabric: refused -/
def paseCtx : Ctx :=
  { fabrics := demoAcl, accessor := { fabIdx := 0, auxAclEnabled := false, subjects := [1, 0, 0, 0], authMode := some .pase },
    timed := true, filter := fun _ _ _ => true }
example : expand paseCtx .invoke demoNode [conc 0 31 0] 10 = [.status (conc 0 31 0) .unsupportedAccess] := by decide
/-- the timed gate: live window passes, closed window and mismatches do not -/
example : timedGate true (some 100) 100 = .proceed ∧ timedGate true (some 100) 101 = .timeout ∧
    timedGate true none 5 = .timedRequestMismatch ∧ timedGate false (some 100) 5 = .timedRequestMismatch ∧
    timedGate false none 5 = .proceed := by decide

/-- `concrete_path_expected` instantiated: a denied concrete path yields exactly its status -/
example : expand (demoCtx false) .read demoNode [conc 0 31 0] 2 = expectedItem (demoCtx false) .read demoNode (conc 0 31 0) :=
  concrete_path_expected (demoCtx false) .read demoNode (conc 0 31 0) 0 rfl rfl rfl (by decide)
    ⟨by decide, by decide, by decide⟩
    (by intro f hf e he
        simp only [demoCtx, demoAcl, List.mem_cons, List.not_mem_nil, or_false] at hf
        subst hf
        simp only [List.mem_cons, List.not_mem_nil, or_false] at he
        subst he; exact ⟨.manage, rfl⟩)

end C06
