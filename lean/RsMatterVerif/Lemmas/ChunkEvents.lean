import RsMatterVerif.Model.ChunkEvents
/-!
# The event queue keeps its events in ascending order and never panics

`QInv`: the three buffers never hold more than `N` bytes, every stored event has a positive length,
the iteration order `critical ++ info ++ debug` has strictly ascending event numbers, and (until
`next_event_number` wraps around `u64::MAX`) every stored number is below `next_event_number`.
Evictions and promotions only remove events from the iteration order or move the oldest event of a
buffer to the end of the next one — the iteration order after them is a sublist of the one before.
-/
namespace Chunk
namespace Queue

theorem qLen_nil : qLen [] = 0 := rfl
theorem qLen_cons (e : QEv) (r : List QEv) : qLen (e :: r) = e.len + qLen r := by simp [qLen]
theorem qLen_append (a b : List QEv) : qLen (a ++ b) = qLen a + qLen b := by simp [qLen]
theorem qLen_tail_le (a : List QEv) : qLen a.tail ≤ qLen a := by
  cases a with
  | nil => exact Nat.le_refl _
  | cons e r => rw [List.tail_cons, qLen_cons]; omega

/-- no buffer holds more than `N` bytes -/
structure Caps (q : Queue) : Prop where
  d : qLen q.debug + q.part ≤ q.n
  i : qLen q.info ≤ q.n
  c : qLen q.crit ≤ q.n

/-- every stored event has a positive length -/
def Pos (q : Queue) : Prop := ∀ e ∈ q.iter, 0 < e.len

/-- `q'` comes from `q` by evictions and promotions: same parameters, the iteration order is a
sublist -/
structure Evo (q q' : Queue) : Prop where
  n : q'.n = q.n
  next : q'.next = q.next
  wrapped : q'.wrapped = q.wrapped
  sub : q'.iter.Sublist q.iter

theorem Evo.refl (q : Queue) : Evo q q := ⟨rfl, rfl, rfl, List.Sublist.refl _⟩

theorem Evo.trans {a b c : Queue} (h1 : Evo a b) (h2 : Evo b c) : Evo a c :=
  ⟨h2.n.trans h1.n, h2.next.trans h1.next, h2.wrapped.trans h1.wrapped, h2.sub.trans h1.sub⟩

theorem Pos.evo {q q' : Queue} (h : Pos q) (e : Evo q q') : Pos q' :=
  fun x hx => h x (e.sub.subset hx)

theorem mem_len_le {l : List QEv} {e : QEv} (h : e ∈ l) : e.len ≤ qLen l := by
  induction l with
  | nil => cases h
  | cons a r ih =>
    rw [qLen_cons]
    rcases List.mem_cons.mp h with rfl | h
    · omega
    · have := ih h; omega

/-! ## critical buffer -/

theorem makeRoomCrit_ok : ∀ (fuel : Nat) (q : Queue) (len : Nat), Caps q → len ≤ q.n → q.crit.length < fuel →
    ∃ q', makeRoomCrit fuel q len = .ok q' ∧ (∃ pre, q.crit = pre ++ q'.crit) ∧ q'.info = q.info ∧
      q'.debug = q.debug ∧ q'.part = q.part ∧ q'.n = q.n ∧ q'.next = q.next ∧ q'.wrapped = q.wrapped ∧
      len ≤ q'.capCrit := by
  intro fuel
  induction fuel with
  | zero => intro q len _ _ h; omega
  | succ fuel ih =>
    intro q len hc hl hf
    simp only [makeRoomCrit]
    by_cases hcap : q.capCrit < len
    · simp only [hcap, if_true]
      cases hcr : q.crit with
      | nil =>
        exfalso
        unfold capCrit at hcap; rw [hcr, qLen_nil] at hcap; omega
      | cons e rest =>
        simp only [evictCrit, hcr]
        have hc' : Caps { q with crit := rest } := ⟨hc.d, hc.i, by
          have := hc.c; rw [hcr, qLen_cons] at this; show qLen rest ≤ q.n; omega⟩
        obtain ⟨q', h1, ⟨pre, h2⟩, h3⟩ := ih { q with crit := rest } len hc' hl (by
          show rest.length < fuel; rw [hcr] at hf; simp at hf; omega)
        exact ⟨q', h1, ⟨e :: pre, by simp only [List.cons_append]; rw [← h2]⟩, h3⟩
    · simp only [hcap, if_false]
      exact ⟨q, rfl, ⟨[], rfl⟩, rfl, rfl, rfl, rfl, rfl, rfl, by omega⟩

theorem promoteCrit_ok (q : Queue) (e : QEv) (hc : Caps q) (hl : e.len ≤ q.n) :
    ∃ pre c1, q.crit = pre ++ c1 ∧ promoteCrit q e = .ok { q with crit := c1 ++ [e] } ∧ qLen (c1 ++ [e]) ≤ q.n := by
  obtain ⟨q', h1, ⟨pre, h2⟩, h3, h4, h5, h6, h7, h8, h9⟩ := makeRoomCrit_ok (q.crit.length + 1) q e.len hc hl (by omega)
  refine ⟨pre, q'.crit, h2, ?_, ?_⟩
  · simp only [promoteCrit, h1]
    have : ¬ q'.capCrit < e.len := by omega
    simp only [this, if_false]
    congr 1
    cases q; cases q'
    simp_all
  · unfold capCrit at h9
    rw [qLen_append, qLen_cons, qLen_nil]
    have hq : qLen q'.crit ≤ q'.n := by
      have := hc.c; rw [h2, qLen_append] at this; omega
    omega

/-! ## info buffer -/

theorem evictInfo_ok (q : Queue) (e : QEv) (rest : List QEv) (hc : Caps q) (hi : q.info = e :: rest) :
    ∃ q', evictInfo q = .ok q' ∧ q'.info = rest ∧ q'.debug = q.debug ∧ q'.part = q.part ∧ Evo q q' ∧ Caps q' := by
  have hel : e.len ≤ q.n := by
    have := hc.i; rw [hi, qLen_cons] at this; omega
  have hri : qLen rest ≤ q.n := by
    have := hc.i; rw [hi, qLen_cons] at this; omega
  simp only [evictInfo, hi]
  by_cases hp : 2 ≤ e.prio
  · simp only [hp, if_true]
    obtain ⟨pre, c1, h1, h2, h3⟩ := promoteCrit_ok q e hc hel
    rw [h2]
    refine ⟨_, rfl, by simp [hi], rfl, rfl, ⟨rfl, rfl, rfl, ?_⟩, ⟨hc.d, by simpa [hi] using hri, h3⟩⟩
    simp only [iter, hi, List.tail_cons, h1]
    have : (c1 ++ [e]) ++ rest ++ q.debug = c1 ++ (e :: rest) ++ q.debug := by simp
    rw [this]
    exact ((List.sublist_append_right pre c1).append_right _).append_right _
  · simp only [hp, if_false]
    refine ⟨_, rfl, by simp [hi], rfl, rfl, ⟨rfl, rfl, rfl, ?_⟩, ⟨hc.d, by simpa [hi] using hri, hc.c⟩⟩
    simp only [iter, hi, List.tail_cons]
    exact ((List.Sublist.refl q.crit).append (List.sublist_cons_self e rest)).append_right _

theorem makeRoomInfo_ok : ∀ (fuel : Nat) (q : Queue) (len : Nat), Caps q → len ≤ q.n → q.info.length < fuel →
    ∃ q', makeRoomInfo fuel q len = .ok q' ∧ q'.debug = q.debug ∧ q'.part = q.part ∧ Evo q q' ∧ Caps q' ∧
      len ≤ q'.capInfo := by
  intro fuel
  induction fuel with
  | zero => intro q len _ _ h; omega
  | succ fuel ih =>
    intro q len hc hl hf
    simp only [makeRoomInfo]
    by_cases hcap : q.capInfo < len
    · simp only [hcap, if_true]
      cases hin : q.info with
      | nil =>
        exfalso
        unfold capInfo at hcap; rw [hin, qLen_nil] at hcap; omega
      | cons e rest =>
        obtain ⟨q1, h1, h2, h3, h4, h5, h6⟩ := evictInfo_ok q e rest hc hin
        rw [h1]
        simp only
        obtain ⟨q', g1, g2, g3, g4, g5, g6⟩ := ih q1 len h6 (by rw [h5.n]; exact hl) (by
          rw [h2]; rw [hin] at hf; simp at hf; omega)
        exact ⟨q', g1, g2.trans h3, g3.trans h4, h5.trans g4, g5, g6⟩
    · simp only [hcap, if_false]
      exact ⟨q, rfl, rfl, rfl, Evo.refl q, hc, by omega⟩

/-! ## debug buffer -/

theorem evictDebug_ok (q : Queue) (e : QEv) (rest : List QEv) (hc : Caps q) (hd : q.debug = e :: rest) :
    ∃ q', evictDebug q = .ok q' ∧ q'.debug = rest ∧ q'.part = q.part ∧ Evo q q' ∧ Caps q' := by
  have hel : e.len ≤ q.n := by
    have := hc.d; rw [hd, qLen_cons] at this; omega
  have hrd : qLen rest + q.part ≤ q.n := by
    have := hc.d; rw [hd, qLen_cons] at this; omega
  simp only [evictDebug, hd]
  by_cases hp : 1 ≤ e.prio
  · simp only [hp, if_true]
    obtain ⟨q1, h1, h2, h3, h4, h5, h6⟩ := makeRoomInfo_ok (q.info.length + 1) q e.len hc hel (by omega)
    simp only [promoteInfo, h1]
    have : ¬ q1.capInfo < e.len := by omega
    simp only [this, if_false]
    refine ⟨_, rfl, by simp [h2, hd], h3, ⟨h4.n, h4.next, h4.wrapped, ?_⟩, ⟨?_, ?_, h5.c⟩⟩
    · have hs := h4.sub
      simp only [iter, h2, hd] at hs ⊢
      simp only [List.tail_cons]
      have : q1.crit ++ (q1.info ++ [e]) ++ rest = q1.crit ++ q1.info ++ e :: rest := by simp
      rw [this]; exact hs
    · show qLen (q1.debug.tail) + q1.part ≤ q1.n
      rw [h2, hd, List.tail_cons, h3, h4.n]; exact hrd
    · show qLen (q1.info ++ [e]) ≤ q1.n
      unfold capInfo at h6
      rw [qLen_append, qLen_cons, qLen_nil]
      have := h5.i
      omega
  · simp only [hp, if_false]
    refine ⟨_, rfl, by simp [hd], rfl, ⟨rfl, rfl, rfl, ?_⟩, ⟨by simpa [hd] using hrd, hc.i, hc.c⟩⟩
    simp only [iter, hd, List.tail_cons]
    exact (List.Sublist.refl _).append (List.sublist_cons_self e rest)

theorem makeRoomDebug_ok : ∀ (fuel : Nat) (q : Queue), Caps q → q.part < q.n → q.debug.length < fuel →
    ∃ q', makeRoomDebug fuel q = .ok q' ∧ q'.part = q.part ∧ Evo q q' ∧ Caps q' ∧ 0 < q'.capDebug := by
  intro fuel
  induction fuel with
  | zero => intro q _ _ h; omega
  | succ fuel ih =>
    intro q hc hp hf
    simp only [makeRoomDebug]
    by_cases hcap : q.capDebug = 0
    · simp only [hcap, if_true]
      cases hdb : q.debug with
      | nil =>
        exfalso
        unfold capDebug at hcap; rw [hdb, qLen_nil] at hcap; omega
      | cons e rest =>
        obtain ⟨q1, h1, h2, h3, h4, h5⟩ := evictDebug_ok q e rest hc hdb
        rw [h1]
        simp only
        obtain ⟨q', g1, g2, g3, g4, g5⟩ := ih q1 h5 (by rw [h3, h4.n]; exact hp) (by
          rw [h2]; rw [hdb] at hf; simp at hf; omega)
        exact ⟨q', g1, g2.trans h3, h4.trans g3, g4, g5⟩
    · simp only [hcap, if_false]
      exact ⟨q, rfl, rfl, Evo.refl q, hc, by omega⟩

/-- `EventWriter::write` never panics: it writes the byte (after evictions), or there is nothing to
write into (`N = 0`), or the event is longer than the buffer -/
theorem writeByte_ok (q : Queue) (hc : Caps q) :
    (q.writeByte = .error .resourceExhausted ∧ q.part = q.n) ∨
    (∃ q', q.writeByte = .ok q' ∧ Evo q q' ∧ Caps q' ∧
      ((q.n = 0 ∧ q'.part = q.part) ∨ (0 < q.n ∧ q'.part = q.part + 1))) := by
  unfold writeByte
  by_cases h0 : q.n = 0
  · right
    rw [if_pos h0]
    exact ⟨q, rfl, Evo.refl q, hc, .inl ⟨h0, rfl⟩⟩
  · rw [if_neg h0]
    by_cases hp : q.part = q.n
    · left; rw [if_pos hp]; exact ⟨rfl, hp⟩
    · right
      rw [if_neg hp]
      have hlt : q.part < q.n := by have := hc.d; omega
      obtain ⟨q1, h1, h2, h3, h4, h5⟩ := makeRoomDebug_ok (q.debug.length + 1) q hc hlt (by omega)
      rw [h1]
      refine ⟨_, rfl, ⟨h3.n, h3.next, h3.wrapped, h3.sub⟩, ⟨?_, h4.i, h4.c⟩, .inr ⟨by omega, by simp [h2]⟩⟩
      show qLen q1.debug + (q1.part + 1) ≤ q1.n
      unfold capDebug at h5
      have := h4.d
      omega

theorem writeBytes_ok : ∀ (k : Nat) (q : Queue), Caps q →
    ∃ q' r, writeBytes k q = (q', r) ∧ Evo q q' ∧ Caps q' ∧ (r = none ∨ r = some .resourceExhausted) ∧
      (r = none → (q.n = 0 ∧ q'.part = q.part) ∨ (0 < q.n ∧ q'.part = q.part + k)) := by
  intro k
  induction k with
  | zero => intro q hc; exact ⟨q, none, rfl, Evo.refl q, hc, .inl rfl, fun _ => by
      by_cases h : q.n = 0
      · exact .inl ⟨h, rfl⟩
      · exact .inr ⟨by omega, rfl⟩⟩
  | succ k ih =>
    intro q hc
    simp only [writeBytes]
    rcases writeByte_ok q hc with ⟨h1, _⟩ | ⟨q1, h1, h2, h3, h4⟩
    · rw [h1]
      exact ⟨q, some .resourceExhausted, rfl, Evo.refl q, hc, .inr rfl, fun h => by cases h⟩
    · rw [h1]
      simp only
      obtain ⟨q', r, g1, g2, g3, g4, g5⟩ := ih q1 h3
      refine ⟨q', r, g1, h2.trans g2, g3, g4, fun hr => ?_⟩
      rcases g5 hr with ⟨a, b⟩ | ⟨a, b⟩
      · rcases h4 with ⟨c, d⟩ | ⟨c, d⟩
        · exact .inl ⟨c, by rw [b, d]⟩
        · rw [h2.n] at a; omega
      · rcases h4 with ⟨c, d⟩ | ⟨c, d⟩
        · rw [h2.n] at a; omega
        · exact .inr ⟨c, by rw [b, d]; omega⟩

/-! ## The invariant -/

/-- **invariant of the event queue** between two operations -/
structure QInv (q : Queue) : Prop where
  caps : Caps q
  pos : Pos q
  part0 : q.part = 0
  /-- the iteration order has strictly ascending event numbers -/
  asc : q.wrapped = false → (q.iter.map (·.num)).Pairwise (· < ·)
  /-- every stored number is below the next one to be assigned -/
  lt : q.wrapped = false → ∀ e ∈ q.iter, e.num < q.next

theorem qinv_new (n : Nat) : QInv (new n) :=
  ⟨⟨Nat.zero_le _, Nat.zero_le _, Nat.zero_le _⟩, fun e h => by simp [new, iter] at h, rfl,
    fun _ => by simp [new, iter], fun _ e h => by simp [new, iter] at h⟩

theorem qinv_reset (q : Queue) : QInv q.reset := qinv_new q.n

theorem qinv_load (q : Queue) (v : Nat) : QInv (q.load v) :=
  ⟨⟨Nat.zero_le _, Nat.zero_le _, Nat.zero_le _⟩, fun e h => by simp [load, reset, iter] at h, rfl,
    fun _ => by simp [load, reset, iter], fun _ e h => by simp [load, reset, iter] at h⟩

/-- a `push` that stores nothing new (it failed and was rewound, or `N = 0`) keeps the invariant -/
theorem qinv_rewound {q q2 : Queue} (hq : QInv q) (he : Evo { q.bumpNext with part := 0 } q2) (hc : Caps q2) :
    QInv { q2 with part := 0 } := by
  have hsub : q2.iter.Sublist q.iter := he.sub
  refine ⟨⟨by have := hc.d; show qLen q2.debug + 0 ≤ q2.n; omega, hc.i, hc.c⟩, fun e h => hq.pos e (hsub.subset h), rfl, ?_, ?_⟩
  · intro hw
    have hw2 : q2.wrapped = false := hw
    rw [he.wrapped] at hw2
    have hw0 : q.wrapped = false := by
      simp only [bumpNext, Bool.or_eq_false_iff] at hw2; exact hw2.1
    exact (hq.asc hw0).sublist (hsub.map _)
  · intro hw e h
    have hw2 : q2.wrapped = false := hw
    rw [he.wrapped] at hw2
    simp only [bumpNext, Bool.or_eq_false_iff, decide_eq_false_iff_not] at hw2
    have := hq.lt hw2.1 e (hsub.subset h)
    show e.num < q2.next
    rw [he.next]
    simp only [bumpNext]
    rw [if_neg hw2.2]
    omega

/-- **`push` keeps the invariant and never panics** -/
theorem push_ok (q : Queue) (hq : QInv q) (prio len : Nat) (abort : Option Nat) :
    ∃ q' res, q.push prio len abort = (q', res) ∧ QInv q' ∧ (∀ w, res ≠ .error (.panic w)) ∧
      q'.n = q.n ∧ q'.next = q.bumpNext.next ∧ q'.wrapped = q.bumpNext.wrapped := by
  have hc1 : Caps { q.bumpNext with part := 0 } :=
    ⟨by have := hq.caps.d; show qLen q.debug + 0 ≤ q.n; omega, hq.caps.i, hq.caps.c⟩
  obtain ⟨k, hk⟩ : ∃ k, k = pushLen len abort := ⟨_, rfl⟩
  obtain ⟨q2, r, h1, h2, h3, h4, h5⟩ := writeBytes_ok k _ hc1
  unfold push
  simp only [← hk, h1]
  rcases h4 with rfl | rfl
  · simp only
    by_cases hkl : k < len
    · simp only [hkl, if_true]
      exact ⟨_, _, rfl, qinv_rewound hq h2 h3, (fun w h => by cases h), h2.n, h2.next, h2.wrapped⟩
    · simp only [hkl, if_false]
      by_cases hst : q2.part = len ∧ 0 < len
      · simp only [hst, and_self, if_true]
        refine ⟨_, _, rfl, ?_, (fun w h => by cases h), h2.n, h2.next, h2.wrapped⟩
        have hsub : q2.iter.Sublist q.iter := h2.sub
        have hit : (iter { q2 with debug := q2.debug ++ [{ num := q.next, prio := prio, len := len }], part := 0 }) =
            q2.iter ++ [{ num := q.next, prio := prio, len := len }] := by simp [iter]
        have hwr : ∀ (hw : q2.wrapped = false), q.wrapped = false ∧ ¬ q.next ≥ u64Max := by
          intro hw
          rw [h2.wrapped] at hw
          simpa only [bumpNext, Bool.or_eq_false_iff, decide_eq_false_iff_not] using hw
        refine ⟨⟨?_, h3.i, h3.c⟩, ?_, rfl, ?_, ?_⟩
        · show qLen (q2.debug ++ [_]) + 0 ≤ q2.n
          rw [qLen_append, qLen_cons, qLen_nil]
          have := h3.d
          simp only at this ⊢
          omega
        · intro e he
          rw [hit] at he
          rcases List.mem_append.mp he with he | he
          · exact hq.pos e (hsub.subset he)
          · simp at he; rw [he]; exact hst.2
        · intro hw
          obtain ⟨hw0, _⟩ := hwr hw
          rw [hit, List.map_append, List.pairwise_append]
          refine ⟨(hq.asc hw0).sublist (hsub.map _), by simp, ?_⟩
          intro a ha b hb
          simp at hb
          obtain ⟨e, he, rfl⟩ := List.mem_map.mp ha
          rw [hb]
          exact hq.lt hw0 e (hsub.subset he)
        · intro hw e he
          obtain ⟨hw0, hn⟩ := hwr hw
          show e.num < q2.next
          rw [h2.next]
          simp only [bumpNext]
          rw [if_neg hn]
          rw [hit] at he
          rcases List.mem_append.mp he with he | he
          · have := hq.lt hw0 e (hsub.subset he); omega
          · simp at he; rw [he]; simp
      · simp only [hst, if_false]
        exact ⟨_, _, rfl, qinv_rewound hq h2 h3, (fun w h => by cases h), h2.n, h2.next, h2.wrapped⟩
  · simp only
    exact ⟨_, _, rfl, qinv_rewound hq h2 h3, (fun w h => by cases h), h2.n, h2.next, h2.wrapped⟩

/-- **no history of operations panics, and the invariant holds after it** -/
theorem run_ok : ∀ (ops : List QOp) (q : Queue), QInv q → ∃ q', q.run ops = some q' ∧ QInv q' := by
  intro ops
  induction ops with
  | nil => intro q hq; exact ⟨q, rfl, hq⟩
  | cons op ops ih =>
    intro q hq
    cases op with
    | push prio len abort =>
      obtain ⟨q', res, h1, h2, h3, _⟩ := push_ok q hq prio len abort
      obtain ⟨q'', g1, g2⟩ := ih q' h2
      refine ⟨q'', ?_, g2⟩
      rw [← g1]
      cases res with
      | ok v => simp only [run, h1]
      | error e =>
        cases e with
        | panic w => exact absurd rfl (h3 w)
        | resourceExhausted => simp only [run, h1]
        | closure => simp only [run, h1]
    | reset => simp only [run]; exact ih _ (qinv_reset q)
    | load v => simp only [run]; exact ih _ (qinv_load q v)

/-- without a `load`, fewer than `u64::MAX` operations never wrap the event number -/
theorem run_not_wrapped : ∀ (ops : List QOp) (q q' : Queue), QInv q → q.wrapped = false → 1 ≤ q.next →
    q.next + ops.length ≤ u64Max → (∀ op ∈ ops, ∀ v, op ≠ .load v) → q.run ops = some q' → q'.wrapped = false := by
  intro ops
  induction ops with
  | nil => intro q q' _ hw _ _ _ h; simp only [run, Option.some.injEq] at h; rw [← h]; exact hw
  | cons op ops ih =>
    intro q q' hq hw h1 hb hno h
    simp only [List.length_cons] at hb
    have hno' : ∀ op ∈ ops, ∀ v, op ≠ .load v := fun o ho => hno o (List.mem_cons_of_mem _ ho)
    cases op with
    | push prio len abort =>
      obtain ⟨q1, res, g1, g2, g3, g4, g5, g6⟩ := push_ok q hq prio len abort
      have hlt : ¬ q.next ≥ u64Max := by omega
      have hn1 : q1.next = q.next + 1 := by rw [g5]; simp only [bumpNext]; rw [if_neg hlt]
      have hw1 : q1.wrapped = false := by rw [g6]; simp [bumpNext, hw, hlt]
      have hrun : q1.run ops = some q' := by
        simp only [run, g1] at h
        cases res with
        | ok v => exact h
        | error e =>
          cases e with
          | panic w => exact absurd rfl (g3 w)
          | resourceExhausted => exact h
          | closure => exact h
      exact ih q1 q' g2 hw1 (by omega) (by omega) hno' hrun
    | reset =>
      simp only [run] at h
      exact ih q.reset q' (qinv_reset q) rfl (Nat.le_refl _) (by show 1 + ops.length ≤ u64Max; omega) hno' h
    | load v => exact absurd rfl (hno _ (List.mem_cons_self) v)

end Queue
end Chunk
