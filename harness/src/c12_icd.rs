//! C12, Check-In wire stream (`C <d0> <epoch> <init>`): the REAL `Icd::send_check_in`.
//!
//! One case = one lifetime of a device's storage. The device is a real `Matter` object (fabric
//! re-hydrated by `Matter::startup` from the recording KV store) + a real `Icd` with one registered
//! client that has no subscription, so every `send_check_in` nudges it:
//! `next()` -> `CheckIn::send_to` (mDNS resolve -- the harness plays the responder through the public
//! responder API `wait_mdns_resolve_request` / `try_deposit_mdns_resolve` -- then
//! `Exchange::initiate_plaintext` + `send(OpCode::CheckIn)`) -> `advance_counter` (store when an epoch
//! boundary is crossed). The counter that reached the WIRE is obtained by decrypting the Check-In
//! payload of the datagram handed to the network with the client's key (`CheckIn::parse`).
//!
//! ops (the application protocol is that of `tests/src/bin/system_tests.rs`: load, then persist)
//!   `boot <init>`            power loss + restart: `Icd::new(CheckInCounter::new(init, epoch))`,
//!                            `register`, `load_counter`. out: `<next counter>`
//!   `persist`                `persist_counter`. out: `<stored>`
//!   `checkin`                `send_check_in`. out: `<counter on the wire> <stored (joined by +)|-> ok|err:<Code>`
//!   `checkincrash b|a <init>` `send_check_in` with a power loss right before / after the store of
//!                            `advance_counter` (if it stores nothing it completes, then the power loss);
//!                            then restart as `boot <init>`. out: `<counter> <stored|-> died|done <next>`
//!   `jump <d>`               `invalidate_counter(d)`. out: `y|-`
//!   `checkinfail <n>`        `send_check_in` during which the first `n` stores succeed and every later
//!                            one FAILS (error, no power loss). The oracle stays on. out: as `checkin`
//!                            (`wire:0:` when nothing was sent)
use core::net::{IpAddr, Ipv6Addr};
use core::num::NonZeroU8;
use core::pin::pin;
use std::cell::RefCell;
use std::panic::{catch_unwind, AssertUnwindSafe};

use embassy_futures::select::{select3, Either3};

use rs_matter::crypto::{test_only_crypto, CanonAeadKey, AEAD_CANON_KEY_LEN};
use rs_matter::dm::clusters::icd_mgmt::{ClientTypeEnum, Icd, MonitoringRegistration};
use rs_matter::dm::devices::test::{TEST_DEV_ATT, TEST_DEV_COMM, TEST_DEV_DET};
use rs_matter::error::Error;
use rs_matter::im::subscriptions::Subscriptions;
use rs_matter::persist::ICD_CHECK_IN_COUNTER_KEY;
use rs_matter::sc::checkin::{CheckIn, CheckInCounter};
use rs_matter::transport::network::mdns::{DottedName, MdnsRemoteService};
use rs_matter::transport::network::NoNetwork;
use rs_matter::Matter;

use super::wire::{template, KvRef, RecSock};
use super::{icd_mode, le32, parse_d0, MemKv};
use crate::proto::{Case, Out};
use crate::simnet::{run_sim, Perfect, SimEnd, SimNet};

const CLIENT_NODE: u64 = 0x1234_5678;
const CLIENT_KEY: [u8; AEAD_CANON_KEY_LEN] = [0x42; AEAD_CANON_KEY_LEN];

fn client_key() -> CanonAeadKey {
    let mut k = CanonAeadKey::new();
    k.load_from_array(&CLIENT_KEY);
    k
}

/// Secure Channel `CheckIn` datagrams: returns the decrypted Check-In counters.
/// plain header: flags(1) session(2) security flags(1) counter(4) [source node id(8)] [destination 8 | 2];
/// protocol header: exchange flags(1) opcode(1) exchange id(2) protocol id(2) [vendor(2)] [ack counter(4)]
fn checkin_counters(dgrams: &[Vec<u8>]) -> Vec<String> {
    let crypto = test_only_crypto();
    let key = client_key();
    let mut out = Vec::new();
    for d in dgrams {
        if d.len() < 8 || d[1] != 0 || d[2] != 0 || d[3] & 0x01 != 0 {
            continue; // not an unsecured-session message
        }
        let mut p = 8usize;
        if d[0] & 0x04 != 0 {
            p += 8;
        }
        match d[0] & 0x03 {
            1 => p += 8,
            2 => p += 2,
            _ => {}
        }
        if d.len() < p + 6 {
            continue;
        }
        let xf = d[p];
        let opcode = d[p + 1];
        let proto = u16::from_le_bytes([d[p + 4], d[p + 5]]);
        if opcode != 0x50 || proto != 0 {
            continue;
        }
        p += 6;
        if xf & 0x10 != 0 {
            p += 2;
        }
        if xf & 0x02 != 0 {
            p += 4;
        }
        if d.len() < p {
            continue;
        }
        let mut payload = d[p..].to_vec();
        match CheckIn::new(key.reference()).parse(&crypto, &mut payload) {
            Ok(ci) => out.push(ci.counter.to_string()),
            Err(_) => out.push("undecryptable".into()),
        }
    }
    out
}

fn drain_icd_stores(kvc: &RefCell<MemKv>) -> String {
    let log: Vec<(u16, Vec<u8>)> = std::mem::take(&mut kvc.borrow_mut().log);
    let toks: Vec<String> = log
        .iter()
        .map(|(k, d)| if *k == ICD_CHECK_IN_COUNTER_KEY { le32(d) } else { format!("?{}", k) })
        .collect();
    match toks.len() {
        0 => "-".into(),
        1 => toks[0].clone(),
        _ => toks.join("+"),
    }
}

/// one real `send_check_in`; returns (Check-In counters seen on the wire, how it ended)
#[allow(clippy::too_many_arguments)]
fn do_checkin<R: core::future::Future, C: rs_matter::crypto::Crypto>(
    runner: &mut core::pin::Pin<&mut R>,
    net: &SimNet,
    matter: &Matter<'_>,
    icd: &Icd,
    subs: &Subscriptions<4>,
    sock: &RecSock,
    kvc: &RefCell<MemKv>,
    crypto: &C,
    peer: Ipv6Addr,
) -> (Vec<String>, String) {
    let before = sock.log.borrow().len();
    let mut buf = [0u8; 256];
    let responder = async {
        loop {
            let svc = matter.transport().wait_mdns_resolve_request().await;
            let mut name = heapless::String::<128>::new();
            svc.instance_name(&mut name);
            let answer = MdnsRemoteService {
                instance_name: DottedName(name.as_str()),
                port: Some(5540),
                addrs: [IpAddr::V6(peer)].into_iter(),
                txt: core::iter::empty::<(&str, &str)>(),
                scope_id: 0,
            };
            matter.transport().try_deposit_mdns_resolve(&answer, &[]);
        }
    };
    let fut = icd.send_check_in(matter, crypto, subs, KvRef(kvc), &mut buf);
    let r = catch_unwind(AssertUnwindSafe(|| {
        let all = pin!(select3(runner.as_mut(), responder, fut));
        match run_sim(net, all, 20_000) {
            SimEnd::Done(Either3::Third(r)) => match r {
                Ok(()) => "ok".to_string(),
                Err(e) => format!("err:{:?}", e.code()),
            },
            SimEnd::Done(_) => "runner-ended".into(),
            SimEnd::Timeout => "hang".into(),
        }
    }));
    let how = r.unwrap_or_else(|_| "died".into());
    // `send_check_in` hands the message to the transport BEFORE it advances (and stores) the
    // counter, but the transport puts it on the wire only when it runs next: let it run, also
    // after a power loss inside the store (the datagram may well have left before the power
    // went; the value then counts as used)
    let _ = catch_unwind(AssertUnwindSafe(|| {
        let _ = run_sim(net, runner.as_mut(), 20);
    }));
    let dgrams: Vec<Vec<u8>> = sock.log.borrow()[before..].iter().map(|(b, _)| b.clone()).collect();
    (checkin_counters(&dgrams), how)
}

enum Next {
    End,
    /// power loss: the op at this index is completed after the restart (prefix, init of the restart)
    Crash(usize, String, u32),
}

pub(super) fn run_c(out: &mut Out, case: &Case, words: &[&str]) {
    embassy_time::MockDriver::get().reset();
    let kvc = RefCell::new(MemKv::default());
    for (k, v) in template() {
        kvc.borrow_mut().map.insert(k, v);
    }
    if let Some(d) = parse_d0(words.get(1).copied()) {
        kvc.borrow_mut().map.insert(ICD_CHECK_IN_COUNTER_KEY, (d as u32).to_le_bytes().to_vec());
    }
    let epoch: u32 = words.get(2).and_then(|x| x.parse().ok()).unwrap_or(10).max(1);
    let mut init: u32 = words.get(3).and_then(|x| x.parse().ok()).unwrap_or(0);
    let net = SimNet::new(1, Box::new(Perfect));
    let fab_idx = NonZeroU8::new(1).unwrap();
    let peer = Ipv6Addr::new(0xfd00, 0, 0, 0, 0, 0, 0, 0x99);
    let (mut n_crash, mut n_use, mut n_store) = (0u32, 0u32, 0u32);
    let mut start = 0usize;
    let mut carried: Option<String> = None;
    loop {
        {
            let mut kv = kvc.borrow_mut();
            kv.die_after_store = false;
            kv.die_before_store = false;
            kv.fail_after = None;
            kv.log.clear();
        }
        let matter = Box::new(Matter::new(&TEST_DEV_DET, TEST_DEV_COMM, &TEST_DEV_ATT, 0));
        let _ = catch_unwind(AssertUnwindSafe(|| matter.startup(matter.kv(KvRef(&kvc)))));
        let icd = Icd::new(CheckInCounter::new(init, epoch), icd_mode());
        let _ = icd.register(MonitoringRegistration {
            fab_idx,
            check_in_node_id: CLIENT_NODE,
            monitored_subject: CLIENT_NODE,
            client_type: ClientTypeEnum::Permanent,
            key: client_key(),
        });
        {
            let mut buf = [0u8; 64];
            let _ = icd.load_counter(KvRef(&kvc), epoch, &mut buf);
        }
        if let Some(prefix) = carried.take() {
            out.op(&case.ops[start - 1], &format!("{}{}", prefix, icd.next_counter()));
        }
        let subs: Subscriptions<4> = Subscriptions::new();
        let sock = RecSock::default();
        let crypto = test_only_crypto();
        let mut runner = pin!(matter.run(&crypto, &sock, &sock, NoNetwork));
        let mut next = Next::End;
        for (idx, op) in case.ops.iter().enumerate().skip(start) {
            let w: Vec<&str> = op.split_whitespace().collect();
            let num = |i: usize| -> u32 { w.get(i).and_then(|x| x.parse().ok()).unwrap_or(0) };
            let mut buf = [0u8; 64];
            let res: String = match w.first().copied().unwrap_or("") {
                "boot" => {
                    n_crash += 1;
                    init = num(1);
                    next = Next::Crash(idx, String::new(), init);
                    break;
                }
                "persist" => {
                    let _ = icd.persist_counter(KvRef(&kvc), &mut buf);
                    n_store += 1;
                    drain_icd_stores(&kvc)
                }
                // out: `<counter | wire:<n>:<list>> <stores joined by + | -> <ok | err:Code | ...>`
                "checkin" | "checkinfail" => {
                    // `checkinfail <n>`: the first `n` stores of this call succeed, every later one FAILS
                    // (an error, no power loss)
                    let failing = w[0] == "checkinfail";
                    if failing {
                        kvc.borrow_mut().fail_after = Some(num(1));
                    }
                    let (all, how) = do_checkin(&mut runner, &net, &matter, &icd, &subs, &sock, &kvc, &crypto, peer);
                    kvc.borrow_mut().fail_after = None;
                    let stored = drain_icd_stores(&kvc);
                    if stored != "-" {
                        n_store += 1;
                    }
                    out.stat(&format!("c_{}_{}", w[0], how.replace(':', "_")), 1);
                    if all.len() == 1 {
                        n_use += 1;
                        format!("{} {} {}", all[0], stored, how)
                    } else {
                        format!("wire:{}:{} {} {}", all.len(), all.join(","), stored, how)
                    }
                }
                "checkincrash" => {
                    let after = w.get(1).copied() == Some("a");
                    {
                        let mut kv = kvc.borrow_mut();
                        kv.die_after_store = after;
                        kv.die_before_store = !after;
                    }
                    let (ctrs, how) = do_checkin(&mut runner, &net, &matter, &icd, &subs, &sock, &kvc, &crypto, peer);
                    let stored = drain_icd_stores(&kvc);
                    if stored != "-" {
                        n_store += 1;
                    }
                    let how = if how == "ok" { "done".to_string() } else { how };
                    out.stat(&format!("c_checkincrash_{}_{}", if after { "after" } else { "before" }, how.replace(':', "_")), 1);
                    n_crash += 1;
                    let head = if ctrs.len() == 1 {
                        n_use += 1;
                        ctrs[0].clone()
                    } else {
                        format!("wire:{}:{}", ctrs.len(), ctrs.join(","))
                    };
                    init = num(2);
                    next = Next::Crash(idx, format!("{} {} {} ", head, stored, how), init);
                    break;
                }
                "jump" => {
                    if icd.invalidate_counter(num(1)) {
                        "y".into()
                    } else {
                        "-".into()
                    }
                }
                _ => "badop".into(),
            };
            out.op(op, &res);
        }
        match next {
            Next::End => break,
            Next::Crash(idx, prefix, i) => {
                start = idx + 1;
                init = i;
                carried = Some(prefix);
            }
        }
    }
    if n_crash >= 1 && n_use >= 2 && n_store >= 1 {
        out.buf.push_str("#nt\n");
    }
}
