import RsMatterVerif.Lemmas.Chunk
/-!
# C14 — a chunked answer carries the complete result exactly once

Theorems over `Model/Chunk.lean` (the chunking algorithm of `ReportDataResponder`, attribute
section, repaired code: the array end is written from a structural reserve).

Under `Fits` (every report the algorithm may have to place in an empty message fits one — stated,
decidable) and a sane configuration `Cfg.WF`:
* `concat_eq_items`: the reports of all chunks, concatenated, are the reports of the selected items —
  each item once, in request order, a list either whole or as "empty list + one append per element";
  `reassemble_allPieces`: they reassemble to the original items (lists with all their elements in
  order) — reports are never divided, so lists are split only at element boundaries;
* `each_chunk_bounded`, `chunk_size_accounts`: every message is at most `cap` long and its length is
  header + array start + its reports + trailer;
* `only_last_ends`: MoreChunkedMessages is set on all messages but the last;
* `progress`: every message except possibly the last carries at least one report (the last one is
  empty only when the header of the end-of-list probe did not fit the previous message), so the
  number of messages is bounded by the number of reports + 1: `chunk_count_bounded`; `fits_ok`: the
  algorithm ends with an answer (no `NoSpace`, no endless loop).
Without `Fits`: `oversize_item_loops` (the retry loop of the code never ends — it keeps sending
empty chunks), hence `C14_full_fails`.
The defect of the unrepaired code: `exact_fit_fails_before_fix`.
-/
namespace C14
open Chunk

/-- what a well-behaved answer `cs` to `items` looks like -/
structure Good (c : Cfg) (items : List Item) (cs : List ChunkOut) : Prop where
  /-- complete, exactly once, in order -/
  content : ∃ splits, splits.length = items.length ∧ cs.flatMap (·.pieces) = allPieces items splits
  /-- fits the transport's maximum size -/
  bounded : ∀ ch ∈ cs, ch.size ≤ c.cap
  /-- only the last message ends the interaction -/
  lastEnds : ∃ front last, cs = front ++ [last] ∧ last.more = false ∧ ∀ ch ∈ front, ch.more = true
  /-- every message but the last carries at least one report -/
  progress : ∀ ch ∈ cs.dropLast, ch.pieces ≠ []

/-- an `ok` result comes from a final state satisfying the invariant -/
theorem chunks_ok_shape {c : Cfg} {items : List Item} {cs : List ChunkOut} (hw : c.WF)
    (h : chunks c items = .ok cs) :
    ∃ s, putItems c items (St.init c) = .ok s ∧ Inv c s ∧
      cs = ({ pieces := s.cur.reverse, size := s.used + c.close + c.trailerDone, more := false } :: s.done).reverse := by
  unfold chunks at h
  cases hp : putItems c items (St.init c) with
  | error err => rw [hp] at h; simp at h
  | ok s =>
    rw [hp] at h
    simp only [finish] at h
    split at h
    · injection h with h
      exact ⟨s, rfl, (putItems_ok hw items _ s (inv_init c hw) hp).1, h.symm⟩
    · simp at h

theorem concat_eq_items {c : Cfg} {items : List Item} {cs : List ChunkOut} (hw : c.WF)
    (h : chunks c items = .ok cs) :
    ∃ splits, splits.length = items.length ∧ cs.flatMap (·.pieces) = allPieces items splits := by
  obtain ⟨s, hp, _, rfl⟩ := chunks_ok_shape hw h
  obtain ⟨_, splits, hl, hf⟩ := putItems_ok hw items _ s (inv_init c hw) hp
  refine ⟨splits, hl, ?_⟩
  have : (St.init c).flat = [] := by simp [St.flat, St.init]
  rw [this, List.nil_append] at hf
  rw [← hf]
  simp [St.flat, List.flatMap_append]

theorem each_chunk_bounded {c : Cfg} {items : List Item} {cs : List ChunkOut} (hw : c.WF)
    (h : chunks c items = .ok cs) : ∀ ch ∈ cs, ch.size ≤ c.cap := by
  have hok := h
  obtain ⟨s, hp, hinv, rfl⟩ := chunks_ok_shape hw h
  intro ch hch
  simp only [List.mem_reverse, List.mem_cons] at hch
  rcases hch with rfl | hch
  · simp only
    have h1 := hinv.usedLe
    have h2 := hw.trailerDone
    have h3 := limit_le c hw
    omega
  · exact (hinv.doneOk ch hch).2.1

/-- the length of every message is header + array start + its reports + its trailer -/
theorem chunk_size_accounts {c : Cfg} {items : List Item} {cs : List ChunkOut} (hw : c.WF)
    (h : chunks c items = .ok cs) : ∀ ch ∈ cs,
    ch.size = c.hdr + c.arrOpen + sumSizes ch.pieces +
      (if ch.more then c.trailerMore else c.close + c.trailerDone) := by
  obtain ⟨s, hp, hinv, rfl⟩ := chunks_ok_shape hw h
  intro ch hch
  simp only [List.mem_reverse, List.mem_cons] at hch
  rcases hch with rfl | hch
  · simp only [sumSizes_reverse]
    have := hinv.usedEq
    simp; omega
  · obtain ⟨h1, _, h3⟩ := hinv.doneOk ch hch
    rw [h3, h1]; simp

theorem only_last_ends {c : Cfg} {items : List Item} {cs : List ChunkOut} (hw : c.WF)
    (h : chunks c items = .ok cs) :
    ∃ front last, cs = front ++ [last] ∧ last.more = false ∧ ∀ ch ∈ front, ch.more = true := by
  obtain ⟨s, hp, hinv, rfl⟩ := chunks_ok_shape hw h
  refine ⟨s.done.reverse, { pieces := s.cur.reverse, size := s.used + c.close + c.trailerDone, more := false },
    by simp, rfl, ?_⟩
  intro ch hch
  exact (hinv.doneOk ch (List.mem_reverse.mp hch)).1

theorem progress {c : Cfg} {items : List Item} {cs : List ChunkOut} (hw : c.WF)
    (h : chunks c items = .ok cs) : ∀ ch ∈ cs.dropLast, ch.pieces ≠ [] := by
  obtain ⟨s, hp, hinv, rfl⟩ := chunks_ok_shape hw h
  intro ch hch
  simp only [List.reverse_cons, List.dropLast_concat] at hch
  exact hinv.doneNonempty ch (List.mem_reverse.mp hch)

/-- **Under `Fits` the algorithm ends with an answer** (no `NoSpace`, no endless loop) -/
theorem fits_ok {c : Cfg} {items : List Item} (hw : c.WF) (hs : c.close ≤ c.structReserve)
    (hf : Fits c items) : ∃ cs, chunks c items = .ok cs := by
  obtain ⟨s, hp⟩ := putItems_fits items (St.init c) hf
  have hinv := (putItems_ok hw items _ s (inv_init c hw) hp).1
  unfold chunks
  rw [hp]
  simp only [finish]
  have := hinv.usedLe
  rw [if_pos (by omega)]
  exact ⟨_, rfl⟩

/-- **C14 on the model, under `Fits`** -/
theorem C14_partial {c : Cfg} {items : List Item} (hw : c.WF) (hs : c.close ≤ c.structReserve)
    (hf : Fits c items) : ∃ cs, chunks c items = .ok cs ∧ Good c items cs := by
  obtain ⟨cs, h⟩ := fits_ok hw hs hf
  exact ⟨cs, h, ⟨concat_eq_items hw h, each_chunk_bounded hw h, only_last_ends hw h, progress hw h⟩⟩

/-- the configuration of a read over UDP with the repaired code -/
def readCfg : Cfg :=
  { cap := 1178, reserve := Consts.longReadsReserve, structReserve := Consts.longReadsStructReserve,
    hdr := 1, arrOpen := 2, close := 1, trailerMore := 7, trailerDone := 6 }

theorem readCfg_wf : readCfg.WF := by
  refine ⟨?_, ?_, ?_, ?_⟩ <;> decide

example : readCfg.WF ∧ readCfg.close ≤ readCfg.structReserve ∧
    Fits readCfg [.scalar 0 1147, .list 16 2000 26 [128, 128, 1147] 23] :=
  ⟨readCfg_wf, by decide, by intro it hit; simp at hit; rcases hit with rfl | rfl <;> decide⟩

set_option maxRecDepth 8000 in
/-- an item that fills the message exactly is chunked, not failed -/
example : chunks readCfg [.scalar 0 500, .scalar 1 647] =
    .ok [{ pieces := [.scalar 0 500, .scalar 1 647], size := 1157, more := false }] := by rfl

set_option maxRecDepth 8000 in
example : chunks readCfg [.scalar 0 500, .scalar 1 648] =
    .ok [{ pieces := [.scalar 0 500], size := 510, more := true },
         { pieces := [.scalar 1 648], size := 658, more := false }] := by rfl

/-! ## reassembly: lists come back complete and in order -/

/-- the content of an item: its id and, for a list, its elements -/
def content : Item → Nat × Option (List Nat)
  | .scalar id _ => (id, none)
  | .list id _ _ elems _ => (id, some elems)

/-- the element reports at the head of a stream that append to list `id` -/
def takeElems (id : Nat) : List Piece → List Nat × List Piece
  | .listElem id' _ sz :: rest =>
    if id' = id then ((takeElems id rest).1 |> (sz :: ·), (takeElems id rest).2)
    else ([], .listElem id' 0 sz :: rest)
  | rest => ([], rest)

theorem takeElems_length (id : Nat) : ∀ ps : List Piece, (takeElems id ps).2.length ≤ ps.length := by
  intro ps
  induction ps with
  | nil => simp [takeElems]
  | cons p ps ih =>
    cases p with
    | listElem id' k sz =>
      simp only [takeElems]
      split
      · simp; omega
      · simp
    | scalar _ _ => simp [takeElems]
    | wholeList _ _ _ => simp [takeElems]
    | listStart _ _ => simp [takeElems]

/-- what a client reconstructs from the stream of reports -/
def reassemble : List Piece → List (Nat × Option (List Nat))
  | [] => []
  | .scalar id _ :: rest => (id, none) :: reassemble rest
  | .wholeList id _ elems :: rest => (id, some elems) :: reassemble rest
  | .listStart id _ :: rest =>
    have := takeElems_length id rest
    (id, some (takeElems id rest).1) :: reassemble (takeElems id rest).2
  | .listElem _ _ _ :: rest => reassemble rest
termination_by ps => ps.length
decreasing_by all_goals simp_wf <;> omega

/-- a stream that does not begin with an element report -/
def NoElemHead : List Piece → Prop
  | .listElem _ _ _ :: _ => False
  | _ => True

theorem takeElems_elemPieces (id : Nat) : ∀ (es : List Nat) (k : Nat) (rest : List Piece),
    NoElemHead rest → takeElems id (elemPieces id k es ++ rest) = (es, rest) := by
  intro es
  induction es with
  | nil =>
    intro k rest hr
    simp only [elemPieces, List.zipIdx_nil, List.map_nil, List.nil_append]
    cases rest with
    | nil => simp [takeElems]
    | cons p ps =>
      cases p with
      | listElem _ _ _ => simp [NoElemHead] at hr
      | scalar _ _ => simp [takeElems]
      | wholeList _ _ _ => simp [takeElems]
      | listStart _ _ => simp [takeElems]
  | cons e es ih =>
    intro k rest hr
    rw [elemPieces_cons]
    simp only [List.cons_append, takeElems, if_true]
    rw [ih (k + 1) rest hr]

theorem noElemHead_allPieces : ∀ (its : List Item) (bs : List Bool), NoElemHead (allPieces its bs) := by
  intro its
  cases its with
  | nil => intro bs; simp [allPieces, NoElemHead]
  | cons it its =>
    intro bs
    cases bs with
    | nil => cases it <;> simp [allPieces, Item.pieces, NoElemHead]
    | cons b bs =>
      cases it with
      | scalar _ _ => simp [allPieces, Item.pieces, NoElemHead]
      | list _ _ _ _ _ => cases b <;> simp [allPieces, Item.pieces, NoElemHead]

/-- **Reassembly**: whatever the whole/streamed choices, the stream of reports reassembles to the
selected items, each once, in order, lists with all their elements in order. -/
theorem reassemble_allPieces : ∀ (its : List Item) (bs : List Bool),
    reassemble (allPieces its bs) = its.map content := by
  intro its
  induction its with
  | nil => intro bs; simp [allPieces, reassemble]
  | cons it its ih =>
    intro bs
    have key : ∀ (b : Bool) (rest : List Piece), NoElemHead rest →
        reassemble (it.pieces b ++ rest) = content it :: reassemble rest := by
      intro b rest hr
      cases it with
      | scalar id sz => simp [Item.pieces, reassemble, content]
      | list id whole empty elems probe =>
        cases b with
        | false => simp [Item.pieces, reassemble, content]
        | true =>
          rw [pieces_split_eq]
          simp only [List.cons_append, reassemble, content]
          rw [takeElems_elemPieces id elems 0 rest hr]
    cases bs with
    | nil =>
      simp only [allPieces, List.map_cons]
      rw [key false _ (noElemHead_allPieces its []), ih []]
    | cons b bs =>
      simp only [allPieces, List.map_cons]
      rw [key b _ (noElemHead_allPieces its bs), ih bs]

/-- the client's view of a chunked answer is exactly the selected items -/
theorem reassembled_answer {c : Cfg} {items : List Item} {cs : List ChunkOut} (hw : c.WF)
    (h : chunks c items = .ok cs) : reassemble (cs.flatMap (·.pieces)) = items.map content := by
  obtain ⟨splits, _, hf⟩ := concat_eq_items hw h
  rw [hf, reassemble_allPieces]

/-! ## termination bound -/

theorem length_le_flatMap_of_nonempty : ∀ (cs : List ChunkOut), (∀ ch ∈ cs, ch.pieces ≠ []) →
    cs.length ≤ (cs.flatMap (·.pieces)).length := by
  intro cs
  induction cs with
  | nil => intro _; simp
  | cons ch cs ih =>
    intro h
    have h1 : 0 < ch.pieces.length := List.length_pos_iff.mpr (h ch (by simp))
    have h2 := ih (fun x hx => h x (by simp [hx]))
    simp only [List.flatMap_cons, List.length_append, List.length_cons]
    omega

/-- the number of messages is at most the number of reports plus one -/
theorem chunk_count_bounded {c : Cfg} {items : List Item} {cs : List ChunkOut} (hw : c.WF)
    (h : chunks c items = .ok cs) : cs.length ≤ (cs.flatMap (·.pieces)).length + 1 := by
  have hp := progress hw h
  obtain ⟨front, last, rfl, _, _⟩ := only_last_ends hw h
  simp only [List.dropLast_concat] at hp
  have := length_le_flatMap_of_nonempty front hp
  simp only [List.length_append, List.length_singleton, List.flatMap_append]
  omega

/-! ## outside `Fits`, and the defect of the unrepaired code -/

/-- a report that does not fit an empty message: the retry loop of the code never ends (the model
reports `loops`; the implementation keeps sending empty chunks) -/
theorem oversize_item_loops {c : Cfg} (hw : c.WF) (id sz : Nat)
    (h : c.limit < c.hdr + c.arrOpen + sz) : chunks c [.scalar id sz] = .error .loops := by
  have hp := put_oversize (inv_init c hw) (.scalar id sz) (by simpa [Piece.size] using h)
  simp only [chunks, putItems, putItem, hp]

/-- **Full statement** (for every combination of value sizes): refuted by `oversize_item_loops` -/
def C14_full : Prop :=
  ∀ (c : Cfg) (items : List Item), c.WF → c.close ≤ c.structReserve →
    ∃ cs, chunks c items = .ok cs ∧ Good c items cs

theorem C14_full_fails : ¬ C14_full := by
  intro h
  obtain ⟨cs, hc, _⟩ := h readCfg [.scalar 0 1148] readCfg_wf (by decide)
  have : chunks readCfg [.scalar 0 1148] = .error .loops :=
    oversize_item_loops readCfg_wf 0 1148 (by decide)
  rw [this] at hc
  cases hc

/-- the configuration before `fix: long reads: … structural reserve` -/
def oldCfg : Cfg := { readCfg with structReserve := 0 }

set_option maxRecDepth 8000 in
/-- **Defect of the unrepaired code**: a value that fills the message exactly (it fits an empty
message: `Fits` holds) made the array end fail with `NoSpace` — the whole read failed instead of
being answered; the repaired configuration answers it. -/
theorem exact_fit_fails_before_fix :
    oldCfg.WF ∧ Fits oldCfg [.scalar 0 1151] ∧ chunks oldCfg [.scalar 0 1151] = .error .noSpace ∧
    chunks readCfg [.scalar 0 1147] = .ok [{ pieces := [.scalar 0 1147], size := 1157, more := false }] := by
  refine ⟨⟨?_, ?_, ?_, ?_⟩, ?_, ?_, ?_⟩
  · decide
  · decide
  · decide
  · decide
  · intro it hit; simp at hit; subst hit; decide
  · rfl
  · rfl

end C14
