//! C01: CASE admits only holders of a valid NOC of the addressed fabric.
//!
//! Two REAL `Matter` nodes (controller = CASE initiator via `CaseInitiator::perform`, device =
//! `SecureChannel` responder) run in-process over the simulated network (`simnet`) on virtual time.
//! Fabrics are installed with `Fabrics::add` from certificates minted out of the same symbolic
//! records the Lean model consumes (`c19::Rec`), so a node can be given a chain that is invalid in
//! one respect. One operation = one handshake:
//!
//!   `hs root=<rec> cnoc=<rec> cicac=<rec|-> dnoc=<rec> dicac=<rec|-> [droot=<rec>] [mut=<M>] [sched=<S>]`
//!       fresh nodes, fabric id = the one of `dnoc`; `droot` = root installed on the device if it
//!       differs from the controller's (`root`); `ckey=<k>` / `dkey=<k>`: the node signs with pool key
//!       `k` instead of the key its NOC certifies.
//!       `cpnoc=<rec> cpicac=<rec|->` / `dpnoc= dpicac=`: the node is installed as above (identity, destination id)
//!       but PRESENTS these certificates in the handshake and signs with their key (hook `Fabric::verif_present_certs`):
//!       a dishonest peer answering for one fabric / node with the credentials of another.
//!   `again [mut=<M>] [sched=<S>]`   another handshake between the same two nodes (resumption
//!       is offered when the previous one seeded the caches)
//!
//! `mut=<msg>:<kind>:<a>[:<b>]` rewrites the FIRST datagram carrying that handshake message
//! (`s1 s2 s3 r2` = Sigma2_Resume, `st` = status report):
//!   `f:<tag>:<bit>` flip one bit inside top-level TLV field `<tag>` of the payload,
//!   `p:<bit>` flip one bit anywhere in the payload, `h:<bit>` one bit in the message headers,
//!   `t:<n>` truncate the payload to `n mod len` bytes,
//!   `r` replace the payload by the payload of the same message type of the previous handshake,
//!   `S` (status report) replace the payload by a SUCCESS report (the final report travels unauthenticated),
//!   `x:<tag>` substitute field `<tag>` by its value in the previous handshake.
//! `sched=` verdict per datagram in send order: `d` deliver, `x` drop, `u` duplicate, `l<ms>` delay.
//!
//!   `fab2 root=<rec> cnoc=<rec> cicac=<rec|-> dnoc=<rec> dicac=<rec|->`   BOTH nodes join a second fabric (index 2)
//!   `again fab=<1|2>` runs the handshake on that fabric of the controller (default 1). Mutations that put one VALID value
//!       in the place of another (what a member of both fabrics, or colluding members, can do): `d:<k>` the destination id
//!       is recomputed, for the random of this Sigma1, for the device's node on fabric `k`; `q` the resumption id is replaced
//!       by that of the device's record of the OTHER fabric (MIC unchanged); `e:<k>` both.
//!       `race=<k>`: the RemoveFabric state changes run on the device at the k-th scheduling round after the initiator's
//!       final status report went onto the wire (k=1: before the responder sees it, k>=2: right after it finished).
//!       `gap=<r2|s2>`: the same state changes run on the device right after its FIRST `Sigma2_Resume` (`r2`) / `Sigma2`
//!       (`s2`) went onto the wire, i.e. while the responder waits for the acknowledgement inside `send_with` — between
//!       the `Resume1MIC` check and the fabric look-up of `try_handle_sigma1_resume`, resp. between Sigma2 and the
//!       fabric re-read of `handle_casesigma3`. The outcome carries the word `gapped` when the removal ran.
//!       `gap=i`: the state changes run on the CONTROLLER (its fabric of this handshake) while its initiator waits for the
//!       acknowledgement of SigmaFinished (word `igapped`); the controller's fabric is gone afterwards - last op of a case.
//!       `gap=w`: the same state changes run as soon as the device holds a RESERVED session loaded with `Case { fab }` -
//!       `try_handle_sigma1_resume` is suspended between `update_with_state` and `session.complete()`, waiting for
//!       SigmaFinished. Needs a schedule under which Sigma2_Resume is acknowledged on its own (first SigmaFinished lost,
//!       the retransmitted Sigma2_Resume is answered with a stand-alone acknowledgement): `sched=ddx`.
//!   `rmfab`      the device removes its fabric the way the RemoveFabric handler does (`Fabrics::remove`,
//!                `Sessions::remove_for_fabric`, `ResumableSessions::remove_for_fabric`); `=> removed dc=<cache>`
//!   `addfab root=<rec> dnoc=<rec> dicac=<rec|-> [dkey=<k>]`   the device installs a fabric (it re-uses the index)
//!   `foreign`    two OTHER nodes (another fabric) run a handshake and a resumed one; the payloads of the
//!                resumed one are kept for `y`/`Y`/`z` mutations
//!   `cache <ops>`  differential test of the real `ResumableSessions` (see `cache_op`)
//! further mutation kinds: `y:<tag>` substitute field `<tag>` by its value in the foreign resumed handshake,
//! `Y` both resumption fields (6 and 7) from it, `z` the whole foreign payload.
//!
//! Output: `t=<l|r><secs> ctl=<S> dev=<S> keys=<agree|differ|na> init=<ok|err> via=<r|f|-> rid=<n|-> cc=<C> dc=<C>` with
//! `via`: a Sigma2_Resume (`r`) / Sigma2 (`f`) was sent; `rid`: the resumption id the DELIVERED Sigma1 carried;
//! `C` = the node's resumption cache after the operation, oldest first: `<fab>:<peer>:<cats>:<rid>:<secret>` joined
//! by `+` (`-` = empty); byte strings are named by small numbers in order of first appearance within the case.
//! `S = none | sess(fab=<idx>,peer=<node>,cats=<a.b|->,local=<node>)` — the CASE sessions that
//! became live (unreserved) during this operation, read from the session tables through the hook.
use std::cell::RefCell;
use std::rc::Rc;

use embassy_futures::select::{select, select3, Either, Either3};
use embassy_time::{Duration, Timer};

use rs_matter::crypto::{test_only_crypto, CanonAeadKeyRef, CanonPkcSecretKeyRef, Crypto};
use rs_matter::dm::devices::test::{TEST_DEV_ATT, TEST_DEV_COMM, TEST_DEV_DET};
use rs_matter::error::Error;
use rs_matter::respond::Responder;
use rs_matter::sc::case::CaseInitiator;
use rs_matter::sc::{OpCode, SecureChannel, PROTO_ID_SECURE_CHANNEL};
use rs_matter::tlv::TLVElement;
use rs_matter::transport::exchange::Exchange;
use rs_matter::transport::network::NoNetwork;
use rs_matter::transport::packet::PacketHdr;
use rs_matter::transport::session::SessionMode;
use rs_matter::utils::storage::ParseBuf;
use rs_matter::Matter;

use crate::c19::{defect_at, gen_records, kv, mint, Attr, Chain, GenP, Keys, Rec, IPK, N_DEFECTS};
use crate::proto::{parse_cases, Case, Out};
use crate::rng::Rng;
use crate::simnet::{addr_of, run_sim, Scripted, SimEnd, SimNet, Verdict};
use crate::Args;

#[derive(Clone, Debug, PartialEq)]
struct Sess {
    fab: u8,
    peer: u64,
    cats: Vec<u32>,
    local: u64,
    dec: [u8; 16],
    enc: [u8; 16],
    lsid: u16,
}

fn sessions(m: &Matter) -> Vec<Sess> {
    m.with_state(|st| {
        st.verif_sessions()
            .iter()
            .filter_map(|s| {
                let (reserved, local, dec, enc) = s.verif_view();
                match s.get_session_mode() {
                    SessionMode::Case { fab_idx, cat_ids } if !reserved => Some(Sess {
                        fab: fab_idx.get(),
                        peer: s.get_peer_node_id().unwrap_or(0),
                        cats: cat_ids.iter().copied().filter(|c| *c != 0).collect(),
                        local,
                        dec,
                        enc,
                        lsid: s.get_local_sess_id(),
                    }),
                    _ => None,
                }
            })
            .collect()
    })
}

fn fmt_sess(v: &[Sess]) -> String {
    if v.is_empty() {
        return "none".into();
    }
    v.iter()
        .map(|s| {
            let cats = if s.cats.is_empty() { "-".to_string() } else { s.cats.iter().map(|c| c.to_string()).collect::<Vec<_>>().join(".") };
            format!("sess(fab={},peer={},cats={},local={})", s.fab, s.peer, cats, s.local)
        })
        .collect::<Vec<_>>()
        .join("+")
}


/// byte strings (resumption ids, shared secrets) are reported as small numbers, in order of first appearance
#[derive(Default)]
struct Names(RefCell<Vec<Vec<u8>>>);

impl Names {
    fn name(&self, b: &[u8]) -> usize {
        let mut v = self.0.borrow_mut();
        if let Some(i) = v.iter().position(|x| x.as_slice() == b) {
            i
        } else {
            v.push(b.to_vec());
            v.len() - 1
        }
    }
}

fn fmt_cache(m: &Matter, names: &Names) -> String {
    let recs: Vec<String> = m.with_state(|st| {
        st.resumption
            .iter()
            .map(|r| {
                let cats: Vec<String> = r.peer_cat_ids.iter().filter(|c| **c != 0).map(|c| c.to_string()).collect();
                format!(
                    "{}:{}:{}:{}:{}",
                    r.fab_idx.get(),
                    r.peer_nodeid,
                    if cats.is_empty() { "-".to_string() } else { cats.join(".") },
                    names.name(r.resumption_id.reference().access()),
                    names.name(r.shared_secret.reference().access())
                )
            })
            .collect()
    });
    if recs.is_empty() {
        "-".into()
    } else {
        recs.join("+")
    }
}

/// which handshake message a datagram carries, and where its payload starts
fn classify(data: &[u8]) -> Option<(&'static str, usize)> {
    let mut copy = data.to_vec();
    let total = copy.len();
    let mut pb = ParseBuf::new(copy.as_mut_slice());
    let mut hdr = PacketHdr::new();
    if hdr.decode_plain_hdr(&mut pb).is_err() {
        return None;
    }
    if hdr.plain.sess_id != 0 {
        return None;
    }
    if hdr.decode_remaining(test_only_crypto(), None, 0, &mut pb).is_err() {
        return None;
    }
    if hdr.proto.proto_id != PROTO_ID_SECURE_CHANNEL {
        return None;
    }
    let off = total - pb.as_slice().len();
    let op = hdr.proto.proto_opcode;
    let name = if op == OpCode::CASESigma1 as u8 {
        "s1"
    } else if op == OpCode::CASESigma2 as u8 {
        "s2"
    } else if op == OpCode::CASESigma3 as u8 {
        "s3"
    } else if op == OpCode::CASESigma2Resume as u8 {
        "r2"
    } else if op == OpCode::StatusReport as u8 {
        "st"
    } else {
        return None;
    };
    Some((name, off))
}

/// byte range of the value of top-level context-tagged field `tag` inside a TLV struct payload
fn field_range(payload: &[u8], tag: u8) -> Option<(usize, usize)> {
    let el = TLVElement::new(payload);
    let f = el.structure().ok()?.find_ctx(tag).ok()?;
    let v = f.raw_value().ok()?;
    let start = (v.as_ptr() as usize).checked_sub(payload.as_ptr() as usize)?;
    if v.is_empty() || start + v.len() > payload.len() {
        return None;
    }
    Some((start, v.len()))
}

#[derive(Clone, Debug)]
struct Mutation {
    msg: String,
    kind: String,
    a: u64,
    b: u64,
}

fn parse_mut(s: &str) -> Option<Mutation> {
    let p: Vec<&str> = s.split(':').collect();
    if p.len() < 2 {
        return None;
    }
    Some(Mutation {
        msg: p[0].to_string(),
        kind: p[1].to_string(),
        a: p.get(2).and_then(|x| x.parse().ok()).unwrap_or(0),
        b: p.get(3).and_then(|x| x.parse().ok()).unwrap_or(0),
    })
}

fn parse_sched(s: &str) -> Vec<Verdict> {
    s.split('.')
        .filter(|x| !x.is_empty())
        .map(|x| match x.as_bytes()[0] {
            b'x' => Verdict::Drop,
            b'u' => Verdict::Dup,
            b'l' => Verdict::Delay(x[1..].parse().unwrap_or(50)),
            _ => Verdict::Deliver,
        })
        .collect()
}

/// payloads of the handshake messages of the previous handshake (for replay / substitution)
type Prev = Rc<RefCell<std::collections::HashMap<String, Vec<u8>>>>;

fn apply(m: &Mutation, data: &[u8], off: usize, prev: &std::collections::HashMap<String, Vec<u8>>, foreign: &std::collections::HashMap<String, Vec<u8>>, subst: &Subst) -> Option<Vec<u8>> {
    let mut out = data.to_vec();
    let plen = data.len() - off;
    match m.kind.as_str() {
        "f" => {
            let (s, l) = field_range(&data[off..], m.a as u8)?;
            let bit = (m.b as usize) % (l * 8);
            out[off + s + bit / 8] ^= 1 << (bit % 8);
        }
        "p" => {
            if plen == 0 {
                return None;
            }
            let bit = (m.a as usize) % (plen * 8);
            out[off + bit / 8] ^= 1 << (bit % 8);
        }
        "h" => {
            if off == 0 {
                return None;
            }
            let bit = (m.a as usize) % (off * 8);
            out[bit / 8] ^= 1 << (bit % 8);
        }
        "t" => {
            if plen == 0 {
                return None;
            }
            out.truncate(off + (m.a as usize) % plen);
        }
        "r" => {
            let old = prev.get(&m.msg)?;
            out.truncate(off);
            out.extend_from_slice(old);
        }
        "S" => {
            // a forged SUCCESS status report: GeneralCode 0, protocol id 0 (secure channel), SessionEstablishmentSuccess 0
            out.truncate(off);
            out.extend_from_slice(&[0u8; 8]);
        }
        "x" => {
            let old = prev.get(&m.msg)?;
            let (s, l) = field_range(&data[off..], m.a as u8)?;
            let (os, ol) = field_range(old, m.a as u8)?;
            if l != ol {
                return None;
            }
            out[off + s..off + s + l].copy_from_slice(&old[os..os + ol]);
        }
        "y" | "Y" => {
            // field(s) taken from the resumed handshake of two other nodes
            let old = foreign.get(&m.msg)?;
            let tags: Vec<u8> = if m.kind == "Y" { vec![6, 7] } else { vec![m.a as u8] };
            for tag in tags {
                let (s, l) = field_range(&data[off..], tag)?;
                let (os, ol) = field_range(old, tag)?;
                if l != ol {
                    return None;
                }
                out[off + s..off + s + l].copy_from_slice(&old[os..os + ol]);
            }
        }
        "d" | "q" | "e" => {
            if m.kind != "q" {
                // destination id of another fabric, for THIS Sigma1's random
                let (rs, rl) = field_range(&data[off..], 1)?;
                let (ds, dl) = field_range(&data[off..], 3)?;
                let nd = compute_dest(subst.dest.as_ref()?, &data[off + rs..off + rs + rl])?;
                if nd.len() != dl {
                    return None;
                }
                out[off + ds..off + ds + dl].copy_from_slice(&nd);
            }
            if m.kind != "d" {
                // resumption id of the device's record of the other fabric
                let (s6, l6) = field_range(&data[off..], 6)?;
                let rid = subst.other_rid.as_ref()?;
                if rid.len() != l6 {
                    return None;
                }
                out[off + s6..off + s6 + l6].copy_from_slice(rid);
            }
        }
        "z" => {
            let old = foreign.get(&m.msg)?;
            out.truncate(off);
            out.extend_from_slice(old);
        }
        _ => return None,
    }
    if out == data {
        None
    } else {
        Some(out)
    }
}

struct Nodes {
    ctl: Matter<'static>,
    dev: Matter<'static>,
    ctl_fab: core::num::NonZeroU8,
    dev_fab: std::cell::Cell<Option<core::num::NonZeroU8>>,
    dev_node: u64,
    /// second fabric: (controller's index, device's index, device's node id there)
    fab2: std::cell::Cell<Option<(core::num::NonZeroU8, core::num::NonZeroU8, u64)>>,
    prev: Prev,
    foreign: Prev,
    names: Rc<Names>,
}

/// what a member of a fabric needs to compute a destination id for a node of it
#[derive(Clone)]
struct DestInfo {
    key: [u8; 16],
    rootpk: Vec<u8>,
    fabric_id: u64,
    node: u64,
}

fn dest_info(m: &Matter, idx: core::num::NonZeroU8, node: u64) -> Option<DestInfo> {
    m.with_state(|st| {
        let f = st.fabrics.get(idx)?;
        let mut key = [0u8; 16];
        key.copy_from_slice(f.ipk().op_key().access());
        let rootpk = rs_matter::cert::CertRef::new(TLVElement::new(f.root_ca())).pubkey().ok()?.to_vec();
        Some(DestInfo { key, rootpk, fabric_id: f.fabric_id(), node })
    })
}

fn compute_dest(d: &DestInfo, random: &[u8]) -> Option<Vec<u8>> {
    use rs_matter::crypto::{Digest, Hash};
    let crypto = test_only_crypto();
    let mut mac = crypto.hmac(CanonAeadKeyRef::new(&d.key)).ok()?;
    mac.update(random).ok()?;
    mac.update(&d.rootpk).ok()?;
    mac.update(&d.fabric_id.to_le_bytes()).ok()?;
    mac.update(&d.node.to_le_bytes()).ok()?;
    let mut out = Hash::new();
    mac.finish(&mut out).ok()?;
    Some(out.access().to_vec())
}

/// valid-for-valid substitutions in Sigma1
#[derive(Clone, Default)]
struct Subst {
    dest: Option<DestInfo>,
    other_rid: Option<Vec<u8>>,
}

fn node_id(r: &Rec) -> Option<u64> {
    r.s.iter().find_map(|a| if let Attr::Node(v) = a { Some(*v) } else { None })
}

fn install<C: Crypto>(crypto: &C, keys: &Keys, m: &Matter, root: &Rec, noc: &Rec, icac: Option<&Rec>, op_key: Option<u64>) -> Result<core::num::NonZeroU8, String> {
    let rb = mint(crypto, keys, root).map_err(|_| "mint")?;
    let nb = mint(crypto, keys, noc).map_err(|_| "mint")?;
    let ib = match icac {
        Some(i) => mint(crypto, keys, i).map_err(|_| "mint")?,
        None => vec![],
    };
    // the node's operational secret key: the NOC's own unless the case says otherwise
    let sk = keys.key(op_key.unwrap_or(noc.pk)).sk;
    m.with_state(|st| {
        st.fabrics
            .add(crypto, CanonPkcSecretKeyRef::new(&sk), &rb, &nb, &ib, Some(CanonAeadKeyRef::new(&IPK)), 0xFFF1, 112233)
            .map(|f| f.fab_idx())
            .map_err(|e| format!("fabric:{:?}", e.code()))
    })
}

/// `crypto` lives as long as the case: `test_only_crypto()` seeds its generator identically on every call, so a
/// fresh instance per handshake would make every handshake draw the same "random" values
fn handshake<C: Crypto>(crypto: &C, n: &Nodes, mutation: Option<Mutation>, sched: Vec<Verdict>, fab: u8, race: u8, gap: Option<String>) -> String {
    // guard: a datagram storm (two nodes answering each other without end) must not take the
    // harness down; after `CAP` datagrams everything is dropped and the outcome says `storm`
    const CAP: u64 = 1500;
    struct Capped(Scripted);
    impl crate::simnet::Policy for Capped {
        fn decide(&mut self, f: usize, t: usize, b: &[u8], seq: u64) -> Verdict {
            if seq >= CAP {
                Verdict::Drop
            } else {
                self.0.decide(f, t, b, seq)
            }
        }
    }
    let net = SimNet::new(2, Box::new(Capped(Scripted(sched))));
    // which fabric of the controller runs this handshake, and towards which node id
    let (ctl_fab, dev_node) = match (fab, n.fab2.get()) {
        (2, Some((cf2, _, dn2))) => (cf2, dn2),
        _ => (n.ctl_fab, n.dev_node),
    };
    // material for valid-for-valid substitutions
    let mut subst = Subst::default();
    if let Some(m) = mutation.as_ref() {
        if matches!(m.kind.as_str(), "d" | "q" | "e") {
            let k = if m.kind == "q" { if fab == 2 { 1 } else { 2 } } else { m.a as u8 };
            let target = match (k, n.fab2.get()) {
                (2, Some((cf2, df2, dn2))) => Some((cf2, df2, dn2)),
                (1, _) => n.dev_fab.get().map(|df| (n.ctl_fab, df, n.dev_node)),
                _ => None,
            };
            if let Some((cf, df, dn)) = target {
                subst.dest = dest_info(&n.ctl, cf, dn);
                subst.other_rid = n.dev.with_state(|st| {
                    st.resumption.iter().find(|r| r.fab_idx == df).map(|r| r.resumption_id.reference().access().to_vec())
                });
            }
        }
    }
    let st_seen: Rc<std::cell::Cell<bool>> = Rc::new(std::cell::Cell::new(false));
    // `gap`: the named message of the DEVICE has gone onto the wire
    let gap_seen: Rc<std::cell::Cell<bool>> = Rc::new(std::cell::Cell::new(false));
    let ack_seen: Rc<std::cell::Cell<bool>> = Rc::new(std::cell::Cell::new(false));
    let seen: Rc<RefCell<std::collections::HashMap<String, Vec<u8>>>> = Rc::new(RefCell::new(Default::default()));
    // the first Sigma1 as DELIVERED (after the mutation, if any)
    let delivered_s1: Rc<RefCell<Option<Vec<u8>>>> = Rc::new(RefCell::new(None));
    {
        let seen = seen.clone();
        let prev = n.prev.clone();
        let foreign = n.foreign.clone();
        let delivered_s1 = delivered_s1.clone();
        let mut done = false;
        let st_seen = st_seen.clone();
        let ack_seen2 = ack_seen.clone();
        let gap_seen2 = gap_seen.clone();
        let gap2 = gap.clone();
        net.set_tamper(Box::new(move |_seq, from, _to, data| {
            if from == 0 && st_seen.get() {
                // the device answers the initiator's final status report (its acknowledgement)
                ack_seen2.set(true);
            }
            let (name, off) = classify(data)?;
            if name == "st" && from == 1 {
                st_seen.set(true);
            }
            if from == 0 && gap2.as_deref() == Some(name) {
                gap_seen2.set(true);
            }
            seen.borrow_mut().entry(name.to_string()).or_insert_with(|| data[off..].to_vec());
            let res = match mutation.as_ref() {
                Some(m) if !done && m.msg == name => {
                    done = true;
                    apply(m, data, off, &prev.borrow(), &foreign.borrow(), &subst)
                }
                _ => None,
            };
            if name == "s1" && delivered_s1.borrow().is_none() {
                let d = res.as_deref().unwrap_or(data);
                let o = off.min(d.len());
                *delivered_s1.borrow_mut() = Some(d[o..].to_vec());
            }
            res
        }));
    }
    let before_c: Vec<u16> = sessions(&n.ctl).iter().map(|s| s.lsid).collect();
    let before_d: Vec<u16> = sessions(&n.dev).iter().map(|s| s.lsid).collect();
    let ds = net.socket(0);
    let cs = net.socket(1);
    let sc = SecureChannel::new(crypto, &());
    let responder = Responder::new("device", sc, &n.dev, 0);
    let flow = async {
        let r: Result<(), Error> = async {
            let exchange = Exchange::initiate_plaintext(&n.ctl, crypto, addr_of(0)).await?;
            match select(
                core::pin::pin!(CaseInitiator::perform(exchange, crypto, ctl_fab, dev_node)),
                core::pin::pin!(Timer::after(Duration::from_secs(40))),
            )
            .await
            {
                Either::First(r) => r,
                Either::Second(_) => Err(rs_matter::error::ErrorCode::RxTimeout.into()),
            }
        }
        .await;
        // let the responder finish its side (final acknowledgements, retransmissions)
        Timer::after(Duration::from_secs(12)).await;
        r
    };
    // `race`: the RemoveFabric state changes hit the device while the final status report of the handshake is in
    // flight - polled right before the responder, so that they land between the initiator's SigmaFinished and the
    // responder's processing of it
    let raced = std::cell::Cell::new(false);
    let gapped = std::cell::Cell::new(false);
    let igapped = std::cell::Cell::new(false);
    let polls = std::cell::Cell::new(0u32);
    let saboteur = core::future::poll_fn(|_cx| {
        // `race = k`: at the k-th poll after the initiator's final status report went onto the wire
        if race > 0 && st_seen.get() {
            polls.set(polls.get() + 1);
        }
        let _ = &ack_seen;
        // `gap=w`: state-based - the device holds a RESERVED session that already carries `Case { fab_idx }` of the
        // fabric, i.e. `try_handle_sigma1_resume` has loaded the reserved session (`update_with_state`) and is suspended
        // in `recv_fetch` waiting for SigmaFinished (the acknowledgement of Sigma2_Resume arrived on its own)
        let waiting = gap.as_deref() == Some("w")
            && !gapped.get()
            && n.dev_fab.get().map_or(false, |idx| {
                n.dev.with_state(|st| {
                    st.verif_sessions().iter().any(|s| {
                        let (reserved, _, _, _) = s.verif_view();
                        reserved && matches!(s.get_session_mode(), SessionMode::Case { fab_idx, .. } if *fab_idx == idx)
                    })
                })
            });
        // `gap=i`: the same state changes on the CONTROLLER (the initiator), as soon as the session of this handshake is
        // live there and its SigmaFinished is on the wire: `finalize_sigma2_resume` is suspended in
        // `complete_with_status`, waiting for the acknowledgement of SigmaFinished, with the cache rotation still ahead
        if gap.as_deref() == Some("i") && !igapped.get() && st_seen.get() {
            let live = n.ctl.with_state(|st| {
                st.verif_sessions().iter().any(|s| {
                    let (reserved, _, _, _) = s.verif_view();
                    !reserved
                        && !before_c.contains(&s.get_local_sess_id())
                        && matches!(s.get_session_mode(), SessionMode::Case { fab_idx, .. } if *fab_idx == ctl_fab)
                })
            });
            if live {
                igapped.set(true);
                n.ctl.with_state(|st| {
                    if st.fabrics.remove(ctl_fab).is_ok() {
                        st.verif_sessions_mut().remove_for_fabric(ctl_fab, None);
                        st.resumption.remove_for_fabric(ctl_fab);
                    }
                });
            }
        }
        let gap_now = (gap_seen.get() || waiting) && !gapped.get();
        if gap_now {
            gapped.set(true);
        }
        if (race > 0 && polls.get() == race as u32 && !raced.get()) || gap_now {
            if !gap_now {
                raced.set(true);
            }
            if let Some(idx) = n.dev_fab.get() {
                n.dev.with_state(|st| {
                    if st.fabrics.remove(idx).is_ok() {
                        st.verif_sessions_mut().remove_for_fabric(idx, None);
                        st.resumption.remove_for_fabric(idx);
                    }
                });
                n.dev_fab.set(None);
            }
        }
        core::task::Poll::<()>::Pending
    });
    let all = async {
        match select3(n.dev.run(crypto, &ds, &ds, NoNetwork), select3(saboteur, responder.run::<4>(), n.ctl.run(crypto, &cs, &cs, NoNetwork)), flow).await {
            Either3::Third(r) => Some(r),
            _ => None,
        }
    };
    let init = match run_sim(&net, all, 90_000) {
        SimEnd::Done(Some(Ok(()))) => "ok",
        SimEnd::Done(Some(Err(_))) => "err",
        SimEnd::Done(None) => "transport-exit",
        SimEnd::Timeout => "sim-timeout",
    };
    let new_c: Vec<Sess> = sessions(&n.ctl).into_iter().filter(|s| !before_c.contains(&s.lsid)).collect();
    let new_d: Vec<Sess> = sessions(&n.dev).into_iter().filter(|s| !before_d.contains(&s.lsid)).collect();
    // drop all sessions / exchanges of this handshake (fabrics and the resumption cache stay)
    let _ = n.ctl.reset_transport();
    let _ = n.dev.reset_transport();
    let keys = if new_c.len() == 1 && new_d.len() == 1 {
        if new_c[0].enc == new_d[0].dec && new_c[0].dec == new_d[0].enc && new_c[0].enc != [0u8; 16] {
            "agree"
        } else {
            "differ"
        }
    } else {
        "na"
    };
    *n.prev.borrow_mut() = seen.borrow().clone();
    let t = n.dev.with_rtc(|r| r.utc_time());
    let ts = match t {
        rs_matter::dm::clusters::time_sync::UtcTime::Reliable(_) => format!("r{}", t.any_secs()),
        rs_matter::dm::clusters::time_sync::UtcTime::LastKnown(_) => format!("l{}", t.any_secs()),
    };
    let storm = if net.log_len() as u64 >= CAP { " storm" } else { "" };
    if std::env::var("VH_WIRE").is_ok() {
        for (i, l) in net.log().iter().enumerate().take(40) {
            eprintln!("  #{} t={} {}->{} len={} {:?} {}", i, l.t_ms, l.from, l.to, l.bytes.len(), l.verdict, crate::proto::hex(&l.bytes[..l.bytes.len().min(28)]));
        }
    }
    let via = if seen.borrow().contains_key("r2") {
        "r"
    } else if seen.borrow().contains_key("s2") {
        "f"
    } else {
        "-"
    };
    let rid = delivered_s1
        .borrow()
        .as_ref()
        .and_then(|p| field_range(p, 6).map(|(s, l)| n.names.name(&p[s..s + l]).to_string()))
        .unwrap_or_else(|| "-".into());
    let storm = if raced.get() { format!("{} raced", storm) } else { storm.to_string() };
    let storm = if gapped.get() { format!("{} gapped", storm) } else { storm };
    let storm = if igapped.get() { format!("{} igapped", storm) } else { storm };
    format!(
        "t={} ctl={} dev={} keys={} init={}{} via={} rid={} cc={} dc={}",
        ts,
        fmt_sess(&new_c),
        fmt_sess(&new_d),
        keys,
        init,
        storm,
        via,
        rid,
        fmt_cache(&n.ctl, &n.names),
        fmt_cache(&n.dev, &n.names)
    )
}

/// two fresh nodes with the given chains; `Err` = a fabric could not be installed
#[allow(clippy::too_many_arguments)]
fn make_nodes<C: Crypto>(
    crypto: &C,
    keys: &Keys,
    root: &Rec,
    cnoc: &Rec,
    cicac: Option<&Rec>,
    ckey: Option<u64>,
    droot: &Rec,
    dnoc: &Rec,
    dicac: Option<&Rec>,
    dkey: Option<u64>,
    names: Rc<Names>,
    foreign: Prev,
    cpres: Option<(Rec, Option<Rec>)>,
    dpres: Option<(Rec, Option<Rec>)>,
) -> Result<Nodes, String> {
    let ctl = Matter::new(&TEST_DEV_DET, TEST_DEV_COMM, &TEST_DEV_ATT, 0);
    let dev = Matter::new(&TEST_DEV_DET, TEST_DEV_COMM, &TEST_DEV_ATT, 0);
    let cf = install(crypto, keys, &ctl, root, cnoc, cicac, ckey)?;
    let df = install(crypto, keys, &dev, droot, dnoc, dicac, dkey)?;
    // a dishonest peer: identity as installed, other certificates presented
    let present = |m: &Matter, idx: core::num::NonZeroU8, p: &(Rec, Option<Rec>), k: Option<u64>| -> Result<(), String> {
        let nb = mint(crypto, keys, &p.0).map_err(|_| "mint")?;
        let ib = match &p.1 {
            Some(i) => mint(crypto, keys, i).map_err(|_| "mint")?,
            None => vec![],
        };
        let sk = keys.key(k.unwrap_or(p.0.pk)).sk;
        m.with_state(|st| {
            st.fabrics
                .get_mut(idx)
                .ok_or_else(|| "nofabric".to_string())?
                .verif_present_certs(&nb, &ib, CanonPkcSecretKeyRef::new(&sk))
                .map_err(|e| format!("present:{:?}", e.code()))
        })
    };
    if let Some(p) = &cpres {
        present(&ctl, cf, p, ckey)?;
    }
    if let Some(p) = &dpres {
        present(&dev, df, p, dkey)?;
    }
    Ok(Nodes {
        ctl,
        dev,
        ctl_fab: cf,
        dev_fab: std::cell::Cell::new(Some(df)),
        dev_node: node_id(dnoc).unwrap_or(0),
        fab2: std::cell::Cell::new(None),
        prev: Rc::new(RefCell::new(Default::default())),
        foreign,
        names,
    })
}

/// `cache <op>;<op>;…` on a fresh REAL `ResumableSessions`; the answer lists, per op, what the real cache
/// returned, and ends with its content (`fab:peer:cats:rid:secret`, numbers as given).
///   `i<fab>.<peer>.<cat>.<rid>.<sec>` insert_or_update, `r<rid>` find_by_resumption_id, `p<fab>.<peer>` find_by_peer,
///   `f<fab>` remove_for_fabric, `x<fab>.<peer>` remove_by_peer, `s` store_persist + load_persist into a new cache,
///   `t<n>` store, then load a blob truncated by `n` bytes (unparsable ⇒ empty cache, blob removed)
fn cache_op(spec: &str) -> String {
    use rs_matter::crypto::CanonPkcSharedSecret;
    use rs_matter::persist::KvBlobStore;
    use rs_matter::sc::case::verif_casep::CaseResumptionId;
    use rs_matter::sc::case::{ResumableSession, ResumableSessions, MAX_RESUMPTION_RECORDS};
    #[derive(Default)]
    struct MemKv(std::collections::HashMap<u16, Vec<u8>>);
    impl KvBlobStore for MemKv {
        fn load<'a>(&mut self, key: u16, buf: &'a mut [u8]) -> Result<Option<&'a [u8]>, Error> {
            match self.0.get(&key) {
                Some(v) => {
                    buf[..v.len()].copy_from_slice(v);
                    Ok(Some(&buf[..v.len()]))
                }
                None => Ok(None),
            }
        }
        fn store(&mut self, key: u16, data: &[u8], _buf: &mut [u8]) -> Result<(), Error> {
            self.0.insert(key, data.to_vec());
            Ok(())
        }
        fn remove(&mut self, key: u16, _buf: &mut [u8]) -> Result<(), Error> {
            self.0.remove(&key);
            Ok(())
        }
    }
    let mk = |fab: u64, peer: u64, cat: u64, rid: u64, sec: u64| {
        let mut resumption_id = CaseResumptionId::new();
        resumption_id.access_mut()[..8].copy_from_slice(&rid.to_be_bytes());
        let mut shared_secret = CanonPkcSharedSecret::new();
        shared_secret.access_mut()[..8].copy_from_slice(&sec.to_be_bytes());
        ResumableSession {
            fab_idx: core::num::NonZeroU8::new((fab as u8).max(1)).unwrap(),
            peer_nodeid: peer,
            peer_cat_ids: [cat as u32, 0, 0],
            resumption_id,
            shared_secret,
        }
    };
    let show = |r: &ResumableSession| {
        let rid = u64::from_be_bytes(r.resumption_id.reference().access()[..8].try_into().unwrap());
        let sec = u64::from_be_bytes(r.shared_secret.reference().access()[..8].try_into().unwrap());
        format!("{}:{}:{}:{}:{}", r.fab_idx.get(), r.peer_nodeid, r.peer_cat_ids[0], rid, sec)
    };
    let nums = |t: &str| -> Vec<u64> { t.split('.').filter_map(|x| x.parse().ok()).collect() };
    let mut cache = ResumableSessions::new();
    let mut res: Vec<String> = vec![format!("cap{}", MAX_RESUMPTION_RECORDS)];
    for op in spec.split(';').filter(|x| !x.is_empty()) {
        let v = nums(&op[1..]);
        let g = |i: usize| v.get(i).copied().unwrap_or(0);
        match op.as_bytes()[0] {
            b'i' => cache.insert_or_update(mk(g(0), g(1), g(2), g(3), g(4))),
            b'r' => {
                let mut id = [0u8; 16];
                id[..8].copy_from_slice(&g(0).to_be_bytes());
                res.push(cache.find_by_resumption_id(&id).map(show).unwrap_or_else(|| "none".into()));
            }
            b'p' => res.push(
                cache
                    .find_by_peer(core::num::NonZeroU8::new((g(0) as u8).max(1)).unwrap(), g(1))
                    .map(show)
                    .unwrap_or_else(|| "none".into()),
            ),
            b'f' => cache.remove_for_fabric(core::num::NonZeroU8::new((g(0) as u8).max(1)).unwrap()),
            b'x' => cache.remove_by_peer(core::num::NonZeroU8::new((g(0) as u8).max(1)).unwrap(), g(1)),
            b's' | b't' => {
                let mut kv = MemKv::default();
                let mut buf = vec![0u8; rs_matter::persist::KV_BUF_SIZE];
                if cache.store_persist(&mut kv, &mut buf).is_err() {
                    res.push("storeerr".into());
                    continue;
                }
                if op.as_bytes()[0] == b't' {
                    for blob in kv.0.values_mut() {
                        let n = blob.len().saturating_sub(g(0).max(1) as usize);
                        blob.truncate(n);
                    }
                }
                let mut fresh = ResumableSessions::new();
                match fresh.load_persist(&mut kv, &mut buf) {
                    Ok(()) => res.push(format!("loaded{}kv{}", fresh.len(), kv.0.len())),
                    Err(_) => res.push("loaderr".into()),
                }
                cache = fresh;
            }
            _ => res.push("bad".into()),
        }
    }
    let content: Vec<String> = cache.iter().map(show).collect();
    format!("{} | {}", res.join(" "), if content.is_empty() { "-".into() } else { content.join("+") })
}

fn run_case(out: &mut Out, case: &Case) {
    out.case(case.id, &case.kind);
    let crypto = test_only_crypto();
    let keys = Keys::new(&crypto);
    let mut nodes: Option<Nodes> = None;
    let names: Rc<Names> = Rc::new(Names::default());
    let foreign: Prev = Rc::new(RefCell::new(Default::default()));
    for op in &case.ops {
        let toks: Vec<&str> = op.split_whitespace().collect();
        let mut mutation = None;
        let mut sched = vec![];
        for t in &toks[1..] {
            if let Some(v) = kv(t, "mut") {
                mutation = parse_mut(v);
            } else if let Some(v) = kv(t, "sched") {
                sched = parse_sched(v);
            }
        }
        if std::env::var("VH_TRACE").is_ok() {
            eprintln!("case {} start {}", case.id, op.split_whitespace().filter(|t| t.starts_with("mut=") || t.starts_with("sched=")).collect::<Vec<_>>().join(" "));
        }
        let get = |k: &str| toks[1..].iter().find_map(|t| kv(t, k)).and_then(|v| if v == "-" { None } else { Rec::parse(v) });
        let key = |k: &str| toks[1..].iter().find_map(|t| kv(t, k)).and_then(|v| v.parse::<u64>().ok());
        let gapk: Option<String> = toks[1..].iter().find_map(|t| kv(t, "gap")).map(|v| v.to_string());
        let res = std::panic::catch_unwind(std::panic::AssertUnwindSafe(|| match toks.first().copied() {
            Some("hs") => {
                let (Some(root), Some(cnoc), Some(dnoc)) = (get("root"), get("cnoc"), get("dnoc")) else {
                    return "bad".to_string();
                };
                let droot = get("droot").unwrap_or_else(|| root.clone());
                let cpres = get("cpnoc").map(|n| (n, get("cpicac")));
                let dpres = get("dpnoc").map(|n| (n, get("dpicac")));
                let n = match make_nodes(&crypto, &keys, &root, &cnoc, get("cicac").as_ref(), key("ckey"), &droot, &dnoc, get("dicac").as_ref(), key("dkey"), names.clone(), foreign.clone(), cpres, dpres) {
                    Ok(n) => n,
                    Err(e) => return e,
                };
                let r = handshake(&crypto, &n, mutation, sched, 1, 0, gapk.clone());
                nodes = Some(n);
                r
            }
            Some("again") => match nodes.as_ref() {
                Some(n) => {
                    let fab = key("fab").unwrap_or(1) as u8;
                    if fab == 2 && n.fab2.get().is_none() {
                        return "nostate".to_string();
                    }
                    handshake(&crypto, n, mutation, sched, fab, key("race").unwrap_or(0) as u8, gapk.clone())
                }
                None => "nostate".to_string(),
            },
            Some("fab2") => match nodes.as_ref() {
                Some(n) => {
                    let (Some(root), Some(cnoc), Some(dnoc)) = (get("root"), get("cnoc"), get("dnoc")) else {
                        return "bad".to_string();
                    };
                    let cf = match install(&crypto, &keys, &n.ctl, &root, &cnoc, get("cicac").as_ref(), key("ckey")) {
                        Ok(f) => f,
                        Err(e) => return e,
                    };
                    let df = match install(&crypto, &keys, &n.dev, &root, &dnoc, get("dicac").as_ref(), key("dkey")) {
                        Ok(f) => f,
                        Err(e) => return e,
                    };
                    n.fab2.set(Some((cf, df, node_id(&dnoc).unwrap_or(0))));
                    format!("joined cidx={} didx={}", cf.get(), df.get())
                }
                None => "nostate".to_string(),
            },
            Some("rmfab") => match nodes.as_ref() {
                Some(n) => {
                    let Some(idx) = n.dev_fab.get() else { return "nofabric".to_string() };
                    // the state changes of `NocHandler::handle_remove_fabric`, in its order
                    let r = n.dev.with_state(|st| {
                        if st.fabrics.remove(idx).is_ok() {
                            st.verif_sessions_mut().remove_for_fabric(idx, None);
                            st.resumption.remove_for_fabric(idx);
                            true
                        } else {
                            false
                        }
                    });
                    n.dev_fab.set(None);
                    format!("{} dc={}", if r { "removed" } else { "notfound" }, fmt_cache(&n.dev, &n.names))
                }
                None => "nostate".to_string(),
            },
            Some("addfab") => match nodes.as_ref() {
                Some(n) => {
                    let (Some(root), Some(dnoc)) = (get("root"), get("dnoc")) else {
                        return "bad".to_string();
                    };
                    match install(&crypto, &keys, &n.dev, &root, &dnoc, get("dicac").as_ref(), key("dkey")) {
                        Ok(idx) => {
                            n.dev_fab.set(Some(idx));
                            format!("added idx={} dc={}", idx.get(), fmt_cache(&n.dev, &n.names))
                        }
                        Err(e) => e,
                    }
                }
                None => "nostate".to_string(),
            },
            Some("foreign") => {
                // two other nodes on another fabric: a full handshake, then a resumed one whose payloads are kept
                let p = GenP { fab: 0x7777, node: 900, cats: vec![], rca: 8, ica: None, nb: 1, na: 0, kr: 0, ki: 1, kn: 2 };
                let c = gen_records(&p);
                let d = gen_records(&GenP { node: 901, kn: 4, ..p });
                let fnames: Rc<Names> = Rc::new(Names::default());
                let n = match make_nodes(&crypto, &keys, &c.0, &c.2, None, None, &c.0, &d.2, None, None, fnames, Rc::new(RefCell::new(Default::default())), None, None) {
                    Ok(n) => n,
                    Err(e) => return e,
                };
                let a = handshake(&crypto, &n, None, vec![], 1, 0, None);
                let b = handshake(&crypto, &n, None, vec![], 1, 0, None);
                *foreign.borrow_mut() = n.prev.borrow().clone();
                let ok = a.contains("keys=agree") && b.contains("keys=agree") && b.contains("via=r");
                format!("foreign {}", if ok { "resumed" } else { "failed" })
            }
            Some("cache") => cache_op(toks.get(1).copied().unwrap_or("")),
            _ => "bad".to_string(),
        }));
        let v = res.unwrap_or_else(|_| "panic".into());
        if std::env::var("VH_TRACE").is_ok() {
            eprintln!("case {} op {} => {}", case.id, &op[..op.len().min(12)], v);
        }
        for part in v.split_whitespace() {
            if let Some((k, val)) = part.split_once('=') {
                if k != "t" && k != "cc" && k != "dc" && k != "rid" {
                    let cls = if val.starts_with("sess") { "sess" } else { val };
                    out.stat(&format!("out_{}_{}", k, cls), 1);
                }
            }
        }
        if op.contains("gap=i") {
            out.stat(if v.split_whitespace().any(|w| w == "igapped") { "gap_i_hit" } else { "gap_i_missed" }, 1);
        }
        if op.contains("gap=w") {
            // did the schedule open the window (removal while the responder awaited SigmaFinished)?
            out.stat(if v.split_whitespace().any(|w| w == "gapped") { "gap_w_hit" } else { "gap_w_missed" }, 1);
        }
        out.op(op, &v);
    }
}

// ------------------------------------------------------------------------------------------------
// generator

fn std_chain(r: &mut Rng, fab: u64, node: u64, cats: Vec<u32>, with_icac: bool, kn: u64) -> (Rec, Option<Rec>, Rec) {
    let p = GenP { fab, node, cats, rca: 3, ica: if with_icac { Some(r.range(10, 19)) } else { None }, nb: 1, na: 0, kr: 0, ki: 1, kn };
    gen_records(&p)
}

fn hs_line(root: &Rec, c: &(Rec, Option<Rec>, Rec), d: &(Rec, Option<Rec>, Rec), droot: Option<&Rec>, extra: &str) -> String {
    let o = |x: &Option<Rec>| x.as_ref().map(|r| r.text()).unwrap_or_else(|| "-".into());
    let mut s = format!("hs root={} cnoc={} cicac={} dnoc={} dicac={}", root.text(), c.2.text(), o(&c.1), d.2.text(), o(&d.1));
    if let Some(dr) = droot {
        s.push_str(&format!(" droot={}", dr.text()));
    }
    if !extra.is_empty() {
        s.push(' ');
        s.push_str(extra);
    }
    s
}

fn random_mutation(r: &mut Rng, resumed: bool, out: &mut Out) -> String {
    let msg = if resumed { *r.pick(&["s1", "s1", "r2", "r2", "st"]) } else { *r.pick(&["s1", "s2", "s3", "st", "s1", "s2"]) };
    let fields: &[u64] = match msg {
        "s1" => &[1, 2, 3, 4, 6, 7],
        "s2" => &[1, 2, 3, 4],
        "s3" => &[1],
        "r2" => &[1, 2, 3],
        _ => &[],
    };
    let kind = match r.below(10) {
        0..=4 if !fields.is_empty() => "f",
        0..=5 => "p",
        6 => "h",
        7 => "t",
        _ => "p",
    };
    out.stat(&format!("mut_{}_{}", msg, kind), 1);
    match kind {
        "f" => format!("mut={}:f:{}:{}", msg, r.pick(fields), r.below(4096)),
        "t" => format!("mut={}:t:{}", msg, r.below(4096)),
        k => format!("mut={}:{}:{}", msg, k, r.below(8192)),
    }
}

fn random_sched(r: &mut Rng, out: &mut Out) -> String {
    let n = r.range(2, 9);
    let v: Vec<String> = (0..n)
        .map(|_| match r.below(10) {
            0..=1 => { out.stat("sched_drop", 1); "x".to_string() }
            2 => { out.stat("sched_dup", 1); "u".to_string() }
            3..=4 => { out.stat("sched_delay", 1); format!("l{}", r.range(20, 900)) }
            _ => "d".to_string(),
        })
        .collect();
    format!("sched={}", v.join("."))
}

const RULE: &str = "#rule a case is a sequence of operations on two real in-process Matter nodes on the simulated network (CaseInitiator::perform vs the SecureChannel responder): CASE handshakes with honest chains (with/without ICAC, CATs); EVERY entry of the C19 defect catalogue (shared code: c19::defect_at) applied to each certificate of the chain presented by the controller (responder validates) and by the device (initiator validates); a node that does not hold its NOC's key; a DISHONEST peer installed with standard credentials (identity, destination id) but presenting the changed chain or valid credentials of another node / of another fabric id served by the same root key (hook Fabric::verif_present_certs), on either side; resumption chains; both nodes on two fabrics with a Sigma1 that carries the destination id of one fabric and the resumption id / MIC of a record of the other (valid-for-valid substitutions a member of both fabrics can make); fabric removal racing a resumed handshake; one mutation of one handshake datagram (bit flip in a TLV field / payload / header, truncation, replay or field substitution from the previous handshake = stale ids and MICs, substitution from a handshake of two other nodes = foreign ids and MICs) or a loss/duplication/delay schedule; fabric removal and re-installation on the device between handshakes; plus op strings on the real ResumableSessions cache. Observed per side: live CASE sessions (fabric, peer node, CATs), key agreement, which path was taken, the resumption id received, both resumption caches; non-trivial = by outputs";

/// the time the nodes of this harness live at (virtual clock, same for every node)
fn node_time() -> (u32, bool) {
    let m = Matter::new(&TEST_DEV_DET, TEST_DEV_COMM, &TEST_DEV_ATT, 0);
    let t = m.with_rtc(|r| r.utc_time());
    (t.any_secs() as u32, matches!(t, rs_matter::dm::clusters::time_sync::UtcTime::Reliable(_)))
}

fn random_cache_ops(r: &mut Rng, thorough: bool) -> String {
    let n = if thorough { r.range(10, 60) } else { r.range(6, 40) };
    let mut v = Vec::new();
    let mut next_rid = 100u64;
    for _ in 0..n {
        let fab = r.range(1, 3);
        let hi = if r.chance(1, 2) { 4 } else { 12 };
        let peer = r.range(1, hi);
        v.push(match r.below(12) {
            0..=5 => {
                next_rid += 1;
                // mostly fresh ids, sometimes a repeated one
                let rid = if r.chance(1, 8) { r.range(100, next_rid) } else { next_rid };
                format!("i{}.{}.{}.{}.{}", fab, peer, r.below(3), rid, r.range(1, 9))
            }
            6..=7 => format!("r{}", r.range(100, next_rid + 1)),
            8 => format!("p{}.{}", fab, peer),
            9 => format!("f{}", fab),
            10 => format!("x{}.{}", fab, peer),
            _ => if r.chance(1, 4) { format!("t{}", r.range(1, 40)) } else { "s".to_string() },
        });
    }
    v.join(";")
}

pub fn gen(a: &Args) -> String {
    let mut r = Rng::new(a.seed);
    let mut out = Out::default();
    out.buf.push_str(RULE);
    out.buf.push('\n');
    let (secs, reliable) = node_time();
    let mut id = 0u64;
    let mut emit = |out: &mut Out, ops: Vec<String>| {
        run_case(out, &Case { id, kind: "case".into(), ops });
        id += 1;
    };
    // the two standard chains of a case
    let base = |cr: &mut Rng, force_icac: bool| {
        let fab = *cr.pick(&[1u64, 7, 0x1234]);
        let cats = if cr.chance(1, 3) { vec![0x0001_0001u32, 0x00AB_0002][..cr.range(1, 2) as usize].to_vec() } else { vec![] };
        let c_icac = force_icac || cr.chance(1, 2);
        let d_icac = force_icac || cr.chance(1, 3);
        let cn = 100 + cr.below(3);
        let dn = 200 + cr.below(3);
        let c = std_chain(cr, fab, cn, cats, c_icac, 2);
        let mut d = std_chain(cr, fab, dn, vec![], d_icac, 4);
        // both chains hang under the same root record; ICAC keys differ per side
        if let Some(i) = d.1.as_mut() {
            i.pk = 3;
            i.sk = Some(3);
            d.2.ak = Some(3);
            d.2.sg = Some(3);
        }
        (fab, c, d)
    };

    // ---- 1. the C19 defect catalogue, every entry on every certificate, presented by either side
    let rounds = if a.thorough { 10 } else { 1 };
    for round in 0..rounds {
        for k in 0..N_DEFECTS {
            for who in 0..3u64 {
                for on_ctl in [true, false] {
                    let mut cr = r.fork();
                    let (fab, c, d) = base(&mut cr, who == 1 || round % 2 == 1);
                    let root = c.0.clone();
                    let side = if on_ctl { &c } else { &d };
                    let mut ch = Chain { fab, root: root.clone(), icac: side.1.clone(), noc: side.2.clone(), time: String::new(), secs };
                    let Some(name) = defect_at(&mut cr, &mut ch, reliable, Some((k, who))) else {
                        out.stat("catalogue_not_applicable", 1);
                        continue;
                    };
                    out.stat("kind_catalogue", 1);
                    out.stat(&format!("cat_{}_{}", if on_ctl { "ctl" } else { "dev" }, name), 1);
                    let o = |x: &Option<Rec>| x.as_ref().map(|r| r.text()).unwrap_or_else(|| "-".into());
                    // (a) an honest node that was GIVEN these credentials: the presenter is installed with the (possibly
                    // defective) NOC / ICAC; the VERIFIER trusts the (possibly defective or different) root
                    let (cc, dd, croot, droot) = if on_ctl {
                        ((root.clone(), ch.icac.clone(), ch.noc.clone()), d.clone(), root.clone(), ch.root.clone())
                    } else {
                        (c.clone(), (root.clone(), ch.icac.clone(), ch.noc.clone()), ch.root.clone(), root.clone())
                    };
                    let dr = if droot != croot { Some(droot.clone()) } else { None };
                    let mut ops = vec![hs_line(&croot, &cc, &dd, dr.as_ref(), "")];
                    if cr.chance(1, 4) {
                        ops.push("again".to_string());
                    }
                    emit(&mut out, ops);
                    // (b) a DISHONEST peer: installed with the standard credentials (so that the destination id and
                    // its own identity are those of the addressed fabric / node) but presenting the changed chain
                    out.stat("kind_catalogue_presented", 1);
                    let extra = format!("{}pnoc={} {}picac={}", if on_ctl { "c" } else { "d" }, ch.noc.text(), if on_ctl { "c" } else { "d" }, o(&ch.icac));
                    emit(&mut out, vec![hs_line(&croot, &c, &d, dr.as_ref(), &extra)]);
                }
            }
        }
    }

    // ---- 1b. a peer with VALID credentials that are not the addressed ones (same root): another node id, another
    // fabric id served by the same root key (with and without ICAC), on either side
    let n_other = if a.thorough { 150 } else { 6 };
    for k in 0..n_other {
        for on_ctl in [true, false] {
            let mut cr = r.fork();
            let (fab, c, d) = base(&mut cr, k % 2 == 0);
            let side = if on_ctl { &c } else { &d };
            let (mut pn, mut pi) = (side.2.clone(), side.1.clone());
            let what = match k % 3 {
                0 => {
                    for at in pn.s.iter_mut() { if let Attr::Node(v) = at { *v += 7; } }
                    "other_node_id"
                }
                1 => {
                    // the same root key serves fabric `fab ^ 0x10` too: NOC (and ICAC) of that fabric
                    for at in pn.s.iter_mut() { if let Attr::Fab(v) = at { *v = fab ^ 0x10; } }
                    if let Some(i) = pi.as_mut() {
                        for at in i.s.iter_mut() { if let Attr::Fab(v) = at { *v = fab ^ 0x10; } }
                        pn.i = i.s.clone();
                    }
                    "other_fabric_same_root"
                }
                _ => {
                    // only the ICAC is scoped to the other fabric
                    let Some(i) = pi.as_mut() else { continue };
                    for at in i.s.iter_mut() { if let Attr::Fab(v) = at { *v = fab ^ 0x10; } }
                    pn.i = i.s.clone();
                    "icac_other_fabric_same_root"
                }
            };
            out.stat("kind_valid_but_not_addressed", 1);
            out.stat(&format!("presented_{}_{}", if on_ctl { "ctl" } else { "dev" }, what), 1);
            let o = |x: &Option<Rec>| x.as_ref().map(|r| r.text()).unwrap_or_else(|| "-".into());
            let p = if on_ctl { "c" } else { "d" };
            let extra = format!("{}pnoc={} {}picac={}", p, pn.text(), p, o(&pi));
            emit(&mut out, vec![hs_line(&c.0, &c, &d, None, &extra)]);
        }
    }

    // ---- 2. resumption fields: mutated, stale, foreign ids and MICs; status report
    let res_muts: &[&str] = &[
        "s1:f:6", "s1:f:7", "s1:x:6", "s1:x:7", "s1:r", "s1:y:6", "s1:y:7", "s1:Y", "s1:z", "s1:f:1", "s1:f:2", "s1:x:1",
        "r2:f:1", "r2:f:2", "r2:f:3", "r2:x:1", "r2:x:2", "r2:r", "r2:y:1", "r2:y:2", "r2:z", "st:p", "st:t", "st:r",
    ];
    let rounds = if a.thorough { 20 } else { 1 };
    for _ in 0..rounds {
        for m in res_muts {
            let mut cr = r.fork();
            let (_, c, d) = base(&mut cr, false);
            out.stat("kind_resumption_fields", 1);
            out.stat(&format!("resmut_{}", m.replace(':', "_")), 1);
            let arg = match m.split(':').nth(1) {
                Some("f") => format!("{}:{}", m, cr.below(4096)),
                Some("p") | Some("t") => format!("{}:{}", m, cr.below(4096)),
                _ => m.to_string(),
            };
            emit(&mut out, vec![
                "foreign".to_string(),
                hs_line(&c.0, &c, &d, None, ""),
                "again".to_string(),
                "again".to_string(),
                format!("again mut={}", arg),
                "again".to_string(),
            ]);
        }
    }

    // ---- 2b. both nodes on TWO fabrics (A = index 1, B = index 2, another root key), the controller under another node
    // id and other CATs on B; records on both; then Sigma1 with one VALID value in the place of another: the
    // destination id of the other fabric, the resumption id of the other fabric's record, both
    let two_muts: &[&str] = &["1 s1:d:2", "2 s1:d:1", "1 s1:q", "2 s1:q", "1 s1:e:2", "2 s1:e:1"];
    let rounds = if a.thorough { 12 } else { 2 };
    for _ in 0..rounds {
        for tm in two_muts {
            let mut cr = r.fork();
            let (fab, c, d) = base(&mut cr, false);
            let (f, m) = tm.split_once(' ').unwrap();
            // fabric B: root key 3, other ids; the controller is node 112233 with a CAT there, the device node 777
            let pb = GenP { fab: fab ^ 0x100, node: 112233, cats: vec![0x00CD_0001], rca: 7, ica: None, nb: 1, na: 0, kr: 3, ki: 1, kn: 2 };
            let cb = gen_records(&pb);
            let db = gen_records(&GenP { node: 777, cats: vec![], kn: 4, ..pb });
            let o = |x: &Option<Rec>| x.as_ref().map(|r| r.text()).unwrap_or_else(|| "-".into());
            out.stat("kind_two_fabrics", 1);
            out.stat(&format!("twofab_{}", m.replace(':', "_")), 1);
            emit(&mut out, vec![
                hs_line(&c.0, &c, &d, None, ""),
                format!("fab2 root={} cnoc={} cicac={} dnoc={} dicac={}", cb.0.text(), cb.2.text(), o(&cb.1), db.2.text(), o(&db.1)),
                "again fab=2".to_string(),
                "again fab=1".to_string(),
                "again fab=2".to_string(),
                format!("again fab={} mut={}", f, m),
                "again fab=1".to_string(),
                "again fab=2".to_string(),
            ]);
        }
    }

    // ---- 2c. the RemoveFabric state changes hit the device while the last message of a RESUMED handshake is in flight
    let n_race = if a.thorough { 48 } else { 6 };
    for i in 0..n_race {
        let mut cr = r.fork();
        let (_, c, d) = base(&mut cr, false);
        let o = |x: &Option<Rec>| x.as_ref().map(|r| r.text()).unwrap_or_else(|| "-".into());
        out.stat("kind_remove_during_handshake", 1);
        let mut ops = vec![hs_line(&c.0, &c, &d, None, "")];
        if i % 2 == 0 {
            ops.push("again".to_string());
        }
        ops.push(format!("again race={}", 1 + (i / 2) % 3));
        ops.push(format!("addfab root={} dnoc={} dicac={}", c.0.text(), d.2.text(), o(&d.1)));
        ops.push("again".to_string());
        ops.push("again".to_string());
        emit(&mut out, ops);
    }

    // ---- 2e. a forged SUCCESS report in the place of the responder's final status report (audit C01-2): the controller
    // presents a defective chain, the responder refuses Sigma3, the initiator is told "success"
    {
        let step = if a.thorough { 1 } else { 5 };
        let mut k = 0;
        while k < N_DEFECTS {
            let mut cr = r.fork();
            let (fab, c, d) = base(&mut cr, k % 2 == 1);
            let root = c.0.clone();
            let mut ch = Chain { fab, root: root.clone(), icac: c.1.clone(), noc: c.2.clone(), time: String::new(), secs };
            if defect_at(&mut cr, &mut ch, reliable, Some((k, 0))).is_some() && ch.root == root {
                out.stat("kind_forged_success_report", 1);
                let o = |x: &Option<Rec>| x.as_ref().map(|r| r.text()).unwrap_or_else(|| "-".into());
                let extra = format!("cpnoc={} cpicac={} mut=st:S", ch.noc.text(), o(&ch.icac));
                emit(&mut out, vec![hs_line(&root, &c, &d, None, &extra), "again".to_string()]);
            }
            k += step;
        }
        // on an honest handshake and on a resumed one the forged report changes nothing
        let mut cr = r.fork();
        let (_, c, d) = base(&mut cr, false);
        out.stat("kind_forged_success_report", 1);
        emit(&mut out, vec![hs_line(&c.0, &c, &d, None, "mut=st:S"), "again mut=st:S".to_string(), "again".to_string()]);
    }

    // ---- 2d. the RemoveFabric state changes hit the device INSIDE the responder's handler: after Sigma2_Resume went out
    // (before the fabric look-up of `try_handle_sigma1_resume`), after Sigma2 went out (before the re-read at Sigma3)
    let n_gap = if a.thorough { 32 } else { 8 };
    for i in 0..n_gap {
        let mut cr = r.fork();
        let (_, c, d) = base(&mut cr, false);
        let o = |x: &Option<Rec>| x.as_ref().map(|r| r.text()).unwrap_or_else(|| "-".into());
        out.stat("kind_remove_inside_handler", 1);
        let mut ops = vec![];
        match i % 4 {
            // resumed handshake, removal after Sigma2_Resume
            0 => {
                ops.push(hs_line(&c.0, &c, &d, None, ""));
                ops.push("again gap=r2".to_string());
            }
            // second resumption in a row
            1 => {
                ops.push(hs_line(&c.0, &c, &d, None, ""));
                ops.push("again".to_string());
                ops.push("again gap=r2".to_string());
            }
            // full handshake, removal after Sigma2
            2 => {
                ops.push(hs_line(&c.0, &c, &d, None, "gap=s2"));
            }
            // full handshake after a resumption offer that is declined is not reachable here; a full one on known nodes:
            _ => {
                ops.push(hs_line(&c.0, &c, &d, None, ""));
                ops.push("rmfab".to_string());
                ops.push(format!("addfab root={} dnoc={} dicac={}", c.0.text(), d.2.text(), o(&d.1)));
                ops.push("again gap=s2".to_string());
            }
        }
        // afterwards: the fabric comes back under the re-used index, a FULL handshake must follow, then a resumed one
        ops.push(format!("addfab root={} dnoc={} dicac={}", c.0.text(), d.2.text(), o(&d.1)));
        ops.push("again".to_string());
        ops.push("again".to_string());
        emit(&mut out, ops);
    }

    // ---- 2d'. the same state changes while the responder is suspended in `recv_fetch`, waiting for SigmaFinished with the
    // reserved session already loaded (`gap=w`; finding C07-resume-in-flight-record-resurrected): the first SigmaFinished is
    // lost, the retransmitted Sigma2_Resume is acknowledged on its own, the retransmitted SigmaFinished arrives `l<ms>` later
    let n_w = if a.thorough { 16 } else { 4 };
    for i in 0..n_w {
        let mut cr = r.fork();
        let (_, c, d) = base(&mut cr, false);
        let o = |x: &Option<Rec>| x.as_ref().map(|r| r.text()).unwrap_or_else(|| "-".into());
        out.stat("kind_remove_while_awaiting_sigmafinished", 1);
        let mut ops = vec![hs_line(&c.0, &c, &d, None, "")];
        if i % 2 == 1 {
            ops.push("again".to_string());
        }
        ops.push(format!("again sched=d.d.x.d.d.l{} gap=w", cr.range(20, 3000)));
        ops.push(format!("addfab root={} dnoc={} dicac={}", c.0.text(), d.2.text(), o(&d.1)));
        ops.push("again".to_string());
        ops.push("again".to_string());
        emit(&mut out, ops);
    }
    // the initiator's side of it (`gap=i`): the controller's fabric is removed while `finalize_sigma2_resume` awaits the
    // acknowledgement of SigmaFinished (delayed by `l<ms>`); the controller's fabric is gone afterwards, the case ends
    let n_i = if a.thorough { 8 } else { 2 };
    for i in 0..n_i {
        let mut cr = r.fork();
        let (_, c, d) = base(&mut cr, false);
        out.stat("kind_remove_while_awaiting_sigmafinished_ack", 1);
        let mut ops = vec![hs_line(&c.0, &c, &d, None, "")];
        if i % 2 == 1 {
            ops.push("again".to_string());
        }
        ops.push(format!("again sched=d.d.d.l{} gap=i", cr.range(20, 250)));
        emit(&mut out, ops);
    }

    // ---- 3. fabric removal between handshakes
    let n_rm = if a.thorough { 300 } else { 12 };
    for i in 0..n_rm {
        let mut cr = r.fork();
        let (fab, c, d) = base(&mut cr, false);
        out.stat("kind_fabric_removal", 1);
        let o = |x: &Option<Rec>| x.as_ref().map(|r| r.text()).unwrap_or_else(|| "-".into());
        let mut ops = vec![hs_line(&c.0, &c, &d, None, ""), "again".to_string(), "rmfab".to_string(), "again".to_string()];
        match i % 3 {
            0 => {
                // the same credentials again: a FULL handshake must follow
                ops.push(format!("addfab root={} dnoc={} dicac={}", c.0.text(), d.2.text(), o(&d.1)));
            }
            1 => {
                // another node id on the same fabric under the re-used index
                let mut d2 = d.clone();
                for at in d2.2.s.iter_mut() {
                    if let Attr::Node(v) = at {
                        *v += 50;
                    }
                }
                ops.push(format!("addfab root={} dnoc={} dicac={}", c.0.text(), d2.2.text(), o(&d2.1)));
            }
            _ => {
                // another fabric (other root key, other id) under the re-used index
                let e = std_chain(&mut cr, fab ^ 0x40, 300, vec![], false, 4);
                let mut er = e.0.clone();
                er.pk = 5; er.sk = Some(5); er.ak = Some(5); er.sg = Some(5);
                let mut en = e.2.clone();
                en.ak = Some(5); en.sg = Some(5);
                ops.push(format!("addfab root={} dnoc={} dicac=-", er.text(), en.text()));
            }
        }
        ops.push("again".to_string());
        ops.push("again".to_string());
        emit(&mut out, ops);
    }

    // ---- 4. the cache itself
    let n_cache = if a.thorough { 3000 } else { 80 };
    for _ in 0..n_cache {
        let mut cr = r.fork();
        out.stat("kind_cache_ops", 1);
        emit(&mut out, vec![format!("cache {}", random_cache_ops(&mut cr, a.thorough))]);
    }
    // eviction at the real capacity
    {
        let mut ops = String::new();
        for k in 0..40u64 {
            ops.push_str(&format!("i{}.{}.0.{}.1;", 1 + k % 3, 10 + k, 500 + k));
        }
        ops.push_str("r500;r539;s");
        out.stat("kind_cache_ops", 1);
        emit(&mut out, vec![format!("cache {}", ops)]);
    }

    // ---- 5. the random mix
    let n_cases = if a.thorough { 15000 } else { 300 };
    for k in 0..n_cases {
        let mut cr = r.fork();
        let (_, c, d) = base(&mut cr, false);
        let root = c.0.clone();
        let mut ops = Vec::new();
        match k % 7 {
            0 => {
                out.stat("kind_honest_then_resume", 1);
                ops.push(hs_line(&root, &c, &d, None, ""));
                ops.push("again".to_string());
                ops.push("again".to_string());
            }
            1 => {
                out.stat("kind_wrong_op_key", 1);
                // the node does not hold the private key its NOC certifies
                let on_ctl = cr.chance(1, 2);
                let extra = format!("{}=5", if on_ctl { "ckey" } else { "dkey" });
                out.stat(&format!("defect_{}_wrong_op_key", if on_ctl { "ctl" } else { "dev" }), 1);
                ops.push(hs_line(&root, &c, &d, None, &extra));
            }
            2 => {
                out.stat("kind_mutation_full", 1);
                ops.push(hs_line(&root, &c, &d, None, &random_mutation(&mut cr, false, &mut out)));
                ops.push("again".to_string());
            }
            3 | 6 => {
                out.stat("kind_mutation_resumed", 1);
                ops.push(hs_line(&root, &c, &d, None, ""));
                ops.push(format!("again {}", random_mutation(&mut cr, true, &mut out)));
                ops.push("again".to_string());
            }
            4 => {
                out.stat("kind_replay_substitute", 1);
                ops.push(hs_line(&root, &c, &d, None, ""));
                let msg = *cr.pick(&["s1", "r2", "st", "s1"]);
                let m = if cr.chance(1, 2) { format!("mut={}:r", msg) } else { format!("mut={}:x:{}", msg, cr.pick(&[1u64, 2, 3, 4, 6, 7])) };
                out.stat("mut_replay_or_subst", 1);
                ops.push(format!("again {}", m));
                ops.push("again".to_string());
            }
            _ => {
                out.stat("kind_schedule", 1);
                ops.push(hs_line(&root, &c, &d, None, &random_sched(&mut cr, &mut out)));
                ops.push(format!("again {}", random_sched(&mut cr, &mut out)));
            }
        }
        emit(&mut out, ops);
    }
    out.finish()
}

pub fn replay(a: &Args) -> String {
    let text = std::fs::read_to_string(a.input.as_ref().expect("--in")).expect("read input");
    let mut out = Out::default();
    for c in parse_cases(&text) {
        run_case(&mut out, &c);
    }
    out.finish()
}
