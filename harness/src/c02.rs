//! C02: PASE admits only a peer that knows the passcode, only while a window is open.
//!
//! One case = a real device `Matter` with the real `SecureChannel` responder and a real controller
//! `Matter` (transport only) on the simulated network with virtual time. A script plays the PASE
//! initiator message by message with the real `Spake2P` prover, so that between any two messages
//! it can open / revoke the window, let time pass, run a second initiator, send a wrong passcode,
//! an invalid share, a mutated or replayed confirmation.
//!
//! `case <id> pw=<device passcode>`
//! ops: `open t=<secs>` | `revoke` | `tick ms=<n>` | `poll`
//!      `openenh pw=<n> t=<secs> sl=<salt bytes> it=<iterations> disc=<discriminator>`   `Pase::open_comm_window` with the
//!                                                          verifier of passcode n for that salt / iteration count
//!      `cmdopen pw=<n> t=<secs> sl=<salt bytes> it=<iterations> disc=<d> [vl=<verifier bytes>]`   the same through the real
//!                                                          `AdminCommHandler::handle_open_commissioning_window` (parameter checks)
//!      `cmdbasic t=<secs>`                                 `AdminCommHandler::handle_open_basic_commissioning_window`
//!      `pbkdf i=<k> [req=good|malformed|pid] [sai=<ms>] [sii=<ms>] [sat=<ms>] [dup=1]`   first message of initiator k (new exchange)
//!      `pake1 i=<k> pw=<n> [pt=valid|zero|offcurve|short|inf1|comp|long|comp65|hybrid|xgep|pfield|gen|m|n|neg] [dup=1]`
//!      `pake3 i=<k> [ca=good|flip|zero|short|replay:<j>] [dup=1] [noack=1]`   (replay: the cA initiator j computed;
//!                                                          noack: the initiator never acknowledges the device's answer and the
//!                                                          network loses every stand-alone ACK of the controller until the end of
//!                                                          the next `tick` - the responder's final `send_with` fails with `Err`)
//!      `abort i=<k>`                                       status report InvalidParameter instead of the next message
//!      `resend i=<k> m=<0|1|2>`                            the identical datagram of k's PBKDFParamRequest / Pake1 / Pake3 once more
//!      `fill n=<k> pin=<0|1>` | `unfill`                   other sessions in the device's table (with / without an active exchange)
//!      `rxto pa=<ms> pi=<ms> pt=<ms> la=<ms>`              `Session::rx_timeout_ms` for these MRP parameters (pure)
//! `dup=1`: the simulated network delivers the datagram twice.
//! `case <id> pw=<n> tamper=<k>:<bit>`: additionally exactly one bit of the *payload* (the TLV handshake
//!      message behind the two headers) of the k-th payload-carrying datagram towards the device - or of the
//!      PBKDFParamResponse - is flipped in flight (bit index modulo the payload length); such cases are checked
//!      by the oracle only (no session may result).
//! every answer: `t=<virtual ms at the op> <reply> | w=<0|1> f=<failures|-> m=<0|1> s=<PASE sessions> adv=<0|1>
//!               tab=F:<n>,Fp:<n>,U:<n>,Up:<n>,R:<n>,P:<n> enh=<0|1|-> disc=<n|-> ev=<classes of evicted sessions|->`
//! (`tab`: the device's session table by class - other sessions without / with an exchange, unsecured sessions
//! without / with an exchange, reserved slots, PASE sessions); a `pbkdfresp` reply carries ` it=<iterations>
//! sl=<salt bytes> rxto=<receive timeout of the responder's exchange, ms>`.
use crate::proto::{parse_cases, Case, Out};
use crate::simnet::{addr_of, now_ms, run_sim, Policy, SimEnd, SimNet, Verdict};
use crate::Args;

use std::cell::{Cell, RefCell};
use std::collections::HashMap;
use std::rc::Rc;

use embassy_futures::select::{select, select4, Either};
use embassy_time::{Duration, Timer};

use rand_core::RngCore;

use rs_matter::crypto::{test_only_crypto, Crypto, EC_POINT_ZEROED, HMAC_HASH_ZEROED};
use rs_matter::dm::devices::test::{TEST_DEV_ATT, TEST_DEV_DET};
use rs_matter::error::{Error, ErrorCode};
use rs_matter::respond::Responder;
use rs_matter::sc::pase::verif_spake2p::{ProverContext, Spake2P, Spake2pVerifierStr};
use rs_matter::sc::pase::{verif_parse_pbkdf_resp, verif_parse_pake2, Spake2pVerifierPassword, Spake2pVerifierPasswordRef};
use rs_matter::sc::{sc_write, OpCode, SCStatusCodes, SecureChannel, StatusReport, PROTO_ID_SECURE_CHANNEL};
use rs_matter::tlv::{OctetStr, TLVTag, TLVWrite, ToTLV};
use rs_matter::transport::exchange::{Exchange, MessageMeta};
use rs_matter::transport::network::MatterLocalService;
use rs_matter::transport::network::NoNetwork;
use rs_matter::transport::packet::PacketHdr;
use rs_matter::transport::session::{Session, SessionMode};
use rs_matter::utils::storage::{ParseBuf, ReadBuf};
use rs_matter::BasicCommData;
use rs_matter::Matter;

#[path = "c02_gen.rs"]
mod c02_gen;
#[path = "c02_cmd.rs"]
mod c02_cmd;
#[path = "c02_init.rs"]
mod c02_init;

const REPLY_WAIT_MS: u64 = 1500;
/// address of a node that does not exist: peer of the filler sessions
const NOWHERE: usize = 7;

fn kv(op: &str) -> HashMap<String, String> {
    let mut m = HashMap::new();
    for w in op.split_whitespace() {
        if let Some((k, v)) = w.split_once('=') {
            m.insert(k.to_string(), v.to_string());
        }
    }
    m
}

fn num(m: &HashMap<String, String>, k: &str) -> u64 {
    m.get(k).and_then(|v| v.parse().ok()).unwrap_or(0)
}

struct Init<'a> {
    ex: Option<Exchange<'a>>,
    spake: Spake2P,
    req: Vec<u8>,
    local_sessid: u16,
    salt: Vec<u8>,
    iterations: u32,
    pa: Vec<u8>,
    prover: Option<ProverContext>,
    pb: Vec<u8>,
    cb: Vec<u8>,
    ca: Option<Vec<u8>>,
    /// the datagrams that carried this initiator's PBKDFParamRequest (0), Pake1 (1), Pake3 (2)
    sent: HashMap<u64, Vec<u8>>,
}

/// per-case harness state shared between the script and the network policy
struct Shared {
    /// opcode of the next initiator datagram the network shall deliver twice
    dup_opcode: Cell<Option<u8>>,
    /// opcode of the next initiator datagram the network shall lose (its MRP retransmission gets through)
    drop_opcode: Cell<Option<u8>>,
    /// the device's next payload-carrying datagram (its answer) is lost (its MRP retransmission gets through)
    rdrop: Cell<bool>,
    /// every stand-alone ACK of the controller is lost (until the end of the next `tick`)
    ackdrop: Cell<bool>,
    /// ids of the filler sessions in the device's table
    fillers: RefCell<Vec<u32>>,
}

/// perfect delivery, except that one chosen datagram is duplicated
struct DupPolicy(Rc<Shared>);
impl Policy for DupPolicy {
    fn decide(&mut self, from: usize, _to: usize, bytes: &[u8], _seq: u64) -> Verdict {
        if from == 1 && self.0.ackdrop.get() {
            if let Some((_, opcode)) = payload_start(bytes) {
                if opcode == OpCode::MRPStandAloneAck as u8 {
                    return Verdict::Drop;
                }
            }
        }
        if from == 1 {
            if let Some(want) = self.0.drop_opcode.get() {
                if let Some((start, opcode)) = payload_start(bytes) {
                    if opcode == want && start < bytes.len() {
                        self.0.drop_opcode.set(None);
                        return Verdict::Drop;
                    }
                }
            }
            if let Some(want) = self.0.dup_opcode.get() {
                if let Some((start, opcode)) = payload_start(bytes) {
                    if opcode == want && start < bytes.len() {
                        self.0.dup_opcode.set(None);
                        return Verdict::Dup;
                    }
                }
            }
        } else if from == 0 && self.0.rdrop.get() {
            if let Some((start, opcode)) = payload_start(bytes) {
                if start < bytes.len() && opcode != OpCode::MRPStandAloneAck as u8 {
                    self.0.rdrop.set(false);
                    return Verdict::Drop;
                }
            }
        }
        Verdict::Deliver
    }
}

/// the device's session table: `(id, class)` with class F / Fp / U / Up / R / P
fn table(device: &Matter, sh: &Shared) -> Vec<(u32, &'static str)> {
    let fillers = sh.fillers.borrow();
    device.with_state(|st| {
        st.verif_sessions_mut()
            .iter()
            .map(|s| {
                let busy = s.verif_exchanges().iter().any(|e| e.is_some());
                let (_, reserved) = s.verif_flags();
                let class = if fillers.contains(&s.id()) {
                    if busy {
                        "Fp"
                    } else {
                        "F"
                    }
                } else if reserved {
                    "R"
                } else if matches!(s.get_session_mode(), SessionMode::Pase { .. }) {
                    "P"
                } else if busy {
                    "Up"
                } else {
                    "U"
                };
                (s.id(), class)
            })
            .collect()
    })
}

fn observe(device: &Matter, sh: &Shared) -> String {
    let (w, f, m) = device.with_state(|st| st.verif_pase().verif_state());
    let tab = table(device, sh);
    let count = |c: &str| tab.iter().filter(|(_, k)| *k == c).count();
    let sessions = count("P");
    let mut adv = 0;
    let mut enh = "-".to_string();
    let mut disc = "-".to_string();
    let _ = device.mdns_services(|s| {
        if let MatterLocalService::Commissionable { discriminator, enhanced, .. } = s {
            adv += 1;
            enh = (enhanced as u8).to_string();
            // the discriminator of a basic window is the device's own (fixed per run): only the supplied one is reported
            if enhanced {
                disc = discriminator.to_string();
            }
        }
        Ok(())
    });
    let fs = device.with_state(|st| st.verif_parts().failsafe.is_armed());
    format!(
        "w={} f={} m={} s={} adv={} tab=F:{},Fp:{},U:{},Up:{},R:{},P:{} enh={} disc={} fs={}",
        w as u8,
        f.map(|x| x.to_string()).unwrap_or("-".into()),
        m as u8,
        sessions,
        adv,
        count("F"),
        count("Fp"),
        count("U"),
        count("Up"),
        count("R"),
        count("P"),
        enh,
        disc,
        fs as u8
    )
}

/// wait for the next message on the exchange (or silence)
async fn reply(ex: &mut Exchange<'_>) -> Result<(u8, Vec<u8>), String> {
    let r = {
        let rx = core::pin::pin!(ex.recv());
        let to = core::pin::pin!(Timer::after(Duration::from_millis(REPLY_WAIT_MS)));
        match select(rx, to).await {
            Either::First(Ok(rx)) => Ok((rx.meta().proto_opcode, rx.payload().to_vec())),
            Either::First(Err(e)) => Err(format!("exch-err:{:?}", e.code())),
            Either::Second(_) => Err("silent".to_string()),
        }
    };
    r
}

fn describe(op: u8, payload: &[u8]) -> String {
    if op == OpCode::StatusReport as u8 {
        let mut rb = ReadBuf::new(payload);
        match StatusReport::read(&mut rb) {
            Ok(s) => format!("status:{}", s.proto_code),
            Err(_) => "status:?".into(),
        }
    } else if op == OpCode::PBKDFParamResponse as u8 {
        "pbkdfresp".into()
    } else if op == OpCode::PASEPake2 as u8 {
        "pake2".into()
    } else if op == OpCode::MRPStandAloneAck as u8 {
        "ack".into()
    } else {
        format!("op:{:02x}", op)
    }
}

/// P-256 constants for the hand-made prover shares
const P256_P: [u8; 32] = [
    0xff, 0xff, 0xff, 0xff, 0x00, 0x00, 0x00, 0x01, 0x00, 0x00, 0x00, 0x00, 0x00, 0x00, 0x00, 0x00, 0x00, 0x00, 0x00, 0x00, 0xff, 0xff,
    0xff, 0xff, 0xff, 0xff, 0xff, 0xff, 0xff, 0xff, 0xff, 0xff,
];
const P256_G: [u8; 65] = [
    0x04, 0x6b, 0x17, 0xd1, 0xf2, 0xe1, 0x2c, 0x42, 0x47, 0xf8, 0xbc, 0xe6, 0xe5, 0x63, 0xa4, 0x40, 0xf2, 0x77, 0x03, 0x7d, 0x81, 0x2d,
    0xeb, 0x33, 0xa0, 0xf4, 0xa1, 0x39, 0x45, 0xd8, 0x98, 0xc2, 0x96, 0x4f, 0xe3, 0x42, 0xe2, 0xfe, 0x1a, 0x7f, 0x9b, 0x8e, 0xe7, 0xeb,
    0x4a, 0x7c, 0x0f, 0x9e, 0x16, 0x2b, 0xce, 0x33, 0x57, 0x6b, 0x31, 0x5e, 0xce, 0xcb, 0xb6, 0x40, 0x68, 0x37, 0xbf, 0x51, 0xf5,
];
/// SPAKE2+ `M` and `N` (RFC 9383, as in `spake2p.rs`)
const SPAKE_M: [u8; 65] = [
    0x04, 0x88, 0x6e, 0x2f, 0x97, 0xac, 0xe4, 0x6e, 0x55, 0xba, 0x9d, 0xd7, 0x24, 0x25, 0x79, 0xf2, 0x99, 0x3b, 0x64, 0xe1, 0x6e, 0xf3,
    0xdc, 0xab, 0x95, 0xaf, 0xd4, 0x97, 0x33, 0x3d, 0x8f, 0xa1, 0x2f, 0x5f, 0xf3, 0x55, 0x16, 0x3e, 0x43, 0xce, 0x22, 0x4e, 0x0b, 0x0e,
    0x65, 0xff, 0x02, 0xac, 0x8e, 0x5c, 0x7b, 0xe0, 0x94, 0x19, 0xc7, 0x85, 0xe0, 0xca, 0x54, 0x7d, 0x55, 0xa1, 0x2e, 0x2d, 0x20,
];
const SPAKE_N: [u8; 65] = [
    0x04, 0xd8, 0xbb, 0xd6, 0xc6, 0x39, 0xc6, 0x29, 0x37, 0xb0, 0x4d, 0x99, 0x7f, 0x38, 0xc3, 0x77, 0x07, 0x19, 0xc6, 0x29, 0xd7, 0x01,
    0x4d, 0x49, 0xa2, 0x4b, 0x4f, 0x98, 0xba, 0xa1, 0x29, 0x2b, 0x49, 0x07, 0xd6, 0x0a, 0xa6, 0xbf, 0xad, 0xe4, 0x50, 0x08, 0xa6, 0x36,
    0x33, 0x7f, 0x51, 0x68, 0xc6, 0x4d, 0x9b, 0xd3, 0x60, 0x34, 0x80, 0x8c, 0xd5, 0x64, 0x49, 0x0b, 0x1e, 0x65, 0x6e, 0xdb, 0xe7,
];

/// `p - y` for a 32-byte big-endian `y < p`
fn p_minus(y: &[u8]) -> Vec<u8> {
    let mut out = vec![0u8; 32];
    let mut borrow = 0i32;
    for i in (0..32).rev() {
        let mut d = P256_P[i] as i32 - y[i] as i32 - borrow;
        if d < 0 {
            d += 256;
            borrow = 1;
        } else {
            borrow = 0;
        }
        out[i] = d as u8;
    }
    out
}

/// what goes on the wire as `pA` for the real share `pa` (65 bytes, uncompressed)
fn wire_share(kind: &str, pa: &[u8]) -> Vec<u8> {
    let mut wire = pa.to_vec();
    match kind {
        "zero" => wire = vec![0u8; 65],
        "offcurve" => wire[64] ^= 1,
        "short" => wire.truncate(33),
        // the one-byte SEC1 encoding of the point at infinity
        "inf1" => wire = vec![0u8],
        // the proper compressed form of the real share (33 bytes)
        "comp" => {
            wire = vec![0x02 | (pa[64] & 1)];
            wire.extend_from_slice(&pa[1..33]);
        }
        "long" => wire.push(0),
        // compressed tag on a 65-byte string
        "comp65" => {
            wire[0] = 0x02 | (pa[64] & 1);
            for b in wire[33..].iter_mut() {
                *b = 0;
            }
        }
        // hybrid encoding (tag 6 / 7) of the real share
        "hybrid" => wire[0] = 0x06 | (pa[64] & 1),
        // x >= p
        "xgep" => {
            for b in wire[1..33].iter_mut() {
                *b = 0xff;
            }
        }
        // x = p (== 0 mod p), y = 0
        "pfield" => {
            wire[1..33].copy_from_slice(&P256_P);
            for b in wire[33..].iter_mut() {
                *b = 0;
            }
        }
        // valid points that are not the prover's share
        "gen" => wire = P256_G.to_vec(),
        "m" => wire = SPAKE_M.to_vec(),
        "n" => wire = SPAKE_N.to_vec(),
        "neg" => {
            let ny = p_minus(&pa[33..65]);
            wire[33..].copy_from_slice(&ny);
        }
        _ => {}
    }
    wire
}

/// deterministic salt of `n` bytes for the enhanced window of passcode `pw`
fn enh_salt(pw: u64, n: usize) -> Vec<u8> {
    (0..n).map(|i| (pw as u8).wrapping_mul(7).wrapping_add(i as u8).wrapping_mul(13) ^ 0x5a).collect()
}

async fn run_script<'a, C: Crypto>(
    device: &'a Matter<'a>,
    ctrl: &'a Matter<'a>,
    crypto: &'a C,
    net: &SimNet,
    sh: &Shared,
    ops: &[String],
    outs: &RefCell<Vec<String>>,
    notes: &RefCell<Vec<String>>,
) -> Result<(), Error> {
    let mut inits: HashMap<u64, Init<'a>> = HashMap::new();
    for op in ops {
        let m = kv(op);
        let t0 = now_ms();
        let head = op.split_whitespace().next().unwrap_or("");
        let before = table(device, sh);
        let log0 = net.log_len();
        let mut harness_removed: Vec<u32> = Vec::new();
        let own_opcode = match head {
            "pbkdf" => Some(OpCode::PBKDFParamRequest as u8),
            "pake1" => Some(OpCode::PASEPake1 as u8),
            "pake3" => Some(OpCode::PASEPake3 as u8),
            _ => None,
        };
        if m.get("dup").map(|d| d == "1").unwrap_or(false) {
            sh.dup_opcode.set(own_opcode);
        }
        // `drop=1`: the first transmission of this op's datagram is lost; `rdrop=1`: the device's answer is lost once
        if m.get("drop").map(|d| d == "1").unwrap_or(false) {
            sh.drop_opcode.set(own_opcode);
        }
        if m.get("rdrop").map(|d| d == "1").unwrap_or(false) && own_opcode.is_some() {
            sh.rdrop.set(true);
        }
        let res: String = match head {
            "open" => match device.open_basic_comm_window(num(&m, "t") as u16, crypto, &()) {
                Ok(()) => "ok".into(),
                Err(e) => format!("err:{:?}", e.code()),
            },
            "openenh" => {
                let pw = (num(&m, "pw") as u32).to_le_bytes();
                let salt = enh_salt(num(&m, "pw"), num(&m, "sl") as usize);
                let it = num(&m, "it") as u32;
                let mut verifier = Spake2pVerifierStr::new();
                Spake2P::verif_compute_verifier(crypto, Spake2pVerifierPasswordRef::new(&pw), it, &salt, &mut verifier)?;
                let mdns_id = crypto.rand()?.next_u64();
                match device.with_state(|st| {
                    st.verif_pase().open_comm_window(
                        mdns_id,
                        verifier.reference(),
                        &salt,
                        it,
                        num(&m, "disc") as u16,
                        num(&m, "t") as u16,
                        None,
                        || {},
                        |_, _| {},
                    )
                }) {
                    Ok(()) => "ok".into(),
                    Err(e) => format!("err:{:?}", e.code()),
                }
            }
            "cmdopen" | "cmdbasic" => {
                // the command arrives on an exchange of a session that is not a CASE session (no opener); session and
                // exchange exist only for the duration of the call
                let slot = device.with_state(|st| {
                    st.verif_sessions_mut().add(9, false, addr_of(NOWHERE), None, &TEST_DEV_DET).ok().and_then(|sess| {
                        let id = sess.id();
                        sess.verif_add_exch(39_999, true).map(|idx| (id, idx))
                    })
                });
                match slot {
                    None => "skip".into(),
                    Some((sid, idx)) => {
                        let pw = (num(&m, "pw") as u32).to_le_bytes();
                        let salt = enh_salt(num(&m, "pw"), num(&m, "sl") as usize);
                        let it = num(&m, "it") as u32;
                        let mut verifier = Spake2pVerifierStr::new();
                        if head == "cmdopen" {
                            // the verifier is computed for the requested parameters; for an iteration count the handler
                            // refuses anyway (beyond 100000, or 0) any verifier will do
                            let vit = if it == 0 || it > 100_000 { 1000 } else { it };
                            Spake2P::verif_compute_verifier(crypto, Spake2pVerifierPasswordRef::new(&pw), vit, &salt, &mut verifier)?;
                        }
                        let mut vbytes = verifier.access().to_vec();
                        vbytes.resize(if m.contains_key("vl") { num(&m, "vl") as usize } else { 97 }, 0x11);
                        let r = {
                            let ex = Exchange::verif_new(device, sid, idx);
                            let cmd = if head == "cmdopen" {
                                c02_cmd::Cmd::Open { timeout: num(&m, "t") as u16, verifier: &vbytes, discriminator: num(&m, "disc") as u16, iterations: it, salt: &salt }
                            } else {
                                c02_cmd::Cmd::OpenBasic { timeout: num(&m, "t") as u16 }
                            };
                            let r = c02_cmd::invoke(device, crypto, &ex, &cmd);
                            core::mem::forget(ex);
                            r
                        };
                        device.with_state(|st| {
                            st.verif_sessions_mut().remove(sid);
                        });
                        harness_removed.push(sid);
                        r
                    }
                }
            }
            "cmdrevoke" => {
                // the command `RevokeCommissioning` through the real `AdminCommHandler`, on an exchange of a session that
                // is neither CASE nor PASE (session and exchange exist only for the duration of the call)
                let slot = device.with_state(|st| {
                    st.verif_sessions_mut().add(9, false, addr_of(NOWHERE), None, &TEST_DEV_DET).ok().and_then(|sess| {
                        let id = sess.id();
                        sess.verif_add_exch(39_998, true).map(|idx| (id, idx))
                    })
                });
                match slot {
                    None => "skip".into(),
                    Some((sid, idx)) => {
                        let r = {
                            let ex = Exchange::verif_new(device, sid, idx);
                            let r = c02_cmd::invoke(device, crypto, &ex, &c02_cmd::Cmd::Revoke);
                            core::mem::forget(ex);
                            r
                        };
                        device.with_state(|st| {
                            st.verif_sessions_mut().remove(sid);
                        });
                        harness_removed.push(sid);
                        r
                    }
                }
            }
            "fspoll" => {
                // `InteractionModel::check_timeouts`: the fail-safe timer (the window's own timer is `poll`)
                let kv = device.kv(rs_matter::persist::DummyKvBlobStore);
                let nets = rs_matter::dm::clusters::net_comm::DummyNetworkAccess;
                let r = device.with_state(|st| {
                    let p = st.verif_parts();
                    p.failsafe.check_failsafe_timeout(p.fabrics, p.sessions, &nets, &kv, None, || {}, |_, _| {})
                });
                match r {
                    Ok(_) => "-".into(),
                    Err(e) => format!("err:{:?}", e.code()),
                }
            }
            "revoke" => match device.close_comm_window(&()) {
                Ok(_) => "ok".into(),
                Err(e) => format!("err:{:?}", e.code()),
            },
            "tick" => {
                Timer::after(Duration::from_millis(num(&m, "ms"))).await;
                sh.ackdrop.set(false);
                "-".into()
            }
            "poll" => {
                let _ = device.with_state(|st| st.verif_pase().check_comm_window_timeout(|| {}, |_, _| {}));
                "-".into()
            }
            "fill" => {
                let n = num(&m, "n");
                let pin = num(&m, "pin") == 1;
                let mut added = 0;
                device.with_state(|st| {
                    for j in 0..n {
                        let id = match st.verif_sessions_mut().add(j as u32, false, addr_of(NOWHERE), None, &TEST_DEV_DET) {
                            Ok(sess) => {
                                if pin {
                                    // an initiator-role exchange nobody owns: it only pins the session (nothing accepts it)
                                    let _ = sess.verif_add_exch(40_000 + j as u16, true);
                                }
                                sess.id()
                            }
                            Err(_) => break,
                        };
                        sh.fillers.borrow_mut().push(id);
                        added += 1;
                    }
                });
                format!("ok:{}", added)
            }
            "unfill" => {
                let ids: Vec<u32> = sh.fillers.borrow_mut().drain(..).collect();
                device.with_state(|st| {
                    for id in &ids {
                        if st.verif_sessions_mut().remove(*id).is_some() {
                            harness_removed.push(*id);
                        }
                    }
                });
                "ok".into()
            }
            "rxto" => {
                let s = Session::new(1, 0, false, addr_of(1), None, num(&m, "pa") as u32, num(&m, "pi") as u32, num(&m, "pt") as u16);
                format!("rxto={}", s.verif_rx_timeout_ms(num(&m, "la") as u32))
            }
            "pbkdf" => {
                let k = num(&m, "i");
                // the controller is only a tool: finished sessions are dropped silently, so that it never has to
                // evict one itself (which would close the device's counterpart behind the model's back)
                ctrl.with_state(|st| {
                    let ids: Vec<u32> = st.verif_sessions_mut().iter().filter(|s| s.verif_exchanges().iter().all(|e| e.is_none())).map(|s| s.id()).collect();
                    for id in ids {
                        st.verif_sessions_mut().remove(id);
                    }
                });
                let mut ex = Exchange::initiate_plaintext(ctrl, crypto, addr_of(0)).await?;
                let local_sessid = 100 + k as u16;
                let kind = m.get("req").cloned().unwrap_or("good".into());
                let mut rnd = [0u8; 32];
                for (i, b) in rnd.iter_mut().enumerate() {
                    *b = (k as u8).wrapping_mul(31).wrapping_add(i as u8);
                }
                let params: Vec<(u8, u64)> = [("sii", 1u8), ("sai", 2u8), ("sat", 3u8)].iter().filter(|(key, _)| m.contains_key(*key)).map(|(key, tag)| (*tag, num(&m, key))).collect();
                let mut req: Vec<u8> = Vec::new();
                ex.send_with(|_, wb| {
                    if kind == "malformed" {
                        // a structure that lacks the mandatory fields
                        wb.start_struct(&TLVTag::Anonymous)?;
                        7u16.to_tlv(&TLVTag::Context(9), &mut *wb)?;
                        wb.end_container()?;
                    } else {
                        wb.start_struct(&TLVTag::Anonymous)?;
                        OctetStr::new(&rnd).to_tlv(&TLVTag::Context(1), &mut *wb)?;
                        local_sessid.to_tlv(&TLVTag::Context(2), &mut *wb)?;
                        (if kind == "pid" { 1u16 } else { 0u16 }).to_tlv(&TLVTag::Context(3), &mut *wb)?;
                        false.to_tlv(&TLVTag::Context(4), &mut *wb)?;
                        if !params.is_empty() {
                            wb.start_struct(&TLVTag::Context(5))?;
                            for (tag, v) in &params {
                                if *tag == 3 {
                                    (*v as u16).to_tlv(&TLVTag::Context(*tag), &mut *wb)?;
                                } else {
                                    (*v as u32).to_tlv(&TLVTag::Context(*tag), &mut *wb)?;
                                }
                            }
                            wb.end_container()?;
                        }
                        wb.end_container()?;
                    }
                    req = wb.as_slice().to_vec();
                    Ok(Some(MessageMeta::new(PROTO_ID_SECURE_CHANNEL, OpCode::PBKDFParamRequest as u8, true)))
                })
                .await?;
                let mut init = Init { ex: None, spake: Spake2P::new(), req, local_sessid, salt: vec![], iterations: 0, pa: vec![], prover: None, pb: vec![], cb: vec![], ca: None, sent: HashMap::new() };
                let r = reply(&mut ex).await;
                let s = match r {
                    Ok((opc, payload)) => {
                        let mut extra = String::new();
                        if opc == OpCode::PBKDFParamResponse as u8 {
                            if let Ok((salt, iterations)) = verif_parse_pbkdf_resp(&payload) {
                                init.salt = salt.to_vec();
                                init.iterations = iterations;
                                let ctx = init.spake.start_context(crypto, init.local_sessid, 0, &init.req)?;
                                init.spake.finish_context::<C>(ctx, &payload)?;
                                // the receive timeout of the responder's exchange: the newest unsecured session with an exchange
                                let rxto = device.with_state(|st| {
                                    let fillers = sh.fillers.borrow();
                                    st.verif_sessions_mut()
                                        .iter()
                                        .filter(|s| !fillers.contains(&s.id()) && matches!(s.get_session_mode(), SessionMode::PlainText) && !s.verif_flags().1 && s.verif_exchanges().iter().any(|e| e.is_some()))
                                        .max_by_key(|s| s.id())
                                        .map(|s| s.verif_rx_timeout_ms(TEST_DEV_DET.sai.unwrap_or(300)))
                                });
                                extra = format!(" it={} sl={} rxto={}", iterations, salt.len(), rxto.map(|x| x.to_string()).unwrap_or("-".into()));
                            }
                        }
                        format!("{}{}", describe(opc, &payload), extra)
                    }
                    Err(e) => e,
                };
                // an initiator that got no PBKDFParamResponse has nothing more to say: its exchange is closed
                init.ex = if s.starts_with("pbkdfresp") { Some(ex) } else { None };
                inits.insert(k, init);
                s
            }
            "pake1" => {
                let k = num(&m, "i");
                match inits.get_mut(&k) {
                    Some(init) if init.ex.is_some() && !init.salt.is_empty() => {
                        let pw = (num(&m, "pw") as u32).to_le_bytes();
                        let mut pa = EC_POINT_ZEROED;
                        let prover = init.spake.setup_prover(crypto, Spake2pVerifierPasswordRef::new(&pw), &init.salt, init.iterations, &mut pa)?;
                        init.prover = Some(prover);
                        init.pa = pa.access().to_vec();
                        let wire = wire_share(m.get("pt").map(|s| s.as_str()).unwrap_or("valid"), &init.pa);
                        let ex = init.ex.as_mut().unwrap();
                        ex.send_with(|_, wb| {
                            wb.start_struct(&TLVTag::Anonymous)?;
                            OctetStr::new(&wire).to_tlv(&TLVTag::Context(1), &mut *wb)?;
                            wb.end_container()?;
                            Ok(Some(MessageMeta::new(PROTO_ID_SECURE_CHANNEL, OpCode::PASEPake1 as u8, true)))
                        })
                        .await?;
                        match reply(ex).await {
                            Ok((opc, payload)) => {
                                if opc == OpCode::PASEPake2 as u8 {
                                    if let Ok((pb, cb)) = verif_parse_pake2(&payload) {
                                        init.pb = pb.to_vec();
                                        init.cb = cb.to_vec();
                                        // complete the prover; with a wrong passcode cB does not verify, the
                                        // confirmation value the prover would have sent is still taken
                                        let mut ca = HMAC_HASH_ZEROED;
                                        let pa_ref = init.pa.as_slice().try_into()?;
                                        let pb_ref = init.pb.as_slice().try_into()?;
                                        let cb_ref = init.cb.as_slice().try_into()?;
                                        let _ = init.spake.complete_prover(crypto, init.prover.as_ref().unwrap(), pa_ref, pb_ref, cb_ref, &mut ca);
                                        init.ca = Some(init.spake.verif_ca().to_vec());
                                    }
                                }
                                describe(opc, &payload)
                            }
                            Err(e) => e,
                        }
                    }
                    _ => "skip".into(),
                }
            }
            "pake3" => {
                let k = num(&m, "i");
                let mode = m.get("ca").cloned().unwrap_or("good".into());
                let replayed: Option<Vec<u8>> = mode.strip_prefix("replay:").and_then(|j| j.parse::<u64>().ok()).and_then(|j| inits.get(&j).and_then(|i| i.ca.clone()));
                match inits.get_mut(&k) {
                    Some(init) if init.ex.is_some() && init.ca.is_some() => {
                        let mut ca = init.ca.clone().unwrap();
                        match mode.as_str() {
                            "flip" => ca[7] ^= 0x10,
                            "zero" => ca = vec![0u8; 32],
                            "short" => ca.truncate(16),
                            "good" => {}
                            _ => {
                                if let Some(r) = replayed {
                                    ca = r
                                } else {
                                    ca[0] ^= 1
                                }
                            }
                        }
                        let ex = init.ex.as_mut().unwrap();
                        ex.send_with(|_, wb| {
                            wb.start_struct(&TLVTag::Anonymous)?;
                            OctetStr::new(&ca).to_tlv(&TLVTag::Context(1), &mut *wb)?;
                            wb.end_container()?;
                            Ok(Some(MessageMeta::new(PROTO_ID_SECURE_CHANNEL, OpCode::PASEPake3 as u8, true)))
                        })
                        .await?;
                        let noack = m.get("noack").map(|d| d == "1").unwrap_or(false);
                        if noack {
                            sh.ackdrop.set(true);
                        }
                        let s = match reply(ex).await {
                            Ok((opc, payload)) => {
                                if !noack {
                                    let _ = ex.acknowledge().await;
                                }
                                describe(opc, &payload)
                            }
                            Err(e) => e,
                        };
                        init.ex = None;
                        s
                    }
                    _ => "skip".into(),
                }
            }
            "abort" => {
                let k = num(&m, "i");
                match inits.get_mut(&k) {
                    Some(init) if init.ex.is_some() => {
                        let ex = init.ex.as_mut().unwrap();
                        let _ = ex.send_with(|_, wb| sc_write(wb, SCStatusCodes::InvalidParameter, &[])).await;
                        // give the responder the time to digest it
                        Timer::after(Duration::from_millis(50)).await;
                        init.ex = None;
                        "-".into()
                    }
                    _ => "skip".into(),
                }
            }
            "resend" => {
                let k = num(&m, "i");
                match inits.get(&k).and_then(|i| i.sent.get(&num(&m, "m"))) {
                    Some(bytes) => {
                        let at = net.log_len();
                        net.inject(1, 0, bytes);
                        Timer::after(Duration::from_millis(30)).await;
                        // what the device sent back in answer to it: datagrams it has not sent before
                        let log = net.log();
                        let mut seen: Vec<String> = Vec::new();
                        for (j, e) in log.iter().enumerate().skip(at) {
                            if e.from != 0 || log[..j].iter().any(|o| o.from == 0 && o.bytes == e.bytes) {
                                continue;
                            }
                            if let Some((start, opcode)) = payload_start(&e.bytes) {
                                let d = describe(opcode, &e.bytes[start..]);
                                if !seen.contains(&d) {
                                    seen.push(d);
                                }
                            }
                        }
                        if seen.is_empty() {
                            "silent".into()
                        } else {
                            seen.join("+")
                        }
                    }
                    None => "skip".into(),
                }
            }
            _ => "skip".into(),
        };
        sh.dup_opcode.set(None);
        sh.drop_opcode.set(None);
        sh.rdrop.set(false);
        // (Before repo fix `e29fea6` a stray one-byte datagram was injected here: `Transport::accept_if` used to
        // evaluate its predicate on the stale headers of the last datagram at every poll and thereby refreshed
        // `last_use` of that datagram's session, which kept it from being evicted. No longer needed.)
        // let the device finish what the message triggered
        Timer::after(Duration::from_millis(20)).await;
        // remember the datagram that carried this handshake message (for `resend`)
        let want = match head {
            "pbkdf" => Some((0u64, OpCode::PBKDFParamRequest as u8)),
            "pake1" => Some((1, OpCode::PASEPake1 as u8)),
            "pake3" => Some((2, OpCode::PASEPake3 as u8)),
            _ => None,
        };
        if let (Some((idx, opcode)), Some(init)) = (want, inits.get_mut(&num(&m, "i"))) {
            let log = net.log();
            if let Some(e) = log.iter().skip(log0).find(|e| e.from == 1 && payload_start(&e.bytes).map(|(st, o)| o == opcode && st < e.bytes.len()).unwrap_or(false)) {
                init.sent.insert(idx, e.bytes.clone());
            }
        }
        // sessions that left the table without the harness or a dropped reservation having removed them: evicted
        let after = table(device, sh);
        let mut ev: Vec<&str> = before
            .iter()
            .filter(|(id, class)| *class != "R" && !harness_removed.contains(id) && !after.iter().any(|(i2, _)| i2 == id))
            .map(|(_, class)| match *class {
                "F" | "Fp" => "F",
                "U" | "Up" => "U",
                other => other,
            })
            .collect();
        ev.sort();
        // an evicted filler is no longer the harness' to remove
        sh.fillers.borrow_mut().retain(|id| after.iter().any(|(i2, _)| i2 == id));
        // a lost first transmission: the message reached the device with the retransmission - that is the instant of the step
        let t_eff = match (m.get("drop").map(|d| d == "1").unwrap_or(false), own_opcode) {
            (true, Some(opc)) => net
                .log()
                .iter()
                .skip(log0)
                .filter(|e| e.from == 1 && e.verdict != Verdict::Drop && payload_start(&e.bytes).map(|(st, o)| o == opc && st < e.bytes.len()).unwrap_or(false))
                .map(|e| e.t_ms)
                .next()
                .unwrap_or(t0),
            _ => t0,
        };
        let mut line = format!("t={} {} | {} ev={}", t_eff, res, observe(device, sh), if ev.is_empty() { "-".to_string() } else { ev.join(",") });
        for n in notes.borrow_mut().drain(..) {
            line.push(' ');
            line.push_str(&n);
        }
        outs.borrow_mut().push(line);
    }
    Ok(())
}

/// offset of the application payload of an unsecured datagram and its protocol opcode (real header parsers)
fn payload_start(bytes: &[u8]) -> Option<(usize, u8)> {
    let mut c = bytes.to_vec();
    let mut pb = ParseBuf::new(&mut c);
    let mut hdr = PacketHdr::new();
    hdr.plain.decode(&mut pb).ok()?;
    if hdr.plain.is_encrypted() {
        return None;
    }
    hdr.decode_remaining(test_only_crypto(), None, 0, &mut pb).ok()?;
    Some((pb.read_off(), hdr.proto.proto_opcode))
}

fn run_case(out: &mut Out, case: &Case) {
    if case.kind.split_whitespace().next() == Some("init") {
        return c02_init::run_init_case(out, case);
    }
    out.case(case.id, &case.kind);
    let m = kv(&case.kind);
    let pw = (num(&m, "pw") as u32).to_le_bytes();
    let comm = BasicCommData { password: Spake2pVerifierPassword::new_from_ref(Spake2pVerifierPasswordRef::new(&pw)), discriminator: 3840 };
    let sh = Rc::new(Shared { dup_opcode: Cell::new(None), drop_opcode: Cell::new(None), rdrop: Cell::new(false), ackdrop: Cell::new(false), fillers: RefCell::new(Vec::new()) });
    let net = SimNet::new(2, Box::new(DupPolicy(sh.clone())));
    let device = Matter::new(&TEST_DEV_DET, comm.clone(), &TEST_DEV_ATT, 0);
    let ctrl = Matter::new(&TEST_DEV_DET, comm, &TEST_DEV_ATT, 0);
    let crypto = test_only_crypto();
    let ds = net.socket(0);
    let cs = net.socket(1);
    let sc = SecureChannel::new(&crypto, &());
    let responder = Responder::new("device", sc, &device, 0);
    let outs: RefCell<Vec<String>> = RefCell::new(Vec::new());
    let notes: std::rc::Rc<RefCell<Vec<String>>> = std::rc::Rc::new(RefCell::new(Vec::new()));
    if let Some(t) = m.get("tamper") {
        let notes = notes.clone();
        let mut it = t.split(':');
        let k: u64 = it.next().and_then(|x| x.parse().ok()).unwrap_or(0);
        let bit: usize = it.next().and_then(|x| x.parse().ok()).unwrap_or(0);
        let mut seen = 0u64;
        net.set_tamper(Box::new(move |_seq, from, _to, bytes| {
            let (start, opcode) = payload_start(bytes)?;
            if start >= bytes.len() {
                return None; // stand-alone acknowledgement
            }
            // towards the device: every handshake message; towards the initiator: the PBKDFParamResponse only
            // (a damaged Pake2 is the initiator's to detect, not the responder's)
            if from == 0 && opcode != OpCode::PBKDFParamResponse as u8 {
                return None;
            }
            seen += 1;
            if seen != k {
                return None;
            }
            let mut v = bytes.to_vec();
            let b = bit % ((bytes.len() - start) * 8);
            // which payload byte of which message was hit: `hit=<opcode hex>:<offset>/<payload length>:<bit>:<old byte hex>`
            notes.borrow_mut().push(format!("hit={:02x}:{}/{}:{}:{:02x}", opcode, b / 8, bytes.len() - start, b % 8, v[start + b / 8]));
            v[start + b / 8] ^= 1 << (b % 8);
            Some(v)
        }));
    }
    let end = {
        let script = run_script(&device, &ctrl, &crypto, &net, &sh, &case.ops, &outs, &notes);
        let all = async {
            match select4(device.run(&crypto, &ds, &ds, NoNetwork), responder.run::<4>(), ctrl.run(&crypto, &cs, &cs, NoNetwork), script).await {
                embassy_futures::select::Either4::Fourth(r) => r,
                _ => Err(ErrorCode::Invalid.into()),
            }
        };
        run_sim(&net, all, 4_000_000)
    };
    let outs = outs.into_inner();
    for (i, op) in case.ops.iter().enumerate() {
        match outs.get(i) {
            Some(o) => {
                out.stat(&format!("reply_{}", o.split_whitespace().nth(1).unwrap_or("?").split(':').next().unwrap_or("?").split('=').next().unwrap_or("?")), 1);
                if let Some(ev) = o.split_whitespace().find_map(|w| w.strip_prefix("ev=")) {
                    if ev != "-" {
                        out.stat(&format!("evicted_{}", ev), 1);
                    }
                }
                out.op(op, o)
            }
            None => out.op(
                op,
                match &end {
                    SimEnd::Done(Err(e)) => Box::leak(format!("script-err:{:?}", e.code()).into_boxed_str()),
                    SimEnd::Timeout => "sim-timeout",
                    _ => "missing",
                },
            ),
        }
    }
}

pub fn gen(a: &Args) -> String {
    c02_gen::gen(a, &mut |out, case| run_case(out, case))
}

/// `C02_LOG=1`: rs-matter's log output on stderr while replaying (debugging aid)
struct StderrLog;
impl log::Log for StderrLog {
    fn enabled(&self, _: &log::Metadata) -> bool {
        true
    }
    fn log(&self, r: &log::Record) {
        eprintln!("[{} {}] {}", now_ms(), r.level(), r.args());
    }
    fn flush(&self) {}
}
static STDERR_LOG: StderrLog = StderrLog;

pub fn replay(a: &Args) -> String {
    if std::env::var("C02_LOG").is_ok() {
        let _ = log::set_logger(&STDERR_LOG);
        log::set_max_level(log::LevelFilter::Debug);
    }
    let text = std::fs::read_to_string(a.input.as_ref().expect("--in")).expect("read input");
    let mut out = Out::default();
    for c in parse_cases(&text) {
        run_case(&mut out, &c);
    }
    out.finish()
}
