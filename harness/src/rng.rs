//! SplitMix64: every random choice of the harness derives from one state seeded by VERIF_SEED.
#[derive(Clone)]
pub struct Rng(pub u64);

impl Rng {
    pub fn new(seed: u64) -> Self {
        // mix the seed (SplitMix64 finaliser) so that seeds s and s+1 do not yield the same
        // stream shifted by one draw
        let mut z = seed.wrapping_add(0x1234_5678_9ABC_DEF1).wrapping_mul(0x9E37_79B9_7F4A_7C15);
        z = (z ^ (z >> 30)).wrapping_mul(0xBF58_476D_1CE4_E5B9);
        z = (z ^ (z >> 27)).wrapping_mul(0x94D0_49BB_1331_11EB);
        Rng(z ^ (z >> 31))
    }
    pub fn next(&mut self) -> u64 {
        self.0 = self.0.wrapping_add(0x9E37_79B9_7F4A_7C15);
        let mut z = self.0;
        z = (z ^ (z >> 30)).wrapping_mul(0xBF58_476D_1CE4_E5B9);
        z = (z ^ (z >> 27)).wrapping_mul(0x94D0_49BB_1331_11EB);
        z ^ (z >> 31)
    }
    /// uniform in 0..n (n > 0)
    pub fn below(&mut self, n: u64) -> u64 {
        self.next() % n
    }
    pub fn range(&mut self, lo: u64, hi_incl: u64) -> u64 {
        lo + self.below(hi_incl - lo + 1)
    }
    pub fn chance(&mut self, num: u64, den: u64) -> bool {
        self.below(den) < num
    }
    pub fn pick<'a, T>(&mut self, xs: &'a [T]) -> &'a T {
        &xs[self.below(xs.len() as u64) as usize]
    }
    pub fn bytes(&mut self, n: usize) -> Vec<u8> {
        (0..n).map(|_| self.next() as u8).collect()
    }
    pub fn fork(&mut self) -> Rng {
        Rng::new(self.next())
    }
}
