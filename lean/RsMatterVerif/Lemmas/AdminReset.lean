import RsMatterVerif.Model.AdminReset
import RsMatterVerif.Lemmas.AdminRefs
/-!
Lemmas about `factoryResetAt` (the factory reset of the running node with the store fault on its
`k`-th store call, `Model/AdminReset.lean`) and histories over the extended alphabet `OpR`.
-/
namespace Admin

/-- a history over the extended alphabet, one operation after the other -/
def runR (cfg : Cfg) (n : Node) : List OpR → Node
  | [] => n
  | op :: rest => runR cfg (stepR cfg n op).1 rest

/-- histories of the shared alphabet are histories of the extended one -/
theorem runR_base (cfg : Cfg) (ops : List Op) : ∀ n : Node, runR cfg n (ops.map .base) = run cfg n ops := by
  induction ops with
  | nil => intro n; rfl
  | cons op rest ih => intro n; exact ih _

theorem runR_append (cfg : Cfg) (a b : List OpR) : ∀ n : Node, runR cfg n (a ++ b) = runR cfg (runR cfg n a) b := by
  induction a with
  | nil => intro n; rfl
  | cons op rest ih => intro n; exact ih _

/-- **what a factory reset leaves in memory, WHICHEVER of its store calls fails** (one-step lemma,
arbitrary state): no fabric, no session of a fabric, no resumption record; the fail-safe is not
touched. This is the contract `Matter::factory_reset` states in its comment ("each `reset_persist`
resets the in-memory state first"): an implementation in which a part touches the store BEFORE its
memory (seeded change C07c, `ResumableSessions::reset_persist`) contradicts it at `k = resetPosResum`. -/
theorem factoryResetAt_mem (n : Node) (k : Nat) :
    (factoryResetAt n k).1.fabrics = [] ∧
    (factoryResetAt n k).1.sessions = n.sessions.filter (fun s => s.mode.fab = 0) ∧
    (factoryResetAt n k).1.resum = [] ∧
    (factoryResetAt n k).1.nets = [] ∧ (factoryResetAt n k).1.fs = n.fs ∧
    (factoryResetAt n k).1.failIn = 0 := by
  unfold factoryResetAt
  rcases delFabricKeys
    (if (decide (1 ≤ k) && decide (k ≤ resetPosNets) && decide (k ≤ 255)) = true then k else 256) 1 256 n.kv n.hist
    with ⟨kv1, hist1⟩
  simp only [kvCommit]
  refine ⟨?_, ?_, ?_, ?_, ?_, ?_⟩
  all_goals (repeat' split) <;> rfl

/-- the answer: an error exactly when one of the 261 store calls was hit -/
theorem factoryResetAt_status (n : Node) (k : Nat) :
    (factoryResetAt n k).2 = if 1 ≤ k ∧ k ≤ resetPosNets then .err "NoSpace" else .ok := by
  unfold factoryResetAt
  by_cases h1 : 1 ≤ k <;> by_cases h2 : k ≤ resetPosNets <;> simp [h1, h2]

/-- after a factory reset - whichever store call fails - nothing refers to a fabric at all -/
theorem factoryResetAt_noRef (n : Node) (k : Nat) : NoRef (factoryResetAt n k).1 := by
  have ⟨_, h2, h3, _⟩ := factoryResetAt_mem n k
  refine ⟨fun s hs _ hf0 => ?_, fun r hr => ?_⟩
  · rw [h2, List.mem_filter] at hs
    exact absurd (by simpa using hs.2) hf0
  · rw [h3] at hr; cases hr

theorem stepR_noRef (cfg : Cfg) (n : Node) (op : OpR) (h : NoRef n) : NoRef (stepR cfg n op).1 := by
  cases op with
  | base op => exact step_noRef cfg n op h
  | fresetAt k => exact factoryResetAt_noRef n k

/-- a fault on a fabric key (positions 1..255) is the faulty reset of the shared model -/
theorem factoryResetAt_fabKey (n : Node) (k : Nat) (h1 : 1 ≤ k) (h2 : k ≤ 255) :
    factoryResetAt n k = factoryReset { n with failIn := k } := by
  have hk0 : k ≠ 0 := by omega
  have hr : k ≠ resetPosResum := by unfold resetPosResum; omega
  have hn : k ≠ resetPosNets := by unfold resetPosNets; omega
  have hle : k ≤ resetPosNets := by unfold resetPosNets; omega
  unfold factoryResetAt factoryReset
  simp [h1, h2, hk0, hr, hn, hle]

/-- no fault: the clean reset of the shared model -/
theorem factoryResetAt_clean (n : Node) (k : Nat) (h : k = 0 ∨ resetPosNets < k) :
    factoryResetAt n k = factoryReset { n with failIn := 0 } := by
  have hr : k ≠ resetPosResum := by unfold resetPosResum; unfold resetPosNets at h; omega
  have hn : k ≠ resetPosNets := by unfold resetPosNets at *; omega
  have hf : (decide (1 ≤ k) && decide (k ≤ resetPosNets)) = false := by
    rcases h with h | h
    · simp [h]
    · simp [Nat.not_le.mpr h]
  unfold factoryResetAt factoryReset
  simp [hf, hr, hn]

end Admin
