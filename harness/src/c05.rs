//! C05: the access-control decision.
//!
//! One case = one node configuration built through the real API on a real `Matter` object
//! (`Fabrics::add_with_post_init`, `Fabrics::remove`, `Fabric::acl_add`, `Groups::add`,
//! `Groups::set_has_aux_acl`) followed by queries answered by the real `AccessReq::allow()` and
//! `Accessor::is_endpoint_accessible()`.
//!
//! Ops (all self-contained text):
//!   caps F A S T G E C                               => ok      capacities this build was compiled with
//!   fab                                              => <idx>|err
//!   rmfab <idx>                                      => ok|err
//!   acl <fab> <privbits> <c|g|p> <subjects> <targets> => <idx>|err
//!        subjects: null | e | n,n,..      targets: null | e | ep/cl/dt;..  (`-` = absent component)
//!   grp <fab> <gid> <ep>                             => ok|err
//!   gaux <fab> <gid> <0|1>                           => changed|same|err
//!  the PRODUCTION mutators (Access Control cluster handler, Groups / Groupcast clusters, start-up):
//!   acli <fab> <privbits> <c|g|p> <subjects> <targets> => <idx>|err     `Fabric::acl_add_init`
//!   aclupd|aclupi <fab> <idx> <privbits> <c|g|p> <subjects> <targets> => ok|err   `acl_update` / `acl_update_init`
//!   aclrm <fab> <idx>                                => ok|err          `acl_remove`
//!   aclclr <fab>                                     => ok|err          `acl_remove_all`
//!   grprm <fab> <ep> <gid|*>                         => yes|no|err      `Groups::remove`
//!   gjoin <fab> <gid> <ep,ep,..|-> <0|1>             => ok|fail|err     `Groups::groupcast_join` (fail = its
//!                                                       error; the table may have changed all the same)
//!   gleave <fab> <gid>                               => yes|no|err      `Groups::groupcast_remove`
//!   reload                                           => ok|err          `FabricPersist::store` of every fabric
//!                                                       into a fresh KV store, then `Fabrics::load_persist`
//!   q <fab> <p|c|g|n> <aux> <id> <cats|-> <ep|*> <cl|*> <leaf|*> <opbits> <perms|none> <dts|->
//!                                                    => allow|deny <match_accessor bits|-> <match_access_desc bits|->
//!   ep <fab> <p|c|g|n> <id> <endpoint>               => yes|no
#[path = "c05_ops.rs"]
pub(crate) mod c05_ops;

use crate::proto::{parse_cases, Case, Out};
use crate::rng::Rng;
use crate::Args;

use core::num::NonZeroU8;

use rs_matter::acl::{
    AccessReq, Accessor, AccessorSubjects, AclEntry, AuthMode, Target, MAX_ACL_ENTRIES_PER_FABRIC,
    MAX_SUBJECTS_PER_ACL_ENTRY, MAX_TARGETS_PER_ACL_ENTRY, NOC_CAT_SUBJECT_PREFIX,
};
use rs_matter::dm::devices::test::{TEST_DEV_ATT, TEST_DEV_COMM, TEST_DEV_DET};
use rs_matter::dm::{Access, DeviceType, Privilege};
use rs_matter::error::Error;
use rs_matter::fabric::{FabricPersist, GROUP_ENDPOINTS_PER_FABRIC, MAX_FABRICS, MAX_GROUPS_PER_FABRIC};
use rs_matter::persist::KvBlobStore;
use rs_matter::im::GenericPath;
use rs_matter::transport::session::MAX_CAT_IDS_PER_NOC;
use rs_matter::Matter;

pub(crate) fn mode_of(s: &str) -> Option<AuthMode> {
    match s {
        "p" => Some(AuthMode::Pase),
        "c" => Some(AuthMode::Case),
        "g" => Some(AuthMode::Group),
        _ => None,
    }
}

pub(crate) fn opt_num<T: core::str::FromStr>(s: &str) -> Option<T> {
    if s == "*" || s == "-" {
        None
    } else {
        s.parse().ok()
    }
}

pub(crate) fn reset(matter: &Matter<'_>) {
    c05_ops::kv_reset();
    matter.with_state(|state| {
        let idxs: Vec<NonZeroU8> = state.fabrics.iter().map(|f| f.fab_idx()).collect();
        for i in idxs {
            let _ = state.fabrics.remove(i);
        }
    });
}

fn build_entry(priv_bits: u8, mode: AuthMode, subjects: &str, targets: &str) -> Option<AclEntry> {
    let mut e = AclEntry::new(None, Privilege::from_bits_retain(priv_bits), mode);
    match subjects {
        "null" => {}
        "e" => e.verif_set_empty_lists(true, false),
        list => {
            for s in list.split(',') {
                let v: u64 = s.parse().ok()?;
                e.add_subject(v).ok()?;
            }
        }
    }
    match targets {
        "null" => {}
        "e" => e.verif_set_empty_lists(false, true),
        list => {
            for t in list.split(';') {
                let mut it = t.split('/');
                let ep: Option<u16> = opt_num(it.next()?);
                let cl: Option<u32> = opt_num(it.next()?);
                let dt: Option<u32> = opt_num(it.next()?);
                e.add_target(Target::new(ep, cl, dt)).ok()?;
            }
        }
    }
    Some(e)
}

/// a KV store for `reload`
#[derive(Default)]
struct MapKv(std::cell::RefCell<std::collections::HashMap<u16, Vec<u8>>>);

impl KvBlobStore for &MapKv {
    fn load<'a>(&mut self, key: u16, buf: &'a mut [u8]) -> Result<Option<&'a [u8]>, Error> {
        Ok(self.0.borrow().get(&key).map(|v| {
            buf[..v.len()].copy_from_slice(v);
            &buf[..v.len()]
        }))
    }
    fn store(&mut self, key: u16, data: &[u8], _buf: &mut [u8]) -> Result<(), Error> {
        self.0.borrow_mut().insert(key, data.to_vec());
        Ok(())
    }
    fn remove(&mut self, key: u16, _buf: &mut [u8]) -> Result<(), Error> {
        self.0.borrow_mut().remove(&key);
        Ok(())
    }
}

pub(crate) struct QStat {
    pub allow: bool,
    pub pase: bool,
}

pub(crate) fn run_op(matter: &Matter<'_>, op: &str, out: &mut Out) -> (String, Option<QStat>) {
    let w: Vec<&str> = op.split_whitespace().collect();
    match w.as_slice() {
        ["caps", f, a, s, t, g, e, c] => {
            let mine = [
                MAX_FABRICS,
                MAX_ACL_ENTRIES_PER_FABRIC,
                MAX_SUBJECTS_PER_ACL_ENTRY,
                MAX_TARGETS_PER_ACL_ENTRY,
                MAX_GROUPS_PER_FABRIC,
                GROUP_ENDPOINTS_PER_FABRIC,
                MAX_CAT_IDS_PER_NOC,
            ];
            let theirs: Vec<usize> = [f, a, s, t, g, e, c].iter().map(|x| x.parse().unwrap_or(usize::MAX)).collect();
            (if mine.to_vec() == theirs { "ok".into() } else { format!("built-with {:?}", mine) }, None)
        }
        ["fab"] => {
            let r = matter.with_state(|state| state.fabrics.add_with_post_init(|_| Ok(())).map(|f| f.fab_idx().get()));
            (match r {
                Ok(i) => i.to_string(),
                Err(_) => "err".into(),
            }, None)
        }
        ["rmfab", idx] => {
            let r = idx.parse::<u8>().ok().and_then(NonZeroU8::new).map(|i| matter.with_state(|state| state.fabrics.remove(i).is_ok()));
            (if r == Some(true) { "ok".into() } else { "err".into() }, None)
        }
        ["acl", fab, pb, mode, subjects, targets] => {
            let r = (|| {
                let fab = NonZeroU8::new(fab.parse::<u8>().ok()?)?;
                let e = build_entry(pb.parse().ok()?, mode_of(mode)?, subjects, targets)?;
                matter.with_state(|state| state.fabrics.fabric_mut(fab).ok()?.acl_add(e).ok())
            })();
            (match r {
                Some(i) => i.to_string(),
                None => "err".into(),
            }, None)
        }
        ["grp", fab, gid, ep] => {
            let r = (|| {
                let fab = NonZeroU8::new(fab.parse::<u8>().ok()?)?;
                let gid: u16 = gid.parse().ok()?;
                let ep: u16 = ep.parse().ok()?;
                matter.with_state(|state| state.fabrics.fabric_mut(fab).ok()?.groups_mut().add(ep, gid, "").ok())
            })();
            (if r.is_some() { "ok".into() } else { "err".into() }, None)
        }
        ["gaux", fab, gid, v] => {
            let r = (|| {
                let fab = NonZeroU8::new(fab.parse::<u8>().ok()?)?;
                let gid: u16 = gid.parse().ok()?;
                matter.with_state(|state| {
                    let f = state.fabrics.fabric_mut(fab).ok()?;
                    f.groups().get(gid)?;
                    Some(f.groups_mut().set_has_aux_acl(gid, *v == "1"))
                })
            })();
            (match r {
                Some(true) => "changed".into(),
                Some(false) => "same".into(),
                None => "err".into(),
            }, None)
        }
        ["acli", fab, pb, mode, subjects, targets] => {
            let r = (|| {
                let fab = NonZeroU8::new(fab.parse::<u8>().ok()?)?;
                let e = build_entry(pb.parse().ok()?, mode_of(mode)?, subjects, targets)?;
                matter.with_state(|state| state.fabrics.fabric_mut(fab).ok()?.acl_add_init(e).ok())
            })();
            (match r {
                Some(i) => i.to_string(),
                None => "err".into(),
            }, None)
        }
        [which @ ("aclupd" | "aclupi"), fab, idx, pb, mode, subjects, targets] => {
            let r = (|| {
                let fab = NonZeroU8::new(fab.parse::<u8>().ok()?)?;
                let idx: usize = idx.parse().ok()?;
                let e = build_entry(pb.parse().ok()?, mode_of(mode)?, subjects, targets)?;
                matter.with_state(|state| {
                    let f = state.fabrics.fabric_mut(fab).ok()?;
                    if *which == "aclupd" { f.acl_update(idx, e).ok() } else { f.acl_update_init(idx, e).ok() }
                })
            })();
            (if r.is_some() { "ok".into() } else { "err".into() }, None)
        }
        ["aclrm", fab, idx] => {
            let r = (|| {
                let fab = NonZeroU8::new(fab.parse::<u8>().ok()?)?;
                let idx: usize = idx.parse().ok()?;
                matter.with_state(|state| state.fabrics.fabric_mut(fab).ok()?.acl_remove(idx).ok())
            })();
            (if r.is_some() { "ok".into() } else { "err".into() }, None)
        }
        ["aclclr", fab] => {
            let r = (|| {
                let fab = NonZeroU8::new(fab.parse::<u8>().ok()?)?;
                matter.with_state(|state| {
                    state.fabrics.fabric_mut(fab).ok()?.acl_remove_all();
                    Some(())
                })
            })();
            (if r.is_some() { "ok".into() } else { "err".into() }, None)
        }
        ["grprm", fab, ep, gid] => {
            let r = (|| {
                let fab = NonZeroU8::new(fab.parse::<u8>().ok()?)?;
                let ep: u16 = ep.parse().ok()?;
                let gid: Option<u16> = if *gid == "*" { None } else { Some(gid.parse().ok()?) };
                matter.with_state(|state| Some(state.fabrics.fabric_mut(fab).ok()?.groups_mut().remove(ep, gid)))
            })();
            (match r {
                Some(true) => "yes".into(),
                Some(false) => "no".into(),
                None => "err".into(),
            }, None)
        }
        ["gjoin", fab, gid, eps, replace] => {
            let r = (|| {
                let fab = NonZeroU8::new(fab.parse::<u8>().ok()?)?;
                let gid: u16 = gid.parse().ok()?;
                let eps: Vec<u16> = if *eps == "-" { Vec::new() } else { eps.split(',').map(|x| x.parse().ok()).collect::<Option<Vec<u16>>>()? };
                matter.with_state(|state| Some(state.fabrics.fabric_mut(fab).ok()?.groups_mut().groupcast_join(gid, &eps, *replace == "1", None).is_ok()))
            })();
            (match r {
                Some(true) => "ok".into(),
                Some(false) => "fail".into(),
                None => "err".into(),
            }, None)
        }
        ["gleave", fab, gid] => {
            let r = (|| {
                let fab = NonZeroU8::new(fab.parse::<u8>().ok()?)?;
                let gid: u16 = gid.parse().ok()?;
                matter.with_state(|state| Some(state.fabrics.fabric_mut(fab).ok()?.groups_mut().groupcast_remove(gid)))
            })();
            (match r {
                Some(true) => "yes".into(),
                Some(false) => "no".into(),
                None => "err".into(),
            }, None)
        }
        ["reload"] => {
            let kv = MapKv::default();
            let r = (|| -> Result<(), Error> {
                matter.with_state(|state| {
                    for f in state.fabrics.iter() {
                        FabricPersist::new(matter.kv(&kv)).store(f)?;
                    }
                    Ok::<_, Error>(())
                })?;
                let mut buf = vec![0u8; 32768];
                matter.with_state(|state| state.fabrics.load_persist(&kv, &mut buf))
            })();
            (match r {
                Ok(()) => "ok".into(),
                Err(e) => format!("err:{:?}", e.code()),
            }, None)
        }
        ["q", fab, mode, aux, id, cats, ep, cl, leaf, opb, perms, dts] => {
            let fab: u8 = fab.parse().unwrap_or(0);
            let aux = *aux == "1";
            let mut subj = AccessorSubjects::new(id.parse().unwrap_or(0));
            if *cats != "-" {
                for c in cats.split(',') {
                    let _ = subj.add_catid(c.parse().unwrap_or(0));
                }
            }
            let accessor = Accessor::new(fab, aux, subj, mode_of(mode), matter);
            let path = GenericPath::new(opt_num(ep), opt_num(cl), opt_num(leaf));
            let dts: Vec<DeviceType> = if *dts == "-" {
                Vec::new()
            } else {
                dts.split(',').map(|d| DeviceType { dtype: d.parse().unwrap_or(0), drev: 1 }).collect()
            };
            let mut req = AccessReq::new(&accessor, path, Access::from_bits_retain(opb.parse().unwrap_or(0)), &dts);
            if *perms != "none" {
                req.set_target_perms(Access::from_bits_retain(perms.parse().unwrap_or(0)));
            }
            let r = std::panic::catch_unwind(std::panic::AssertUnwindSafe(|| req.allow()));
            let allow = match r {
                Ok(b) => b,
                Err(_) => return ("panic".into(), None),
            };
            // per-entry detail through the verif hooks (the fabric of the accessor, if it exists)
            let detail = NonZeroU8::new(fab).and_then(|f| {
                matter.with_state(|state| {
                    state.fabrics.get(f).map(|fabric| {
                        let mut ma = String::new();
                        let mut md = String::new();
                        let mut any_entry = false;
                        let mut any_ma = false;
                        for e in fabric.acl_iter() {
                            let a = e.verif_match_accessor(&accessor);
                            let d = e.verif_match_access_desc(&req, aux);
                            ma.push(if a { '1' } else { '0' });
                            md.push(if d { '1' } else { '0' });
                            any_entry |= a && d;
                            any_ma |= a;
                        }
                        if ma.is_empty() {
                            ma.push('-');
                            md.push('-');
                        }
                        (ma, md, any_entry, any_ma)
                    })
                })
            });
            let pase = mode_of(mode) == Some(AuthMode::Pase);
            let reason = if pase {
                "allow_pase"
            } else if fab == 0 {
                "deny_no_fabric_index"
            } else {
                match &detail {
                    None => "deny_fabric_missing",
                    Some((_, _, true, _)) => "allow_by_entry",
                    Some((_, _, false, _)) if allow => "allow_by_auxiliary_only",
                    Some((ma, _, _, _)) if ma == "-" => "deny_empty_acl",
                    Some((_, _, _, false)) => "deny_no_entry_matches_accessor",
                    Some(_) => "deny_target_or_privilege",
                }
            };
            out.stat(&format!("decision_{}", reason), 1);
            out.stat(if allow { "verdict_allow" } else { "verdict_deny" }, 1);
            let (ma, md) = match detail {
                Some((a, d, _, _)) => (a, d),
                None => ("-".to_string(), "-".to_string()),
            };
            (format!("{} {} {}", if allow { "allow" } else { "deny" }, ma, md), Some(QStat { allow, pase }))
        }
        ["ep", fab, mode, id, endpoint] => {
            let accessor = Accessor::new(
                fab.parse().unwrap_or(0),
                false,
                AccessorSubjects::new(id.parse().unwrap_or(0)),
                mode_of(mode),
                matter,
            );
            let r = std::panic::catch_unwind(std::panic::AssertUnwindSafe(|| accessor.is_endpoint_accessible(endpoint.parse().unwrap_or(0))));
            match r {
                Ok(b) => {
                    out.stat(if b { "reach_yes" } else { "reach_no" }, 1);
                    (if b { "yes".into() } else { "no".into() }, None)
                }
                Err(_) => ("panic".into(), None),
            }
        }
        other => (c05_ops::run_op(matter, other, out).unwrap_or_else(|| "badop".into()), None),
    }
}

fn run_case(matter: &Matter<'_>, out: &mut Out, case: &Case) {
    reset(matter);
    out.case(case.id, &case.kind);
    let mut allow = false;
    let mut deny = false;
    for op in &case.ops {
        let (o, q) = match std::panic::catch_unwind(std::panic::AssertUnwindSafe(|| run_op(matter, op, out))) {
            Ok(r) => r,
            Err(_) => ("panic".to_string(), None),
        };
        out.op(op, &o);
        if let Some(q) = q {
            if !q.pase {
                allow |= q.allow;
                deny |= !q.allow;
            }
        }
    }
    if allow && deny {
        out.buf.push_str("#nt\n");
    }
}

// ---------------------------------------------------------------------------------- generator

const NODE_IDS: [u64; 6] = [1, 2, 112233, 0xFFFF_FFEF_FFFF_FFFF, 0, 0xFFFF_FFFD_0000_0000];
const CAT_IDS: [u32; 3] = [1, 2, 0xABCD];
const CAT_VERS: [u32; 6] = [0, 1, 2, 3, 0xFFFE, 0xFFFF];
const GROUP_IDS: [u64; 5] = [1, 2, 3, 0x100, 0xFFFF];
const ENDPOINTS: [u16; 5] = [0, 1, 2, 3, 0xFFFE];
const CLUSTERS: [u32; 4] = [6, 8, 0x1F, 0x3E];
const DEV_TYPES: [u32; 3] = [0x16, 0x100, 0x101];

#[derive(Clone)]
pub(crate) struct GEntry {
    pub mode: char,
    pub subjects: Option<Vec<u64>>,
    pub targets: Option<Vec<(Option<u16>, Option<u32>, Option<u32>)>>,
}

pub(crate) struct GFab {
    pub idx: u8,
    pub entries: Vec<GEntry>,
    pub groups: Vec<(u64, Vec<u16>)>,
}

fn cat_subject(id: u32, ver: u32) -> u64 {
    NOC_CAT_SUBJECT_PREFIX | (((id as u64) << 16) | ver as u64)
}

pub(crate) fn declared_perms() -> Vec<u16> {
    vec![
        Access::RV.bits(),
        Access::RF.bits(),
        Access::RA.bits(),
        Access::RWVA.bits(),
        Access::RWFA.bits(),
        Access::RWVM.bits(),
        Access::RWFVM.bits(),
        Access::WO.bits(),
        Access::WM.bits(),
        Access::WA.bits(),
        (Access::READ | Access::NEED_OPERATE).bits(),
        (Access::READ | Access::NEED_MANAGE).bits(),
        (Access::WRITE | Access::NEED_VIEW).bits(),
        (Access::WRITE | Access::NEED_OPERATE | Access::TIMED_ONLY).bits(),
        (Access::READ | Access::WRITE).bits(),
        (Access::NEED_VIEW | Access::NEED_ADMIN).bits(),
        0,
    ]
}

fn gen_subject(r: &mut Rng, mode: char) -> u64 {
    if mode == 'g' {
        *r.pick(&GROUP_IDS)
    } else if r.chance(1, 2) {
        cat_subject(*r.pick(&CAT_IDS), *r.pick(&CAT_VERS))
    } else {
        *r.pick(&NODE_IDS)
    }
}

fn fmt_opt<T: ToString>(o: &Option<T>, none: &str) -> String {
    o.as_ref().map(|x| x.to_string()).unwrap_or_else(|| none.to_string())
}

fn gen_case(r: &mut Rng, out: &mut Out, uniform: bool, nq: usize) -> Vec<String> {
    let mut ops: Vec<String> = Vec::new();
    let mut fabs: Vec<GFab> = Vec::new();
    let mut missing: Vec<u8> = vec![200, 255];
    // `reload` (store + load_persist) is only generated for tables whose privileges are the five the
    // Interaction Model can produce: the TLV encoding of `Privilege` goes through the 5-value enum
    // (a raw bit pattern set through `AclEntry::new` is re-encoded, the empty one hits `unreachable!()`)
    let mut all_canonical = true;
    // fabrics
    let nf = *r.pick(&[1usize, 2, 2, 3, 3, 4, 5, 6]);
    let mut next = 1u8;
    for _ in 0..nf {
        ops.push("fab".into());
        if fabs.len() < MAX_FABRICS {
            fabs.push(GFab { idx: next, entries: Vec::new(), groups: Vec::new() });
            next += 1;
        }
    }
    missing.push(next);
    if fabs.len() >= 2 && r.chance(1, 2) {
        let i = r.below(fabs.len() as u64) as usize;
        let f = fabs.remove(i);
        ops.push(format!("rmfab {}", f.idx));
        missing.push(f.idx);
        if r.chance(1, 3) {
            ops.push("fab".into());
            let m = fabs.iter().map(|f| f.idx).max().unwrap_or(0);
            fabs.push(GFab { idx: m + 1, entries: Vec::new(), groups: Vec::new() });
            missing.retain(|x| *x != m + 1);
        }
    }
    if r.chance(1, 20) {
        ops.push(format!("rmfab {}", r.pick(&missing)));
    }
    // entries
    for f in fabs.iter_mut() {
        let ne = *r.pick(&[0usize, 1, 1, 2, 2, 3, 4, 5]);
        for _ in 0..ne {
            let mode = *r.pick(&['c', 'c', 'c', 'g', 'g', 'p']);
            let pb: u8 = if uniform || r.chance(1, 10) {
                out.stat("entry_priv_raw_bits", 1);
                all_canonical = false;
                r.below(32) as u8
            } else {
                out.stat("entry_priv_canonical", 1);
                *r.pick(&[
                    Privilege::VIEW.bits(),
                    Privilege::OPERATE.bits(),
                    Privilege::MANAGE.bits(),
                    Privilege::ADMIN.bits(),
                    Privilege::PROXYVIEW.bits(),
                ])
            };
            let subjects = match r.below(10) {
                0..=1 => { out.stat("entry_subjects_null", 1); None }
                2..=3 => { out.stat("entry_subjects_empty", 1); Some(Vec::new()) }
                _ => {
                    out.stat("entry_subjects_nonempty", 1);
                    let n = *r.pick(&[1usize, 1, 2, 3, 4, 5]);
                    Some((0..n).map(|_| gen_subject(r, mode)).collect())
                }
            };
            let targets = match r.below(10) {
                0..=1 => { out.stat("entry_targets_null", 1); None }
                2..=3 => { out.stat("entry_targets_empty", 1); Some(Vec::new()) }
                _ => {
                    out.stat("entry_targets_nonempty", 1);
                    let n = *r.pick(&[1usize, 1, 2, 3, 4]);
                    Some((0..n).map(|_| {
                        let shape = r.below(8);
                        let ep = if shape & 1 != 0 { Some(*r.pick(&ENDPOINTS)) } else { None };
                        let cl = if shape & 2 != 0 { Some(*r.pick(&CLUSTERS)) } else { None };
                        let dt = if shape & 4 != 0 { Some(*r.pick(&DEV_TYPES)) } else { None };
                        out.stat(&format!("target_shape_{}{}{}", if ep.is_some() { "E" } else { "-" }, if cl.is_some() { "C" } else { "-" }, if dt.is_some() { "D" } else { "-" }), 1);
                        (ep, cl, dt)
                    }).collect())
                }
            };
            let ss = match &subjects {
                None => "null".to_string(),
                Some(v) if v.is_empty() => "e".to_string(),
                Some(v) => v.iter().map(|x| x.to_string()).collect::<Vec<_>>().join(","),
            };
            let ts = match &targets {
                None => "null".to_string(),
                Some(v) if v.is_empty() => "e".to_string(),
                Some(v) => v.iter().map(|(e, c, d)| format!("{}/{}/{}", fmt_opt(e, "-"), fmt_opt(c, "-"), fmt_opt(d, "-"))).collect::<Vec<_>>().join(";"),
            };
            ops.push(format!("acl {} {} {} {} {}", f.idx, pb, mode, ss, ts));
            f.entries.push(GEntry { mode, subjects, targets });
        }
        // group table
        if r.chance(1, 2) {
            let ng = r.range(1, 5);
            for _ in 0..ng {
                let gid = *r.pick(&GROUP_IDS);
                let ep = *r.pick(&ENDPOINTS);
                ops.push(format!("grp {} {} {}", f.idx, gid, ep));
                if let Some(g) = f.groups.iter_mut().find(|g| g.0 == gid) {
                    g.1.push(ep);
                } else {
                    f.groups.push((gid, vec![ep]));
                }
                if r.chance(1, 2) {
                    ops.push(format!("gaux {} {} {}", f.idx, gid, if r.chance(3, 4) { 1 } else { 0 }));
                }
            }
        }
    }
    if r.chance(1, 30) {
        ops.push(format!("acl {} 1 c null null", r.pick(&missing)));
    }
    // churn through the PRODUCTION mutators (what the Access Control / Groups / Groupcast clusters and
    // the start-up code call); the generator's picture of the entries (only used to aim queries) is
    // kept roughly up to date
    if !fabs.is_empty() && r.chance(2, 5) {
        let specs: Vec<Vec<String>> = ops.iter().filter(|o| o.starts_with("acl ")).map(|o| o.split_whitespace().map(|x| x.to_string()).collect()).collect();
        let n = r.range(1, 7);
        for _ in 0..n {
            let fi = r.below(fabs.len() as u64) as usize;
            let fidx = if r.chance(1, 25) { *r.pick(&missing) } else { fabs[fi].idx };
            let spec = if specs.is_empty() { None } else { Some(specs[r.below(specs.len() as u64) as usize].clone()) };
            match r.below(100) {
                0..=24 => {
                    if let Some(sp) = spec {
                        out.stat("churn_acl_add_init", 1);
                        ops.push(format!("acli {} {} {} {} {}", fidx, sp[2], sp[3], sp[4], sp[5]));
                    }
                }
                25..=44 => {
                    if let Some(sp) = spec {
                        out.stat("churn_acl_update", 1);
                        let idx = r.below(fabs[fi].entries.len() as u64 + 2);
                        ops.push(format!("{} {} {} {} {} {} {}", if r.chance(1, 2) { "aclupd" } else { "aclupi" }, fidx, idx, sp[2], sp[3], sp[4], sp[5]));
                    }
                }
                45..=59 => {
                    out.stat("churn_acl_remove", 1);
                    let idx = r.below(fabs[fi].entries.len() as u64 + 2) as usize;
                    ops.push(format!("aclrm {} {}", fidx, idx));
                    if fidx == fabs[fi].idx && idx < fabs[fi].entries.len() {
                        fabs[fi].entries.remove(idx);
                    }
                }
                60..=63 => {
                    out.stat("churn_acl_remove_all", 1);
                    ops.push(format!("aclclr {}", fidx));
                    if fidx == fabs[fi].idx {
                        fabs[fi].entries.clear();
                    }
                }
                64..=75 => {
                    out.stat("churn_group_remove", 1);
                    let gid = if r.chance(1, 3) { "*".to_string() } else { r.pick(&GROUP_IDS).to_string() };
                    ops.push(format!("grprm {} {} {}", fidx, r.pick(&ENDPOINTS), gid));
                }
                76..=89 => {
                    out.stat("churn_groupcast_join", 1);
                    let k = r.below(5);
                    let eps: Vec<String> = (0..k).map(|_| r.pick(&ENDPOINTS).to_string()).collect();
                    ops.push(format!("gjoin {} {} {} {}", fidx, r.pick(&GROUP_IDS), if eps.is_empty() { "-".to_string() } else { eps.join(",") }, r.below(2)));
                    if r.chance(1, 2) {
                        ops.push(format!("gaux {} {} 1", fidx, r.pick(&GROUP_IDS)));
                    }
                }
                90..=94 => {
                    out.stat("churn_groupcast_remove", 1);
                    ops.push(format!("gleave {} {}", fidx, r.pick(&GROUP_IDS)));
                }
                _ => {
                    if all_canonical {
                        out.stat("churn_reload", 1);
                        ops.push("reload".into());
                    }
                }
            }
        }
        if all_canonical && r.chance(1, 3) {
            out.stat("churn_reload", 1);
            ops.push("reload".into());
        }
    }
    // the whole table as the real code holds it, against the model's
    ops.push("dump".into());
    gen_queries(r, out, &fabs, &missing, uniform, nq, &mut ops);
    ops
}

/// `nq` queries against the fabrics `fabs` (the generator's view of the table)
pub(crate) fn gen_queries(r: &mut Rng, out: &mut Out, fabs: &[GFab], missing: &[u8], uniform: bool, nq: usize, ops: &mut Vec<String>) {
    let perms_pool = declared_perms();
    for _ in 0..nq {
        if r.chance(1, 8) {
            // group reachability
            let fab = if !fabs.is_empty() && r.chance(4, 5) { fabs[r.below(fabs.len() as u64) as usize].idx } else if r.chance(1, 2) { 0 } else { *r.pick(missing) };
            let mode = *r.pick(&["g", "g", "g", "c", "p", "n"]);
            let mut id = *r.pick(&GROUP_IDS);
            if r.chance(1, 8) {
                id += 65536;
            }
            ops.push(format!("ep {} {} {} {}", fab, mode, id, r.pick(&ENDPOINTS)));
            continue;
        }
        // accessor fabric ∈ {0, existing, missing}
        let fsel = r.below(10);
        let (fab, gf): (u8, Option<&GFab>) = if fsel < 7 && !fabs.is_empty() {
            let f = &fabs[r.below(fabs.len() as u64) as usize];
            out.stat("q_fabric_existing", 1);
            (f.idx, Some(f))
        } else if fsel < 8 {
            out.stat("q_fabric_zero", 1);
            (0, None)
        } else {
            out.stat("q_fabric_missing", 1);
            (*r.pick(missing), None)
        };
        let aux = if r.chance(1, 5) { 1 } else { 0 };
        // directed: aim at one entry of the fabric (or of another fabric, to test separation)
        let aim: Option<GEntry> = if uniform {
            None
        } else {
            let src: Option<&GFab> = if r.chance(1, 6) && !fabs.is_empty() { Some(&fabs[r.below(fabs.len() as u64) as usize]) } else { gf };
            src.and_then(|f| if f.entries.is_empty() { None } else { Some(f.entries[r.below(f.entries.len() as u64) as usize].clone()) })
        };
        let mut mode: &str = *r.pick(&["c", "c", "c", "g", "g", "p", "n"]);
        let mut id: u64 = *r.pick(&NODE_IDS);
        let mut cats: Vec<u32> = Vec::new();
        let mut ep: Option<u16> = Some(*r.pick(&ENDPOINTS));
        let mut cl: Option<u32> = Some(*r.pick(&CLUSTERS));
        let mut dts: Vec<u32> = Vec::new();
        if r.chance(1, 3) {
            dts.push(*r.pick(&DEV_TYPES));
        }
        if r.chance(1, 6) {
            dts.push(*r.pick(&DEV_TYPES));
        }
        if mode == "g" {
            id = *r.pick(&GROUP_IDS);
        } else {
            let nc = *r.pick(&[0usize, 0, 1, 2, 3, 3, 4]);
            for _ in 0..nc {
                cats.push((*r.pick(&CAT_IDS) << 16) | *r.pick(&CAT_VERS));
            }
        }
        if let Some(e) = &aim {
            out.stat("q_directed", 1);
            if r.chance(9, 10) {
                mode = if e.mode == 'c' { "c" } else if e.mode == 'g' { "g" } else { "p" };
            }
            if let Some(ss) = &e.subjects {
                if !ss.is_empty() && r.chance(5, 6) {
                    let s = *r.pick(ss);
                    let is_cat = (s >> 32) == 0xFFFF_FFFD && (s & 0xFFFF_FFFF) != 0;
                    if is_cat && mode != "g" {
                        // same identifier, version above / equal / below
                        let cid = ((s >> 16) & 0xFFFF) as u32;
                        let ver = (s & 0xFFFF) as u32;
                        let v = match r.below(3) {
                            0 => { out.stat("q_cat_version_above", 1); ver.saturating_add(1).min(0xFFFF) }
                            1 => { out.stat("q_cat_version_equal", 1); ver }
                            _ => { out.stat("q_cat_version_below", 1); ver.saturating_sub(1) }
                        };
                        let c = (cid << 16) | v;
                        if cats.len() >= 3 {
                            let k = r.below(3) as usize;
                            cats[k] = c;
                        } else {
                            let k = r.below(cats.len() as u64 + 1) as usize;
                            cats.insert(k, c);
                        }
                    } else {
                        id = s;
                    }
                }
            }
            if let Some(ts) = &e.targets {
                if !ts.is_empty() && r.chance(5, 6) {
                    let t = r.pick(ts);
                    if let Some(x) = t.0 { ep = Some(x); }
                    if let Some(x) = t.1 { cl = Some(x); }
                    if let Some(x) = t.2 { if r.chance(4, 5) { dts.push(x); } }
                }
            }
        } else {
            out.stat("q_undirected", 1);
        }
        // aim at the group table (auxiliary entries synthesised from it when the feature is on)
        let mut aux = aux;
        if !uniform && r.chance(1, 8) {
            if let Some(f) = gf {
                if !f.groups.is_empty() {
                    let g = &f.groups[r.below(f.groups.len() as u64) as usize];
                    out.stat("q_aimed_at_group", 1);
                    mode = "g";
                    cats.clear();
                    id = g.0;
                    if r.chance(4, 5) && !g.1.is_empty() { ep = Some(*r.pick(&g.1)); }
                    if r.chance(4, 5) { aux = 1; }
                }
            }
        }
        if r.chance(1, 12) { ep = None; }
        if r.chance(1, 12) { cl = None; }
        let leaf: Option<u32> = if r.chance(1, 6) { None } else { Some(r.below(4) as u32) };
        let opb: u16 = if uniform && r.chance(1, 4) {
            r.below(512) as u16
        } else {
            match r.below(20) {
                0..=9 => Access::READ.bits(),
                10..=18 => Access::WRITE.bits(),
                _ => *r.pick(&[0u16, (Access::READ | Access::WRITE).bits(), Access::NEED_VIEW.bits()]),
            }
        };
        let perms: String = if r.chance(1, 25) {
            "none".into()
        } else if uniform || r.chance(1, 6) {
            r.below(512).to_string()
        } else {
            r.pick(&perms_pool).to_string()
        };
        out.stat(&format!("q_mode_{}", mode), 1);
        out.stat(&format!("q_cats_{}", cats.len()), 1);
        out.stat(if aux == 1 { "q_aux_on" } else { "q_aux_off" }, 1);
        ops.push(format!(
            "q {} {} {} {} {} {} {} {} {} {} {}",
            fab,
            mode,
            aux,
            id,
            if cats.is_empty() { "-".to_string() } else { cats.iter().map(|c| c.to_string()).collect::<Vec<_>>().join(",") },
            fmt_opt(&ep, "*"),
            fmt_opt(&cl, "*"),
            fmt_opt(&leaf, "*"),
            opb,
            perms,
            if dts.is_empty() { "-".to_string() } else { dts.iter().map(|c| c.to_string()).collect::<Vec<_>>().join(",") },
        ));
    }
}

fn caps_line() -> String {
    format!(
        "caps {} {} {} {} {} {} {}",
        MAX_FABRICS,
        MAX_ACL_ENTRIES_PER_FABRIC,
        MAX_SUBJECTS_PER_ACL_ENTRY,
        MAX_TARGETS_PER_ACL_ENTRY,
        MAX_GROUPS_PER_FABRIC,
        GROUP_ENDPOINTS_PER_FABRIC,
        MAX_CAT_IDS_PER_NOC
    )
}

pub(crate) fn with_matter<R: Send + 'static>(f: impl FnOnce(&Matter<'_>) -> R + Send + 'static) -> R {
    // `Matter` is large: build it on a big stack, once per run.
    std::thread::Builder::new()
        .stack_size(256 * 1024 * 1024)
        .spawn(move || {
            let matter = Box::new(Matter::new(&TEST_DEV_DET, TEST_DEV_COMM, &TEST_DEV_ATT, 0));
            f(&matter)
        })
        .expect("spawn")
        .join()
        .expect("harness thread")
}

pub fn gen(a: &Args) -> String {
    let seed = a.seed;
    let thorough = a.thorough;
    with_matter(move |matter| {
        let mut r = Rng::new(seed);
        let mut out = Out::default();
        out.buf.push_str("#rule one case = a node configuration (1..5 fabrics with removed/missing indices, 0..4 ACL entries each: privilege x auth mode x null/empty/non-empty subjects x null/empty/non-empty targets of all 8 endpoint/cluster/device-type shapes, group tables) built through the real API, then queries (accessor fabric in {0, existing, missing}, mode PASE/CASE/Group/none, up to 4 tags with version above/equal/below an entry's, operation, declared and random access bits) mostly aimed at one entry with single-aspect deviations; 1 case in 5 is uniform over raw bit patterns; non-trivial = the non-PASE queries of the case produced both allow and deny\n");
        let n_cases: u64 = if thorough { 120000 } else { 12000 };
        // case 0: the capacities the model assumes
        run_case(matter, &mut out, &Case { id: 0, kind: "acl caps".into(), ops: vec![caps_line(), c05_ops::enums_line()] });
        for id in 1..=n_cases {
            let mut cr = r.fork();
            let uniform = cr.chance(1, 5);
            let nq = if thorough { cr.range(10, 60) } else { cr.range(10, 40) } as usize;
            out.stat(if uniform { "kind_uniform" } else { "kind_directed" }, 1);
            let ops = gen_case(&mut cr, &mut out, uniform, nq);
            run_case(matter, &mut out, &Case { id, kind: if uniform { "acl uniform".into() } else { "acl directed".into() }, ops });
        }
        // histories of the production mutators (ACL cluster handler, init / update / remove, group
        // table, persist -> load round trips, fail-safe roll-back), every answer compared and the
        // table dumped after every operation
        let n_hist: u64 = if thorough { 40000 } else { 4000 };
        for id in n_cases + 1..=n_cases + n_hist {
            let mut cr = r.fork();
            out.stat("kind_history", 1);
            c05_ops::gen_hist_case(matter, &mut cr, &mut out, id, thorough);
        }
        out.finish()
    })
}

pub fn replay(a: &Args) -> String {
    let text = std::fs::read_to_string(a.input.as_ref().expect("--in")).expect("read input");
    with_matter(move |matter| {
        let mut out = Out::default();
        for c in parse_cases(&text) {
            run_case(matter, &mut out, &c);
        }
        out.finish()
    })
}
