//! C16: TLV codec round-trip and safe rejection of malformed input.
//!
//! Case kinds:
//!  `a <hex>`  byte string -> every public accessor of `TLVElement` / `TLVSequence` / the iterators
//!             (one op per accessor) on the real code, under `catch_unwind`, iterators capped at
//!             `len + 2` steps, a watchdog thread turning a stuck call into the output `hang`.
//!  `w`        value trees: `write <tree>` (real `TLVWrite` on a `WriteBuf`), `iterwrite <tree>`
//!             (real `TLV::bytes_iter`), `decode <hex>` (tree rebuilt with the public accessors).
//!  `s <name>` derived wire structures (see `c16_structs.rs`): `enc <fields>` / `dec <hex>`.
//!
//! Outputs are canonical: `ok`, `ok:<repr>`, `e:<code>`, `panic`, `hang`.
use crate::proto::{hex, parse_cases, unhex, Case, Out};
use crate::rng::Rng;
use crate::Args;

use std::panic::{catch_unwind, AssertUnwindSafe};
use std::sync::atomic::{AtomicU64, Ordering};
use std::sync::Mutex;

use rs_matter::error::{Error, ErrorCode};
use rs_matter::tlv::{TLVElement, TLVSequence, TLVTag, TLVValue, TLVWrite, ToTLV, TLV};
use rs_matter::utils::storage::WriteBuf;

#[path = "c16_structs.rs"]
mod structs;

// ------------------------------------------------------------------ watchdog
static PROGRESS: AtomicU64 = AtomicU64::new(0);
static CURRENT: Mutex<(String, String, String)> = Mutex::new((String::new(), String::new(), String::new()));

fn watchdog_start(out_path: &str) {
    CURRENT.lock().unwrap().2 = out_path.to_string();
    std::thread::spawn(|| {
        let mut last = PROGRESS.load(Ordering::SeqCst);
        let mut idle = 0u32;
        loop {
            std::thread::sleep(std::time::Duration::from_millis(500));
            let now = PROGRESS.load(Ordering::SeqCst);
            if now == last {
                idle += 1;
            } else {
                idle = 0;
                last = now;
            }
            if idle >= 30 {
                // 15 s inside one call of the code under test: report it as `hang` for that op
                let (head, op, path) = CURRENT.lock().unwrap().clone();
                let text = format!("{}\n{} => hang\n#stat cases 1\n#stat hang 1\n", head, op);
                let _ = std::fs::write(&path, text);
                std::process::exit(0);
            }
        }
    });
}

fn tick(head: &str, op: &str) {
    PROGRESS.fetch_add(1, Ordering::SeqCst);
    if let Ok(mut g) = CURRENT.lock() {
        if g.0 != head {
            g.0 = head.to_string();
        }
        g.1 = op.to_string();
    }
}

// ------------------------------------------------------------------ canonical output
fn ecode(e: &Error) -> String {
    match e.code() {
        ErrorCode::TLVTypeMismatch => "e:mismatch".into(),
        ErrorCode::InvalidData => "e:invalidData".into(),
        ErrorCode::Invalid => "e:invalid".into(),
        ErrorCode::NotFound => "e:notFound".into(),
        ErrorCode::NoSpace => "e:noSpace".into(),
        c => format!("e:other-{:?}", c),
    }
}

fn guard<F: FnOnce() -> String>(f: F) -> String {
    match catch_unwind(AssertUnwindSafe(f)) {
        Ok(s) => s,
        Err(_) => "panic".into(),
    }
}

/// with VERIF_PANIC_MSG=1 the location and message of every caught panic go to stderr (diagnosis only)
fn install_panic_hook() {
    if std::env::var("VERIF_PANIC_MSG").is_ok() {
        std::panic::set_hook(Box::new(|info| {
            let (head, op, _) = CURRENT.lock().map(|g| g.clone()).unwrap_or_default();
            eprintln!("PANIC [{}] [{}]: {}", head, op, info);
        }));
    }
}

fn res<T>(r: Result<T, Error>, f: impl FnOnce(T) -> String) -> String {
    match r {
        Ok(v) => {
            let s = f(v);
            if s.is_empty() {
                "ok".into()
            } else {
                format!("ok:{}", s)
            }
        }
        Err(e) => ecode(&e),
    }
}

fn tag_tok(t: &TLVTag) -> String {
    match t {
        TLVTag::Anonymous => "a".into(),
        TLVTag::Context(n) => format!("c:{}", n),
        TLVTag::CommonPrf16(n) => format!("cp16:{}", n),
        TLVTag::CommonPrf32(n) => format!("cp32:{}", n),
        TLVTag::ImplPrf16(n) => format!("ip16:{}", n),
        TLVTag::ImplPrf32(n) => format!("ip32:{}", n),
        TLVTag::FullQual48 { vendor_id, profile, tag } => format!("q48:{}:{}:{}", vendor_id, profile, tag),
        TLVTag::FullQual64 { vendor_id, profile, tag } => format!("q64:{}:{}:{}", vendor_id, profile, tag),
    }
}

fn val_tok(v: &TLVValue) -> String {
    match v {
        TLVValue::S8(x) => format!("s1:{}", x),
        TLVValue::S16(x) => format!("s2:{}", x),
        TLVValue::S32(x) => format!("s4:{}", x),
        TLVValue::S64(x) => format!("s8:{}", x),
        TLVValue::U8(x) => format!("u1:{}", x),
        TLVValue::U16(x) => format!("u2:{}", x),
        TLVValue::U32(x) => format!("u4:{}", x),
        TLVValue::U64(x) => format!("u8:{}", x),
        TLVValue::False => "F".into(),
        TLVValue::True => "T".into(),
        TLVValue::F32(x) => format!("f4:{}", x.to_bits()),
        TLVValue::F64(x) => format!("f8:{}", x.to_bits()),
        TLVValue::Utf8l(x) => format!("t1:{}", hex(x.as_bytes())),
        TLVValue::Utf16l(x) => format!("t2:{}", hex(x.as_bytes())),
        TLVValue::Utf32l(x) => format!("t4:{}", hex(x.as_bytes())),
        TLVValue::Utf64l(x) => format!("t8:{}", hex(x.as_bytes())),
        TLVValue::Str8l(x) => format!("o1:{}", hex(x)),
        TLVValue::Str16l(x) => format!("o2:{}", hex(x)),
        TLVValue::Str32l(x) => format!("o4:{}", hex(x)),
        TLVValue::Str64l(x) => format!("o8:{}", hex(x)),
        TLVValue::Null => "N".into(),
        TLVValue::Struct => "{S".into(),
        TLVValue::Array => "{A".into(),
        TLVValue::List => "{L".into(),
        TLVValue::EndCnt => "}".into(),
    }
}

// ------------------------------------------------------------------ stream (a): accessors
const DEPTH_CAP: usize = 40;

/// tree of an element through the public accessors only (what a consumer of the codec does)
fn decode_tree(e: &TLVElement, depth: usize, out: &mut Vec<String>) -> Result<(), String> {
    if depth == 0 {
        return Err("e:depth".into());
    }
    let t = e.tag().map_err(|x| ecode(&x))?;
    let v = e.value().map_err(|x| ecode(&x))?;
    out.push(tag_tok(&t));
    match v {
        TLVValue::Struct | TLVValue::Array | TLVValue::List => {
            out.push(val_tok(&v));
            let seq = e.container().map_err(|x| ecode(&x))?;
            let cap = seq.verif_raw().len() + 2;
            let mut n = 0usize;
            for item in seq.iter() {
                n += 1;
                if n > cap {
                    return Err("hang".into());
                }
                let c = item.map_err(|x| ecode(&x))?;
                decode_tree(&c, depth - 1, out)?;
            }
            out.push("}".into());
            Ok(())
        }
        TLVValue::EndCnt => Err("e:invalidData".into()),
        p => {
            out.push(val_tok(&p));
            Ok(())
        }
    }
}

fn decode_tree_str(bytes: &[u8]) -> String {
    let e = TLVElement::new(bytes);
    let mut toks = Vec::new();
    match decode_tree(&e, DEPTH_CAP, &mut toks) {
        Ok(()) => format!("ok:{}", toks.join(" ")),
        Err(s) => s,
    }
}

fn seq_of<'a>(e: &TLVElement<'a>) -> Option<TLVSequence<'a>> {
    e.container().ok()
}

fn accessor(bytes: &[u8], op: &str) -> String {
    let e = TLVElement::new(bytes);
    let mut it = op.split_whitespace();
    let name = it.next().unwrap_or("");
    let arg: u8 = it.next().and_then(|x| x.parse().ok()).unwrap_or(0);
    match name {
        "control" => res(e.control(), |c| format!("{},{}", c.tag_type as u8, c.value_type as u8)),
        "tag" => res(e.tag(), |t| tag_tok(&t)),
        "value" => res(e.value(), |v| val_tok(&v)),
        "raw_value" => res(e.raw_value(), |v| hex(v)),
        "i8" => res(e.i8(), |v| v.to_string()),
        "u8" => res(e.u8(), |v| v.to_string()),
        "i16" => res(e.i16(), |v| v.to_string()),
        "u16" => res(e.u16(), |v| v.to_string()),
        "i32" => res(e.i32(), |v| v.to_string()),
        "u32" => res(e.u32(), |v| v.to_string()),
        "i64" => res(e.i64(), |v| v.to_string()),
        "u64" => res(e.u64(), |v| v.to_string()),
        "f32" => res(e.f32(), |v| v.to_bits().to_string()),
        "f64" => res(e.f64(), |v| v.to_bits().to_string()),
        "str" => res(e.str(), |v| hex(v)),
        "utf8" => res(e.utf8(), |v| hex(v.as_bytes())),
        "octets" => res(e.octets(), |v| hex(v)),
        "bool" => res(e.bool(), |v| (v as u8).to_string()),
        "null" => res(e.null(), |_| String::new()),
        "is_container" => res(e.is_container(), |v| (v as u8).to_string()),
        "structure" => res(e.structure(), |s| s.verif_raw().len().to_string()),
        "array" => res(e.array(), |s| s.verif_raw().len().to_string()),
        "list" => res(e.list(), |s| s.verif_raw().len().to_string()),
        "container" => res(e.container(), |s| s.verif_raw().len().to_string()),
        "confirm_anon" => res(e.confirm_anon(), |_| String::new()),
        "ctx" => res(e.ctx(), |v| v.to_string()),
        "try_ctx" => res(e.try_ctx(), |v| v.map(|x| x.to_string()).unwrap_or("none".into())),
        "container_len" => res(e.verif_container_len(), |v| v.to_string()),
        // `is_empty`, `non_empty`, `raw_data`: three views of the same fact
        "is_empty" => {
            let (a, b, c) = (e.is_empty(), e.non_empty().is_none(), e.raw_data().is_empty());
            if a == b && b == c {
                format!("ok:{}", a as u8)
            } else {
                "ok:inconsistent".into()
            }
        }
        "tlv" => res(e.tlv(), |t| format!("{}={}", tag_tok(&t.tag), val_tok(&t.value))),
        "total_len" => res(e.total_len(), |v| v.to_string()),
        "tree" => decode_tree_str(bytes),
        "reencode" => {
            if e.is_empty() {
                return "ok:-".into();
            }
            match e.tag() {
                Err(x) => ecode(&x),
                Ok(t) => {
                    let mut buf = vec![0u8; bytes.len() + 32];
                    let mut wb = WriteBuf::new(&mut buf);
                    res(e.to_tlv(&t, &mut wb), |_| hex(wb.as_slice()))
                }
            }
        }
        "reencode_iter" => {
            if e.is_empty() {
                return "ok:-".into();
            }
            match e.tag() {
                Err(x) => ecode(&x),
                Ok(t) => {
                    let cap = 2 * bytes.len() + 64;
                    let mut outb: Vec<u8> = Vec::new();
                    let mut n_items = 0usize;
                    for item in e.tlv_iter(t) {
                        n_items += 1;
                        if n_items > bytes.len() + 3 {
                            return "hang".into();
                        }
                        match item {
                            Err(x) => return ecode(&x),
                            Ok(tlv) => {
                                for b in tlv.bytes_iter() {
                                    outb.push(b);
                                    if outb.len() > cap {
                                        return "hang".into();
                                    }
                                }
                            }
                        }
                    }
                    format!("ok:{}", hex(&outb))
                }
            }
        }
        "fmt" => {
            use std::fmt::Write as _;
            let mut s = String::new();
            match write!(&mut s, "{}", e) {
                Ok(()) => "ok".into(),
                Err(_) => "e:fmt".into(),
            }
        }
        // ---- sequence = content of the element as a container
        "iter" => match seq_of(&e) {
            None => "nc".into(),
            Some(seq) => {
                let cap = seq.verif_raw().len() + 2;
                let mut items: Vec<String> = Vec::new();
                for item in seq.iter() {
                    if items.len() >= cap {
                        items.push("hang".into());
                        break;
                    }
                    match item {
                        Ok(el) => items.push(el.raw_data().len().to_string()),
                        Err(x) => items.push(ecode(&x)),
                    }
                }
                format!("[{}]", items.join(","))
            }
        },
        "tlviter" => match seq_of(&e) {
            None => "nc".into(),
            Some(seq) => {
                let cap = seq.verif_raw().len() + 2;
                let mut items: Vec<String> = Vec::new();
                for item in seq.tlv_iter() {
                    if items.len() >= cap {
                        items.push("hang".into());
                        break;
                    }
                    match item {
                        Ok(tlv) => items.push(format!("{}={}", tag_tok(&tlv.tag), val_tok(&tlv.value))),
                        Err(x) => items.push(ecode(&x)),
                    }
                }
                format!("[{}]", items.join(","))
            }
        },
        "find_ctx" => match seq_of(&e) {
            None => "nc".into(),
            Some(seq) => res(seq.find_ctx(arg), |el| el.raw_data().len().to_string()),
        },
        "seq_ctx" => match seq_of(&e) {
            None => "nc".into(),
            Some(seq) => res(seq.ctx(arg), |el| el.raw_data().len().to_string()),
        },
        "scan_ctx" => match seq_of(&e) {
            None => "nc".into(),
            Some(mut seq) => {
                let r = seq.scan_ctx(arg);
                res(r, |el| format!("{}:{}", el.raw_data().len(), seq.verif_raw().len()))
            }
        },
        // stack consumed by `Display` of the element (one recursion level per nesting level), measured as the span
        // of the addresses of a local of the `fmt::Write` sink; runs in its own 64 MiB thread so that the measurement
        // itself cannot overflow.  Corpus only (not in ACCESSORS): the value depends on the build.
        "fmt_stack" => {
            struct Sink(usize, usize);
            impl std::fmt::Write for Sink {
                fn write_str(&mut self, _s: &str) -> std::fmt::Result {
                    let marker = 0u8;
                    let a = &marker as *const u8 as usize;
                    self.0 = self.0.min(a);
                    self.1 = self.1.max(a);
                    Ok(())
                }
            }
            let data = bytes.to_vec();
            let r = std::thread::Builder::new()
                .stack_size(64 * 1024 * 1024)
                .spawn(move || {
                    use std::fmt::Write as _;
                    let mut s = Sink(usize::MAX, 0);
                    let ok = write!(&mut s, "{}", TLVElement::new(&data)).is_ok();
                    (ok, s.1.saturating_sub(s.0))
                })
                .map(|h| h.join());
            match r {
                Ok(Ok((true, span))) => format!("ok:{}", span),
                Ok(Ok((false, _))) => "e:fmt".into(),
                _ => "panic".into(),
            }
        }
        "seq_fmt" => match seq_of(&e) {
            None => "nc".into(),
            Some(seq) => {
                use std::fmt::Write as _;
                let mut s = String::new();
                // Display of the sequence and Debug of its iterator are the same `TLVSequence::fmt`
                let a = write!(&mut s, "{}", seq).is_ok();
                let mut s2 = String::new();
                let b = write!(&mut s2, "{:?}", seq.iter()).is_ok();
                if a != b {
                    "ok:inconsistent".into()
                } else if a {
                    "ok".into()
                } else {
                    "e:fmt".into()
                }
            }
        },
        "seq_raw_value" => match seq_of(&e) {
            None => "nc".into(),
            Some(seq) => res(seq.raw_value(), |v| hex(v)),
        },
        _ => "BADOP".into(),
    }
}

const ACCESSORS: &[&str] = &[
    "control", "tag", "value", "raw_value", "container_len", "i8", "u8", "i16", "u16", "i32", "u32", "i64", "u64",
    "f32", "f64", "str", "utf8", "octets", "bool", "null", "is_container", "structure", "array", "list", "container",
    "confirm_anon", "ctx", "try_ctx", "is_empty", "tree", "reencode", "reencode_iter", "fmt", "iter", "tlviter",
    "seq_raw_value", "tlv", "total_len", "seq_fmt",
];

// ------------------------------------------------------------------ stream (b): value trees
#[derive(Clone, Debug)]
enum Node {
    Leaf(TLVTag, String),
    Cont(TLVTag, char, Vec<Node>),
}

fn parse_tag(s: &str) -> Option<TLVTag> {
    let p: Vec<&str> = s.split(':').collect();
    Some(match (p[0], p.len()) {
        ("a", 1) => TLVTag::Anonymous,
        ("c", 2) => TLVTag::Context(p[1].parse().ok()?),
        ("cp16", 2) => TLVTag::CommonPrf16(p[1].parse().ok()?),
        ("cp32", 2) => TLVTag::CommonPrf32(p[1].parse().ok()?),
        ("ip16", 2) => TLVTag::ImplPrf16(p[1].parse().ok()?),
        ("ip32", 2) => TLVTag::ImplPrf32(p[1].parse().ok()?),
        ("q48", 4) => TLVTag::FullQual48 { vendor_id: p[1].parse().ok()?, profile: p[2].parse().ok()?, tag: p[3].parse().ok()? },
        ("q64", 4) => TLVTag::FullQual64 { vendor_id: p[1].parse().ok()?, profile: p[2].parse().ok()?, tag: p[3].parse().ok()? },
        _ => return None,
    })
}

fn parse_nodes(toks: &[&str], pos: &mut usize, until_close: bool) -> Option<Vec<Node>> {
    let mut res = Vec::new();
    while *pos < toks.len() {
        if toks[*pos] == "}" {
            if until_close {
                *pos += 1;
                return Some(res);
            }
            return None;
        }
        let tag = parse_tag(toks[*pos])?;
        *pos += 1;
        let v = *toks.get(*pos)?;
        *pos += 1;
        if let Some(k) = v.strip_prefix('{') {
            let kids = parse_nodes(toks, pos, true)?;
            res.push(Node::Cont(tag, k.chars().next()?, kids));
        } else {
            res.push(Node::Leaf(tag, v.to_string()));
        }
    }
    if until_close {
        None
    } else {
        Some(res)
    }
}

fn parse_tree(s: &str) -> Option<Node> {
    let toks: Vec<&str> = s.split_whitespace().collect();
    let mut pos = 0;
    let mut v = parse_nodes(&toks, &mut pos, false)?;
    if v.len() == 1 {
        v.pop()
    } else {
        None
    }
}

fn split_prim(p: &str) -> (&str, &str) {
    match p.find(':') {
        Some(i) => (&p[..i], &p[i + 1..]),
        None => (p, ""),
    }
}

/// one leaf through the real `TLVWrite`; the token says which writer method is used
fn write_leaf(wb: &mut WriteBuf, tag: &TLVTag, p: &str) -> Result<(), String> {
    let (k, v) = split_prim(p);
    let bad = || format!("BADTOK:{}", p);
    let e = |x: Error| ecode(&x);
    let data = unhex(v);
    match k {
        "s1" => wb.tlv(tag, &TLVValue::S8(v.parse().map_err(|_| bad())?)).map_err(e),
        "s2" => wb.tlv(tag, &TLVValue::S16(v.parse().map_err(|_| bad())?)).map_err(e),
        "s4" => wb.tlv(tag, &TLVValue::S32(v.parse().map_err(|_| bad())?)).map_err(e),
        "s8" => wb.tlv(tag, &TLVValue::S64(v.parse().map_err(|_| bad())?)).map_err(e),
        "u1" => wb.tlv(tag, &TLVValue::U8(v.parse().map_err(|_| bad())?)).map_err(e),
        "u2" => wb.tlv(tag, &TLVValue::U16(v.parse().map_err(|_| bad())?)).map_err(e),
        "u4" => wb.tlv(tag, &TLVValue::U32(v.parse().map_err(|_| bad())?)).map_err(e),
        "u8" => wb.tlv(tag, &TLVValue::U64(v.parse().map_err(|_| bad())?)).map_err(e),
        "ds" => wb.i8(tag, v.parse().map_err(|_| bad())?).map_err(e),
        "du" => wb.u8(tag, v.parse().map_err(|_| bad())?).map_err(e),
        "ms2" => wb.i16(tag, v.parse().map_err(|_| bad())?).map_err(e),
        "ms4" => wb.i32(tag, v.parse().map_err(|_| bad())?).map_err(e),
        "ms8" => wb.i64(tag, v.parse().map_err(|_| bad())?).map_err(e),
        "mu2" => wb.u16(tag, v.parse().map_err(|_| bad())?).map_err(e),
        "mu4" => wb.u32(tag, v.parse().map_err(|_| bad())?).map_err(e),
        "mu8" => wb.u64(tag, v.parse().map_err(|_| bad())?).map_err(e),
        "T" => wb.bool(tag, true).map_err(e),
        "F" => wb.bool(tag, false).map_err(e),
        "N" => wb.null(tag).map_err(e),
        "f4" => wb.f32(tag, f32::from_bits(v.parse().map_err(|_| bad())?)).map_err(e),
        "f8" => wb.f64(tag, f64::from_bits(v.parse().map_err(|_| bad())?)).map_err(e),
        "t1" | "t2" | "t4" | "t8" | "mt" | "ct" => {
            let s = std::str::from_utf8(&data).map_err(|_| bad())?;
            match k {
                "t1" => wb.tlv(tag, &TLVValue::Utf8l(s)).map_err(e),
                "t2" => wb.tlv(tag, &TLVValue::Utf16l(s)).map_err(e),
                "t4" => wb.tlv(tag, &TLVValue::Utf32l(s)).map_err(e),
                "t8" => wb.tlv(tag, &TLVValue::Utf64l(s)).map_err(e),
                "mt" => wb.utf8(tag, s).map_err(e),
                _ => wb
                    .utf8_cb(tag, |buf| {
                        buf[..data.len()].copy_from_slice(&data);
                        Ok(data.len())
                    })
                    .map_err(e),
            }
        }
        "o1" => wb.tlv(tag, &TLVValue::Str8l(&data)).map_err(e),
        "o2" => wb.tlv(tag, &TLVValue::Str16l(&data)).map_err(e),
        "o4" => wb.tlv(tag, &TLVValue::Str32l(&data)).map_err(e),
        "o8" => wb.tlv(tag, &TLVValue::Str64l(&data)).map_err(e),
        "mo" => wb.str(tag, &data).map_err(e),
        "co" => wb
            .str_cb(tag, |buf| {
                buf[..data.len()].copy_from_slice(&data);
                Ok(data.len())
            })
            .map_err(e),
        _ => Err(bad()),
    }
}

fn write_node(wb: &mut WriteBuf, n: &Node, lens: &mut Vec<(usize, usize, usize)>) -> Result<(), String> {
    match n {
        Node::Leaf(tag, p) => {
            let start = wb.get_tail();
            write_leaf(wb, tag, p)?;
            let k = split_prim(p).0;
            let w = match k {
                "t1" | "o1" => 1,
                "t2" | "o2" => 2,
                "t4" | "o4" => 4,
                "t8" | "o8" => 8,
                _ => 0,
            };
            if w > 0 {
                lens.push((start, tag_size(tag), w));
            }
            Ok(())
        }
        Node::Cont(tag, k, kids) => {
            match k {
                'S' => wb.start_struct(tag),
                'A' => wb.start_array(tag),
                _ => wb.start_list(tag),
            }
            .map_err(|x| ecode(&x))?;
            for c in kids {
                write_node(wb, c, lens)?;
            }
            wb.end_container().map_err(|x| ecode(&x))
        }
    }
}

fn tag_size(t: &TLVTag) -> usize {
    t.tag_type().size()
}

fn write_tree(n: &Node, lens: &mut Vec<(usize, usize, usize)>) -> Result<Vec<u8>, String> {
    let mut buf = vec![0u8; 400_000];
    let mut wb = WriteBuf::new(&mut buf);
    write_node(&mut wb, n, lens)?;
    Ok(wb.as_slice().to_vec())
}

/// the same tree through the iterator-style encoder (`TLV::bytes_iter`)
fn iter_leaf_value<'a>(p: &str, data: &'a [u8]) -> Result<TLVValue<'a>, String> {
    let (k, v) = split_prim(p);
    let bad = || format!("BADTOK:{}", p);
    Ok(match k {
        "s1" | "ds" => TLVValue::S8(v.parse().map_err(|_| bad())?),
        "s2" => TLVValue::S16(v.parse().map_err(|_| bad())?),
        "s4" => TLVValue::S32(v.parse().map_err(|_| bad())?),
        "s8" => TLVValue::S64(v.parse().map_err(|_| bad())?),
        "u1" | "du" => TLVValue::U8(v.parse().map_err(|_| bad())?),
        "u2" => TLVValue::U16(v.parse().map_err(|_| bad())?),
        "u4" => TLVValue::U32(v.parse().map_err(|_| bad())?),
        "u8" => TLVValue::U64(v.parse().map_err(|_| bad())?),
        "ms2" => TLVValue::i16(v.parse().map_err(|_| bad())?),
        "ms4" => TLVValue::i32(v.parse().map_err(|_| bad())?),
        "ms8" => TLVValue::i64(v.parse().map_err(|_| bad())?),
        "mu2" => TLVValue::u16(v.parse().map_err(|_| bad())?),
        "mu4" => TLVValue::u32(v.parse().map_err(|_| bad())?),
        "mu8" => TLVValue::u64(v.parse().map_err(|_| bad())?),
        "T" => TLVValue::True,
        "F" => TLVValue::False,
        "N" => TLVValue::Null,
        "f4" => TLVValue::F32(f32::from_bits(v.parse().map_err(|_| bad())?)),
        "f8" => TLVValue::F64(f64::from_bits(v.parse().map_err(|_| bad())?)),
        "t1" => TLVValue::Utf8l(std::str::from_utf8(data).map_err(|_| bad())?),
        "t2" => TLVValue::Utf16l(std::str::from_utf8(data).map_err(|_| bad())?),
        "t4" => TLVValue::Utf32l(std::str::from_utf8(data).map_err(|_| bad())?),
        "t8" => TLVValue::Utf64l(std::str::from_utf8(data).map_err(|_| bad())?),
        "mt" | "ct" => TLVValue::utf8(std::str::from_utf8(data).map_err(|_| bad())?),
        "o1" => TLVValue::Str8l(data),
        "o2" => TLVValue::Str16l(data),
        "o4" => TLVValue::Str32l(data),
        "o8" => TLVValue::Str64l(data),
        "mo" | "co" => TLVValue::str(data),
        _ => return Err(bad()),
    })
}

fn iterwrite_node(n: &Node, out: &mut Vec<u8>) -> Result<(), String> {
    match n {
        Node::Leaf(tag, p) => {
            let data = unhex(split_prim(p).1);
            let v = iter_leaf_value(p, &data)?;
            out.extend(TLV::new(tag.clone(), v).bytes_iter());
            Ok(())
        }
        Node::Cont(tag, k, kids) => {
            let v = match k {
                'S' => TLVValue::Struct,
                'A' => TLVValue::Array,
                _ => TLVValue::List,
            };
            out.extend(TLV::new(tag.clone(), v).bytes_iter());
            for c in kids {
                iterwrite_node(c, out)?;
            }
            out.extend(TLV::end_container().bytes_iter());
            Ok(())
        }
    }
}

fn tree_op(op: &str) -> String {
    let (name, rest) = match op.find(' ') {
        Some(i) => (&op[..i], op[i + 1..].trim()),
        None => (op, ""),
    };
    match name {
        "write" => match parse_tree(rest) {
            None => "BADTREE".into(),
            Some(n) => match write_tree(&n, &mut Vec::new()) {
                Ok(b) => format!("ok:{}", hex(&b)),
                Err(s) => s,
            },
        },
        "iterwrite" => match parse_tree(rest) {
            None => "BADTREE".into(),
            Some(n) => {
                let mut b = Vec::new();
                match iterwrite_node(&n, &mut b) {
                    Ok(()) => format!("ok:{}", hex(&b)),
                    Err(s) => s,
                }
            }
        },
        "decode" => decode_tree_str(&unhex(rest)),
        _ => "BADOP".into(),
    }
}

// ------------------------------------------------------------------ case runner
fn run_case(out: &mut Out, case: &Case) {
    let head = format!("case {} {}", case.id, case.kind);
    out.case(case.id, &case.kind);
    let mut kw = case.kind.split_whitespace();
    let kind = kw.next().unwrap_or("");
    let arg = kw.next().unwrap_or("");
    let mut outs: Vec<String> = Vec::new();
    match kind {
        "a" => {
            let bytes = unhex(arg);
            for op in &case.ops {
                tick(&head, op);
                let o = guard(|| accessor(&bytes, op));
                out.stat(&format!("out_{}", class_of(&o)), 1);
                out.op(op, &o);
                outs.push(o);
            }
            // non-trivial: the input is neither accepted nor rejected by everything
            let any_ok = outs.iter().any(|o| o.starts_with("ok"));
            let any_err = outs.iter().any(|o| o.starts_with("e:"));
            if any_ok && any_err {
                out.buf.push_str("#nt\n");
            }
        }
        "w" => {
            for op in &case.ops {
                tick(&head, op);
                let o = guard(|| tree_op(op));
                out.stat(&format!("out_{}", class_of(&o)), 1);
                out.op(op, &o);
                outs.push(o);
            }
            if outs.iter().all(|o| o.starts_with("ok")) && !outs.is_empty() {
                out.buf.push_str("#nt\n");
            }
        }
        "s" => {
            for op in &case.ops {
                tick(&head, op);
                let o = guard(|| structs::op(arg, op));
                out.stat(&format!("out_{}", class_of(&o)), 1);
                out.op(op, &o);
                outs.push(o);
            }
            if outs.iter().any(|o| o.starts_with("ok")) {
                out.buf.push_str("#nt\n");
            }
        }
        _ => {
            for op in &case.ops {
                out.op(op, "BADKIND");
            }
        }
    }
}

fn class_of(o: &str) -> &'static str {
    if o.starts_with("ok") || o.starts_with('[') {
        "ok"
    } else if o.starts_with("e:") {
        "err"
    } else if o == "nc" {
        "nocontainer"
    } else if o == "panic" {
        "panic"
    } else if o == "hang" {
        "hang"
    } else {
        "other"
    }
}

// ------------------------------------------------------------------ generators
fn gen_tag(r: &mut Rng, in_struct: bool) -> TLVTag {
    let x = r.below(100);
    if in_struct && x < 70 {
        return TLVTag::Context(*r.pick(&[0u8, 1, 2, 3, 4, 5, 7, 127, 128, 254, 255]));
    }
    match x % 12 {
        0..=4 => TLVTag::Anonymous,
        5 => TLVTag::Context(r.below(256) as u8),
        6 => TLVTag::CommonPrf16(*r.pick(&[0u16, 1, 255, 256, 65535])),
        7 => TLVTag::CommonPrf32(*r.pick(&[0u32, 65535, 65536, u32::MAX])),
        8 => TLVTag::ImplPrf16(r.below(65536) as u16),
        9 => TLVTag::ImplPrf32(r.next() as u32),
        10 => TLVTag::FullQual48 { vendor_id: r.next() as u16, profile: *r.pick(&[0u16, 1, 65535]), tag: r.next() as u16 },
        _ => TLVTag::FullQual64 { vendor_id: *r.pick(&[0u16, 0xfff1, 65535]), profile: r.next() as u16, tag: *r.pick(&[0u32, 65536, u32::MAX]) },
    }
}

fn gen_utf8(r: &mut Rng, max: usize) -> Vec<u8> {
    let mut s = String::new();
    let n = r.below(max as u64 + 1) as usize;
    let alphabet = ['a', 'Z', '0', ' ', '\u{7f}', '\u{80}', '\u{7ff}', '\u{800}', '\u{d7ff}', '\u{e000}', '\u{ffff}', '\u{10000}', '\u{10ffff}', 'é', '€', '\0'];
    while s.len() < n {
        s.push(*r.pick(&alphabet));
    }
    while s.len() > n {
        s.pop();
    }
    s.into_bytes()
}

fn int_extreme(r: &mut Rng, bits: u32, signed: bool) -> i128 {
    let max: i128 = if signed { (1i128 << (bits - 1)) - 1 } else { (1i128 << bits) - 1 };
    let min: i128 = if signed { -(1i128 << (bits - 1)) } else { 0 };
    match r.below(8) {
        0 => max,
        1 => min,
        2 => 0,
        3 => max - 1,
        4 => min + 1,
        5 => {
            if signed {
                -1
            } else {
                1
            }
        }
        _ => {
            let span = (max - min + 1) as u128;
            min + ((((r.next() as u128) << 64) | r.next() as u128) % span) as i128
        }
    }
}

fn str_len(r: &mut Rng, w: usize, big: bool) -> usize {
    match w {
        1 => *r.pick(&[0usize, 1, 2, 3, 8, 32, 254, 255]),
        2 if big => *r.pick(&[0usize, 1, 255, 256, 257, 1000, 65535]),
        4 if big => *r.pick(&[0usize, 3, 256, 65535, 65536, 70000]),
        8 if big => *r.pick(&[0usize, 5, 300, 65536]),
        _ => *r.pick(&[0usize, 1, 2, 5, 17]),
    }
}

fn gen_leaf(r: &mut Rng, big: bool, writer_forms: bool) -> String {
    let x = r.below(if writer_forms { 36 } else { 24 });
    match x {
        0 => format!("s1:{}", int_extreme(r, 8, true)),
        1 => format!("s2:{}", int_extreme(r, 16, true)),
        2 => format!("s4:{}", int_extreme(r, 32, true)),
        3 => format!("s8:{}", int_extreme(r, 64, true)),
        4 => format!("u1:{}", int_extreme(r, 8, false)),
        5 => format!("u2:{}", int_extreme(r, 16, false)),
        6 => format!("u4:{}", int_extreme(r, 32, false)),
        7 => format!("u8:{}", int_extreme(r, 64, false)),
        8 => "T".into(),
        9 => "F".into(),
        10 => "N".into(),
        11 => format!("f4:{}", *r.pick(&[0u32, 0x3f800000, 0x7f800000, 0xff800000, 0x7fc00000, 0x7fa00001, 0x80000000, 1, u32::MAX, 0x4188cccd])),
        12 => format!("f8:{}", *r.pick(&[0u64, 0x3ff0000000000000, 0x7ff0000000000000, 0x7ff8000000000000, 0x7ff4000000000001, 1 << 63, 1, u64::MAX])),
        13 | 14 => {
            let w = *r.pick(&[1usize, 2, 4, 8]);
            let n = str_len(r, w, big);
            format!("t{}:{}", w, hex(&gen_utf8(r, n)))
        }
        15..=19 => {
            let w = *r.pick(&[1usize, 1, 2, 4, 8]);
            let n = str_len(r, w, big);
            format!("o{}:{}", w, hex(&r.bytes(n)))
        }
        20..=23 => format!("u1:{}", r.below(256)),
        24 => format!("ms2:{}", int_extreme(r, 16, true).clamp(-200, 200) * (1 + r.below(2) as i128 * 100)),
        25 => format!("ms4:{}", *r.pick(&[0i64, 127, 128, -128, -129, 32767, 32768, -32768, -32769, i32::MAX as i64, i32::MIN as i64])),
        26 => format!("ms8:{}", *r.pick(&[0i64, -1, 127, 128, -129, 32768, -32769, 2147483647, 2147483648, -2147483648, -2147483649, i64::MAX, i64::MIN])),
        27 => format!("mu2:{}", *r.pick(&[0u64, 1, 255, 256, 65535])),
        28 => format!("mu4:{}", *r.pick(&[0u64, 255, 256, 65535, 65536, u32::MAX as u64])),
        29 => format!("mu8:{}", *r.pick(&[0u64, 255, 256, 65535, 65536, 4294967295, 4294967296, u64::MAX])),
        30 => format!("ds:{}", int_extreme(r, 8, true)),
        31 => format!("du:{}", int_extreme(r, 8, false)),
        32 => {
            let n = *r.pick(&[0usize, 1, 255, 256, 257, 300]);
            let n = if big { n } else { n.min(3) };
            format!("mo:{}", hex(&r.bytes(n)))
        }
        33 => {
            let n = *r.pick(&[0usize, 1, 255, 256, 257, 300]);
            let n = if big { n } else { n.min(3) };
            format!("mt:{}", hex(&gen_utf8(r, n)))
        }
        34 => {
            let n = *r.pick(&[0usize, 1, 2, 254, 255, 256, 257, 1000]);
            let n = if big { n } else { n.min(3) };
            format!("co:{}", hex(&r.bytes(n)))
        }
        _ => {
            let n = *r.pick(&[0usize, 1, 2, 254, 255, 256, 257]);
            let n = if big { n } else { n.min(3) };
            format!("ct:{}", hex(&gen_utf8(r, n)))
        }
    }
}

fn gen_node(r: &mut Rng, depth: usize, in_struct: bool, big: bool, wf: bool, budget: &mut usize) -> Node {
    let tag = gen_tag(r, in_struct);
    if depth > 0 && *budget > 0 && r.chance(2, 5) {
        let k = *r.pick(&['S', 'A', 'L']);
        let n = r.below(5) as usize;
        let mut kids = Vec::new();
        for _ in 0..n {
            if *budget == 0 {
                break;
            }
            *budget -= 1;
            kids.push(gen_node(r, depth - 1, k == 'S', big, wf, budget));
        }
        Node::Cont(tag, k, kids)
    } else {
        Node::Leaf(tag, gen_leaf(r, big, wf))
    }
}

fn node_tokens(n: &Node, out: &mut Vec<String>) {
    match n {
        Node::Leaf(t, p) => {
            out.push(tag_tok(t));
            out.push(p.clone());
        }
        Node::Cont(t, k, kids) => {
            out.push(tag_tok(t));
            out.push(format!("{{{}", k));
            for c in kids {
                node_tokens(c, out);
            }
            out.push("}".into());
        }
    }
}

fn node_str(n: &Node) -> String {
    let mut v = Vec::new();
    node_tokens(n, &mut v);
    v.join(" ")
}

/// boundary values for a length field, relative to the number of bytes `rem` that follow it
fn boundary_len(r: &mut Rng, rem: u64, tag_size: u64) -> u64 {
    let edge = u64::MAX - 8 - tag_size; // 1 + tag + 8 + len overflows from here on
    *r.pick(&[
        0,
        rem.wrapping_sub(1),
        rem,
        rem + 1,
        0xffff,
        0xffff_ffff,
        1 << 63,
        u64::MAX,
        edge,
        edge.wrapping_sub(1),
        edge + 1,
        u64::MAX - rem,
        u64::MAX - rem - 1,
        (1 << 63) - 1,
        (1u64 << 32),
    ])
}

/// stream (a): a byte string and how it was made
fn gen_bytes(r: &mut Rng, out: &mut Out, thorough: bool) -> Vec<u8> {
    let pick = r.below(100);
    let mut budget = if thorough { 14 } else { 8 };
    let mut lens = Vec::new();
    let big = r.chance(1, 12);
    let tree = gen_node(r, 4, false, big, false, &mut budget);
    // containers more often at top level
    let tree = if r.chance(1, 2) {
        match tree {
            Node::Leaf(..) => Node::Cont(gen_tag(r, false), *r.pick(&['S', 'A', 'L']), vec![tree, gen_node(r, 2, true, false, false, &mut budget)]),
            t => t,
        }
    } else {
        tree
    };
    let mut b = write_tree(&tree, &mut lens).unwrap_or_default();
    match pick {
        0..=14 => {
            out.stat("a_valid", 1);
        }
        15..=29 => {
            out.stat("a_truncated", 1);
            let n = r.below(b.len() as u64 + 1) as usize;
            b.truncate(n);
        }
        30..=49 => {
            if lens.is_empty() {
                // no string in the tree: put one in front inside a struct
                out.stat("a_len_header", 1);
                let v = boundary_len(r, 3, 0);
                b = vec![0x15, 0x13];
                b.extend_from_slice(&v.to_le_bytes());
                let k = r.below(5) as usize;
                b.extend_from_slice(&r.bytes(k));
            } else if r.chance(1, 2) {
                out.stat("a_len_same_width", 1);
                let (start, ts, w) = *r.pick(&lens);
                let off = start + 1 + ts;
                let rem = (b.len() - off - w) as u64;
                let v = boundary_len(r, rem, ts as u64);
                b[off..off + w].copy_from_slice(&v.to_le_bytes()[..w]);
            } else {
                out.stat("a_len_widened", 1);
                let (start, ts, w) = *r.pick(&lens);
                let off = start + 1 + ts;
                let nw = *r.pick(&[2usize, 4, 8, 8, 8]);
                let code = match nw {
                    2 => 1,
                    4 => 2,
                    _ => 3,
                };
                b[start] = (b[start] & 0xfc) | code;
                let rem = (b.len() - off - w) as u64;
                let v = boundary_len(r, rem, ts as u64);
                let mut nb = b[..off].to_vec();
                nb.extend_from_slice(&v.to_le_bytes()[..nw]);
                nb.extend_from_slice(&b[off + w..]);
                b = nb;
            }
        }
        50..=59 => {
            out.stat("a_byte_mutation", 1);
            if !b.is_empty() {
                for _ in 0..r.range(1, 3) {
                    let i = r.below(b.len() as u64) as usize;
                    b[i] = if r.chance(1, 2) {
                        *r.pick(&[0x18u8, 0x15, 0x16, 0x17, 0x35, 0x38, 0xf8, 0xff, 0x19, 0x1f, 0x13, 0x0f, 0x10, 0x0c, 0x00, 0x34, 0xd8])
                    } else {
                        r.next() as u8
                    };
                }
            }
        }
        60..=69 => {
            out.stat("a_end_marker_mutation", 1);
            let ends: Vec<usize> = b.iter().enumerate().filter(|(_, x)| **x == 0x18).map(|(i, _)| i).collect();
            match r.below(4) {
                0 if !ends.is_empty() => {
                    b.remove(*r.pick(&ends));
                }
                1 => {
                    let i = r.below(b.len() as u64 + 1) as usize;
                    b.insert(i, 0x18);
                }
                2 => b.push(0x18),
                _ => {
                    let i = r.below(b.len() as u64 + 1) as usize;
                    b.insert(i, *r.pick(&[0x38u8, 0x58, 0xf8, 0x15, 0x36]));
                }
            }
        }
        70..=77 => {
            out.stat("a_deep_nesting", 1);
            let n = r.range(1, if thorough { 300 } else { 60 }) as usize;
            let m = match r.below(4) {
                0 => n,
                1 => n - 1,
                2 => n + 1,
                _ => r.below(n as u64 + 2) as usize,
            };
            b = Vec::new();
            for _ in 0..n {
                b.push(*r.pick(&[0x15u8, 0x16, 0x17, 0x15, 0x35]));
                if *b.last().unwrap() == 0x35 {
                    b.push(r.next() as u8);
                }
            }
            if r.chance(1, 3) {
                b.extend_from_slice(&[0x24, 0x01, 0x07]);
            }
            for _ in 0..m {
                b.push(0x18);
            }
        }
        78..=89 => {
            out.stat("a_random_typed", 1);
            let n = r.below(24) as usize;
            b = Vec::new();
            while b.len() < n {
                let tagc = *r.pick(&[0u8, 0, 0, 1, 1, 2, 3, 4, 5, 6, 7]);
                let lim = if r.chance(1, 8) { 32 } else { 25 };
                let vt = r.below(lim) as u8;
                b.push((tagc << 5) | vt);
                let extra = r.below(6) as usize;
                b.extend_from_slice(&r.bytes(extra));
            }
        }
        90..=94 => {
            out.stat("a_random_bytes", 1);
            let n = r.below(40) as usize;
            b = r.bytes(n);
        }
        _ => {
            out.stat("a_known_shapes", 1);
            let shapes: [&[u8]; 12] = [
                &[],
                &[0x18],
                &[0x18, 0x18],
                &[0x15],
                &[0x15, 0x18],
                &[0x15, 0x13, 0xff, 0xff, 0xff, 0xff, 0xff, 0xff, 0xff, 0xff],
                &[0x13, 0xff, 0xff, 0xff, 0xff, 0xff, 0xff, 0xff, 0xff],
                &[0x15, 0x04, 0x01, 0x13, 0xf4, 0xff, 0xff, 0xff, 0xff, 0xff, 0xff, 0xff],
                &[0x15, 0x38],
                &[0x16, 0x04, 0x01, 0x18],
                &[0x30, 0x05, 0x01],
                &[0x15, 0x24, 0x01],
            ];
            b = r.pick(&shapes).to_vec();
        }
    }
    b
}

fn accessor_ops(r: &mut Rng, bytes: &[u8], thorough: bool) -> Vec<String> {
    let mut ops: Vec<String> = ACCESSORS.iter().map(|s| s.to_string()).collect();
    // the driver's list-based model of the recursive `Display` is cubic in the nesting depth: in the thorough tier
    // (30 000 inputs, nesting to 300) the two formatting ops run on every input of at most 128 bytes and on 1 in 8
    // of the longer ones (quick tier: on every input)
    if thorough && bytes.len() > 128 && !r.chance(1, 8) {
        ops.retain(|o| o != "fmt" && o != "seq_fmt");
    }
    // `tlv` = `tag` + `value`, `total_len` = the public name of `container_len`: 1 input in 4 in the thorough tier
    if thorough && !r.chance(1, 4) {
        ops.retain(|o| o != "tlv" && o != "total_len");
    }
    // context ids present in the input + a few others
    let mut ids: Vec<u8> = vec![0, 1, 2, 255];
    for w in bytes.windows(2) {
        if w[0] >> 5 == 1 {
            ids.push(w[1]);
        }
    }
    for name in ["find_ctx", "seq_ctx", "scan_ctx"] {
        let id = *r.pick(&ids);
        ops.push(format!("{} {}", name, id));
        let id = *r.pick(&ids);
        ops.push(format!("{} {}", name, id));
    }
    ops
}

const RULE: &str = "#rule stream a: one byte string per case (valid encodings of random trees; truncated; every string length field replaced, same width or widened to 2/4/8 bytes, by 0, rem-1, rem, rem+1, 2^16-1, 2^32-1, 2^32, 2^63-1, 2^63, 2^64-1 and the values around the overflow point of 1+tag+8+len; byte and end-marker mutations; nesting up to 300; random typed and uniform bytes; known shapes) x every public accessor of TLVElement/TLVSequence/iterators (incl. tlv, total_len, Display/Debug of elements and sequences), capped at len+2 steps; non-trivial = at least one accessor accepts and one rejects. stream w: one value tree per case (1 in 50: a string longer than its 1- or 2-byte length field can express, which TLVWrite::tlv must refuse; otherwise all tag forms, all integer widths at their extremes, floats by bit pattern incl. NaN payloads, UTF-8 and octet strings with 1/2/4/8-byte length fields, nulls, nesting) written by TLVWrite and by TLV::bytes_iter, decoded back with the public accessors; non-trivial = written and decoded. stream s: derived wire structures round-tripped (32 real structures incl. signed-integer fields; 45 derive shapes: tag numbering, wrappers, signed integers of every width at the bounds of every element type, float bit patterns incl. NaN payloads / signed zeros / subnormals, [T; N] arrays, bitflags with all / no / undeclared bits), then decoded from truncated / mutated / field-permuted encodings and from arrays with items removed / added. distinct = by case text";

pub fn gen(a: &Args) -> String {
    watchdog_start(&a.out);
    install_panic_hook();
    // `fork` decorrelates adjacent seeds (Rng::new(s) and Rng::new(s + 1) are the same stream shifted by one draw)
    let mut r = Rng::new(a.seed).fork();
    let mut out = Out::default();
    out.buf.push_str(RULE);
    out.buf.push('\n');
    let n_a = if a.thorough { 30_000 } else { 8_000 };
    let n_w = if a.thorough { 12_000 } else { 3_000 };
    let n_s = if a.thorough { 8_000 } else { 2_000 };
    let mut id = 0u64;
    for _ in 0..n_a {
        let mut cr = r.fork();
        let b = gen_bytes(&mut cr, &mut out, a.thorough);
        out.stat(&format!("a_len_{}", len_bucket(b.len())), 1);
        let ops = accessor_ops(&mut cr, &b, a.thorough);
        run_case(&mut out, &Case { id, kind: format!("a {}", hex(&b)), ops });
        id += 1;
    }
    for i in 0..n_w {
        let mut cr = r.fork();
        let mut budget = if a.thorough { 24 } else { 10 };
        let big = i % 40 == 0;
        let tree = gen_node(&mut cr, if i % 97 == 0 { 30 } else { 5 }, false, big, true, &mut budget);
        if i % 50 == 7 {
            // a string that does NOT fit the length field of the element type it is written with: the fallible
            // writer must refuse it (fix C16-writer-length-truncation); `TLV::bytes_iter` cannot (open finding,
            // corpus only)
            let (w, n) = if i % 500 == 57 { (2usize, 65536usize + cr.below(3) as usize) } else { (1, *cr.pick(&[256usize, 257, 300, 511, 512])) };
            let leaf = if cr.chance(1, 2) {
                format!("o{}:{}", w, hex(&cr.bytes(n)))
            } else {
                let mut u = gen_utf8(&mut cr, n);
                while u.len() < n {
                    u.push(b'a');
                }
                format!("t{}:{}", w, hex(&u))
            };
            let leaf = Node::Leaf(gen_tag(&mut cr, false), leaf);
            let tree = if cr.chance(1, 2) {
                leaf
            } else {
                Node::Cont(gen_tag(&mut cr, false), *cr.pick(&['S', 'A', 'L']), vec![Node::Leaf(TLVTag::Context(1), "u1:7".into()), {
                    match leaf {
                        Node::Leaf(_, p) => Node::Leaf(TLVTag::Context(2), p),
                        n => n,
                    }
                }])
            };
            out.stat("w_overlong_strings", 1);
            run_case(&mut out, &Case { id, kind: "w".into(), ops: vec![format!("write {}", node_str(&tree))] });
            id += 1;
            continue;
        }
        let ts = node_str(&tree);
        let mut ops = vec![format!("write {}", ts), format!("iterwrite {}", ts)];
        if let Ok(b) = write_tree(&tree, &mut Vec::new()) {
            ops.push(format!("decode {}", hex(&b)));
        }
        let mut b2 = Vec::new();
        if iterwrite_node(&tree, &mut b2).is_ok() {
            ops.push(format!("decode {}", hex(&b2)));
        }
        out.stat("w_trees", 1);
        run_case(&mut out, &Case { id, kind: "w".into(), ops });
        id += 1;
    }
    for _ in 0..n_s {
        let mut cr = r.fork();
        let (name, ops) = structs::gen(&mut cr);
        out.stat(&format!("s_{}", name.split_whitespace().next().unwrap_or("")), 1);
        run_case(&mut out, &Case { id, kind: format!("s {}", name), ops });
        id += 1;
    }
    out.finish()
}

fn len_bucket(n: usize) -> &'static str {
    match n {
        0 => "0",
        1..=4 => "1_4",
        5..=16 => "5_16",
        17..=64 => "17_64",
        65..=256 => "65_256",
        _ => "257_up",
    }
}

pub fn replay(a: &Args) -> String {
    watchdog_start(&a.out);
    install_panic_hook();
    let text = std::fs::read_to_string(a.input.as_ref().expect("--in")).expect("read input");
    let mut out = Out::default();
    for c in parse_cases(&text) {
        run_case(&mut out, &c);
    }
    out.finish()
}
