//! C13, `evs` cases: the REAL event queue (`Events<RING>`, three rings with promotion / eviction), the REAL
//! subscription table and the REAL `EventReader` together - what a report to a live subscription carries.
//!
//! Header `case <id> evs <N> <hz> <ring> k=<K>`: table capacity, ticks per second, bytes per ring, and the
//! length `K` of an event with an empty payload in the queue (measured on the real queue at the case start:
//! the timestamp of an event is a varying-width field).
//! Ops: all table ops of the state-level stream, the event watermark written as `q` = "what
//! `Events::watermark` returns now" (what `im.rs` hands to `add` / `report` / `next_report_at`), plus
//!   `push <prio> <event id> <payload len> <count>`  - `Events::push`, `count` times  => first-last
//!   `read <id> <w|e0|e1>` - the event part of the report of the live context `id` whose subscription selects
//!       all events / event 0 / event 1 of the cluster: `EventReader::new(max_seen, next_max_seen)` +
//!       `process_read` over `Events::fetch`, as `report_events` of `im.rs` does (without chunking: C14)
//!       => `<max_seen> <next_max_seen> <numbers of the events written, in order>`
//! Output of every op: `<result> | <table dump as in the state-level stream> | Q <next> <debug>,<info>,<critical>
//! <number:priority:event id of the queued events in iteration order> <critical>/<info>/<debug ring: numbers>`.
use std::cell::RefCell;
use std::panic::{catch_unwind, AssertUnwindSafe};

use rs_matter::acl::{Accessor, AccessorSubjects, AuthMode};
use rs_matter::dm::devices::test::{TEST_DEV_ATT, TEST_DEV_COMM, TEST_DEV_DET};
use rs_matter::dm::devices::DEV_TYPE_ON_OFF_LIGHT;
use rs_matter::dm::{Access, Cluster, Endpoint, Event, Node};
use rs_matter::im::events::{EventReader, Events};
use rs_matter::im::{EventPath, EventPriority};
use rs_matter::tlv::{TLVArray, TLVElement, TLVTag, TLVWrite, ToTLV};
use rs_matter::utils::storage::WriteBuf;
use rs_matter::{attributes, clusters, commands, events, with, Matter};

use super::{KvAcc, MemKv, Runner, HZ};
use crate::proto::{Case, Out};
use crate::rng::Rng;

pub const RULE: &str = "evs cases: the real event queue Events<RING> (RING = 128 / 256 (the default) / 512 bytes per ring), the real subscription table (N = 2) and the real EventReader: bursts of 1-40 events of mixed priority, event id and payload length - larger than the debug ring and larger than debug + info ring - pushed before a subscription is added, between the begin of its priming and the reading of its data, inside the minimum-interval quiet period after an acknowledged report, during the back-off after a failed report, and while a report is in flight; every report context is read (the events the real reader writes) and ended keep / retry / drop; the table is handed the queue's watermark at every add / report; non-trivial = an event that no report had carried yet was promoted out of the debug ring before a report to a live subscription was read";

const EP: u16 = 1;
const CL: u32 = 0xFFF1_FC31;

const CLUSTER: Cluster<'static> = Cluster {
    id: CL,
    revision: 1,
    feature_map: 0,
    attributes: attributes!(),
    commands: commands!(),
    events: events!(Event::new(0, Access::RV), Event::new(1, Access::RV)),
    with_attrs: with!(all),
    with_cmds: with!(all),
    with_events: with!(all),
};

const NODE: Node<'static> = Node { endpoints: &[Endpoint::new(EP, &[DEV_TYPE_ON_OFF_LIGHT], clusters!(CLUSTER))] };

fn prio_of(p: u64) -> EventPriority {
    match p {
        0 => EventPriority::Debug,
        1 => EventPriority::Info,
        _ => EventPriority::Critical,
    }
}

struct Evs<'m, const RING: usize> {
    ev: Box<Events<RING>>,
    acc: KvAcc,
    matter: &'m Matter<'m>,
    dead: bool,
}

impl<'m, const RING: usize> Evs<'m, RING> {
    fn qdump(&self) -> String {
        let (d, i, c, _) = self.ev.verif_heads();
        let mut items: Vec<String> = Vec::new();
        self.ev.verif_fetch(|it| {
            for (k, e) in it.enumerate() {
                if k >= 4096 {
                    items.push("cap".into());
                    break;
                }
                items.push(format!("{}:{}:{}", e.event_number, e.priority as u8, e.path.event.unwrap_or(0xffff)));
            }
        });
        let rings = self.rings();
        let rl = |v: &Vec<u64>| if v.is_empty() { "-".to_string() } else { v.iter().map(|n| n.to_string()).collect::<Vec<_>>().join(",") };
        format!(
            "Q {} {},{},{} {} {}/{}/{}",
            self.ev.verif_next_event_number(),
            d,
            i,
            c,
            if items.is_empty() { "-".to_string() } else { items.join(";") },
            rl(&rings[2]),
            rl(&rings[1]),
            rl(&rings[0])
        )
    }

    /// the event numbers held by the debug, info and critical ring
    fn rings(&self) -> [Vec<u64>; 3] {
        let mut v: [Vec<u64>; 3] = [Vec::new(), Vec::new(), Vec::new()];
        self.ev.verif_visit_rings(|ring, n| v[(ring as usize).min(2)].push(n));
        v
    }

    fn push(&self, prio: u64, eid: u64, plen: usize, k: u64) -> String {
        let mut nums: Vec<u64> = Vec::new();
        let payload = vec![0x5au8; plen.min(200)];
        for _ in 0..k.clamp(1, 64) {
            match self.ev.push(EP, CL, (eid % 2) as u32, prio_of(prio), &self.acc, |mut tw| tw.str(&TLVTag::Context(7), &payload)) {
                Ok(n) => nums.push(n),
                Err(e) => return format!("err {:?}", e.code()),
            }
        }
        format!("{}-{}", nums[0], nums[nums.len() - 1])
    }

    /// the event part of one report: `report_events` of `im.rs` without the chunking
    fn read(&self, max_seen: u64, next_max_seen: u64, sel: &str) -> String {
        let path = EventPath {
            node: None,
            endpoint: Some(EP),
            cluster: Some(CL),
            event: match sel {
                "e0" => Some(0),
                "e1" => Some(1),
                _ => None,
            },
            is_urgent: None,
        };
        let mut pbuf = [0u8; 64];
        let plen = {
            let mut tw = WriteBuf::new(&mut pbuf);
            tw.start_array(&TLVTag::Anonymous).unwrap();
            path.to_tlv(&TLVTag::Anonymous, &mut tw).unwrap();
            tw.end_container().unwrap();
            tw.get_tail()
        };
        let paths: TLVArray<'_, EventPath> = TLVArray::new(TLVElement::new(&pbuf[..plen])).unwrap();
        let accessor = Accessor::new(0, false, AccessorSubjects::new(1), Some(AuthMode::Pase), self.matter);
        let mut reader = EventReader::new(max_seen, next_max_seen, false);
        let mut obuf = vec![0u8; 16384];
        let mut wb = WriteBuf::new(&mut obuf);
        let mut written: Vec<String> = Vec::new();
        let mut bad = false;
        self.ev.verif_fetch(|it| {
            for (k, e) in it.enumerate() {
                if k >= 4096 {
                    bad = true;
                    break;
                }
                let n = e.event_number;
                match reader.process_read(e, &paths, &None, &NODE, &accessor, &mut wb) {
                    Ok(true) => written.push(n.to_string()),
                    Ok(false) => {}
                    Err(_) => {
                        bad = true;
                        break;
                    }
                }
            }
        });
        if bad {
            return "err".into();
        }
        format!("{} {} {}", max_seen, next_max_seen, if written.is_empty() { "-".to_string() } else { written.join(",") })
    }

    fn exec(&mut self, run: &mut Runner<'_, '_, 2>, op: &str) -> String {
        if self.dead || run.dead {
            return "panic".into();
        }
        let w: Vec<&str> = op.split_whitespace().collect();
        let num = |i: usize| -> u64 { w.get(i).and_then(|x| x.parse::<u64>().ok()).unwrap_or(0) };
        let own: Option<String> = match w.first().copied().unwrap_or("") {
            "push" => {
                let r = catch_unwind(AssertUnwindSafe(|| self.push(num(1), num(2), num(3) as usize, num(4))));
                Some(r.unwrap_or_else(|_| {
                    self.dead = true;
                    "panic".into()
                }))
            }
            "read" => {
                let id = num(1) as u32;
                let ctx = run.ctxs.iter().find(|(i, _)| *i == id).map(|(_, c)| (c.max_seen_event_number(), c.next_max_seen_event_number()));
                Some(match ctx {
                    None => "noctx".into(),
                    Some((a, b)) => {
                        let sel = w.get(2).copied().unwrap_or("w");
                        let r = catch_unwind(AssertUnwindSafe(|| self.read(a, b, sel)));
                        r.unwrap_or_else(|_| {
                            self.dead = true;
                            "panic".into()
                        })
                    }
                })
            }
            "restart" | "persist" => Some("badop".into()),
            _ => None,
        };
        if self.dead {
            return "panic".into();
        }
        let head = match own {
            Some(res) => {
                let d = catch_unwind(AssertUnwindSafe(|| run.dump())).unwrap_or_else(|_| "panic".into());
                format!("{} | {}", res, d)
            }
            None => {
                // a table op: `q` stands for the queue's watermark of this moment
                let wm = self.ev.verif_watermark().to_string();
                let sub: Vec<&str> = w.iter().enumerate().map(|(i, t)| if i > 0 && *t == "q" { wm.as_str() } else { *t }).collect();
                run.exec(&sub.join(" "))
            }
        };
        if head == "panic" {
            return head;
        }
        format!("{} | {}", head, self.qdump())
    }
}

/// length in the queue of an event with an empty payload at the present instant
fn measure_k() -> usize {
    let ev: Box<Events<512>> = Box::new(Events::new());
    let acc = KvAcc(RefCell::new(MemKv::default()), RefCell::new([0u8; 256]));
    let _ = ev.push(EP, CL, 0, EventPriority::Info, &acc, |mut tw| tw.str(&TLVTag::Context(7), &[]));
    ev.verif_heads().0
}

pub fn ring_of(kind: &str) -> usize {
    match kind.split_whitespace().nth(3).and_then(|x| x.parse::<usize>().ok()).unwrap_or(256) {
        128 => 128,
        512 => 512,
        _ => 256,
    }
}

fn with_evs<const RING: usize, R>(f: impl FnOnce(&mut Evs<'_, RING>, &mut Runner<'_, '_, 2>) -> R) -> R {
    let matter = Box::new(Matter::new(&TEST_DEV_DET, TEST_DEV_COMM, &TEST_DEV_ATT, 0));
    let mut evs = Evs::<RING> {
        ev: Box::new(Events::new()),
        acc: KvAcc(RefCell::new(MemKv::default()), RefCell::new([0u8; 256])),
        matter: &matter,
        dead: false,
    };
    super::with_runner::<2, _>(|run| f(&mut evs, run))
}

fn header(ring: usize) -> String {
    format!("evs 2 {} {} k={}", HZ, ring, measure_k())
}

pub fn replay_case(out: &mut Out, case: &Case) {
    let ring = ring_of(&case.kind);
    out.case(case.id, &header(ring));
    fn go<const RING: usize>(out: &mut Out, case: &Case) {
        with_evs::<RING, _>(|evs, run| {
            for op in &case.ops {
                let o = evs.exec(run, op);
                out.op(op, &o);
            }
        })
    }
    match ring {
        128 => go::<128>(out, case),
        512 => go::<512>(out, case),
        _ => go::<256>(out, case),
    }
}

// ------------------------------------------------------------------------------------------------
// generator

struct G<'g, 'm, 'a, 's, const RING: usize> {
    evs: &'g mut Evs<'m, RING>,
    run: &'g mut Runner<'a, 's, 2>,
    out: &'g mut Out,
    r: &'g mut Rng,
    t: u64,
    /// selection of the subscriptions by id (what their subscriber asked for)
    sel: Vec<(u32, &'static str)>,
    /// an event owed to a report had left the debug ring when the report was read
    promoted_unreported: bool,
    k_len: usize,
}

impl<const RING: usize> G<'_, '_, '_, '_, RING> {
    fn step(&mut self, op: String) -> String {
        let o = self.evs.exec(self.run, &op);
        self.out.op(&op, &o);
        o
    }

    fn sel_of(&self, id: u32) -> &'static str {
        self.sel.iter().find(|(i, _)| *i == id).map(|x| x.1).unwrap_or("w")
    }

    /// a burst: `n` events in runs of equal shape
    fn burst(&mut self, n: u64) {
        let mut left = n;
        while left > 0 {
            let k = self.r.range(1, left.min(12));
            let prio = match self.r.below(10) {
                0 | 1 => 0,
                2..=6 => 1,
                _ => 2,
            };
            let plen = match self.r.below(6) {
                0 => 0,
                1 => self.r.range(0, 8),
                2 => self.r.range(8, 40),
                3 => self.r.range(40, 90),
                // an event that fills a ring alone (RING = 128), or nearly
                4 => (RING.saturating_sub(self.k_len + 2) as u64).min(150),
                _ => self.r.range(0, 20),
            };
            let eid = self.r.below(2);
            self.step(format!("push {} {} {} {}", prio, eid, plen, k));
            self.out.stat("evs_push_ops", 1);
            self.out.stat("evs_events", k);
            left -= k;
        }
    }

    fn big(&mut self) -> u64 {
        // events per ring: about RING / (K + payload); a burst beyond the debug ring, beyond debug + info,
        // sometimes beyond all three
        let per_ring = (RING / self.k_len.max(1)).max(1) as u64;
        match self.r.below(6) {
            0 => self.r.range(1, per_ring),
            1 | 2 => per_ring + self.r.range(1, per_ring),
            3 | 4 => 2 * per_ring + self.r.range(1, per_ring),
            _ => 3 * per_ring + self.r.range(1, 2 * per_ring),
        }
        .min(60)
    }

    /// read the context and end it
    fn read_fin(&mut self, id: u32, mode: &str) {
        let sel = self.sel_of(id);
        let o = self.step(format!("read {} {}", id, sel));
        self.out.stat("evs_reads", 1);
        let head: Vec<&str> = o.split(" | ").next().unwrap_or("").split_whitespace().collect();
        if head.len() == 3 {
            if head[2] != "-" {
                self.out.stat("evs_reads_with_events", 1);
            }
            // an event owed to this report has left the debug ring before the report was read
            let (a, b) = (head[0].parse::<u64>().unwrap_or(0), head[1].parse::<u64>().unwrap_or(0));
            let rings = self.evs.rings();
            let up = rings[1].iter().chain(rings[2].iter()).filter(|n| **n > a && **n <= b).count() as u64;
            if up > 0 {
                self.promoted_unreported = true;
                self.out.stat("evs_reads_owing_promoted_events", 1);
                self.out.stat("evs_owed_events_in_upper_rings", up);
                if rings[2].iter().any(|n| *n > a && *n <= b) {
                    self.out.stat("evs_reads_owing_events_of_the_critical_ring", 1);
                }
            }
        }
        self.step(format!("fin {} {}", id, mode));
        self.out.stat(&format!("evs_fin_{}", mode), 1);
    }

    fn add(&mut self, min: u64, max: u64, peer: u64) -> Option<u32> {
        let o = self.step(format!("add {} 1 {} {} {} q", self.t, peer, min, max));
        let id: u32 = o.strip_prefix("some ")?.split_whitespace().next()?.parse().ok()?;
        let sel = *self.r.pick(&["w", "w", "w", "e0", "e1"]);
        self.sel.push((id, sel));
        self.out.stat("evs_adds", 1);
        Some(id)
    }

    /// reporter passes at the present instant: every report that begins is read and ended
    fn pass(&mut self, mode_first: &str) -> usize {
        let mut n = 0;
        for k in 0..3 {
            let o = self.step(format!("rep {} q", self.t));
            let Some(rest) = o.strip_prefix("some ") else {
                break;
            };
            let id: u32 = rest.split_whitespace().next().and_then(|x| x.parse().ok()).unwrap_or(0);
            n += 1;
            // events arriving while the report is in flight are beyond its snapshot
            if self.r.chance(1, 3) {
                let b = self.r.range(1, 6);
                self.burst(b);
                self.out.stat("evs_burst_in_flight", 1);
            }
            self.read_fin(id, if k == 0 { mode_first } else { "keep" });
        }
        n
    }
}

fn gen_one<const RING: usize>(id: u64, r: &mut Rng, out: &mut Out) {
    let (start_len, start_ops, start_cases) = (out.buf.len(), out.ops, out.cases);
    out.case(id, &header(RING));
    let k_len = measure_k();
    let keep = with_evs::<RING, _>(|evs, run| {
        let t0 = r.range(0, 50) * HZ;
        let mut g = G { evs, run, out, r, t: t0, sel: Vec::new(), promoted_unreported: false, k_len };
        // before anybody subscribes
        if g.r.chance(1, 2) {
            let n = g.big();
            g.burst(n);
            g.out.stat("evs_burst_before_subscribe", 1);
        }
        let min = *g.r.pick(&[1u64, 2, 5, 10]);
        let max = *g.r.pick(&[20u64, 60, 600]);
        let Some(s1) = g.add(min, max, 10) else {
            return false;
        };
        // between the begin of the priming and the reading of its data
        if g.r.chance(1, 2) {
            let n = g.big();
            g.burst(n);
            g.out.stat("evs_burst_before_priming_read", 1);
        }
        g.read_fin(s1, "keep");
        let two = g.r.chance(1, 3);
        if two {
            let (m2, x2) = (*g.r.pick(&[0u64, 1, 3]), *g.r.pick(&[30u64, 60]));
            if let Some(s2) = g.add(m2, x2, 11) {
                g.read_fin(s2, "keep");
            }
        }
        let rounds = g.r.range(2, 5);
        for _ in 0..rounds {
            match g.r.below(4) {
                // inside the quiet period after an acknowledged report
                0 | 1 => {
                    g.t += g.r.range(0, HZ / 2);
                    let n = g.big();
                    g.burst(n);
                    g.out.stat("evs_burst_in_quiet_period", 1);
                    // the reporter is woken by the events: nothing may begin for the quiet subscription
                    g.pass("keep");
                    if g.r.chance(1, 2) {
                        let n = g.r.range(1, 8);
                        g.burst(n);
                    }
                    g.t += min * HZ;
                    let mode = if g.r.chance(1, 4) { "retry" } else { "keep" };
                    g.pass(mode);
                }
                // during the back-off after a failed report
                2 => {
                    g.t += min * HZ + g.r.range(0, HZ);
                    let n = g.r.range(1, 4);
                    g.burst(n);
                    let began = g.pass("retry");
                    if began > 0 {
                        let n = g.big();
                        g.burst(n);
                        g.out.stat("evs_burst_in_backoff", 1);
                        g.pass("keep");
                        // the retry gate of the failed one
                        let gate = g.run.last_table.iter().map(|s| s.retry_at).max().unwrap_or(0);
                        g.t = g.t.max(gate);
                        let mode = if g.r.chance(1, 5) { "retry" } else { "keep" };
                        g.pass(mode);
                    }
                }
                // a trickle: every event reported at once (the ordinary case)
                _ => {
                    for _ in 0..g.r.range(1, 4) {
                        g.t += min * HZ + g.r.range(0, 2 * HZ);
                        let n = g.r.range(1, 3);
                        g.burst(n);
                        g.pass("keep");
                    }
                }
            }
        }
        // wind down: everything still retained is delivered
        for _ in 0..3 {
            g.t += 11 * HZ;
            let gate = g.run.last_table.iter().map(|s| s.retry_at).max().unwrap_or(0);
            g.t = g.t.max(gate);
            g.pass("keep");
        }
        g.promoted_unreported
    });
    if keep {
        out.buf.push_str("#nt\n");
        out.stat("evs_cases", 1);
        out.stat(&format!("evs_cases_ring_{}", RING), 1);
    } else {
        out.buf.truncate(start_len);
        out.ops = start_ops;
        out.cases = start_cases;
        out.stat("evs_dropped_no_unreported_promotion", 1);
    }
}

pub fn gen(out: &mut Out, r: &mut Rng, n: u64, first_id: u64) {
    for i in 0..n {
        let mut cr = r.fork();
        match cr.below(5) {
            0 => gen_one::<128>(first_id + i, &mut cr, out),
            1..=3 => gen_one::<256>(first_id + i, &mut cr, out),
            _ => gen_one::<512>(first_id + i, &mut cr, out),
        }
    }
}
