import RsMatterVerif.Model.Cert
/-!
# Symbolic model of the CASE handshake (`rs-matter/src/sc/case/{responder,initiator,casep,resumption}.rs`)

Dolev-Yao style: cryptographic values are terms over free constructors (`hash`, `kdf`, `mac`,
`sign`, `mic`, `enc`), so two values are equal only if they were built the same way (perfect
cryptography); the only equation is the commutativity of ECDH, built into `ecdh`.
The functions are the decision sequences of the code, in the code's order:

* responder: `respSigma1` (`handle_casesigma1`: destination id → fabric, `CaseP::start`, Sigma2),
  `respSigma3` (`handle_casesigma3`: decrypt under S3K, `validate_certs`, TBS signature, CATs,
  node id, session keys, resumption record; `respSigma3At`: with the fabric re-read by index),
  `respResumeStep` / `respResume` (`try_handle_sigma1_resume`) and
  `respResumeFinish` (the `SigmaFinished` status report);
* initiator: `initSigma1` (`start_initiator`, Sigma1 with optional resumption fields),
  `initSigma2` (Sigma2: decrypt under S2K, `validate_certs`, expected node id, TBS signature,
  Sigma3), `initFinish` (final status report → session), `initSigma2Resume`
  (`finalize_sigma2_resume`).

Certificates are the symbolic records of `Model/Cert.lean`; chain validation is `Cert.validateCase`.
-/
namespace Case
open Cert

inductive Term where
  /-- public data: randoms, identifiers, constants -/
  | atom (n : Nat)
  /-- public key of the ephemeral secret `n` -/
  | epk (n : Nat)
  /-- ECDH of the ephemeral secrets `a ≤ b` -/
  | shared (a b : Nat)
  /-- ECDH of secret `a` with something that is not the public key of a known secret -/
  | badShared (a : Nat) (t : Term)
  | pair (a b : Term)
  | hash (t : Term)
  | kdf (secret salt info : Term)
  | mac (key msg : Term)
  /-- signature under the long-term (operational) key pair `key` -/
  | sign (key : Nat) (msg : Term)
  /-- AEAD tag over the empty plaintext -/
  | mic (key nonce : Term)
  | enc (key nonce plain : Term)
  /-- certificate bytes -/
  | cert (c : Cert)
  /-- absent optional field -/
  | none
  /-- `i`-th 16-byte part of a derived key block -/
  | part (i : Nat) (t : Term)
deriving DecidableEq, Repr, Inhabited

/-- `derive_shared_secret(secret a, public key pk)` -/
def ecdh (a : Nat) (pk : Term) : Term :=
  match pk with
  | .epk b => if a ≤ b then .shared a b else .shared b a
  | t => .badShared a t

/-- `crypto.pub_key(bytes)`: only a point on the curve is a public key — anything else (a flipped
bit, junk) makes `CaseP::start` fail before any ECDH -/
def isPubKey : Term → Bool
  | .epk _ => true
  | _ => false

/-! constants (`info` strings and nonces) -/
def infoS2K : Term := .atom 1002
def infoS3K : Term := .atom 1003
def infoSEK : Term := .atom 1004
def infoS1RK : Term := .atom 1005
def infoS2RK : Term := .atom 1006
def infoResumeSEK : Term := .atom 1007
def nonceS2 : Term := .atom 1012
def nonceS3 : Term := .atom 1013
def nonceR1 : Term := .atom 1015
def nonceR2 : Term := .atom 1016

def optCert : Option Cert → Term
  | some c => .cert c
  | .none => .none

/-- handshake messages; every field is a term so that the network can put anything there -/
inductive Msg where
  | sigma1 (rnd sid dest eph : Term) (resume : Option (Term × Term))
  | sigma2 (rnd sid eph encd : Term)
  | sigma3 (encd : Term)
  | sigma2Resume (rid mic sid : Term)
  | status (ok : Bool)
  /-- bytes that do not parse as any of the above (truncation, broken TLV) -/
  | junk (n : Nat)
deriving DecidableEq, Repr, Inhabited

def resumeTerm : Option (Term × Term) → Term
  | .none => .none
  | some (rid, m) => .pair rid m

/-- the message as transcript input (the raw payload bytes are hashed) -/
def Msg.toTerm : Msg → Term
  | .sigma1 r s d e o => .pair (.atom 1) (.pair r (.pair s (.pair d (.pair e (resumeTerm o)))))
  | .sigma2 r s e c => .pair (.atom 2) (.pair r (.pair s (.pair e c)))
  | .sigma3 c => .pair (.atom 3) c
  | .sigma2Resume r m s => .pair (.atom 4) (.pair r (.pair m s))
  | .status ok => .pair (.atom 5) (.atom (if ok then 1 else 0))
  | .junk n => .pair (.atom 6) (.atom n)

/-- a fabric as a node holds it -/
structure Fabric where
  idx : Nat
  fabricId : Nat
  root : Cert
  ipk : Term
  /-- the node's own identity on this fabric -/
  nodeId : Nat
  noc : Cert
  icac : Option Cert
  /-- the node's operational key pair (its public half is `noc.pubKey`) -/
  opKey : Nat
deriving DecidableEq, Repr, Inhabited

def Fabric.view (f : Fabric) : FabricView := { fabricId := f.fabricId, root := f.root }

/-- `Fabric::compute_dest_id` / `is_dest_id`: HMAC under the IPK of
`random ‖ root public key ‖ fabric id ‖ node id` -/
def destId (ipk rnd : Term) (rootKey fabricId nodeId : Nat) : Term :=
  .mac ipk (.pair rnd (.pair (.atom rootKey) (.pair (.atom fabricId) (.atom nodeId))))

/-- `Fabrics::get_by_dest_id`: first fabric whose destination id for its own node id matches -/
def findFabric (fabrics : List Fabric) (rnd dest : Term) : Option Fabric :=
  fabrics.find? fun f => destId f.ipk rnd f.root.pubKey f.fabricId f.nodeId == dest

/-- an established (unreserved) CASE session -/
structure Session where
  fabIdx : Nat
  localNode : Nat
  peerNode : Nat
  cats : List Nat
  /-- key for messages initiator → responder -/
  i2r : Term
  /-- key for messages responder → initiator -/
  r2i : Term
  localSid : Term
  peerSid : Term
  sharedSecret : Term
deriving DecidableEq, Repr, Inhabited

/-- resumption cache record -/
structure ResRec where
  fabIdx : Nat
  peerNode : Nat
  cats : List Nat
  rid : Term
  secret : Term
deriving DecidableEq, Repr, Inhabited

/-! ## key schedule (`casep.rs`) -/

def tt1 (s1 : Msg) : Term := .hash s1.toTerm
def tt2 (s1 s2 : Msg) : Term := .hash (.pair s1.toTerm s2.toTerm)
def tt3 (s1 s2 s3 : Msg) : Term := .hash (.pair (.pair s1.toTerm s2.toTerm) s3.toTerm)

/-- `compute_sigma2_key`: salt = IPK ‖ responder random ‖ responder ephemeral key ‖ hash(Sigma1) -/
def s2k (secret ipk respRnd respEph : Term) (s1 : Msg) : Term :=
  .kdf secret (.pair ipk (.pair respRnd (.pair respEph (tt1 s1)))) infoS2K

/-- `compute_sigma3_key`: salt = IPK ‖ hash(Sigma1 ‖ Sigma2) -/
def s3k (secret ipk : Term) (s1 s2 : Msg) : Term :=
  .kdf secret (.pair ipk (tt2 s1 s2)) infoS3K

/-- `compute_session_keys`: salt = IPK ‖ hash(Sigma1 ‖ Sigma2 ‖ Sigma3) -/
def sessionKeys (secret ipk : Term) (s1 s2 s3 : Msg) : Term :=
  .kdf secret (.pair ipk (tt3 s1 s2 s3)) infoSEK

/-- TBSData2 / TBSData3: sender's NOC, ICAC, sender's ephemeral key, receiver's ephemeral key -/
def tbs (noc : Cert) (icac : Option Cert) (senderEph receiverEph : Term) : Term :=
  .pair (.cert noc) (.pair (optCert icac) (.pair senderEph receiverEph))

def tbe2 (noc : Cert) (icac : Option Cert) (sig rid : Term) : Term :=
  .pair (.cert noc) (.pair (optCert icac) (.pair sig rid))

def tbe3 (noc : Cert) (icac : Option Cert) (sig : Term) : Term :=
  .pair (.cert noc) (.pair (optCert icac) sig)

/-- `derive_resume_key`: salt = initiator random ‖ resumption id -/
def resumeKey (secret initRnd rid info : Term) : Term := .kdf secret (.pair initRnd rid) info

def resumeSessionKeys (secret initRnd rid : Term) : Term :=
  .kdf secret (.pair initRnd rid) infoResumeSEK

/-- parse a decrypted TBE: `(noc, icac?, rest)` -/
def parseTbe : Term → Option (Cert × Option Cert × Term)
  | .pair (.cert noc) (.pair (.cert ic) rest) => some (noc, some ic, rest)
  | .pair (.cert noc) (.pair .none rest) => some (noc, .none, rest)
  | _ => .none

/-- `NocCatIds` holds at most 3 tags (`get_cat_ids` fails beyond) -/
def maxCats : Nat := 3

/-! ## Responder -/

/-- the responder's `CaseP` after Sigma1 / Sigma2 -/
structure RespCtx where
  fabric : Fabric
  eph : Nat
  rnd : Term
  rid : Term
  sid : Term
  peerSid : Term
  peerEph : Term
  secret : Term
  s1 : Msg
  s2 : Msg
deriving Repr, Inhabited

inductive RespOut1 where
  /-- Sigma2 sent, waiting for Sigma3 -/
  | sent (ctx : RespCtx)
  /-- status report with an error code sent, handshake over -/
  | refused
deriving Repr, Inhabited

/-- `handle_casesigma1` for a received message `m`; `eph rnd rid sid` are the fresh values the
responder generates (ephemeral key, random, resumption id, session id) -/
def respSigma1 (fabrics : List Fabric) (m : Msg) (eph : Nat) (rnd rid sid : Term) : RespOut1 :=
  match m with
  | .sigma1 iRnd iSid dest iEph _ =>
    -- resumption id and MIC must come together (the resume attempt itself is `respResume`)
    match findFabric fabrics iRnd dest with
    | .none => .refused
    | some f =>
      -- `CaseP::start`: the peer's ephemeral key must parse as a curve point (else the handler
      -- returns an error: nothing is sent)
      if !isPubKey iEph then .refused else
      let secret := ecdh eph iEph
      let sig := Term.sign f.opKey (tbs f.noc f.icac (.epk eph) iEph)
      let key := s2k secret f.ipk rnd (.epk eph) m
      let s2 := Msg.sigma2 rnd sid (.epk eph) (.enc key nonceS2 (tbe2 f.noc f.icac sig rid))
      .sent { fabric := f, eph := eph, rnd := rnd, rid := rid, sid := sid, peerSid := iSid,
              peerEph := iEph, secret := secret, s1 := m, s2 := s2 }
  | _ => .refused

/-- `handle_casesigma3`: returns the session the reserved slot is completed with (and the
resumption record seeded), or `none` (status report with an error, slot released) -/
def respSigma3 (t : Time) (ctx : RespCtx) (m : Msg) : Option (Session × ResRec) :=
  match m with
  | .sigma3 (.enc k n p) =>
    if k ≠ s3k ctx.secret ctx.fabric.ipk ctx.s1 ctx.s2 ∨ n ≠ nonceS3 then .none
    else
      match parseTbe p with
      | .none => .none
      | some (noc, icac, sig) =>
        match validateCase t ctx.fabric.view noc icac with
        | .error _ => .none
        | .ok () =>
          -- `validate_peer_tbs_signature`: under the NOC's key, over the peer's TBS
          if sig ≠ Term.sign noc.pubKey (tbs noc icac ctx.peerEph (.epk ctx.eph)) then .none
          else if (catsOf noc.subject).length > maxCats then .none
          else
            match nodeIdOf noc.subject with
            | .none => .none
            | some peer =>
              let keys := sessionKeys ctx.secret ctx.fabric.ipk ctx.s1 ctx.s2 m
              some ({ fabIdx := ctx.fabric.idx, localNode := ctx.fabric.nodeId, peerNode := peer,
                      cats := catsOf noc.subject, i2r := .part 0 keys, r2i := .part 1 keys,
                      localSid := ctx.sid, peerSid := ctx.peerSid, sharedSecret := ctx.secret },
                    { fabIdx := ctx.fabric.idx, peerNode := peer, cats := catsOf noc.subject,
                      rid := ctx.rid, secret := ctx.secret })
  | _ => .none

/-- state of a resumption attempt after `Sigma2_Resume` was sent: the reserved session already
carries the record's identity and the resumption keys -/
structure RespResumeCtx where
  record : ResRec
  session : Session
  newRid : Term
  s2r : Msg
deriving Repr, Inhabited

/-- outcome of `try_handle_sigma1_resume` -/
inductive ResumeOut where
  /-- `Ok(false)`: no resumption fields / unknown id / `Resume1MIC` does not verify — the full
  handshake follows on the same Sigma1 -/
  | fallThrough
  /-- `Sigma2_Resume` sent, reserved session loaded, waiting for `SigmaFinished` -/
  | sent (cx : RespResumeCtx)
  /-- `Sigma2_Resume` (with a valid `Resume2MIC`) has ALREADY been sent when the fabric of the record
  turns out to be missing (`fabrics.get(record.fab_idx)` → `ErrorCode::Invalid`): the handler returns
  the error, the exchange is dropped, no session, nothing more is sent.  (The initiator completes on
  that `Sigma2_Resume`: a half-open session.)  Reachable only with a record whose fabric is gone:
  every removal path purges the records (`remove_for_fabric`), so this needs the removal to land
  between the MIC check and the look-up (the send awaits the acknowledgement in between). -/
  | aborted (s2r : Msg)
deriving Repr, Inhabited

/-- `try_handle_sigma1_resume`, in the code's order: record by id → `Resume1MIC` → new id,
`Resume2MIC` → SEND → session keys → fabric of the record (by index) → load the reserved session -/
def respResumeStep (fabrics : List Fabric) (cache : List ResRec) (m : Msg) (newRid sid : Term) :
    ResumeOut :=
  match m with
  | .sigma1 iRnd iSid _ _ (some (rid, mic1)) =>
    match cache.find? (fun r => r.rid == rid) with
    | .none => .fallThrough
    | some r =>
      if mic1 ≠ Term.mic (resumeKey r.secret iRnd r.rid infoS1RK) nonceR1 then .fallThrough
      else
        let mic2 := Term.mic (resumeKey r.secret iRnd newRid infoS2RK) nonceR2
        let s2r := Msg.sigma2Resume newRid mic2 sid
        match fabrics.find? (fun f => f.idx == r.fabIdx) with
        | .none => .aborted s2r
        | some f =>
          let keys := resumeSessionKeys r.secret iRnd r.rid
          .sent { record := r,
                  session := { fabIdx := r.fabIdx, localNode := f.nodeId, peerNode := r.peerNode,
                               cats := r.cats, i2r := .part 0 keys, r2i := .part 1 keys,
                               localSid := sid, peerSid := iSid, sharedSecret := r.secret },
                  newRid := newRid, s2r := s2r }
  | _ => .fallThrough

/-- the successful branch of `respResumeStep` (`none` = the resumption did not go ahead: fall
through or abort) -/
def respResume (fabrics : List Fabric) (cache : List ResRec) (m : Msg) (newRid sid : Term) :
    Option RespResumeCtx :=
  match respResumeStep fabrics cache m newRid sid with
  | .sent cx => some cx
  | _ => .none

/-- `handle_casesigma3` re-reads the fabric BY INDEX from the table as it is when Sigma3 arrives
(`state.fabrics.get(self.casep.local_fabric_idx())`; a missing fabric ⇒ status
`NoSharedTrustRoots`, no session).  `respSigma3` works on the fabric found at Sigma1 (`ctx.fabric`);
the two agree whenever the table still holds that fabric under that index
(`C01.respSigma3At_eq` in `Props/C01Cache.lean`). -/
def respSigma3At (t : Time) (fabrics : List Fabric) (ctx : RespCtx) (m : Msg) :
    Option (Session × ResRec) :=
  match fabrics.find? (fun f => f.idx == ctx.fabric.idx) with
  | .none => .none
  | some f => respSigma3 t { ctx with fabric := f } m

/-- the reply to `Sigma2_Resume`: only a success status report completes the reserved session
(and rotates the record's resumption id) -/
def respResumeFinish (ctx : RespResumeCtx) (m : Msg) : Option (Session × ResRec) :=
  match m with
  | .status true => some (ctx.session, { ctx.record with rid := ctx.newRid })
  | _ => .none

/-! ## Initiator -/

structure InitCtx where
  fabric : Fabric
  peerNode : Nat
  eph : Nat
  rnd : Term
  sid : Term
  cached : Option ResRec
  s1 : Msg
deriving Repr, Inhabited

/-- `perform` up to sending Sigma1 (with the resumption fields when a record for
`(fabric, peer)` is cached) -/
def initSigma1 (f : Fabric) (cache : List ResRec) (peerNode : Nat) (eph : Nat) (rnd sid : Term) :
    InitCtx :=
  let cached := cache.find? (fun r => r.fabIdx == f.idx && r.peerNode == peerNode)
  let resume := cached.map fun r => (r.rid, Term.mic (resumeKey r.secret rnd r.rid infoS1RK) nonceR1)
  { fabric := f, peerNode := peerNode, eph := eph, rnd := rnd, sid := sid, cached := cached,
    s1 := .sigma1 rnd sid (destId f.ipk rnd f.root.pubKey f.fabricId peerNode) (.epk eph) resume }

/-- the initiator after Sigma3 was sent, waiting for the final status report -/
structure InitCtx3 where
  ctx : InitCtx
  peerSid : Term
  cats : List Nat
  peerRid : Term
  secret : Term
  s2 : Msg
  s3 : Msg
deriving Repr, Inhabited

/-- processing of a received Sigma2: `none` = error (status report `InvalidParameter` sent) -/
def initSigma2 (t : Time) (c : InitCtx) (m : Msg) : Option InitCtx3 :=
  match m with
  | .sigma2 rRnd rSid rEph (.enc k n p) =>
    let secret := ecdh c.eph rEph
    if k ≠ s2k secret c.fabric.ipk rRnd rEph c.s1 ∨ n ≠ nonceS2 then .none
    else
      match parseTbe p with
      | some (noc, icac, .pair sig rid) =>
        match validateCase t c.fabric.view noc icac with
        | .error _ => .none
        | .ok () =>
          if nodeIdOf noc.subject ≠ some c.peerNode then .none
          else if sig ≠ Term.sign noc.pubKey (tbs noc icac rEph (.epk c.eph)) then .none
          else if (catsOf noc.subject).length > maxCats then .none
          else
            let sig3 := Term.sign c.fabric.opKey (tbs c.fabric.noc c.fabric.icac (.epk c.eph) rEph)
            let key3 := s3k secret c.fabric.ipk c.s1 m
            some { ctx := c, peerSid := rSid, cats := catsOf noc.subject, peerRid := rid,
                   secret := secret, s2 := m,
                   s3 := .sigma3 (.enc key3 nonceS3 (tbe3 c.fabric.noc c.fabric.icac sig3)) }
      | _ => .none
  | _ => .none

/-- the final status report: success completes the session (and seeds the resumption cache) -/
def initFinish (c : InitCtx3) (m : Msg) : Option (Session × ResRec) :=
  match m with
  | .status true =>
    let keys := sessionKeys c.secret c.ctx.fabric.ipk c.ctx.s1 c.s2 c.s3
    some ({ fabIdx := c.ctx.fabric.idx, localNode := c.ctx.fabric.nodeId, peerNode := c.ctx.peerNode,
            cats := c.cats, i2r := .part 0 keys, r2i := .part 1 keys, localSid := c.ctx.sid,
            peerSid := c.peerSid, sharedSecret := c.secret },
          { fabIdx := c.ctx.fabric.idx, peerNode := c.ctx.peerNode, cats := c.cats, rid := c.peerRid,
            secret := c.secret })
  | _ => .none

/-- `finalize_sigma2_resume`: on a valid `Resume2MIC` the session is completed at once (the
initiator then sends the success status report) -/
def initSigma2Resume (c : InitCtx) (m : Msg) : Option (Session × ResRec) :=
  match m, c.cached with
  | .sigma2Resume newRid mic2 rSid, some r =>
    if mic2 ≠ Term.mic (resumeKey r.secret c.rnd newRid infoS2RK) nonceR2 then .none
    else
      let keys := resumeSessionKeys r.secret c.rnd r.rid
      some ({ fabIdx := r.fabIdx, localNode := c.fabric.nodeId, peerNode := r.peerNode, cats := r.cats,
              i2r := .part 0 keys, r2i := .part 1 keys, localSid := c.sid, peerSid := rSid,
              sharedSecret := r.secret },
            { r with rid := newRid })
  | _, _ => .none

end Case
