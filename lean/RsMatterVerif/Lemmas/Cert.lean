import RsMatterVerif.Model.Cert
/-!
# Lemmas about `Model/Cert.lean`

Characterisation of each verifier step (`cert_type`, `verify_usage`, `add_cert`, `finalise`) by the
declarative predicates of the specification (`Issues`, `Covers`, `LeafProfile`, `AuthorityProfile`).
-/
namespace Cert

theorem certTypeLoop_some (k0 : CType) (d : DN) (k : CType) :
    certTypeLoop (some k0) d = some k ↔ idAttrs d = [] ∧ k = k0 := by
  induction d with
  | nil => simp [certTypeLoop, idAttrs]; exact eq_comm
  | cons a r ih =>
    cases a <;> simp [certTypeLoop, idAttrs, ih]

theorem certTypeLoop_none (d : DN) (k : CType) :
    certTypeLoop none d = some k ↔ idAttrs d = [k] := by
  induction d with
  | nil => simp [certTypeLoop, idAttrs]
  | cons a r ih =>
    cases a <;> simp [certTypeLoop, idAttrs, ih, certTypeLoop_some] <;> constructor <;> (intro h; simp [h])

theorem certType_eq (d : DN) (k : CType) : certType d = some k ↔ idAttrs d = [k] :=
  certTypeLoop_none d k


theorem blobHasCritical_false_iff (el : List FutExt) :
    blobHasCritical el = false ↔ ∀ e ∈ el, e.critical = false := by
  induction el with
  | nil => simp [blobHasCritical]
  | cons e r ih =>
    unfold blobHasCritical
    cases h : e.critical <;> simp [h, ih]

theorem hasCritical_false_iff (l : List (List FutExt)) :
    hasCriticalFutureExtension l = false ↔ ∀ el ∈ l, ∀ e ∈ el, e.critical = false := by
  induction l with
  | nil => simp [hasCriticalFutureExtension]
  | cons el r ih =>
    unfold hasCriticalFutureExtension
    cases h : blobHasCritical el
    · have := (blobHasCritical_false_iff el).1 h
      simp only [Bool.false_eq_true, ↓reduceIte, ih, List.mem_cons, forall_eq_or_imp]
      exact ⟨fun h2 => ⟨this, h2⟩, fun h2 => h2.2⟩
    · have : ¬ ∀ e ∈ el, e.critical = false := by
        rw [← blobHasCritical_false_iff, h]; simp
      simp only [↓reduceIte, Bool.true_eq_false, false_iff]
      intro hall
      exact this (hall el (by simp))

/-- the code's double loop finds nothing ⇔ the declarative rule holds (ANY element, ANY sub-extension) -/
@[simp] theorem noUnknownCritical_iff (c : Cert) : NoUnknownCritical c ↔ c.critFuture = false := by
  unfold NoUnknownCritical Cert.critFuture
  exact (hasCritical_false_iff c.futureExts).symm

def PositionOk (c : Cert) (depth : Nat) : Prop :=
  (depth = 0 ∧ LeafProfile c) ∨ AuthorityProfile c (depth - 1)

theorem idAttrs_of_certType_none {d : DN} (h : certType d = none) (k : CType) : idAttrs d ≠ [k] := by
  intro hk; rw [← certType_eq] at hk; simp [hk] at h

theorem ekuHasAll_12 (e : Option (List Nat)) :
    ekuHasAll e [1, 2] = e.any (fun l => l.contains 1 && l.contains 2) := by
  cases e <;> simp [ekuHasAll]

theorem verifyUsage_ok_iff (c : Cert) (depth : Nat) :
    verifyUsage c depth = .ok () ↔ c.critFuture = false ∧ PositionOk c depth := by
  unfold verifyUsage PositionOk LeafProfile AuthorityProfile
  cases hcrit : c.critFuture
  case true => simp
  case false =>
  cases hty : certType c.subject with
  | none =>
    have h1 := idAttrs_of_certType_none hty
    simp [h1]
  | some ty =>
    have hid := (certType_eq _ _).1 hty
    cases hku : c.keyUsage with
    | none => simp
    | some ku =>
      cases hbc : c.bc with
      | none => cases ty <;> simp [hid]
      | some b =>
        obtain ⟨isCa, pl⟩ := b
        cases ty <;> cases isCa <;> cases pl <;> simp [hid, ekuHasAll_12]
        all_goals
          cases hk : kuHas ku _ <;> simp
        all_goals first
          | omega
          | (cases hd : depth <;> simp)
          | skip

theorem verifyUsage_cases (c : Cert) (depth : Nat) :
    verifyUsage c depth = .ok () ∨ verifyUsage c depth = .error .invalidData := by
  unfold verifyUsage
  repeat' split
  all_goals simp

theorem covers_iff (t : Time) (c : Cert) :
    Covers t c ↔ expired t c = false ∧ notYetValid t c = false := by
  unfold Covers expired notYetValid
  cases t <;> simp [Time.anySecs, Time.reliableSecs] <;> omega

theorem addCert_ok_iff (t : Time) (c : Cert) (depth : Nat) (parent : Cert) (d : Nat) :
    addCert t c depth parent = .ok d ↔
      Issues parent c ∧ Covers t c ∧ c.critFuture = false ∧ PositionOk c depth ∧
      d = min (depth + 1) 255 := by
  rw [covers_iff]
  unfold addCert isAuthority Issues
  cases hs : parent.skid with
  | none => simp
  | some k =>
    by_cases hak : c.akid = some k
    · by_cases hiss : c.issuer = parent.subject
      · by_cases hsig : c.sigBy = some parent.pubKey
        · cases hna : expired t c
          · cases hnb : notYetValid t c
            · rcases verifyUsage_cases c depth with hu | hu
              · have := (verifyUsage_ok_iff c depth).1 hu
                simp [hak, hiss, hsig, hu, this]
                exact eq_comm
              · have h2 : ¬ (c.critFuture = false ∧ PositionOk c depth) := by
                  rw [← verifyUsage_ok_iff, hu]; simp
                simp [hak, hiss, hsig, hu]
                intro h3 h4; exact absurd ⟨h3, h4⟩ h2
            · simp [hak, hiss, hsig]
          · simp [hak, hiss, hsig]
        · simp [hak, hiss, hsig]
      · simp [hak, hiss]
    · have hb : (c.akid == some k) = false := by simpa using hak
      simp [hak, hb]

/-- one `add_cert` step followed by the rest of the verification -/
theorem step_ok (t : Time) (c : Cert) (depth : Nat) (parent : Cert) (F : Nat → Except Err Unit) :
    (addCert t c depth parent >>= F) = .ok () ↔
      (Issues parent c ∧ Covers t c ∧ c.critFuture = false ∧ PositionOk c depth) ∧
      F (min (depth + 1) 255) = .ok () := by
  cases h : addCert t c depth parent with
  | error e =>
    simp only [bind, Except.bind, reduceCtorEq, false_iff, not_and]
    intro hc
    have := (addCert_ok_iff t c depth parent (min (depth + 1) 255)).2 ⟨hc.1, hc.2.1, hc.2.2.1, hc.2.2.2, rfl⟩
    rw [h] at this; cases this
  | ok d =>
    have h2 := (addCert_ok_iff t c depth parent d).1 h
    simp only [bind, Except.bind, h2.2.2.2.2]
    constructor
    · intro hf; exact ⟨⟨h2.1, h2.2.1, h2.2.2.1, h2.2.2.2.1⟩, hf⟩
    · intro hf; exact hf.2

theorem finalise_ok_iff (t : Time) (c : Cert) (depth : Nat) :
    finalise t c depth = .ok () ↔
      Issues c c ∧ Covers t c ∧ c.critFuture = false ∧ PositionOk c depth := by
  unfold finalise
  rw [step_ok]
  simp [pure, Except.pure]

theorem nodeIdOf_isSome_iff (d : DN) : (nodeIdOf d).isSome = true ↔ CType.noc ∈ idAttrs d := by
  induction d with
  | nil => simp [nodeIdOf, idAttrs]
  | cons a r ih => cases a <;> simp [nodeIdOf, idAttrs, ih]

theorem not_authority_of_node {c : Cert} {n : Nat} (hn : nodeIdOf c.subject = some n) (k : Nat) :
    ¬ AuthorityProfile c k := by
  intro h
  have h1 : CType.noc ∈ idAttrs c.subject := (nodeIdOf_isSome_iff _).1 (by simp [hn])
  rcases h.1 with h2 | h2 <;> simp [h2] at h1

theorem icacOtherFabric_false_iff (ic : Cert) (fab : Nat) :
    icacOtherFabric ic fab = false ↔ ∀ f ∈ fabricIdOf ic.subject, f = fab := by
  unfold icacOtherFabric
  cases fabricIdOf ic.subject <;> simp

end Cert
