import Driver.TransportCommon
import RsMatterVerif.Model.RxPath
/-! Driver for C10 (unit level): model correspondence + the property's specification on the
implementation's own outputs (results and table snapshots):
* a received message changes only the exchange identified by (session, exchange id, role), or opens
  exactly one new accept-pending exchange, or changes nothing;
* the outcome is the one the gate demands: owner ⇒ delivered to it; otherwise opened iff initiator
  flag ∧ opcode may open ∧ session not expired ∧ a slot is free; answers to unknown exchanges dropped;
* the orphan sweep discards a waiting message iff its session vanished, its exchange is unknown or
  its exchange was dropped; the accept sweep discards iff the exchange is still accept-pending and
  the accept deadline has passed, and marks it dropped;
* the closer finds every dropped exchange: it frees the slot (sending the acknowledgement still
  owed) or closes the session when a retransmission is still pending; it answers `none` only if no
  dropped exchange exists. -/
namespace Driver.C10
open Driver.TC

structure Sys2St where
  handlers : Nat := 0
  lat : Nat := 0
  /-- tag → behaviour of the handler that accepts it -/
  beh : List (Nat × String) := []
  /-- number of client exchanges (an upper bound of the first messages nobody may be free to accept) -/
  nX : Nat := 0
  flood : Bool := false
  /-- something closes the PASE session under its exchanges (cancelled client, flood, dropped / mute handler) -/
  pDisturbed : Bool := false
  hasW : Bool := false
  wOver : Bool := false
deriving Inhabited


structure OSt where
  prev : ISnap := {}
  now : Nat := 1000
  /-- (uid, slot) → time the last message was accepted for that exchange -/
  recvAt : List ((Nat × Nat) × Nat) := []

/-! ### `node` cases: every op is one step of the transition system `Model/RxPath.lean`, replayed with
`RxPath.step`; result, table snapshot and RX-slot content are compared with the real node's -/

def kindOf : String → RxPath.Kind
  | "a" => .sack
  | "c" => .close
  | "s" => .status
  | "n" => .newSess
  | _ => .other

def rxShow : Option RxPath.Held → String
  | none => "-"
  | some r => s!"{r.m.port}/{r.m.sid}/{r.m.ctr}/{r.m.exch}"

def nodeOp (n : RxPath.Node) (w : List String) : RxPath.Node × String :=
  let num (i : Nat) : Nat := ((w.getD i "").toNat?).getD 0
  let errS (e : Transport.Err) : String := if e = .panic then "panic" else s!"err {e.name}"
  match w.getD 0 "" with
  | "nsetup" =>
    ({ n with t := { n.t with nextSid := max (num 1) 1, nextExch := max (num 2) 1 } }, "ok")
  | "arr" =>
    let m : RxPath.Msg := { port := num 1, sid := num 2, ctr := num 3, exch := num 4, initiator := w.getD 5 "" = "I", kind := kindOf (w.getD 6 "o"), ack := optNat (w.getD 7 "-"), reliable := w.getD 8 "" = "r" }
    let r := RxPath.step n (.arrive m (num 9))
    -- the standalone ack the `Duplicate` arm sends (`RxPath.arriveAck`), as the peer reads it
    let tx := match RxPath.arriveAck n m (num 9) with
      | some w => s!" tx {w.port}/{w.sid}/{w.exch}/{if w.initiator then "I" else "R"}/{showOpt w.ack}/0.16"
      | none => ""
    (r.1, (match r.2 with
      | .blocked => "blocked"
      | .kept _ _ _ => "kept"
      | _ => "drop") ++ tx)
  | "acc" =>
    let r := RxPath.step n .accept
    (r.1, match r.2 with
      | .accepted u i => s!"acc {u} {i}"
      | _ => "blocked")
  | "recv" =>
    let r := RxPath.step n (.recv (num 1) (num 2))
    (r.1, match r.2 with
      | .delivered _ _ _ => "dlv"
      | .gone => "gone"
      | .retransPending => "retr"
      | _ => "blocked")
  | "send" =>
    let r := RxPath.step n (.send (num 1) (num 2) (w.getD 3 "" = "r"))
    (r.1, match r.2 with
      | .ok => "ok"
      | .err e => errS e
      | .gone => "gone"
      | _ => "blocked")
  | "drop" =>
    let r := RxPath.step n (.dropEx (num 1) (num 2))
    (r.1, match r.2 with
      | .ok => "ok"
      | .err e => errS e
      | _ => "blocked")
  | "init" =>
    let r := RxPath.step n (.initiate (num 1))
    (r.1, match r.2 with
      | .ok => "ok"
      | .err e => errS e
      | _ => "blocked")
  | "est" =>
    let r := RxPath.step n (.establish (num 1) (if w.getD 2 "" = "c" then .case else .pase) (num 3))
    (r.1, match r.2 with
      | .ok => "ok"
      | .err e => errS e
      | _ => "blocked")
  | "rm" => ((RxPath.step n (.removeSess (num 1))).1, "ok")
  | "t" => ((RxPath.step n (.tick (num 1))).1, "ok")
  | "nuid" => ({ n with t := { n.t with nextUid := num 1 % 268435456 } }, "ok")
  | "swa" =>
    let r := RxPath.step n .sweepAccept
    (r.1, match r.2 with
      | .swept true => "swept 1"
      | _ => "swept 0")
  | "swo" =>
    let r := RxPath.step n .sweepOrphan
    (r.1, match r.2 with
      | .swept true => "swept 1"
      | _ => "swept 0")
  | "swd" =>
    let r := RxPath.step n .closer
    (r.1, match r.2 with
      | .closer (.closedSession _ xid ctr) => s!"sess x {xid} ctr {ctr}"
      | .closer (.closedExchange _ _ xid (some (ctr, ack))) => s!"exch ack {ack} ctr {ctr} x {xid}"
      | .closer (.closedExchange _ _ _ none) => "exch"
      | _ => "none")
  | _ => (n, "bad")

/-- specification on the implementation's own outputs for `node` cases (property text): a `recv` that
returns a message returns the one that was waiting, and only to an exchange of the session that
message addresses (peer and session id) with its exchange id; `prevRx` = slot content before the op -/
def nodeOracle (prevSnap : ISnap) (prevRx : String) (w : List String) (res : String) : Option String :=
  if res = "panic" then some s!"the node panicked in `{w.getD 0 ""}`" else
  if w.getD 0 "" = "recv" && res = "dlv" then
    match prevRx.splitOn "/" with
    | [p, sd, _, x] =>
      match prevSnap.sess ((w.getD 1 "").toNat?.getD 0) with
      | none => some "a message was delivered to an exchange of a session that does not exist"
      | some s =>
        let slot := (s.slots.getD ((w.getD 2 "").toNat?.getD 0) none)
        if toString s.port != p || toString s.lsid != sd then
          some s!"a message from peer {p} / session id {sd} was delivered to an exchange of session {s.uid} (peer {s.port}, session id {s.lsid})"
        else match slot with
          | none => some "a message was delivered to an empty exchange slot"
          | some e => if toString e.id != x then some s!"a message for exchange {x} was delivered to exchange {e.id}" else none
    | _ => some "a message was delivered although none was waiting"
  else none

/-- second clause (property text: a message that a responder accepted is handed to that exchange; the
receive path does not wedge): `acc` = the exchange that last accepted and the message it accepted -/
def nodeOracle2 (acc : Option (Nat × Nat × String)) (prevRx : String) (w : List String) (res : String) : Option String :=
  match acc with
  | some (u, i, m) =>
    if w.getD 0 "" = "recv" && (w.getD 1 "").toNat? = some u && (w.getD 2 "").toNat? = some i && prevRx = m
        && (res = "blocked" || res = "gone") then
      some s!"exchange ({u}, {i}) accepted the waiting message {m} but its recv does not return it ({res}): the message is stuck in the RX slot"
    else none
  | none => none

/-- the datagrams an `arr` result reports as sent (`tx` tokens), split at `/` -/
def txOf (res : String) : List (List String) :=
  let rec go : List String → List (List String)
    | "tx" :: d :: rest => d.splitOn "/" :: go rest
    | _ :: rest => go rest
    | [] => []
  go (words res)

/-- is this sent datagram a standalone ack (protocol 0, opcode 0x10)? -/
def isSack (d : List String) : Bool := d.getLast? = some "0.16"

/-- the `arr` result with only the standalone acks kept: the other datagrams the receive path may send (Busy,
CloseSession, SessionNotFound) are printed by the harness but not modelled -/
def keepSacks (res : String) : String :=
  let w := words res
  (w.getD 0 "") ++ String.join ((txOf res).filter isSack |>.map (fun d => " tx " ++ "/".intercalate d))

/-- per unsecured session (internal id): the counters it accepted, as the set-based SPECIFICATION of duplicate
detection has them (`Dedup.PSpec`, written from the property text of C04: a value is accepted at most once per epoch
of the peer's counter; a value more than the window below an accepted one restarts the epoch) -/
abbrev Seen := List (Nat × Dedup.PSpec)

/-- the unsecured session an arriving datagram addresses, in a snapshot of the implementation -/
def sessFor (snap : ISnap) (port sid : Nat) : Option ISess :=
  snap.sessions.find? (fun s => s.port = port && s.lsid = sid && s.mode = "x")

/-- third clause (property text: "duplicates of already-received messages are acknowledged", with the protocol rule
that an ack travels on the same exchange in the opposite direction), on the implementation's outputs alone:
(a) a standalone ack sent in answer to an arriving message must be one the peer's exchange that sent the message
matches: back to the sender, same session, same exchange id, COMPLEMENTARY initiator flag, ack = the message's counter;
(b) a reliable message (not a standalone ack) on an existing unsecured session whose counter that session has already
accepted (by the set-based specification of duplicate detection, fed with the arrivals of this case) is a
retransmission and must be answered by such an ack - whether its exchange is still open, dropped or closed, and
whoever initiated it. -/
def nodeOracle3 (seen : Seen) (prevSnap : ISnap) (w : List String) (res : String) : Option String :=
  if w.getD 0 "" != "arr" then none else
  let num (i : Nat) : Nat := ((w.getD i "").toNat?).getD 0
  let flag := w.getD 5 ""
  let want := [toString (num 1), toString (num 2), toString (num 4), (if flag = "I" then "R" else "I"), toString (num 3), "0.16"]
  let sacks := (txOf res).filter isSack
  match sacks.find? (· != want) with
  | some d => some s!"the standalone ack sent in answer to message {num 3} of exchange {num 4} ({flag}) from peer {num 1} is {"/".intercalate d}: the peer's exchange matches only {"/".intercalate want} (same exchange id, complementary initiator flag, ack = the counter)"
  | none =>
    let dup := (words res).head? != some "blocked" && num 2 = 0 && w.getD 8 "" = "r" && w.getD 6 "" != "a" &&
      (match sessFor prevSnap (num 1) (num 2) with
       | some s => match seen.lookup s.uid with
         | some p => !Dedup.specPlainAccept p (num 3)
         | none => false
       | none => false)
    if dup && sacks.isEmpty then
      some s!"message {num 3} of exchange {num 4} from peer {num 1} had been received before (a retransmission) and was not acknowledged again"
    else none

/-- bookkeeping of `nodeOracle3` (b): `prevSnap` / `snap` = the implementation's table before / after the op -/
def seenStep (seen : Seen) (w : List String) (res : String) (prevSnap snap : ISnap) : Seen :=
  let num (i : Nat) : Nat := ((w.getD i "").toNat?).getD 0
  let seen := seen.filter (fun (u, _) => snap.sessions.any (·.uid = u))
  if w.getD 0 "" != "arr" || (words res).head? = some "blocked" || num 2 != 0 then seen else
  match sessFor prevSnap (num 1) 0 with
  | some s =>
    let p := (seen.lookup s.uid).getD Dedup.PSpec.init
    (s.uid, Dedup.specPlainNext p (num 3) (Dedup.specPlainAccept p (num 3))) :: seen.filter (·.1 != s.uid)
  | none =>
    -- a session this datagram created: its first message
    match sessFor snap (num 1) 0 with
    | some s => (s.uid, Dedup.specPlainNext Dedup.PSpec.init (num 3) true) :: seen.filter (·.1 != s.uid)
    | none => seen

structure St where
  nodeSeen : Seen := []
  node : Option RxPath.Node := none
  nodePrev : ISnap × String := ({}, "-")
  nodeAcc : Option (Nat × Nat × String) := none
  m : MSt := {}
  o : OSt := {}
  /-- `sys` cases: is this a system-level case, and how many replies the injected datagrams may cause -/
  sys : Bool := false
  allowed : Nat := 0
  sys2 : Option Sys2St := none
  /-- `x` lines of the current sys2 case, judged when the case is complete (at `quiesce`) -/
  sys2X : List (List String × String) := []

/-! ### system-level monitor (`sys` cases: two real nodes, unsolicited datagrams)
Specification: a datagram that belongs to no session and is not a session-establishment request is
answered at most once — with the unsecured `SessionNotFound` report the specification asks for when
the datagram claims a *secure* session the node does not have — and never when it is itself unsecured
(then it is an answer / status / ack for an unknown exchange and must be dropped, otherwise two nodes
answer each other's answers forever). -/

def hexVal (c : Char) : Nat :=
  if c.isDigit then c.toNat - '0'.toNat else if 'a' ≤ c && c ≤ 'f' then c.toNat - 'a'.toNat + 10 else 0

def unhex (s : String) : List Nat :=
  let rec go : List Char → List Nat
    | a :: b :: rest => (hexVal a * 16 + hexVal b) :: go rest
    | _ => []
  go s.toList

/-- replies the specification allows for one injected datagram -/
def repliesAllowed (bytes : List Nat) : Nat :=
  let sess := bytes.getD 1 0 + 256 * bytes.getD 2 0
  let group := (bytes.getD 3 0) % 4 == 1
  if sess != 0 && !group then 1 else 0

def sysStep (st : St) (w : List String) (res : String) : St × String :=
  match w.getD 0 "" with
  | "inj" => ({ st with allowed := st.allowed + repliesAllowed (unhex (w.getD 3 "")) }, "ok")
  | "run" =>
    match words res with
    | ["sent", a, b] =>
      let total := a.toNat?.getD 0 + b.toNat?.getD 0
      if total > st.allowed then
        (st, s!"ORA {total} datagrams were sent in answer to unsolicited datagrams that allow at most {st.allowed}: answers to unknown sessions/exchanges are answered again")
      else (st, "ok")
    | _ => (st, "BAD run result")
  | _ => (st, "BAD sys op")


/-! ### system-level oracle, second stream (`sys2` cases: real handlers, concurrent exchanges on one
PASE session and on unsecured sessions of two peers, handlers dropped by the executor, client tasks
cancelled, sessions closed under messages in flight). Written from the property text. -/

def kvOf (ws : List String) (k : String) : String :=
  match ws.find? (·.startsWith (k ++ "=")) with
  | some w => (w.drop (k.length + 1)).toString
  | none => ""

def kvNat (ws : List String) (k : String) : Nat := (kvOf ws k).toNat?.getD 0

/-- messages that may have to wait for the accept time-out one after the other in front of a victim:
while it stays small the retransmission budget of the other exchanges (≈ 6 s) is not at stake -/
def Sys2St.unclaimedBound (s : Sys2St) : Nat := s.nX + (if s.flood then 5 else 0) - s.handlers

def sys2Step (s : Sys2St) (w : List String) (res : String) : Sys2St × String :=
  let rw := words res
  let v (s : Sys2St) (o : Option String) : Sys2St × String :=
    match o with
    | some why => (s, s!"ORA {why}")
    | none => (s, "ok")
  if res = "panic" then (s, "ORA the device (or a controller) panicked") else
  let crossBad : Option String :=
    if kvNat rw "cross" != 0 || kvNat rw "hcross" != 0 then
      some "a message was delivered to an exchange it does not belong to (other session, exchange id or role)"
    else none
  match w.getD 0 "" with
  | "w" =>
    let failed := (rw.headD "").startsWith "fail"
    v { s with hasW := true, wOver := failed } crossBad
  | "b" =>
    v { s with beh := ((w.getD 1 "").toNat?.getD 0, w.getD 2 "echo") :: s.beh } crossBad
  | "flood" => v { s with flood := true, pDisturbed := true } none
  | "x" =>
    let k := (w.getD 1 "").toNat?.getD 0
    let onP := kvOf w "s" != "u"
    let cancelled := kvOf w "cancel" != ""
    let b := ((s.beh.find? (·.1 == k)).map (·.2)).getD "echo"
    let rough := b.startsWith "dropat" || b.startsWith "mute"
    let s' := { s with nX := s.nX + 1, pDisturbed := s.pDisturbed || (onP && (cancelled || rough)) }
    v s' crossBad
  | "quiesce" =>
    let z (k what : String) : Option String :=
      if kvNat rw k != 0 then some s!"quiescent, but {what} ({k}={kvOf rw k})" else none
    let first (l : List (Option String)) : Option String := l.findSome? id
    v s (first [
      z "xd" "a dropped exchange was never closed",
      z "xp" "an accept-pending exchange without a waiting message was left behind",
      (if kvNat rw "xo" > (if s.hasW then 1 else 0) then some s!"quiescent, but exchanges are still owned (xo={kvOf rw "xo"})" else none),
      (if kvNat rw "rxmax" > Consts.acceptTimeoutMs + 50 + 30 then
         some s!"a message stayed in the RX slot for {kvOf rw "rxmax"} ms: longer than the accept deadline plus one poll" else none),
      (if kvNat rw "wfail" != 0 && s.unclaimedBound ≤ 4 then
         some "the watchdog exchange on its own session failed: the receive path stopped serving it" else none)])
  | "probe" =>
    -- (without any generic handler nobody can serve a new exchange: nothing to demand)
    if s.handlers = 0 then v s crossBad
    else if (rw.headD "") != "ok" then v s (some s!"after the disturbance a fresh exchange was not served: {res}")
    else if kvNat rw "lat" > 2 * s.lat + 100 then v s (some s!"after the disturbance a fresh exchange was served only after {kvOf rw "lat"} ms")
    else v s crossBad
  | _ => (s, "BAD sys2 op")

/-- second pass over the `x` results: an accepted exchange with a well-behaved handler on a session
nothing else closes must complete ("other exchanges keep flowing") -/
def sys2Flow (s : Sys2St) (w : List String) (res : String) : Option String :=
  let rw := words res
  if w.getD 0 "" != "x" then none else
  let k := (w.getD 1 "").toNat?.getD 0
  let onP := kvOf w "s" != "u"
  let b := ((s.beh.find? (·.1 == k)).map (·.2)).getD "echo"
  let good := b.startsWith "echo" || b.startsWith "stall"
  let accepted := kvOf rw "acc" != "-" && kvOf rw "acc" != ""
  if (rw.headD "").startsWith "fail" && good && accepted && kvOf w "cancel" == "" && !(onP && s.pDisturbed)
      -- (only while at most ONE message can be waiting for the accept time-out in front of the victim:
      -- every unclaimed message legitimately holds the single RX slot up to the accept deadline, its
      -- retransmissions do so again, and handlers that finished their rounds stay parked in `recv`, so
      -- `unclaimedBound` under-estimates the head-of-line delay; with more of them a well-behaved
      -- handler's own receive time-out can expire first - by design, not a wedge)
      && s.unclaimedBound ≤ 1
      -- a handler that accepts only at (or within one poll of) the accept deadline may find the
      -- message already discarded by the accept-timeout sweep: the property allows that
      && kvNat rw "acc" + 80 < Consts.acceptTimeoutMs then
    some s!"exchange {k} was accepted by a handler that answers, nothing closed its session, yet it failed: {rw.headD ""}"
  else none

def ownerIdx (s : ISess) (exch : Nat) (initiator : Bool) : Option Nat :=
  let rec go : List (Option ISlot) → Nat → Option Nat
    | [], _ => none
    | (some e) :: rest, i => if e.id == exch && e.isResponder == initiator then some i else go rest (i + 1)
    | none :: rest, i => go rest (i + 1)
  go s.slots 0

/-- slots of `a` and `b` agree everywhere except (possibly) at index `k` -/
def sameExcept (a b : List (Option ISlot)) (k : Option Nat) : Bool :=
  let n := max a.length b.length
  (List.range n).all (fun i => some i == k || a.getD i none == b.getD i none)

def othersUnchanged (p q : ISnap) (uid : Nat) : Bool :=
  p.sessions.all (fun s => s.uid == uid ||
    match q.sess s.uid with
    | some s' => s'.slots == s.slots
    | none => true)

def gate (s : ISess) (exch : Nat) (initiator : Bool) (opc : String) : String :=
  match ownerIdx s exch initiator with
  | some _ => "old"
  | none =>
    if !initiator || opc = "a" || opc = "s" then "err NoExchange"
    else if s.expired then "err NoSession"
    else if s.live.length ≥ Consts.maxExchanges then "err NoSpaceExchanges"
    else "new"

/-- sessions a header (port, session id) addresses, by the snapshot -/
def addressed (o : OSt) (port sid : Nat) : List ISess :=
  o.prev.sessions.filter (fun s => s.lsid == sid && !s.reserved && ((s.mode != "x") == (sid != 0)) && s.port == port)

def oracle (o : OSt) (w : List String) (res : String) (snap : ISnap) : OSt × Option String :=
  let n (i : Nat) : Nat := ((w.getD i "").toNat?).getD 0
  let rw := words res
  let fin (o : OSt) (v : Option String) : OSt × Option String := ({ o with prev := snap }, v)
  match w.getD 0 "" with
  | "t" => fin { o with now := o.now + n 1 } none
  | "rx" =>
    let uid := n 1
    match o.prev.sess uid, snap.sess uid with
    | some p, some q =>
      let init := w.getD 4 "" = "I"
      let owner := ownerIdx p (n 3) init
      let want := gate p (n 3) init (w.getD 7 "n")
      let others := othersUnchanged o.prev snap uid
      let o' := if res = "old" || res = "new" then
          match ownerIdx q (n 3) init with
          | some i => { o with recvAt := ((uid, i), o.now) :: o.recvAt.filter (·.1 != (uid, i)) }
          | none => o
        else o
      let v : Option String :=
        if !others then some "a received message changed exchanges of another session"
        else if res = "err Duplicate" then
          (if q.slots == p.slots then none else some "a message rejected as duplicate changed an exchange")
        else if res != want then some s!"outcome '{res}' but the exchange gate demands '{want}'"
        else if res = "old" then
          (if sameExcept p.slots q.slots owner then none else some "delivery changed an exchange other than the owner")
        else if res = "new" then
          match ownerIdx q (n 3) init with
          | some i =>
            if !sameExcept p.slots q.slots (some i) then some "opening an exchange changed another slot"
            else if (p.slots.getD i none).isSome then some "a live slot was overwritten by a new exchange"
            else if (q.slots.getD i none).any (fun e => e.role == "RP") then none
            else some "new exchange is not accept-pending"
          | none => some "new exchange not found in the table"
        else (if q.slots == p.slots then none else some s!"'{res}' but the exchanges changed")
      fin o' v
    | none, _ => fin o (if res = "nosess" then none else some "message processed for a session that does not exist")
    | _, _ => fin o none
  | "tx" =>
    -- `pre_send` clears the receive time of the exchange it sends on
    match (w.getD 2 "-").toNat? with
    | some sl => fin { o with recvAt := o.recvAt.filter (·.1 != (n 1, sl)) } none
    | none => fin o none
  | "own" =>
    match o.prev.sess (n 1) with
    | some p =>
      let want := showOpt (ownerIdx p (n 2) (w.getD 3 "" = "I"))
      fin o (if res = want then none else some s!"owner lookup answered {res}, specification {want}")
    | none => fin o none
  | "acc" =>
    match o.prev.sess (n 1), snap.sess (n 1) with
    | some p, some q =>
      let was := (p.slots.getD (n 2) none).any (fun e => e.role == "RP")
      let v := if (res = "ok") != was then some s!"accept answered {res} for a slot that {if was then "was" else "was not"} accept-pending"
        else if res = "ok" && !(q.slots.getD (n 2) none).any (fun e => e.role == "RO") then some "accepted exchange is not owned"
        else if !sameExcept p.slots q.slots (some (n 2)) then some "accept changed another slot"
        else none
      fin o v
    | _, _ => fin o none
  | "swo" | "swa" =>
    match addressed o (n 1) (n 2) with
    | [] =>
      fin o (if w.getD 0 "" = "swo" then (if res = "cleared" then none else some "message for a vanished session was not discarded")
             else (if res = "kept" then none else some "accept sweep discarded a message without a session"))
    | [p] =>
      let init := w.getD 4 "" = "I"
      match ownerIdx p (n 3) init with
      | none =>
        fin o (if w.getD 0 "" = "swo" then (if res = "cleared" then none else some "message for an unknown exchange was not discarded")
               else (if res = "kept" then none else some "accept sweep discarded a message without an exchange"))
      | some i =>
        let e := (p.slots.getD i none).getD default
        if w.getD 0 "" = "swo" then
          fin o (if (res = "cleared") == e.isDropped then none
                 else some s!"orphan sweep answered {res} for an exchange in state {e.role}")
        else
          let t0 := (o.recvAt.find? (·.1 == (p.uid, i))).map (·.2)
          match t0 with
          | none => fin o none
          | some t0 =>
            let due := e.role == "RP" && o.now ≥ t0 + Consts.acceptTimeoutMs
            let after := ((snap.sess p.uid).bind (fun q => q.slots.getD i none)).map (·.role)
            fin o (if (res = "cleared") != due then some s!"accept sweep answered {res}: state {e.role}, waited {o.now - t0} ms"
                   else if due && after != some "RD" then some "accept-timed-out exchange not marked dropped"
                   else none)
    | _ => fin o none   -- several sessions share the coordinates: nothing demanded
  | "swd" =>
    let dropped := o.prev.sessions.flatMap (fun s => s.live.filter (·.isDropped) |>.map (fun e => (s, e)))
    match rw.head? with
    | some "none" => fin o (if dropped.isEmpty then none else some "the closer found nothing although a dropped exchange exists")
    | some "exch" =>
      -- some dropped exchange without pending retransmission was freed; the ack still owed was sent
      let gone := dropped.filter (fun (s, e) => e.rt.isNone &&
        !((snap.sess s.uid).any (fun q => q.live.any (fun f => f.id == e.id && f.role == e.role))))
      match gone with
      | [(_, e)] =>
        let owed := e.ak.bind (fun a => if a.2 then none else some a.1)
        let sent := if rw.getD 1 "" = "ack" then (rw.getD 2 "").toNat? else none
        fin o (if dropped.any (fun (_, e) => e.rt.isSome) then some "closer freed an exchange although another one needs its session closed first"
               else if owed.isSome && sent != owed then some s!"dropped exchange closed without the acknowledgement it owed ({showOpt owed})"
               else none)
      | _ => fin o (some "closer reported an exchange closed but none (or several) disappeared")
    | some "sess" =>
      let cand := dropped.filter (fun (s, e) => e.rt.isSome && (snap.sess s.uid).isNone)
      fin o (if cand.isEmpty then some "closer closed a session that had no dropped exchange with a pending retransmission" else none)
    | _ => fin o none
  | _ => fin o none

def step (st : St) (line : String) : St × String :=
  let (op, out) := splitArrow line
  match words op with
  | "case" :: _ :: kind =>
    if kind.head? = some "node" then
      ({ m := newCase kind, node := some { now := 1000 } }, "case")
    else if kind.head? = some "sys2" then
      ({ m := newCase kind, sys2 := some { handlers := kvNat kind "H", lat := kvNat kind "lat" } }, "case")
    else ({ m := newCase kind, sys := kind.head? = some "sys" }, "case")
  | w =>
    match st.node with
    | some nd =>
      let (nd', res) := nodeOp nd w
      let full := res ++ " # " ++ nd'.t.show ++ " @ " ++ rxShow nd'.rx
      let (ires0, irest) := splitHash out
      -- datagrams other than standalone acks are not modelled
      let ires := if w.getD 0 "" = "arr" then keepSacks ires0 else ires0.trimAscii.toString
      let out := ires ++ " # " ++ irest
      let (isnap, irx) := match irest.splitOn " @ " with
        | [a, b] => (a, b.trimAscii.toString)
        | _ => (irest, "?")
      let acc' : Option (Nat × Nat × String) :=
        match words ires with
        | ["acc", u, i] => some (u.toNat?.getD 0, i.toNat?.getD 0, irx)
        | _ => match st.nodeAcc with
          | some (u, i, m) =>
            -- the clause ends when the message leaves the slot, or the owner sends / is dropped / loses its session
            let op := w.getD 0 ""
            let sameU := (w.getD 1 "").toNat? = some u
            if irx != m || (sameU && (op = "drop" || op = "send" || op = "rm")) || ((parseSnap isnap).sess u).isNone then none
            else some (u, i, m)
          | none => none
      let st' := { st with node := some nd', nodePrev := (parseSnap isnap, irx), nodeAcc := acc',
                           nodeSeen := seenStep st.nodeSeen w ires st.nodePrev.1 (parseSnap isnap) }
      match ((nodeOracle st.nodePrev.1 st.nodePrev.2 w ires).orElse (fun _ => nodeOracle2 st.nodeAcc st.nodePrev.2 w ires)).orElse
          (fun _ => nodeOracle3 st.nodeSeen st.nodePrev.1 w ires0) with
      | some why => (st', s!"ORA {why}")
      | none => if full = out then (st', "ok") else (st', s!"DIS {full}")
    | none =>
    match st.sys2 with
    | some s2 =>
      let (s2', o) := sys2Step s2 w out
      let st' := { st with sys2 := some s2', sys2X := if w.getD 0 "" = "x" then (w, out) :: st.sys2X else st.sys2X }
      -- the flow clause needs the whole script (who disturbs the PASE session): judged at `quiesce`
      if w.getD 0 "" = "quiesce" && o = "ok" then
        match st'.sys2X.findSome? (fun (xw, xr) => sys2Flow s2' xw xr) with
        | some why => (st', s!"ORA {why}")
        | none => (st', o)
      else (st', o)
    | none =>
    if st.sys then sysStep st w out else
    let (res, snapS) := splitHash out
    let (m', dis) := modelStep st.m op out
    let (o', ora) := if st.m.isMrp then (st.o, none) else oracle st.o w res (parseSnap snapS)
    let st' : St := { m := m', o := o' }
    match ora with
    | some why => (st', s!"ORA {why}")
    | none =>
      match dis with
      | some mo => (st', s!"DIS {mo}")
      | none => (st', "ok")

def run : IO UInt32 := Driver.runLoop ({} : St) step

end Driver.C10
