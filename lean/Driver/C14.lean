import RsMatterVerif.Model.Chunk
import Driver.Util
/-! Driver for C14: the chunking model predicts, from the value lengths of a read request and the
encoding constants measured on the real encoder (case header), the exact chunk layout (which report
goes into which message, message sizes, MoreChunks flags); the prediction is compared with what the
real `InteractionModel` sent.  Independently, the specification is evaluated on the implementation's
own chunks: status ok, every message well-formed and at most the buffer size, MoreChunks on all but
the last, SuppressResponse only on the last, and the reassembled reports equal the requested values
(each once, in order, lists complete, contents intact).

case header: `case <id> rd <B> <KS> <KW> <KE> <KI>`
op: `rd <item>…`, item = `s<attr>:<len>` | `l<k>:<len>,<len>…` | `l<k>:-`
-/
namespace Driver.C14
open Chunk

structure Hdr where
  cap : Nat := 1178
  ks : Nat := 0
  kw : Nat := 0
  ke : Nat := 0
  ki : Nat := 0

inductive ReqItem
  | s (attr : Nat) (len : Nat)
  | l (k : Nat) (lens : List Nat)

def lb (len : Nat) : Nat := if len < 256 then 1 else 2

def firstCh (s : String) : String := String.ofList (s.toList.take 1)
def restStr (s : String) : String := String.ofList (s.toList.drop 1)

def parseItem (w : String) : Option ReqItem :=
  match w.splitOn ":" with
  | [head, val] =>
    let kind := firstCh head
    match (restStr head).toNat? with
    | none => none
    | some a =>
      if kind = "s" then (val.toNat?).map (fun len => ReqItem.s (a % 16) len)
      else if kind = "l" then
        if val = "-" then some (.l (a % 6) [])
        else
          let ls := (val.splitOn ",").map String.toNat?
          if ls.all Option.isSome then some (.l (a % 6) (ls.filterMap id)) else none
      else none
  | _ => none

def cfgOf (h : Hdr) : Cfg :=
  { cap := h.cap, reserve := Consts.longReadsReserve, structReserve := Consts.longReadsStructReserve,
    hdr := 1, arrOpen := 2, close := 1, trailerMore := 7, trailerDone := 6 }

def toItem (h : Hdr) : ReqItem → Item
  | .s a len => .scalar a (h.ks + lb len + len)
  | .l k lens =>
    -- the end-of-list probe writes the report header: an element report minus value tag (2) and the two closing bytes
    .list (100 + k) (h.kw + (lens.map fun l => 1 + lb l + l).sum) h.ke (lens.map fun l => h.ki + lb l + l) (h.ki - 4)

def rPiece : Piece → String
  | .scalar id sz => s!"S{id}:{sz}"
  | .wholeList id sz [] => s!"E{id - 100}:{sz}"   -- an empty list read whole looks like the start of a streamed one
  | .wholeList id sz _ => s!"W{id - 100}:{sz}"
  | .listStart id sz => s!"E{id - 100}:{sz}"
  | .listElem id _ sz => s!"I{id - 100}:{sz}"

def rChunk (c : ChunkOut) : String :=
  s!"{c.size}/{if c.more then 1 else 0}:" ++ (if c.pieces.isEmpty then "-" else ",".intercalate (c.pieces.map rPiece))

/-- a chunk as reported by the harness: `<size>/<more><suppress><wf>/<pieces>` -/
structure IChunk where
  size : Nat
  more : Bool
  suppress : Bool
  wf : Bool
  pieces : List String

def parseIChunk (t : String) : Option IChunk :=
  match t.splitOn "/" with
  | [sz, fl, ps] =>
    match sz.toNat?, fl.toList with
    | some n, [m, s, w] =>
      some { size := n, more := m = '1', suppress := s = '1', wf := w = '1',
             pieces := if ps = "-" then [] else ps.splitOn "," }
    | _, _ => none
  | _ => none

/-- kind + attribute + encoded size of a piece (the first two `:` fields) -/
def pieceKey (p : String) : String :=
  match p.splitOn ":" with
  | a :: b :: _ => s!"{a}:{b}"
  | _ => p

def rIChunk (c : IChunk) : String :=
  s!"{c.size}/{if c.more then 1 else 0}:" ++ (if c.pieces.isEmpty then "-" else ",".intercalate (c.pieces.map pieceKey))

/-! ## specification on the implementation's chunks -/

/-- reassembled answer: per item its attribute tag and value lengths -/
inductive Got
  | s (attr : Nat) (len : Nat)
  | l (k : Nat) (lens : List Nat)
deriving DecidableEq

def gotOfReq : ReqItem → Got
  | .s a len => .s a len
  | .l k lens => .l k lens

/-- fold the stream of pieces into items; `none` = malformed stream (element without a list start,
bad content flag, unknown piece) -/
def reassemble : List String → List Got → Option (List Got)
  | [], acc => some acc.reverse
  | p :: ps, acc =>
    let f := p.splitOn ":"
    let kind := firstCh (f.getD 0 "")
    let attr := (restStr (f.getD 0 "")).toNat?
    match kind, attr with
    | "S", some a =>
      match (f.getD 2 "").toNat?, f.getD 3 "" with
      | some len, "1" => reassemble ps (.s a len :: acc)
      | _, _ => none
    | "W", some k =>
      let lens := ((f.getD 2 "").splitOn "+").map String.toNat?
      if f.getD 3 "" = "1" && lens.all Option.isSome then reassemble ps (.l k (lens.filterMap id) :: acc) else none
    | "E", some k => reassemble ps (.l k [] :: acc)
    | "I", some k =>
      match acc, (f.getD 2 "").toNat?, f.getD 3 "" with
      | .l k' lens :: rest, some len, "1" =>
        if k' = k then reassemble ps (.l k (lens ++ [len]) :: rest) else none
      | _, _, _ => none
    | _, _ => none

def fitsReq (h : Hdr) (items : List ReqItem) : Bool :=
  (items.map (toItem h)).all fun it => it.fits (cfgOf h)

def oracle (h : Hdr) (items : List ReqItem) (status : String) (cs : List IChunk) : Option String :=
  if !fitsReq h items then none   -- a value that fits no message: nothing is demanded (stated hypothesis `Fits`)
  else if status ≠ "ok" then some s!"the read was not answered completely: {status}"
  else if cs.isEmpty then some "no message"
  else
    match cs.find? (fun c => !c.wf) with
    | some c => some s!"a message of {c.size} bytes is not well-formed on its own"
    | none =>
    match cs.find? (fun c => decide (c.size > h.cap)) with
    | some c => some s!"a message of {c.size} bytes exceeds the maximum of {h.cap}"
    | none =>
      let front := cs.dropLast
      let last := cs.getLast?
      if front.any (fun c => !c.more) then some "a message before the last one ends the interaction (MoreChunks clear)"
      else if front.any (fun c => c.suppress) then some "SuppressResponse on a message that is not the last"
      else if (last.map (·.more)).getD true then some "the last message announces more chunks"
      else
        match reassemble (cs.flatMap (·.pieces)) [] with
        | none => some "the reports do not reassemble (element without list start, damaged value or unknown report)"
        | some got =>
          if got = items.map gotOfReq then none
          else some s!"the reassembled answer differs from the requested values ({got.length} items for {items.length} requested)"

structure St where
  h : Hdr := {}

def step (st : St) (line : String) : St × String :=
  let (op, out) := splitArrow line
  match words op with
  | "case" :: _ :: _ :: b :: ks :: kw :: ke :: ki :: _ =>
    match b.toNat?, ks.toNat?, kw.toNat?, ke.toNat?, ki.toNat? with
    | some b, some ks, some kw, some ke, some ki => ({ h := { cap := b, ks := ks, kw := kw, ke := ke, ki := ki } }, "case")
    | _, _, _, _, _ => (st, "BAD case header (calibration failed?)")
  | "rd" :: ws =>
    let parsed := ws.map parseItem
    if !parsed.all Option.isSome then (st, "BAD item") else
    let items := parsed.filterMap id
    let secs := (out.splitOn " | ").map (fun s => s.trimAscii.toString)
    let status := secs.getD 0 ""
    let ctext := secs.getD 1 "-"
    let ichunks := if ctext = "-" then [] else (ctext.splitOn ";").map parseIChunk
    if !ichunks.all Option.isSome then (st, "BAD chunk") else
    let cs := ichunks.filterMap id
    match oracle st.h items status cs with
    | some why => (st, s!"ORA {why}")
    | none =>
      match chunks (cfgOf st.h) (items.map (toItem st.h)) with
      | .ok ms =>
        let mtext := ";".intercalate (ms.map rChunk)
        let itext := ";".intercalate (cs.map rIChunk)
        if status = "ok" && mtext = itext then (st, "ok") else (st, s!"DIS ok | {mtext}")
      | .error .loops => if status = "toomany" then (st, "ok") else (st, "DIS loops")
      | .error .noSpace => if status = "hang" then (st, "ok") else (st, "DIS nospace")
  | _ => (st, "BAD op")

def run : IO UInt32 := Driver.runLoop ({} : St) step

end Driver.C14
