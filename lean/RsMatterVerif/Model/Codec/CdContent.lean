import RsMatterVerif.Model.Tlv
/-!
# Model of `attest/cd.rs`: `CertificationElements::decode` (the TLV content of a certification declaration)
# and `CertificationElements::validate` (the content against the device identity)

Transliterated over the TLV reader model of `Model/Tlv.lean` (`structure()`, `find_ctx`, `u8/u16/u32`, `utf8`,
`str`, `array`, `iter`): the order of the lookups is the order in which the Rust code evaluates them (format
version, product ids, certificate id, DAC origin pair, authorized PAA list, then the fields of the struct literal),
so the error code of a content with several defects is the implementation's. `verify` (signature check against
the CSA trust store) is not modelled.
-/
namespace Codec.Cd
open Tlv

/-- `ErrorCode`s that `decode` / `validate` can answer, and "the Rust code would panic" -/
inductive CdErr
  | tlv (e : Tlv.Err)
  | format        -- CdInvalidFormat
  | vendor        -- CdInvalidVendorId
  | product       -- CdInvalidProductId
  | paa           -- CdInvalidPaa
  | panic (k : Tlv.PanicKind)
deriving DecidableEq, Repr, Inhabited

def CdErr.name : CdErr → String
  | .tlv .mismatch => "TLVTypeMismatch"
  | .tlv .invalidData => "InvalidData"
  | .tlv .invalid => "Invalid"
  | .tlv .notFound => "NotFound"
  | .tlv .depth => "depth"
  | .format => "CdInvalidFormat"
  | .vendor => "CdInvalidVendorId"
  | .product => "CdInvalidProductId"
  | .paa => "CdInvalidPaa"
  | .panic _ => "panic"

/-- `?` on a TLV reader call -/
def ofRes {α : Type} : Tlv.Res α → Except CdErr α
  | .ok a => .ok a
  | .err e => .error (.tlv e)
  | .panic k => .error (.panic k)

def MAX_PRODUCT_IDS : Nat := 100
def CERTIFICATE_ID_LEN : Nat := 19
def MAX_AUTHORIZED_PAA_LIST : Nat := 10
def KEY_IDENTIFIER_LEN : Nat := 20

/-- `CertificationElements` (arrays with their count as lists) -/
structure Elements where
  formatVersion : Nat
  vendorId : Nat
  productIds : List Nat
  deviceTypeId : Nat
  certificateId : Bytes
  securityLevel : Nat
  securityInformation : Nat
  versionNumber : Nat
  certificationType : Nat
  dacOrigin : Option (Nat × Nat)
  authorizedPaa : List Bytes
deriving DecidableEq, Repr

/-- the `for pid_elem in pid_seq.iter()` loop of `parse_product_ids`; `acc` in reverse, `acc.length` = `count` -/
def pidLoop : List (Tlv.Res Bytes) → List Nat → Except CdErr (List Nat)
  | [], acc => .ok acc.reverse
  | r :: rest, acc =>
    match ofRes r with
    | .error e => .error e
    | .ok e =>
      if acc.length ≥ MAX_PRODUCT_IDS then .error .format
      else
        match ofRes (Tlv.u16 e) with
        | .error e => .error e
        | .ok v => pidLoop rest (v :: acc)

/-- `parse_product_ids` -/
def parseProductIds (s : Bytes) : Except CdErr (List Nat) := do
  let arrE ← ofRes (findCtx s 2)
  let seq ← ofRes (arrayOf arrE)
  let pids ← pidLoop (elements seq) []
  if pids.length = 0 then .error .format else pure pids

/-- `parse_certificate_id` -/
def parseCertificateId (s : Bytes) : Except CdErr Bytes := do
  let e ← ofRes (findCtx s 4)
  let str ← ofRes (utf8Of e)
  if str.length ≠ CERTIFICATE_ID_LEN then .error .format else pure str

/-- `parse_dac_origin` -/
def parseDacOrigin (s : Bytes) : Except CdErr (Option (Nat × Nat)) := do
  let vidE ← ofRes (findCtx s 9)
  let pidE ← ofRes (findCtx s 10)
  if vidE.isEmpty ≠ pidE.isEmpty then .error .format
  else if !vidE.isEmpty then do
    let v ← ofRes (Tlv.u16 vidE)
    let p ← ofRes (Tlv.u16 pidE)
    pure (some (v, p))
  else pure none

/-- the `for paa_entry in paa_seq.iter()` loop of `parse_authorized_paa_list` -/
def paaLoop : List (Tlv.Res Bytes) → List Bytes → Except CdErr (List Bytes)
  | [], acc => .ok acc.reverse
  | r :: rest, acc =>
    match ofRes r with
    | .error e => .error e
    | .ok e =>
      if acc.length ≥ MAX_AUTHORIZED_PAA_LIST then .error .format
      else
        match ofRes (strOf e) with
        | .error e => .error e
        | .ok b => if b.length ≠ KEY_IDENTIFIER_LEN then .error .format else paaLoop rest (b :: acc)

/-- `parse_authorized_paa_list` -/
def parseAuthorizedPaa (s : Bytes) : Except CdErr (List Bytes) := do
  let e ← ofRes (findCtx s 11)
  if !e.isEmpty then do
    let seq ← ofRes (arrayOf e)
    paaLoop (elements seq) []
  else pure []

/-- `find_ctx(tag)?.uN()?` -/
def uintAt (rd : Bytes → Tlv.Res Nat) (s : Bytes) (tag : Nat) : Except CdErr Nat := do
  let e ← ofRes (findCtx s tag)
  ofRes (rd e)

/-- `CertificationElements::decode(cd_content)` -/
def decode (content : Bytes) : Except CdErr Elements := do
  let s ← ofRes (structOf content)
  let fv ← uintAt Tlv.u16 s 0
  if fv ≠ 1 then .error .format else do
    let pids ← parseProductIds s
    let cid ← parseCertificateId s
    let dac ← parseDacOrigin s
    let paa ← parseAuthorizedPaa s
    let vid ← uintAt Tlv.u16 s 1
    let dt ← uintAt Tlv.u32 s 3
    let sl ← uintAt Tlv.u8 s 5
    let si ← uintAt Tlv.u16 s 6
    let vn ← uintAt Tlv.u16 s 7
    let ct ← uintAt Tlv.u8 s 8
    if ct > 2 then .error .format       -- `CertificationType::from_u8`
    else pure { formatVersion := fv, vendorId := vid, productIds := pids, deviceTypeId := dt, certificateId := cid,
                securityLevel := sl, securityInformation := si, versionNumber := vn, certificationType := ct,
                dacOrigin := dac, authorizedPaa := paa }

/-- `DeviceInfoForAttestation` -/
structure DeviceInfo where
  vendorId : Nat
  productId : Nat
  dacVendorId : Nat
  dacProductId : Nat
  paiVendorId : Nat
  paiProductId : Nat
  paaSkid : Bytes
deriving DecidableEq, Repr

/-- `CertificationElements::validate(device_info)` -/
def validate (c : Elements) (d : DeviceInfo) : Except CdErr Unit :=
  if c.formatVersion ≠ 1 then .error .format
  else if c.vendorId ≠ d.vendorId then .error .vendor
  else if !c.productIds.contains d.productId then .error .product
  else
    let chain : Except CdErr Unit :=
      match c.dacOrigin with
      | some (ovid, opid) =>
        if d.dacVendorId ≠ ovid then .error .vendor
        else if d.paiVendorId ≠ ovid then .error .vendor
        else if d.dacProductId ≠ opid then .error .product
        else if d.paiProductId ≠ 0 ∧ d.paiProductId ≠ opid then .error .product
        else .ok ()
      | none =>
        if d.dacVendorId ≠ c.vendorId then .error .vendor
        else if d.paiVendorId ≠ c.vendorId then .error .vendor
        else if !c.productIds.contains d.dacProductId then .error .product
        else if d.paiProductId ≠ 0 ∧ !c.productIds.contains d.paiProductId then .error .product
        else .ok ()
    match chain with
    | .error e => .error e
    | .ok _ =>
      if c.authorizedPaa.length > 0 ∧ !c.authorizedPaa.contains d.paaSkid then .error .paa
      else .ok ()

/-! ## specification of `validate`, written from the rule list of the Matter specification quoted in its doc comment -/

def validSpec (c : Elements) (d : DeviceInfo) : Prop :=
  c.formatVersion = 1 ∧
  c.vendorId = d.vendorId ∧
  d.productId ∈ c.productIds ∧
  (match c.dacOrigin with
    | some (ovid, opid) =>
      d.dacVendorId = ovid ∧ d.paiVendorId = ovid ∧ d.dacProductId = opid ∧ (d.paiProductId = 0 ∨ d.paiProductId = opid)
    | none =>
      d.dacVendorId = c.vendorId ∧ d.paiVendorId = c.vendorId ∧ d.dacProductId ∈ c.productIds ∧
        (d.paiProductId = 0 ∨ d.paiProductId ∈ c.productIds)) ∧
  (c.authorizedPaa = [] ∨ d.paaSkid ∈ c.authorizedPaa)

/-! ## model-side encoder: the layout of Matter 6.3.1, written with the TLV writer model -/

def uintLeaf (tag n : Nat) : Value := .leaf (.ctx tag) (Prim.mkUint n)

def pidValues (pids : List Nat) : List Value := pids.map fun p => .leaf .anon (Prim.mkUint p)

def paaValues (paa : List Bytes) : List Value := paa.map fun k => .leaf .anon (Prim.mkStr k)

/-- tags 9 / 10 (together) and tag 11, each only when present -/
def optFields (c : Elements) : List Value :=
  (match c.dacOrigin with
    | some (v, p) => [uintLeaf 9 v, uintLeaf 10 p]
    | none => []) ++
  (if c.authorizedPaa = [] then [] else [.cont (.ctx 11) .array (Values.ofList (paaValues c.authorizedPaa))])

def fieldList (c : Elements) : List Value :=
  [uintLeaf 0 c.formatVersion, uintLeaf 1 c.vendorId,
   .cont (.ctx 2) .array (Values.ofList (pidValues c.productIds)),
   uintLeaf 3 c.deviceTypeId, .leaf (.ctx 4) (Prim.mkUtf8 c.certificateId),
   uintLeaf 5 c.securityLevel, uintLeaf 6 c.securityInformation, uintLeaf 7 c.versionNumber,
   uintLeaf 8 c.certificationType] ++ optFields c

def toValue (c : Elements) : Value := .cont .anon .struct (Values.ofList (fieldList c))

def encodeElements (c : Elements) : Bytes := encode (toValue c)

/-- the value ranges of the Rust field types and the constraints `decode` enforces -/
def Elements.Legal (c : Elements) : Prop :=
  c.formatVersion = 1 ∧ c.vendorId < 2 ^ 16 ∧
  1 ≤ c.productIds.length ∧ c.productIds.length ≤ MAX_PRODUCT_IDS ∧ (∀ p ∈ c.productIds, p < 2 ^ 16) ∧
  c.deviceTypeId < 2 ^ 32 ∧ c.certificateId.length = CERTIFICATE_ID_LEN ∧ validUtf8 c.certificateId = true ∧
  c.securityLevel < 2 ^ 8 ∧ c.securityInformation < 2 ^ 16 ∧ c.versionNumber < 2 ^ 16 ∧ c.certificationType ≤ 2 ∧
  (∀ x, c.dacOrigin = some x → x.1 < 2 ^ 16 ∧ x.2 < 2 ^ 16) ∧
  c.authorizedPaa.length ≤ MAX_AUTHORIZED_PAA_LIST ∧ (∀ k ∈ c.authorizedPaa, k.length = KEY_IDENTIFIER_LEN)

end Codec.Cd
