/-! # C09 — property theorems (not built yet) -/
