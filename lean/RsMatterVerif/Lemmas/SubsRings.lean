import RsMatterVerif.Model.SubsRings
import RsMatterVerif.Lemmas.ChunkEvents
import RsMatterVerif.Lemmas.SubsEvents
/-!
# C13, events: the reader's running watermark skips nothing that is retained

* `readEvents_of_increasing` — over ANY list of events whose numbers increase, the running-watermark
  reader writes exactly the selected events of the range, in list order.
* `iter_numbers_increasing` — after any history of pushes (any priority / length, failed pushes, resets) the
  code's iteration order critical ++ info ++ debug has strictly increasing event numbers (from
  `Chunk.Queue.run_ok`).
* `reader_skips_nothing_retained` — hence the report of a live context carries exactly the retained selected
  events above the subscription's committed watermark up to the snapshot, in increasing order (`OwedReport`).
* `newest_first_not_increasing`, `newest_first_loses_retained_events` — the same statements are FALSE for the
  iteration order debug → info → critical (seeded change C13-c): 12 info events into 256-byte rings.
* `rings_number_like_evq` — the numbering of the ring model is the numbering model `EvQ` of the event theorems.
-/
namespace Subs
open Chunk

theorem readEvents_of_increasing (sel : QEv → Bool) (next : Nat) :
    ∀ (l : List QEv) (cur : Nat), (l.map (·.num)).Pairwise (· < ·) →
      readEvents sel next cur l =
        (l.filter fun e => decide (cur < e.num) && decide (e.num ≤ next) && sel e).map (·.num) := by
  intro l
  induction l with
  | nil => intro cur _; rfl
  | cons e es ih =>
    intro cur hp
    simp only [List.map_cons, List.pairwise_cons, List.mem_map, forall_exists_index, and_imp,
      forall_apply_eq_imp_iff₂] at hp
    obtain ⟨hlt, hes⟩ := hp
    unfold readEvents
    by_cases hin : cur < e.num ∧ e.num ≤ next
    · rw [if_pos hin, ih e.num hes]
      have hcongr : (es.filter fun x => decide (e.num < x.num) && decide (x.num ≤ next) && sel x) =
          (es.filter fun x => decide (cur < x.num) && decide (x.num ≤ next) && sel x) := by
        apply List.filter_congr
        intro x hx
        have h1 : e.num < x.num := hlt x hx
        have h2 : cur < x.num := by omega
        simp [h1, h2]
      rw [hcongr, List.filter_cons]
      by_cases hs : sel e = true
      · simp [hin.1, hin.2, hs]
      · have hs' : sel e = false := by simpa using hs
        simp [hs']
    · rw [if_neg hin, ih cur hes, List.filter_cons]
      have : (decide (cur < e.num) && decide (e.num ≤ next) && sel e) = false := by
        by_cases h1 : cur < e.num
        · have h2 : ¬ e.num ≤ next := fun h => hin ⟨h1, h⟩
          simp [h2]
        · simp [h1]
      rw [this]
      simp

/-- the queue after a history of operations from the empty queue with rings of `n` bytes -/
def Reached (n : Nat) (q : Queue) : Prop := ∃ ops, (Queue.new n).run ops = some q

/-- **the code's iteration order yields increasing event numbers** — for every ring size and every history of
pushes (any priority, any length, failing closures, events longer than a ring), resets and epoch loads, as long
as the 64-bit number has not wrapped -/
theorem iter_numbers_increasing {n : Nat} {q : Queue} (h : Reached n q) (hw : q.wrapped = false) :
    (q.iter.map (·.num)).Pairwise (· < ·) := by
  obtain ⟨ops, hr⟩ := h
  obtain ⟨q', h1, h2⟩ := Queue.run_ok ops (Queue.new n) (Queue.qinv_new n)
  rw [hr] at h1
  injection h1 with h1
  subst h1
  exact h2.asc hw

/-- no history panics: every history reaches a queue -/
theorem reached_total (n : Nat) (ops : List QOp) : ∃ q, (Queue.new n).run ops = some q :=
  let ⟨q, h, _⟩ := Queue.run_ok ops (Queue.new n) (Queue.qinv_new n)
  ⟨q, h⟩

theorem sublist_filter_map_pairwise {l : List QEv} (p : QEv → Bool)
    (h : (l.map (·.num)).Pairwise (· < ·)) : ((l.filter p).map (·.num)).Pairwise (· < ·) :=
  h.sublist ((List.filter_sublist).map _)

/-- **the running-watermark reader skips nothing that is retained**: over the queue reached by any history the
report of a subscription with committed watermark `seen` and snapshot `next` carries exactly the selected
events still in the rings with `seen < number ≤ next`, in increasing order. -/
theorem reader_skips_nothing_retained {n : Nat} {q : Queue} (h : Reached n q) (hw : q.wrapped = false)
    (sel : QEv → Bool) (seen next : Nat) :
    OwedReport sel seen next (q.crit ++ q.info ++ q.debug) (readEvents sel next seen q.iter) := by
  have hinc := iter_numbers_increasing h hw
  rw [readEvents_of_increasing sel next q.iter seen hinc]
  refine ⟨sublist_filter_map_pairwise _ hinc, ?_⟩
  intro m
  simp only [List.mem_map, List.mem_filter, Bool.and_eq_true, decide_eq_true_eq, Queue.iter]
  constructor
  · rintro ⟨e, ⟨he, ⟨h1, h2⟩, h3⟩, rfl⟩
    exact ⟨e, he, rfl, h3, h1, h2⟩
  · rintro ⟨e, he, rfl, h3, h1, h2⟩
    exact ⟨e, ⟨he, ⟨h1, h2⟩, h3⟩, rfl⟩

/-- for a live context of the table model -/
theorem report_carries_owed_events {n : Nat} {q : Queue} (h : Reached n q) (hw : q.wrapped = false)
    (c : Ctx) (sel : QEv → Bool) :
    OwedReport sel c.sub.seenEv c.nextEv (q.crit ++ q.info ++ q.debug) (c.reportEvents sel q) :=
  reader_skips_nothing_retained h hw sel c.sub.seenEv c.nextEv

/-! ## the seeded change: debug → info → critical -/

/-- twelve info events of 27 bytes into 256-byte rings (the burst of the demonstration) -/
def burst12 : List QOp := List.replicate 12 (QOp.push 1 27 none)

def afterBurst12 : Queue := ((Queue.new 256).run burst12).getD (Queue.new 256)

theorem afterBurst12_reached : Reached 256 afterBurst12 := ⟨burst12, by decide⟩

/-- the first three events have been promoted to the info ring, nothing is lost -/
theorem afterBurst12_rings :
    afterBurst12.info.map (·.num) = [1, 2, 3] ∧ afterBurst12.debug.map (·.num) = [4, 5, 6, 7, 8, 9, 10, 11, 12] ∧
    afterBurst12.crit = [] := by decide

/-- `iter_numbers_increasing` is false for the order debug → info → critical -/
theorem newest_first_not_increasing :
    ∃ (n : Nat) (q : Queue), Reached n q ∧ q.wrapped = false ∧
      ¬ ((iterNewestFirst q).map (·.num)).Pairwise (· < ·) := by
  refine ⟨256, afterBurst12, afterBurst12_reached, by decide, ?_⟩
  decide

/-- … and with it the reader loses retained events: a subscription that has seen nothing and whose report
snapshots the watermark 12 gets the events 4..12; the events 1, 2, 3 — still in the info ring — are skipped
(and, the report acknowledged, never reported: the watermark 12 is committed). -/
theorem newest_first_loses_retained_events :
    ∃ (n : Nat) (q : Queue), Reached n q ∧ q.wrapped = false ∧
      readEvents (fun _ => true) 12 0 (iterNewestFirst q) = [4, 5, 6, 7, 8, 9, 10, 11, 12] ∧
      readEvents (fun _ => true) 12 0 q.iter = [1, 2, 3, 4, 5, 6, 7, 8, 9, 10, 11, 12] ∧
      ¬ OwedReport (fun _ => true) 0 12 (q.crit ++ q.info ++ q.debug)
          (readEvents (fun _ => true) 12 0 (iterNewestFirst q)) := by
  refine ⟨256, afterBurst12, afterBurst12_reached, by decide, by decide, by decide, ?_⟩
  intro h
  have h1 : (1 : Nat) ∈ readEvents (fun _ => true) 12 0 (iterNewestFirst afterBurst12) := by
    rw [h.2 1]
    exact ⟨⟨1, 1, 27⟩, by decide, rfl, rfl, by omega, by omega⟩
  revert h1
  decide

/-! ## the ring model numbers its events like `EvQ` -/

/-- the numbering state of the ring model -/
def evqOf (q : Queue) : EvQ := { next := q.next }

/-- every `push` of the ring model (stored, rewound or `N = 0`) advances the numbering exactly as `EvQ.push`
does, and a successful one returns the number `EvQ.push` assigns -/
theorem rings_number_like_evq (q : Queue) (hq : Queue.QInv q) (hn : q.next ≤ Queue.u64Max) (prio len : Nat)
    (abort : Option Nat) :
    evqOf (q.push prio len abort).1 = (evqOf q).push.2 ∧
    ∀ num, (q.push prio len abort).2 = .ok num → num = (evqOf q).push.1 := by
  obtain ⟨q', res, h1, _, _, _, h5, _⟩ := Queue.push_ok q hq prio len abort
  constructor
  · rw [h1]
    show ({ next := q'.next } : EvQ) = { next := max ((q.next + 1) % U64) 1 }
    congr 1
    rw [h5]
    show (if q.next ≥ Queue.u64Max then 1 else q.next + 1) = _
    have hu : Queue.u64Max = 18446744073709551615 := rfl
    have hU : U64 = 18446744073709551616 := by decide
    by_cases hb : q.next ≥ Queue.u64Max
    · rw [if_pos hb, hU]; omega
    · rw [if_neg hb, hU]; omega
  · intro num hnum
    simp only [evqOf, EvQ.push]
    unfold Queue.push at hnum
    simp only at hnum
    split at hnum
    · cases hnum
    · cases hnum
    · split at hnum
      · cases hnum
      · split at hnum <;> (injection hnum with hnum; exact hnum.symm)

end Subs
