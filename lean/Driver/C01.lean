import Driver.Util
/-! Driver for C01: not built yet. -/
namespace Driver.C01

def run : IO UInt32 := do
  IO.eprintln "C01: driver not built yet"
  return 2

end Driver.C01
